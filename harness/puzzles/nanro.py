"""solve_nanro(height, width, blocks, num) -- Nanro (puzz.link `nanro`, Nikoli "Number road").

Rule text implemented by `rule_check` (puzz.link):
  1. The board is divided into regions.  Write numbers in some of the cells.
  2. All numbers written in one region are equal, and equal to the number of cells of that region that hold a number.
  3. Every region contains at least one number.
  4. Where two cells of DIFFERENT regions share an edge they may not hold the same number.
  5. All numbered cells form one orthogonally connected area.
  6. No 2 x 2 block of cells is entirely numbered.
  7. Given numbers stay.

Problem format of the module: `blocks` = list of regions, each a list of `(y, x)` cells, partitioning the board;
`num[y][x] > 0` is a given number, anything else (0, negative) means "no given".  Answer key: one IntVar per cell, row-major;
0 = no number.

READING: regions are normally orthogonally connected, but neither the rule text above nor the module needs it: a region is just
a set of cells.  Well-formed = the regions are non-empty and partition the board; connectivity of a region is NOT required
(gen_problem produces a non-connected region now and then).
READING: rule 5 on a board without numbered cells does not arise: every region holds a number (rule 3) and a well-formed
h x w board with h, w >= 1 has a region.  (The library's convention "no active vertex = connected" is never exercised.)

Fixed defect (fa1ef10): the module used to `import numpy` unconditionally (not a declared dependency, not installed here), so
`cspuz.puzzle.nanro` could not be imported although `solve_nanro` never uses numpy; the import is now guarded.
"""
import itertools

NAME = "nanro"
STATUS = "theorem"
THEOREMS = ["Cspuz.C11.Nanro.program_iff_rules", "Cspuz.C11.Nanro.total"]
LEAN_FILE = "C11_Nanro"
LEAN_CMD = "puz_nanro"

_SHAPES = [(1, 1), (1, 2), (2, 1), (1, 3), (3, 1), (1, 4), (4, 1), (1, 5), (5, 1), (2, 2), (2, 3), (3, 2), (2, 4), (4, 2), (3, 3),
           (3, 4), (4, 3)]
_DIRS = ((-1, 0), (1, 0), (0, -1), (0, 1))
_RAW_LIMIT = 6000


def _random_partition(rng, h, w):
    cells = [(y, x) for y in range(h) for x in range(w)]
    mode = rng.random()
    if mode < 0.08:
        lab = {c: 0 for c in cells}                               # one big region
    elif mode < 0.16:
        lab = {c: i for i, c in enumerate(cells)}                 # single-cell regions only
    else:
        lab = {c: i for i, c in enumerate(cells)}
        pairs = [((y, x), (y + 1, x)) for y in range(h - 1) for x in range(w)] + [((y, x), (y, x + 1)) for y in range(h) for x in range(w - 1)]
        rng.shuffle(pairs)
        k = rng.randint(0, len(pairs))
        p = rng.choice([0.5, 0.8, 1.0])
        for a, b in pairs[:k]:
            la, lb = lab[a], lab[b]
            if la != lb and rng.random() < p:
                for c in lab:
                    if lab[c] == lb:
                        lab[c] = la
        if rng.random() < 0.1 and len(cells) >= 3:                # rarely: a region that is not connected
            a, b = rng.sample(cells, 2)
            lab[a], lab[b] = lab[b], lab[a]
    groups = {}
    for c in cells:
        groups.setdefault(lab[c], []).append(list(c))
    blocks = list(groups.values())
    if rng.random() < 0.6:
        rng.shuffle(blocks)
    for b in blocks:
        if rng.random() < 0.3:
            rng.shuffle(b)
    return blocks


def gen_problem(rng, tier):
    h, w = rng.choice(_SHAPES)
    if h * w >= 12 and rng.random() < 0.5:
        h, w = rng.choice(_SHAPES[:-2])
    num = [[0] * w for _ in range(h)]
    for _ in range(8):     # small boards are mostly unsolvable: prefer partitions that admit an answer
        blocks = _random_partition(rng, h, w)
        pb = {"height": h, "width": w, "blocks": blocks, "num": num}
        sols = [a for a in answer_space(pb) if rule_check(pb, a)]
        if sols or rng.random() < 0.12:
            break
    size_of = {}
    for b in blocks:
        for y, x in b:
            size_of[(y, x)] = len(b)
    mode = rng.random()
    if mode < 0.15:
        pass                                                      # no givens
    elif mode < 0.65:
        if sols:
            a = rng.choice(sols)
            keep = rng.choice([0.1, 0.25, 0.5, 1.0])
            for y in range(h):
                for x in range(w):
                    if a[y * w + x] > 0 and rng.random() < keep:
                        num[y][x] = a[y * w + x]
            if rng.random() < 0.15:                               # one extra given, possibly contradicting
                y, x = rng.randrange(h), rng.randrange(w)
                num[y][x] = rng.randint(1, size_of[(y, x)] + 1)
    else:
        dens = rng.choice([0.1, 0.25, 0.5])
        corners = [(0, 0), (0, w - 1), (h - 1, 0), (h - 1, w - 1)]
        for y in range(h):
            for x in range(w):
                if rng.random() < dens or ((y, x) in corners and rng.random() < 0.3):
                    r = rng.random()
                    if r < 0.4 and sols:
                        num[y][x] = rng.choice(sols)[y * w + x]
                    elif r < 0.7:
                        num[y][x] = rng.randint(1, size_of[(y, x)])
                    elif r < 0.85:
                        num[y][x] = size_of[(y, x)] + rng.randint(1, 2)   # too large: unsatisfiable
                    else:
                        num[y][x] = rng.choice([-1, -2])                   # "no given" written as a negative number
    return pb


def extra_program_problems(rng):
    """Larger boards for the program correspondence only (nothing is enumerated there): one non-square medium board and two
    with more than 256 cells (a tall and a wide one); regions of varied shapes from the same random merging as on the small
    boards (so now and then one very large region), givens between 1 and the region's size (a few too large or negative)."""
    from . import _loop
    return [_gen_large(rng, h, w) for h, w in _loop.big_shapes(rng)]


def _gen_large(rng, h, w):
    blocks = _random_partition(rng, h, w)
    while len(blocks) in (1, h * w):                              # not the two degenerate partitions
        blocks = _random_partition(rng, h, w)
    num = [[0] * w for _ in range(h)]
    dens = rng.choice([0.05, 0.15, 0.3])
    corners = [(0, 0), (0, w - 1), (h - 1, 0), (h - 1, w - 1)]
    for b in blocks:
        v = rng.randint(1, len(b))                                # the number this region would hold
        for y, x in b:
            if rng.random() < dens or ((y, x) in corners and rng.random() < 0.5):
                r = rng.random()
                num[y][x] = v if r < 0.8 else len(b) + rng.randint(1, 2) if r < 0.9 else rng.choice([-1, -2])
    return {"height": h, "width": w, "blocks": blocks, "num": num}


def gen_malformed(rng):
    """Not used by harness/c11.py: instances outside the well-formed class, for the program correspondence of the
    exception behaviour (cells in no region -> `blocks[-1]` is used silently; overlapping regions; cells off the board;
    ragged `num`)."""
    pb = gen_problem(rng, "quick")
    h, w = pb["height"], pb["width"]
    k = rng.randrange(7)
    blocks = pb["blocks"]
    if k == 0 and blocks:
        b = rng.choice(blocks)
        b.pop(rng.randrange(len(b)))                              # a cell in no region (maybe an empty region)
    elif k == 1:
        rng.choice(blocks).append([rng.randrange(h), rng.randrange(w)])   # overlap
    elif k == 2:
        rng.choice(blocks).append([rng.choice([-1, -h, h, -h - 1]), rng.randrange(w)])
    elif k == 3:
        rng.choice(blocks).append([rng.randrange(h), rng.choice([-1, -w, w, -w - 1])])
    elif k == 4:
        pb["num"][rng.randrange(h)].pop()
    elif k == 5:
        pb["num"].pop()
    else:
        pb["blocks"] = []
    if rng.random() < 0.3:
        pb["blocks"].append([])
    return pb


def solve_args(problem):
    blocks = [[(y, x) for y, x in b] for b in problem["blocks"]]
    return (problem["height"], problem["width"], blocks, [list(r) for r in problem["num"]]), {}


def keys(problem, result):
    return [v for row in result[0] for v in row]


def answer_space(problem):
    """A superset of the rule-obeying grids.  Small raw spaces (product of (region size + 1) per cell, the solver's domain;
    a number larger than the region size can never equal a count of cells of the region) are enumerated in full, so wrong
    values are really exercised; otherwise every set of numbered cells with the values forced by rule 2 (and, as noise,
    the same grid with one region's value off by one)."""
    h, w = problem["height"], problem["width"]
    blocks = problem["blocks"]
    size_of = {}
    for b in blocks:
        for y, x in b:
            size_of[(y, x)] = len(b)
    doms = [range(size_of[(y, x)] + 1) for y in range(h) for x in range(w)]
    raw = 1
    for d in doms:
        raw *= len(d)
    if raw <= _RAW_LIMIT:
        for vals in itertools.product(*doms):
            yield list(vals)
        return
    for pat in itertools.product((False, True), repeat=h * w):
        g = [0] * (h * w)
        cnts = []
        for b in blocks:
            n = sum(1 for y, x in b if pat[y * w + x])
            cnts.append(n)
            for y, x in b:
                if pat[y * w + x]:
                    g[y * w + x] = n
        yield g
        k = sum(pat) % len(blocks)                                # noise: one region with a wrong value
        if cnts[k] > 0:
            g2 = list(g)
            for y, x in blocks[k]:
                if pat[y * w + x]:
                    g2[y * w + x] = cnts[k] + 1 if cnts[k] < len(blocks[k]) else cnts[k] - 1
            if g2 != g:
                yield g2


def rule_check(problem, answer):
    h, w = problem["height"], problem["width"]
    blocks, num = problem["blocks"], problem["num"]
    a = [answer[y * w:(y + 1) * w] for y in range(h)]
    # 7 givens
    for y in range(h):
        for x in range(w):
            if num[y][x] > 0 and a[y][x] != num[y][x]:
                return False
    # 2, 3
    region = {}
    for i, b in enumerate(blocks):
        written = [a[y][x] for y, x in b if a[y][x] != 0]
        if not written:
            return False
        if any(v != len(written) for v in written):
            return False
        for y, x in b:
            region[(y, x)] = i
    # 4
    for y in range(h):
        for x in range(w):
            for y2, x2 in ((y + 1, x), (y, x + 1)):
                if y2 < h and x2 < w and region[(y, x)] != region[(y2, x2)] and a[y][x] != 0 and a[y][x] == a[y2][x2]:
                    return False
    # 6
    for y in range(h - 1):
        for x in range(w - 1):
            if a[y][x] and a[y][x + 1] and a[y + 1][x] and a[y + 1][x + 1]:
                return False
    # 5
    cells = [(y, x) for y in range(h) for x in range(w) if a[y][x] != 0]
    if not cells:
        return True           # unreachable for a well-formed problem (rule 3)
    seen = {cells[0]}
    todo = [cells[0]]
    while todo:
        y, x = todo.pop()
        for dy, dx in _DIRS:
            p = (y + dy, x + dx)
            if 0 <= p[0] < h and 0 <= p[1] < w and a[p[0]][p[1]] != 0 and p not in seen:
                seen.add(p)
                todo.append(p)
    return len(seen) == len(cells)


def classify(problem, description):
    if "raised" in description:
        return "raises"
    return "mismatch"


def _table(t):
    return "(" + " ".join("(" + " ".join(str(v) for v in row) + ")" for row in t) + ")"


def lean_line(problem):
    blocks = "(" + " ".join("(" + " ".join("(%d %d)" % (y, x) for y, x in b) + ")" for b in problem["blocks"]) + ")"
    return "(puz_nanro %d %d %s %s)" % (problem["height"], problem["width"], blocks, _table(problem["num"]))
