"""solve_gokigen(height, width, problem) -- Gokigen Naname / Slant (puzz.link "gokigen").

Rule text implemented by `rule_check` (Nikoli "Gokigen Naname"):
  1. Draw one diagonal line in every cell of the height x width board (either "\\" or "/").
  2. A number at a lattice point (the clue grid is (height+1) x (width+1)) equals the number of diagonals that touch this point.
  3. The diagonals must not form a closed loop.

Problem format of the module: `problem[y][x]` for 0 <= y <= height, 0 <= x <= width; -1 = no clue, otherwise the number.
Answer key: `edge_type` (height x width, row-major); True = "\\" (joins lattice points (y,x) and (y+1,x+1)),
False = "/" (joins (y,x+1) and (y+1,x)).
"""
import itertools

NAME = "gokigen"
STATUS = "theorem"
THEOREMS = ["Cspuz.C11.Gokigen.program_iff_rules", "Cspuz.C11.Gokigen.total"]
LEAN_FILE = "C11_Gokigen"
LEAN_CMD = "puz_gokigen"

_SIZES = [(1, 1), (1, 2), (2, 1), (1, 3), (3, 1), (2, 2), (2, 3), (3, 2), (1, 4), (4, 1), (3, 3), (2, 4), (4, 2), (3, 4), (4, 3)]


def _ends(y, x, back):
    return ((y, x), (y + 1, x + 1)) if back else ((y, x + 1), (y + 1, x))


def _touch(h, w, grid):
    cnt = [[0] * (w + 1) for _ in range(h + 1)]
    for y in range(h):
        for x in range(w):
            for (py, px) in _ends(y, x, grid[y][x]):
                cnt[py][px] += 1
    return cnt


def gen_problem(rng, tier):
    h, w = rng.choice(_SIZES)
    return _gen(rng, h, w)


def extra_program_problems(rng):
    """Larger boards for the program correspondence only (nothing is enumerated there): one non-square medium board and two
    with more than 256 cells (a tall and a wide one), built like the small ones, never without clues."""
    from . import _loop
    return [_gen(rng, h, w, mode=rng.uniform(0.08, 1.0)) for h, w in _loop.big_shapes(rng)]


def _gen(rng, h, w, mode=None):
    if mode is None:
        mode = rng.random()
    grid = [[rng.random() < 0.5 for _ in range(w)] for _ in range(h)]
    if mode < 0.08:
        pb = [[-1] * (w + 1) for _ in range(h + 1)]          # empty clue set
    else:
        cnt = _touch(h, w, grid)
        keep = rng.choice([0.15, 0.35, 0.6, 1.0])
        pb = [[cnt[y][x] if rng.random() < keep else -1 for x in range(w + 1)] for y in range(h + 1)]
        if mode < 0.35:                                        # perturb: arbitrary values 0..4 anywhere (corners/edges included)
            for _ in range(rng.randint(1, 2)):
                pb[rng.randrange(h + 1)][rng.randrange(w + 1)] = rng.randint(0, 4)
    return {"height": h, "width": w, "problem": pb}


def solve_args(problem):
    return (problem["height"], problem["width"], problem["problem"]), {}


def keys(problem, result):
    return list(result[0].data)


def answer_space(problem):
    n = problem["height"] * problem["width"]
    for vals in itertools.product((False, True), repeat=n):
        yield list(vals)


def rule_check(problem, answer):
    h, w, pb = problem["height"], problem["width"], problem["problem"]
    grid = [answer[y * w:(y + 1) * w] for y in range(h)]
    cnt = _touch(h, w, grid)
    for y in range(h + 1):
        for x in range(w + 1):
            if pb[y][x] >= 0 and cnt[y][x] != pb[y][x]:
                return False
    # no closed loop: add the diagonals one by one to a union-find over the lattice points
    parent = {(y, x): (y, x) for y in range(h + 1) for x in range(w + 1)}

    def find(p):
        while parent[p] != p:
            parent[p] = parent[parent[p]]
            p = parent[p]
        return p
    for y in range(h):
        for x in range(w):
            a, b = _ends(y, x, grid[y][x])
            ra, rb = find(a), find(b)
            if ra == rb:
                return False
            parent[ra] = rb
    return True


def lean_line(problem):
    rows = " ".join("(" + " ".join(str(v) for v in row) + ")" for row in problem["problem"])
    return "(puz_%s %d %d (%s))" % (NAME, problem["height"], problem["width"], rows)
