"""solve_nurikabe(height, width, problem, unknown_low=None).

Published rules (Nikoli / puzz.link "Nurikabe"): shade some cells black (the "sea") so that
  1. numbered cells are not shaded;
  2. every island (maximal orthogonally connected group of white cells) contains exactly one numbered cell,
     and the number is the island's size (a "?" clue, problem value -1, is a number of unknown size; with the
     solver option `unknown_low` its island has at least that many cells);
  3. all black cells are orthogonally connected;
  4. no 2x2 block of cells is entirely black.
Problem format: problem[y][x] >= 1 number, -1 "?", 0 (and anything else) no clue.  Answer: is_white[y][x] row-major.

READING: the published texts do not say whether a grid without any black cell is an answer (e.g. a 1x1 board with
the clue 1).  `solve_nurikabe` requires the sea to be non-empty (region 0 of `division_connected` must exist);
this reading is adopted here.
"""
import itertools

NAME = "nurikabe"
STATUS = "theorem"
THEOREMS = ["Cspuz.C11.Nurikabe.program_iff_rules", "Cspuz.C11.Nurikabe.total", "Cspuz.C11.Nurikabe.labels_iff_rules"]
LEAN_FILE = "C11_Nurikabe"
LEAN_CMD = "puz_nurikabe"

_SHAPES = [(1, 1), (1, 2), (1, 3), (1, 4), (1, 5), (2, 1), (3, 1), (4, 1), (5, 1), (2, 2), (2, 3), (3, 2), (2, 4), (4, 2),
           (3, 3), (2, 5), (5, 2), (3, 4), (4, 3), (2, 6), (6, 2)]


def gen_problem(rng, tier):
    h, w = rng.choice(_SHAPES)
    return _gen(rng, h, w)


def extra_program_problems(rng):
    """Larger boards for the program correspondence only (nothing is enumerated there): one non-square medium board and two
    with more than 256 cells (a tall and a wide one); the number of clues grows with the board."""
    from . import _loop
    return [_gen(rng, h, w, big=True) for h, w in _loop.big_shapes(rng)]


def _gen(rng, h, w, big=False):
    n = h * w
    pb = [[0] * w for _ in range(h)]
    mode = rng.random()
    if mode < 0.45:
        # derive the clues from a random shading (often a valid answer), then sometimes drop / perturb one
        p = rng.choice([0.3, 0.5])
        white = [[rng.random() < p for _ in range(w)] for _ in range(h)]
        for comp in _components(h, w, lambda y, x: white[y][x]):
            y, x = rng.choice(comp)
            pb[y][x] = -1 if rng.random() < 0.2 else len(comp)
        r = rng.random()
        if r < 0.15:
            y, x = rng.randrange(h), rng.randrange(w)
            pb[y][x] = rng.choice([0, 0, 1, 2, -1])
        out = {"height": h, "width": w, "problem": pb}
        if rng.random() < 0.3:
            out["unknown_low"] = rng.randint(0, 4)
        return out
    if mode < 0.5:
        k = 0
    else:
        k = rng.choice([1, 1, 2, 2, 2, 3, 3, 4])
    if big:
        k = rng.randint(n // 12, n // 6)
    cells = [(y, x) for y in range(h) for x in range(w)]
    rng.shuffle(cells)
    if rng.random() < 0.3:
        # favour corners / edge cells
        cells.sort(key=lambda c: -((c[0] in (0, h - 1)) + (c[1] in (0, w - 1))))
    for (y, x) in cells[:k]:
        r = rng.random()
        if r < 0.2:
            pb[y][x] = -1
        elif r < 0.9:
            pb[y][x] = rng.randint(1, max(1, min(n, 5)))
        else:
            pb[y][x] = rng.randint(1, n + 1)
    if rng.random() < 0.05 and n > 1:
        y, x = rng.choice(cells)
        pb[y][x] = -2  # not a clue for the module (only >= 1 and -1 are)
    out = {"height": h, "width": w, "problem": pb}
    if rng.random() < 0.3:
        out["unknown_low"] = rng.randint(0, 4)
    return out


def solve_args(problem):
    kw = {}
    if "unknown_low" in problem:
        kw["unknown_low"] = problem["unknown_low"]
    return (problem["height"], problem["width"], problem["problem"]), kw


def keys(problem, result):
    return list(result[0].data)


def answer_space(problem):
    h, w = problem["height"], problem["width"]
    for vals in itertools.product([False, True], repeat=h * w):
        yield list(vals)


def _components(h, w, member):
    seen = set()
    comps = []
    for y in range(h):
        for x in range(w):
            if (y, x) in seen or not member(y, x):
                continue
            comp = []
            stack = [(y, x)]
            seen.add((y, x))
            while stack:
                cy, cx = stack.pop()
                comp.append((cy, cx))
                for ny, nx in ((cy - 1, cx), (cy + 1, cx), (cy, cx - 1), (cy, cx + 1)):
                    if 0 <= ny < h and 0 <= nx < w and (ny, nx) not in seen and member(ny, nx):
                        seen.add((ny, nx))
                        stack.append((ny, nx))
            comps.append(comp)
    return comps


def rule_check(problem, answer):
    h, w = problem["height"], problem["width"]
    pb = problem["problem"]
    low = problem.get("unknown_low")
    white = [answer[y * w:(y + 1) * w] for y in range(h)]

    def is_clue(y, x):
        return pb[y][x] >= 1 or pb[y][x] == -1
    # 1. numbered cells are white
    for y in range(h):
        for x in range(w):
            if is_clue(y, x) and not white[y][x]:
                return False
    # 2. islands
    for comp in _components(h, w, lambda y, x: white[y][x]):
        clues = [pb[y][x] for (y, x) in comp if is_clue(y, x)]
        if len(clues) != 1:
            return False
        c = clues[0]
        if c >= 1 and c != len(comp):
            return False
        if c == -1 and low is not None and len(comp) < low:
            return False
    # 3. the sea is connected; READING: and non-empty
    sea = _components(h, w, lambda y, x: not white[y][x])
    if len(sea) != 1:
        return False
    # 4. no 2x2 black block
    for y in range(h - 1):
        for x in range(w - 1):
            if not (white[y][x] or white[y][x + 1] or white[y + 1][x] or white[y + 1][x + 1]):
                return False
    return True


def classify(problem, description):
    h, w = problem["height"], problem["width"]
    if "raised" in description:
        return "raises"
    return "line-board" if min(h, w) == 1 else "mismatch"


def _table(t):
    return "(" + " ".join("(" + " ".join(str(v) for v in row) + ")" for row in t) + ")"


def lean_line(problem):
    low = problem.get("unknown_low")
    return "(puz_nurikabe %d %d %s %s)" % (problem["height"], problem["width"], _table(problem["problem"]), "N" if low is None else low)
