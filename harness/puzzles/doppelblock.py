"""solve_doppelblock(n, clue_row, clue_column) — Doppelblock (puzz.link `doppelblock`).

Problem format of the module: `clue_row[y]` is the clue of row `y`, `clue_column[x]` the clue of column `x`; a negative value
(-1) means "no clue".  Answer: one integer per cell, row-major: 0 for a black cell, 1..n-2 for a number.

Published rules implemented by `rule_check` (written from the rule text, not from the solver):
 1. Blacken some cells and write a number 1..n-2 into every other cell, so that every row and every column contains exactly
    two black cells and each of the numbers 1..n-2 exactly once.
 2. A number outside the grid is the sum of the numbers between the two black cells of its row / column.
(A board needs n >= 2; `solve_doppelblock(n)` raises ValueError from `int_array(…, 0, n-2)` for n < 2.)
"""
import itertools

NAME = "doppelblock"
STATUS = "theorem"
THEOREMS = ["Cspuz.C11.Doppelblock.program_iff_rules", "Cspuz.C11.Doppelblock.total"]
LEAN_FILE = "C11_Doppelblock"
LEAN_CMD = "puz_doppelblock"


def _between(seq):
    z = [i for i, v in enumerate(seq) if v == 0]
    return sum(seq[z[0] + 1:z[1]])


def _row_perms(n):
    return sorted(set(itertools.permutations([0, 0] + list(range(1, n - 1)))))


def _random_grid(rng, n):
    perms = _row_perms(n)
    for _ in range(300):
        rows = []
        ok = True
        for y in range(n):
            cand = []
            for p in perms:
                good = True
                for x in range(n):
                    colv = [r[x] for r in rows]
                    if p[x] == 0:
                        if colv.count(0) >= 2:
                            good = False
                    elif p[x] in colv:
                        good = False
                    # the column must still be completable
                    if good and colv.count(0) + (p[x] == 0) + (n - 1 - y) < 2:
                        good = False
                if good:
                    cand.append(p)
            if not cand:
                ok = False
                break
            rows.append(list(rng.choice(cand)))
        if ok:
            return rows
    return None


def gen_problem(rng, tier):
    n = rng.choice([2, 3, 3, 3, 4, 4, 4])
    g = _random_grid(rng, n)
    return _finish(rng, n, g)


def _big_grid(rng, n):
    """A rule-obeying grid of any order without enumeration: a permuted cyclic Latin square over 0..n-1 in which the symbols
    0 and 1 become black cells and symbol s >= 2 the number s - 1."""
    rows, cols, syms = list(range(n)), list(range(n)), list(range(n))
    rng.shuffle(rows)
    rng.shuffle(cols)
    rng.shuffle(syms)
    return [[max(syms[(rows[y] + cols[x]) % n] - 1, 0) for x in range(n)] for y in range(n)]


def extra_program_problems(rng):
    """Larger boards for the program correspondence only (nothing is enumerated there; the board is square by construction):
    n = 8, n = 17 and n = 16 (289 / 256 cells), sums read off a random rule-obeying grid, same clue modes as the small
    boards."""
    return [_finish(rng, n, _big_grid(rng, n), mode=rng.choice(["all", "some", "some", "noisy"])) for n in (8, 17, 16)]


def _finish(rng, n, g, mode=None):
    max_sum = (n - 2) * (n - 1) // 2
    if g is None:
        rows = [rng.randint(-1, max_sum) for _ in range(n)]
        cols = [rng.randint(-1, max_sum) for _ in range(n)]
        return {"n": n, "clue_row": rows, "clue_column": cols}
    rows = [_between(g[y]) for y in range(n)]
    cols = [_between([g[y][x] for y in range(n)]) for x in range(n)]
    if mode is None:
        mode = rng.choice(["none", "all", "some", "some", "noisy"])
    keep = {"none": 0.0, "all": 1.0, "some": 0.4, "noisy": 0.5}[mode]
    cr = [v if rng.random() < keep else -1 for v in rows]
    cc = [v if rng.random() < keep else -1 for v in cols]
    if mode == "noisy":
        if rng.random() < 0.5:
            cr[rng.randrange(n)] = rng.randint(0, max_sum + 1)
        else:
            cc[rng.randrange(n)] = rng.randint(0, max_sum + 1)
    return {"n": n, "clue_row": cr, "clue_column": cc}


def solve_args(problem):
    return (problem["n"], problem["clue_row"], problem["clue_column"]), {}


def keys(problem, result):
    return list(result[0].data)


def answer_space(problem):
    n = problem["n"]
    if n <= 3:
        for vals in itertools.product(range(0, n - 1), repeat=n * n):
            yield list(vals)
        return
    # n = 4: 3^16 grids are out of reach; enumerate the grids whose ROWS obey rule 1 (a superset of the rule-obeying grids);
    # the column part of rule 1 and rule 2 are still checked on every one of them
    perms = _row_perms(n)
    for combo in itertools.product(perms, repeat=n):
        yield [v for r in combo for v in r]


def rule_check(problem, answer):
    n = problem["n"]
    g = [answer[y * n:(y + 1) * n] for y in range(n)]
    lines = [(g[y], problem["clue_row"][y]) for y in range(n)] + [([g[y][x] for y in range(n)], problem["clue_column"][x]) for x in range(n)]
    want = sorted([0, 0] + list(range(1, n - 1)))
    for seq, clue in lines:
        if sorted(seq) != want:
            return False
        if clue >= 0 and _between(seq) != clue:
            return False
    return True


def lean_line(problem):
    def lst(v):
        return "(" + " ".join(str(t) for t in v) + ")"
    return "(puz_doppelblock %d %s %s)" % (problem["n"], lst(problem["clue_row"]), lst(problem["clue_column"]))
