"""solve_nurimisaki(height, width, problem) -- Nurimisaki (puzz.link "nurimisaki").

Rule text implemented by `rule_check` (puzz.link):
  1. Shade some cells. All unshaded cells form one orthogonally connected area.
  2. A "cape" is an unshaded cell with exactly one unshaded orthogonal neighbour. Every cell with a circle is a cape (in
     particular unshaded), and every cape carries a circle (an unshaded cell without a circle is not a cape).
  3. A number in a circle is the number of unshaded cells in the straight line that starts at the cape (the cape itself
     included) and runs through its only unshaded neighbour until a shaded cell or the border stops it.
  4. No 2 x 2 block of cells is entirely shaded, and none is entirely unshaded.

Problem format of the module: `problem[y][x]` = -1 (no circle), 0 (circle without number), n >= 1 (circle with number n).
Answer key: `is_white` (height x width, row-major); True = unshaded.

READING: a grid without any unshaded cell satisfies "connected" (library convention; only possible on boards without a 2 x 2
block and without circles).
READING: the number 1 is not a legal Nurimisaki clue (a cape's line always has length >= 2; the puzz.link editor's smallest
number is 2).  `solve_nurimisaki` treats a circled 1 as "cape with a shaded cell or the border next to it in some direction",
i.e. like a circle without number, where rule 3 as written admits no solution.  Instances with a clue 1 are not generated
(they are outside the well-formed inputs); `rule_check` implements rule 3 as written.
"""
import itertools

NAME = "nurimisaki"
STATUS = "theorem"
THEOREMS = ["Cspuz.C11.Nurimisaki.program_iff_rules", "Cspuz.C11.Nurimisaki.total"]
LEAN_FILE = "C11_Nurimisaki"
LEAN_CMD = "puz_nurimisaki"

_SIZES = [(1, 1), (1, 2), (2, 1), (1, 3), (3, 1), (2, 2), (2, 3), (3, 2), (1, 4), (4, 1), (3, 3), (2, 4), (4, 2), (3, 4), (4, 3)]
_DIRS = ((-1, 0), (1, 0), (0, -1), (0, 1))


def _white_nbrs(h, w, white, y, x):
    return [(dy, dx) for dy, dx in _DIRS if 0 <= y + dy < h and 0 <= x + dx < w and white[y + dy][x + dx]]


def _line(h, w, white, y, x, d):
    n = 0
    while 0 <= y < h and 0 <= x < w and white[y][x]:
        n += 1
        y += d[0]
        x += d[1]
    return n


def gen_problem(rng, tier):
    h, w = rng.choice(_SIZES)
    return _gen(rng, h, w)


def extra_program_problems(rng):
    """Larger boards for the program correspondence only (nothing is enumerated there): one non-square medium board and two
    with more than 256 cells (a tall and a wide one), built like the small ones, never without clues."""
    from . import _loop
    return [_gen(rng, h, w, mode=rng.uniform(0.08, 1.0)) for h, w in _loop.big_shapes(rng)]


def _gen(rng, h, w, mode=None):
    if mode is None:
        mode = rng.random()
    pb = [[-1] * w for _ in range(h)]
    if mode < 0.08:
        return {"height": h, "width": w, "problem": pb}       # empty clue set
    white = [[rng.random() < rng.choice([0.45, 0.6, 0.75]) for _ in range(w)] for _ in range(h)]
    keep = rng.choice([0.5, 0.8, 1.0])
    for y in range(h):
        for x in range(w):
            if white[y][x]:
                nb = _white_nbrs(h, w, white, y, x)
                if len(nb) == 1 and rng.random() < keep:
                    pb[y][x] = _line(h, w, white, y, x, nb[0]) if rng.random() < 0.6 else 0
    if mode < 0.4:                                             # perturb: a circle anywhere (corners/edges included)
        for _ in range(rng.randint(1, 2)):
            v = rng.choice([0, 0, 2, 2, 3, 3, 4, 5])
            pb[rng.randrange(h)][rng.randrange(w)] = v
    return {"height": h, "width": w, "problem": pb}


def solve_args(problem):
    return (problem["height"], problem["width"], problem["problem"]), {}


def keys(problem, result):
    return list(result[0].data)


def answer_space(problem):
    n = problem["height"] * problem["width"]
    for vals in itertools.product((False, True), repeat=n):
        yield list(vals)


def rule_check(problem, answer):
    h, w, pb = problem["height"], problem["width"], problem["problem"]
    white = [answer[y * w:(y + 1) * w] for y in range(h)]
    # rule 4
    for y in range(h - 1):
        for x in range(w - 1):
            block = [white[y][x], white[y + 1][x], white[y][x + 1], white[y + 1][x + 1]]
            if all(block) or not any(block):
                return False
    # rules 2, 3
    for y in range(h):
        for x in range(w):
            nb = _white_nbrs(h, w, white, y, x)
            cape = white[y][x] and len(nb) == 1
            if pb[y][x] == -1:
                if cape:
                    return False
            else:
                if not cape:
                    return False
                if pb[y][x] != 0 and _line(h, w, white, y, x, nb[0]) != pb[y][x]:
                    return False
    # rule 1
    cells = [(y, x) for y in range(h) for x in range(w) if white[y][x]]
    if not cells:
        return True          # READING
    seen = {cells[0]}
    todo = [cells[0]]
    while todo:
        y, x = todo.pop()
        for dy, dx in _DIRS:
            p = (y + dy, x + dx)
            if 0 <= p[0] < h and 0 <= p[1] < w and white[p[0]][p[1]] and p not in seen:
                seen.add(p)
                todo.append(p)
    return len(seen) == len(cells)


def lean_line(problem):
    rows = " ".join("(" + " ".join(str(v) for v in row) + ")" for row in problem["problem"])
    return "(puz_%s %d %d (%s))" % (NAME, problem["height"], problem["width"], rows)
