"""solve_slalom(height, width, origin, is_black, gates, reference_sol_loop=None)   (Suraromu / Slalom).

Published rules (Nikoli "Suraromu", puzz.link "Slalom"):
  1. Draw a single closed loop through the centres of cells, moving horizontally or vertically; the loop never
     branches, never crosses itself and never visits a cell twice.
  2. The loop never enters a black cell.
  3. The loop passes through the circle (start / goal cell, `origin`).
  4. The dotted lines are gates.  The loop passes through every gate exactly once, crossing it at a right angle (it
     enters the gate cell from one side of the dotted line and leaves it on the other side; it cannot run along a gate).
  5. Starting at the circle and following the loop in one of its two directions (the solver's choice), the numbered
     gates are passed in the order of their numbers: the gate numbered n is the n-th gate passed (unnumbered gates
     count as well; the number in the circle is the total number of gates).

Problem format of the module: `origin = (y, x)`; `is_black[y][x]` bool; `gates` = list of `(y, x, d, l, n)`: `(y, x)` the
top / left cell, `d = 0` a horizontal run `(y, x + i)`, `d = 1` a vertical run `(y + i, x)`, `0 <= i < l`, `n = -1`
unnumbered, otherwise the gate's number.  WELL-FORMED instances (what the module's own `instantiate_problem` builds):
every gate lies on the board, has length >= 1, consists of non-black cells and is closed at both ends by a black cell or
the border of the board; gates are pairwise disjoint; the origin is neither black nor on a gate; `n = -1` or
`1 <= n <= len(gates)`.  Answer: the segments of the loop, first the horizontal ones (y, x)-(y, x+1) row-major
[height x (width-1)], then the vertical ones (y, x)-(y+1, x) row-major [(height-1) x width]  (`loop.all_edges()` =
horizontal array then vertical array).  Only the default path `reference_sol_loop=None` is modelled and tested (with a
reference solution the module adds "differs from the reference loop" and calls `find_answer`; generator use only).

The checker below traces the loop explicitly from the circle in each of its two directions, lists the gates in the order
in which they are crossed and compares the numbers with the positions.  It never looks at the module's encoding
(direction bit per segment, in-/out-degree, running gate counter).

READING (instances that `instantiate_problem` never builds; `gen_problem` produces the first two kinds at a low rate):
  * a number n > len(gates) can never be the position of a gate: no solution (module: `gate_ord` ranges over
    0..len(gates), so the same);
  * READING: n = 0 (or any n < 1 other than -1) is not a number a gate can carry; the module treats it as "unnumbered"
    (`gate_id >= 1`); the checker follows that;
  * gates whose ends are NOT closed (`kind = "open"`, produced only by `gen_problem(..., open_ends=True)`, never by the
    default generator): the module never states the right-angle rule, it only demands exactly one loop cell per gate;
    that implies the right-angle rule only when both ends are closed (Lean: `Cspuz.Proofs.C11SlalomA.perp`).  With an
    open end the module admits loops that leave the gate cell through the open end (running along the dotted line),
    which rule 4 forbids: on 500 instances generated in that mode (seeds 0, 1; 312 of them with an open end) the module
    disagreed with this checker on 212 and agreed on ALL 500 with the weaker reading "exactly one cell of the gate is on
    the loop".  Not a defect of the solver on well-formed input.
  * the empty loop (library convention "no line is a loop") is impossible here: the circle must be on the loop.

The Lean theorem (Properties/C11_Slalom.lean) proves, for every well-formed instance, that the posted program (model
`Cspuz.Puzzles.Slalom.program`, tied to the real module by the program correspondence) encodes
Spec/PuzzleRules/Slalom.lean::Rules - the same five rules, stated with a round trip (list of the cells of the loop from
the circle onwards).
"""
from . import _loop

NAME = "slalom"
STATUS = "theorem"
THEOREMS = ["Cspuz.C11.Slalom.program_iff_rules", "Cspuz.C11.Slalom.total"]
LEAN_FILE = "C11_Slalom"
LEAN_CMD = "puz_slalom"

_SHAPES = [(1, 1), (1, 3), (3, 1), (2, 2), (2, 3), (3, 2), (3, 3), (3, 3), (3, 3), (2, 4), (4, 2), (3, 4), (4, 3), (3, 4), (4, 3),
           (3, 4), (4, 3), (4, 4), (4, 4), (3, 5), (5, 3), (3, 5), (5, 3), (4, 5), (5, 4)]


def _gate_cells(g):
    y, x, d, l, _ = g
    return [(y, x + i) for i in range(l)] if d == 0 else [(y + i, x) for i in range(l)]


def _gate_ends(g):
    y, x, d, l, _ = g
    return [(y, x - 1), (y, x + l)] if d == 0 else [(y - 1, x), (y + l, x)]


def _across(g, c):
    """The two cells on either side of the dotted line at gate cell `c`."""
    y, x = c
    return {(y - 1, x), (y + 1, x)} if g[2] == 0 else {(y, x - 1), (y, x + 1)}


def well_formed(pb):
    h, w = pb["height"], pb["width"]
    blk = pb["is_black"]
    used = set()
    for g in pb["gates"]:
        y, x, d, l, n = g
        if d not in (0, 1) or l < 1:
            return False
        if not (n == -1 or 1 <= n <= len(pb["gates"])):
            return False
        for (cy, cx) in _gate_cells(g):
            if not (0 <= cy < h and 0 <= cx < w) or blk[cy][cx] or (cy, cx) in used:
                return False
            used.add((cy, cx))
        for (ey, ex) in _gate_ends(g):
            if 0 <= ey < h and 0 <= ex < w and not blk[ey][ex]:
                return False
    oy, ox = pb["origin"]
    if not (0 <= oy < h and 0 <= ox < w) or blk[oy][ox] or (oy, ox) in used:
        return False
    return True


def _walks(adj, origin):
    """The two cyclic walks from `origin` along the line (lists of cells, origin first), or None if the walk does not
    come back to the origin without repeating a cell."""
    out = []
    for first in adj[origin]:
        seq = [origin]
        prev, cur = origin, first
        seen = {origin}
        while cur != origin:
            if cur in seen or len(adj[cur]) != 2:
                return None
            seen.add(cur)
            seq.append(cur)
            a, b = adj[cur]
            prev, cur = cur, (b if a == prev else a)
        out.append(seq)
    return out


def _runs(h, w, blk):
    """Maximal straight runs of non-black cells: the candidate gates (y, x, d, l)."""
    runs = []
    for y in range(h):
        x = 0
        while x < w:
            if blk[y][x]:
                x += 1
                continue
            x0 = x
            while x < w and not blk[y][x]:
                x += 1
            runs.append((y, x0, 0, x - x0))
    for x in range(w):
        y = 0
        while y < h:
            if blk[y][x]:
                y += 1
                continue
            y0 = y
            while y < h and not blk[y][x]:
                y += 1
            runs.append((y0, x, 1, y - y0))
    return runs


def _crossed_ok(g, seq):
    """Index in the cyclic walk `seq` at which gate `g` is crossed, if it is crossed exactly once and at a right angle."""
    cells = set(_gate_cells(g))
    hit = [i for i, c in enumerate(seq) if c in cells]
    if len(hit) != 1:
        return None
    i = hit[0]
    if {seq[i - 1], seq[(i + 1) % len(seq)]} != _across(g, seq[i]):
        return None
    return i


def _n_gate_spots(a, h, w):
    adj = _loop.neighbours_on_loop(_loop.active_edges(a, h, w))
    n = 0
    for (y, x), ((ay, ax), (by, bx)) in adj.items():
        if ay == by and (y - 1, x) not in adj and (y + 1, x) not in adj:
            n += 1
        if ax == bx and (y, x - 1) not in adj and (y, x + 1) not in adj:
            n += 1
    return n


def _build_gates(rng, h, w, seq, blk, k, open_ends):
    """Constructive mode: put up to `k` gates across cells where the walk `seq` goes straight, closing each end with a
    (new) black cell or the border so that the walk crosses every gate exactly once at a right angle.  With
    `open_ends` an end may also be left open (an ordinary white cell follows the gate)."""
    on = set(seq)
    reserved = set(on)
    n = len(seq)
    cand = []
    for i in range(1, n):
        (py, px), (cy, cx), (ny, nx) = seq[i - 1], seq[i], seq[(i + 1) % n]
        if py == ny:          # travelling horizontally through seq[i]: a vertical gate
            cand.append((seq[i], 1))
        elif px == nx:
            cand.append((seq[i], 0))
    rng.shuffle(cand)
    gates = []
    for (c, d) in cand:
        if len(gates) >= k:
            break
        if c in reserved - on:
            continue
        step = (0, 1) if d == 0 else (1, 0)
        ext = []
        fail = False
        newblack = []
        for sgn in (-1, 1):
            side = []
            y, x = c[0] + sgn * step[0], c[1] + sgn * step[1]
            closed = False
            while True:
                if not (0 <= y < h and 0 <= x < w) or blk[y][x]:
                    closed = True
                    break
                if (y, x) in reserved:
                    break
                side.append((y, x))
                y, x = y + sgn * step[0], x + sgn * step[1]
            if closed and rng.random() < 0.5:
                cut = len(side)                       # run on to the border / the existing black cell
            elif side:
                cut = rng.randrange(len(side))        # blacken side[cut]
                if open_ends and rng.random() < 0.7:
                    pass                              # leave side[cut] white: an open end
                else:
                    newblack.append(side[cut])
            elif open_ends:
                cut = 0                               # open end directly at a loop / gate cell
            else:
                fail = True
                break
            ext.append(side[:cut])
        if fail:
            continue
        for (y, x) in newblack:
            blk[y][x] = True
        cs = sorted(ext[0] + [c] + ext[1])
        reserved.update(cs)
        gates.append((cs[0][0], cs[0][1], d, len(cs)))
    return gates, reserved


def gen_problem(rng, tier, open_ends=False):
    h, w = rng.choice(_SHAPES)
    loops = [a for a in _loop.single_loops(h, w) if any(a)]
    return _gen(rng, h, w, open_ends, loops)


def extra_program_problems(rng):
    """Larger boards for the program correspondence only (nothing is enumerated there): one non-square medium board and two
    with more than 256 cells (a tall and a wide one); well-formed instances built like the small ones around a random loop
    (`_loop.random_loop`) with 4 to 12 gates (so two-digit gate numbers occur), black cells closing the gates."""
    out = []
    for h, w in _loop.big_shapes(rng):
        loops = [_loop.random_loop(rng, h, w, rng.choice([0.2, 0.35])) for _ in range(3)]
        out.append(_gen(rng, h, w, False, loops, k=rng.randint(4, 12)))
    return out


def _gen(rng, h, w, open_ends, loops, k=None):
    cells = [(y, x) for y in range(h) for x in range(w)]
    blk = [[False] * w for _ in range(h)]
    seq = None
    gates = None
    if k is None:
        k = rng.choice([0, 1, 1, 2, 2, 3, 3, 3, 4, 4])
    if loops and rng.random() < 0.85:
        a = rng.choice(loops)
        if rng.random() < 0.7:
            # prefer (among a few samples) a loop with many cells where a gate can be put across it
            a = max([a] + [rng.choice(loops) for _ in range(5)], key=lambda b: _n_gate_spots(b, h, w))
        adj = _loop.neighbours_on_loop(_loop.active_edges(a, h, w))
        on = sorted(adj)
        origin = rng.choice(on)
        seq = rng.choice(_walks(adj, origin))
        reserved = set(on)
        if rng.random() < 0.7:
            gates, reserved = _build_gates(rng, h, w, seq, blk, k, open_ends)
        p = rng.choice([0.0, 0.4, 0.7, 1.0, 1.0] if gates is None else [0.0, 0.0, 0.3, 0.6, 1.0])
        for (y, x) in cells:
            if (y, x) not in reserved and rng.random() < p:
                blk[y][x] = True
        if gates is None and rng.random() < 0.08:
            y, x = rng.choice(on)
            if (y, x) != origin:
                blk[y][x] = True
        if gates is None and rng.random() < 0.08:
            free = [c for c in cells if not blk[c[0]][c[1]]]
            origin = rng.choice(free)
    else:
        p = rng.choice([0.0, 0.2, 0.4])
        for (y, x) in cells:
            if rng.random() < p:
                blk[y][x] = True
        free = [c for c in cells if not blk[c[0]][c[1]]]
        if not free:
            blk[0][0] = False
            free = [(0, 0)]
        origin = rng.choice(free)
    if gates is None:
        runs = _runs(h, w, blk)
        if open_ends:
            # also proper sub-runs: at least one end is an ordinary white cell
            extra = []
            for (y, x, d, l) in runs:
                for s in range(l):
                    for ll in range(1, l - s + 1):
                        if ll < l:
                            extra.append((y, x + s, 0, ll) if d == 0 else (y + s, x, 1, ll))
            runs = extra + (runs if rng.random() < 0.3 else [])
        rng.shuffle(runs)
        if seq is not None and rng.random() < 0.7:
            good = [r for r in runs if _crossed_ok(r + (-1,), seq) is not None]
            if good or rng.random() < 0.5:
                runs = good
        gates = []
        used = {tuple(origin)}
        for r in runs:
            if len(gates) >= k:
                break
            cs = _gate_cells(r + (-1,))
            if any(c in used for c in cs):
                continue
            used.update(cs)
            gates.append(r)
    rng.shuffle(gates)
    G = len(gates)
    pos = {}
    if seq is not None:
        idx = [(i, r) for r in gates for i in [_crossed_ok(r + (-1,), seq)] if i is not None]
        if len(idx) == G:
            for rank, (_, r) in enumerate(sorted(idx)):
                pos[r] = rank + 1
    pnum = rng.choice([0.0, 0.5, 0.5, 1.0, 1.0])
    out = []
    for r in gates:
        if rng.random() < pnum:
            n = pos.get(r, rng.randint(1, max(G, 1)))
        else:
            n = -1
        out.append(list(r) + [n])
    kind = "open" if open_ends else "wf"
    numbered = [i for i in range(G) if out[i][4] >= 1]
    if len(numbered) >= 2 and rng.random() < 0.2:
        vals = [out[i][4] for i in numbered]    # the right numbers on the wrong gates
        rng.shuffle(vals)
        for i, v in zip(numbered, vals):
            out[i][4] = v
    if out and rng.random() < 0.15:
        i = rng.randrange(G)
        out[i][4] = rng.randint(1, G)           # possibly wrong / duplicated number
    if len(pos) == G and G >= 2 and rng.random() < 0.12:
        # exactly one or two numbers, wrong for BOTH directions of travel of the source loop
        for g in out:
            g[4] = -1
        i = rng.randrange(G)
        p0 = pos[tuple(out[i][:4])]
        wrong = [v for v in range(1, G + 1) if v not in (p0, G + 1 - p0)]
        if wrong:
            out[i][4] = rng.choice(wrong)
        else:
            v = rng.randint(1, G)
            out[0][4] = out[1][4] = v           # G == 2: the same number on both gates
    if out and not open_ends and rng.random() < 0.04:
        out[rng.randrange(G)][4] = G + 1        # READING: out of range -> no solution
        kind = "num>G"
    if out and not open_ends and rng.random() < 0.03:
        out[rng.randrange(G)][4] = 0            # READING: treated as unnumbered
        kind = "num0"
    pb = {"height": h, "width": w, "origin": [origin[0], origin[1]], "is_black": blk, "gates": out, "kind": kind}
    if kind == "wf":
        assert well_formed(pb), pb
    elif kind == "open" and well_formed(pb):
        pb["kind"] = "wf"
    return pb


def solve_args(problem):
    gates = [tuple(g) for g in problem["gates"]]
    return (problem["height"], problem["width"], tuple(problem["origin"]), problem["is_black"], gates), {}


def keys(problem, result):
    return _loop.frame_keys(result[0])


def answer_space(problem):
    return _loop.loop_candidates(problem["height"], problem["width"])


def rule_check(problem, answer):
    h, w = problem["height"], problem["width"]
    blk = problem["is_black"]
    gates = [tuple(g) for g in problem["gates"]]
    origin = tuple(problem["origin"])
    edges = _loop.active_edges(answer, h, w)
    adj = _loop.neighbours_on_loop(edges)
    # rule 1: one closed loop, no branching / crossing; rule 3: through the circle
    if origin not in adj:
        return False
    if any(len(ns) != 2 for ns in adj.values()):
        return False
    walks = _walks(adj, origin)
    if walks is None or len(walks[0]) != len(adj):
        return False            # the line through the circle is not closed, or there is a second loop elsewhere
    # rule 2
    if any(blk[y][x] for (y, x) in adj):
        return False
    # rule 4 and 5, for each of the two directions of travel
    for seq in walks:
        at = []
        ok = True
        for g in gates:
            i = _crossed_ok(g, seq)
            if i is None:
                ok = False
                break
            at.append((i, g))
        if not ok:
            return False        # rule 4 does not depend on the direction
        at.sort()
        if all(g[4] < 1 or g[4] == rank + 1 for rank, (_, g) in enumerate(at)):
            return True
    return False


def classify(problem, description):
    if "raised" in description:
        return "raised"
    return "mismatch" if well_formed(problem) else "mismatch:" + str(problem.get("kind", "malformed"))


def lean_line(problem):
    blk = _loop.grid_sx(problem["is_black"], lambda v: "T" if v else "F")
    gates = "(" + " ".join("(%d %d %d %d %d)" % tuple(g) for g in problem["gates"]) + ")"
    return "(puz_slalom %d %d (%d %d) %s %s)" % (problem["height"], problem["width"], problem["origin"][0], problem["origin"][1],
                                               blk, gates)
