"""solve_simpleloop(height, width, blocked, pivot).

Published rules (puzz.link "Simple Loop"): draw a single closed loop through the centres of the cells, moving
horizontally or vertically from cell to neighbouring cell; the loop never branches or crosses itself and visits no
cell twice.  The loop passes through EVERY white (non-blocked) cell and through NO black (blocked) cell.

Problem format of the module: `blocked[y][x] != 0` marks a blocked cell (`blocked[y][x] == 0`: white), `pivot = (py, px)`
is a cell of the board.  Answer = the height x (width-1) horizontal centre-to-centre segments followed by the
(height-1) x width vertical ones.

READING (pivot): `solve_simpleloop` never reads `blocked[py][px]`.  The pivot is the cell whose colour the module's
generator (`generate_simpleloop`) DERIVES from the parity of the other cells and writes into the returned problem
afterwards: `generated[py][px] = 1 - num_pass % 2`, where `num_pass` = number of white cells other than the pivot, i.e.
the pivot is blocked iff that number is even (a loop on a square grid has even length, so a white pivot next to an even
number of white cells could never be solved anyway).  The problem instance the solver decides is therefore the board
in which the pivot has this derived colour; this checker applies the published rules to THAT board ("effective
board").  An instance is "consistent" when `blocked[py][px]` already has the derived colour; on inconsistent instances the
given entry is ignored (following the module).  See `effective_blocked`.

READING: library convention: "no line at all" also counts as a loop (so an all-blocked board is solved by the empty
line).
"""
from . import _loop

NAME = "simpleloop"
STATUS = "theorem"
THEOREMS = ["Cspuz.C11.Simpleloop.program_iff_rules", "Cspuz.C11.Simpleloop.total"]
LEAN_FILE = "C11_Simpleloop"
LEAN_CMD = "puz_simpleloop"

_SHAPES = [(1, 1), (1, 2), (2, 1), (1, 3), (3, 1), (2, 2), (2, 3), (3, 2), (2, 4), (4, 2), (3, 3), (3, 4), (4, 3), (2, 3), (3, 2)]


def effective_blocked(problem):
    h, w = problem["height"], problem["width"]
    py, px = problem["pivot"]
    b = [[1 if problem["blocked"][y][x] != 0 else 0 for x in range(w)] for y in range(h)]
    others = sum(1 for y in range(h) for x in range(w) if (y, x) != (py, px) and b[y][x] == 0)
    b[py][px] = 1 if others % 2 == 0 else 0
    return b


def gen_problem(rng, tier):
    h, w = rng.choice(_SHAPES)
    return _gen(rng, h, w)


def extra_program_problems(rng):
    """Larger boards for the program correspondence only (nothing is enumerated there): one non-square medium board and two
    with more than 256 cells (a tall and a wide one); the blocked cells are those off a random
    loop (`_loop.random_loop`), the pivot anywhere."""
    return [_gen(rng, h, w, _loop.random_loop(rng, h, w, rng.choice([0.5, 0.8]))) for h, w in _loop.big_shapes(rng)]


def _gen(rng, h, w, a=None):
    mode = rng.random() if a is None else 0.0
    if mode < 0.6:
        if a is None:
            a = rng.choice(_loop.single_loops(h, w))
        seen = _loop.trace_loop(_loop.active_edges(a, h, w))
        b = [[0 if (y, x) in seen else 1 for x in range(w)] for y in range(h)]
        if rng.random() < 0.2:
            y, x = rng.randrange(h), rng.randrange(w)
            b[y][x] = 1 - b[y][x]
    else:
        p = rng.choice([0.0, 0.15, 0.3, 1.0]) if mode < 0.95 else 0.5
        b = [[rng.choice([1, 1, 2, 7]) if rng.random() < p else 0 for x in range(w)] for y in range(h)]
    pivot = [rng.randrange(h), rng.randrange(w)]
    pb = {"height": h, "width": w, "blocked": b, "pivot": pivot}
    if rng.random() < 0.7:
        # consistent instance: the pivot entry already holds the derived colour
        b[pivot[0]][pivot[1]] = effective_blocked(pb)[pivot[0]][pivot[1]]
    return pb


def solve_args(problem):
    return (problem["height"], problem["width"], problem["blocked"], tuple(problem["pivot"])), {}


def keys(problem, result):
    return _loop.frame_keys(result[0])


def answer_space(problem):
    return _loop.loop_candidates(problem["height"], problem["width"])


def rule_check(problem, answer):
    h, w = problem["height"], problem["width"]
    seen = _loop.trace_loop(_loop.active_edges(answer, h, w))
    if seen is None:
        return False
    b = effective_blocked(problem)
    for y in range(h):
        for x in range(w):
            if ((y, x) in seen) != (b[y][x] == 0):
                return False
    return True


def lean_line(problem):
    py, px = problem["pivot"]
    return f"(puz_simpleloop {problem['height']} {problem['width']} {_loop.grid_sx(problem['blocked'])} {py} {px})"


def classify(problem, description):
    return "raised" if "raised" in description else "mismatch"
