"""solve_akari(height, width, problem) — Akari / Light Up (Nikoli, puzz.link `akari`).

Problem format of the module: `problem[y][x]` is -2 for a white cell, -1 for a black cell without a number and 0..4 for
a black cell carrying that number.  Answer: one Boolean per cell (`has_light`), row-major.

Published rules implemented by `rule_check` (written from the rule text, not from the solver):
 1. Lights are placed in white cells only (never on a black cell).
 2. A light illuminates its own cell and, in the four orthogonal directions, every white cell up to (not including) the
    first black cell or the board edge.  Every white cell must be illuminated by at least one light.
 3. No light may be illuminated by another light (two lights never see each other).
 4. A number on a black cell is the number of lights in the (up to four) orthogonally adjacent cells.
"""
import itertools

NAME = "akari"
STATUS = "theorem"
THEOREMS = ["Cspuz.C11.Akari.program_iff_rules", "Cspuz.C11.Akari.total"]
LEAN_FILE = "C11_Akari"
LEAN_CMD = "puz_akari"

WHITE = -2


def gen_problem(rng, tier):
    shapes = [(1, 1), (1, 2), (2, 1), (1, 3), (3, 1), (1, 4), (4, 1), (2, 2), (2, 3), (3, 2), (2, 4), (4, 2), (3, 3), (3, 4), (4, 3)]
    h, w = rng.choice(shapes)
    return _gen(rng, h, w)


def extra_program_problems(rng):
    """Larger boards for the program correspondence only (nothing is enumerated there): one non-square medium board and two
    with more than 256 cells (a tall and a wide one), same construction as the small boards
    with a realistic share of black cells."""
    from . import _loop
    return [_gen(rng, h, w, p_black=rng.choice([0.15, 0.25])) for h, w in _loop.big_shapes(rng)]


def _gen(rng, h, w, p_black=None):
    if p_black is None:
        p_black = rng.choice([0.0, 0.15, 0.3, 0.5])
    black = [[rng.random() < p_black for _ in range(w)] for _ in range(h)]
    # a random maximal placement of mutually invisible lights, so that clues derived from it are often satisfiable
    light = [[False] * w for _ in range(h)]
    cells = [(y, x) for y in range(h) for x in range(w) if not black[y][x]]
    rng.shuffle(cells)

    def sees(y, x):
        for dy, dx in ((1, 0), (-1, 0), (0, 1), (0, -1)):
            yy, xx = y + dy, x + dx
            while 0 <= yy < h and 0 <= xx < w and not black[yy][xx]:
                if light[yy][xx]:
                    return True
                yy, xx = yy + dy, xx + dx
        return False
    for y, x in cells:
        if not sees(y, x) and rng.random() < 0.9:
            light[y][x] = True
    p_num = rng.choice([0.0, 0.5, 1.0])
    p_wrong = rng.choice([0.0, 0.0, 0.3])
    pb = [[WHITE] * w for _ in range(h)]
    for y in range(h):
        for x in range(w):
            if not black[y][x]:
                continue
            if rng.random() < p_num:
                cnt = sum(1 for dy, dx in ((1, 0), (-1, 0), (0, 1), (0, -1))
                          if 0 <= y + dy < h and 0 <= x + dx < w and light[y + dy][x + dx])
                pb[y][x] = rng.randint(0, 4) if rng.random() < p_wrong else cnt
            else:
                pb[y][x] = -1
    return {"height": h, "width": w, "problem": pb}


def solve_args(problem):
    return (problem["height"], problem["width"], problem["problem"]), {}


def keys(problem, result):
    return list(result[0].data)


def answer_space(problem):
    h, w = problem["height"], problem["width"]
    for vals in itertools.product((False, True), repeat=h * w):
        yield list(vals)


def rule_check(problem, answer):
    h, w, pb = problem["height"], problem["width"], problem["problem"]
    light = [answer[y * w:(y + 1) * w] for y in range(h)]

    def white(y, x):
        return pb[y][x] == WHITE
    lit = [[False] * w for _ in range(h)]
    for y in range(h):
        for x in range(w):
            if not light[y][x]:
                continue
            if not white(y, x):
                return False                      # rule 1
            lit[y][x] = True
            for dy, dx in ((1, 0), (-1, 0), (0, 1), (0, -1)):
                yy, xx = y + dy, x + dx
                while 0 <= yy < h and 0 <= xx < w and white(yy, xx):
                    if light[yy][xx]:
                        return False              # rule 3
                    lit[yy][xx] = True
                    yy, xx = yy + dy, xx + dx
    for y in range(h):
        for x in range(w):
            if white(y, x):
                if not lit[y][x]:
                    return False                  # rule 2
            elif pb[y][x] >= 0:
                cnt = 0
                for dy, dx in ((1, 0), (-1, 0), (0, 1), (0, -1)):
                    yy, xx = y + dy, x + dx
                    if 0 <= yy < h and 0 <= xx < w and light[yy][xx]:
                        cnt += 1
                if cnt != pb[y][x]:
                    return False                  # rule 4
    return True


def lean_line(problem):
    h, w, pb = problem["height"], problem["width"], problem["problem"]
    return "(puz_akari %d %d (%s))" % (h, w, " ".join("(" + " ".join(str(v) for v in row) + ")" for row in pb))
