"""solve_magnets(height, width, to_right, to_down, cond_row, cond_col) -- Magnets (Janko "Magnete", puzz.link-style statement).

Rule text implemented by `rule_check`:
  1. The board is divided into domino-shaped plates (two orthogonally adjacent cells each).
  2. Every plate is either a magnet -- one half is the positive pole (+), the other half the negative pole (-) -- or it is
     left blank (both halves empty).  A half is never + and - at the same time.
  3. Two halves of the same polarity are never orthogonally adjacent (two + never share a side, two - never share a side).
  4. The numbers outside the grid give, for every row and every column, the number of + halves and the number of - halves in
     that line.  No number = no constraint.

Problem format of the module: `to_right[y][x]` true = the cells (y, x) and (y, x+1) form a plate; `to_down[y][x]` true = the
cells (y, x) and (y+1, x) form a plate; `cond_row[y] = [n_plus, n_minus]`, `cond_col[x] = [n_plus, n_minus]`; a negative entry =
no clue.  Answer keys: `plus` (height x width, row-major) followed by `minus` (height x width, row-major) -- the order of the
two `add_answer_key` calls.

Well-formed: the tables have the board's dimensions, `to_right` is never true in the last column, `to_down` never in the last
row, and the plates tile the board (every cell lies in exactly one plate).

READING: a cell that belongs to no plate (the plates do not cover the board; unavoidable when height*width is odd) carries no
plate rule: on its own it may be +, - or empty (rules 3 and 4 still apply to it).  This is what the module does (it only posts
"not both" for such a cell).  `gen_problem` emits mostly perfect tilings and some partial ones.

ENVIRONMENT: `cspuz/puzzle/magnets.py` does an unguarded `import svgwrite` at module level (line 5); svgwrite is not a declared
dependency of the package (pyproject.toml) and is not installed in this sandbox, so `import cspuz.puzzle.magnets` raises
ModuleNotFoundError (reported as a defect: compass.py guards the same import with try/except ImportError).  svgwrite is only
used by the drawing helper, never by `solve_magnets`.  So that the solver logic can still be checked, this module installs an
EMPTY stub module under the name `svgwrite` -- only when the real svgwrite cannot be imported.
"""
import itertools
import sys
import types

try:                                   # see ENVIRONMENT above: stub only when svgwrite is really missing
    import svgwrite  # noqa: F401
except ImportError:
    sys.modules["svgwrite"] = types.ModuleType("svgwrite")

NAME = "magnets"
STATUS = "theorem"
THEOREMS = ["Cspuz.C11.Magnets.program_iff_rules", "Cspuz.C11.Magnets.total",
            "Cspuz.C11.Magnets.program_iff_rules_shaped", "Cspuz.C11.Magnets.total_shaped"]
LEAN_FILE = "C11_Magnets"
LEAN_CMD = "puz_magnets"

_SMALL = [(1, 1), (1, 2), (2, 1), (1, 3), (3, 1), (2, 2), (1, 4), (4, 1), (1, 5), (5, 1), (2, 3), (3, 2), (1, 6), (6, 1)]
_LARGE = [(3, 3), (2, 4), (4, 2), (2, 5), (5, 2), (3, 4), (4, 3)]
_RAW_LIMIT = 6          # boards with height*width <= _RAW_LIMIT: the full raw space of 2*h*w Booleans is enumerated


def _perfect_tiling(rng, h, w):
    """A random perfect domino tiling as a list of plates ((y, x), (y', x')), or None if there is none."""
    if (h * w) % 2:
        return None
    used = [[False] * w for _ in range(h)]
    plates = []

    def go():
        for y in range(h):
            for x in range(w):
                if not used[y][x]:
                    opts = []
                    if x + 1 < w and not used[y][x + 1]:
                        opts.append((y, x + 1))
                    if y + 1 < h and not used[y + 1][x]:
                        opts.append((y + 1, x))
                    rng.shuffle(opts)
                    for (yy, xx) in opts:
                        used[y][x] = used[yy][xx] = True
                        plates.append(((y, x), (yy, xx)))
                        if go():
                            return True
                        plates.pop()
                        used[y][x] = used[yy][xx] = False
                    return False
        return True
    return plates if go() else None


def _greedy_tiling(rng, h, w, skip):
    """Plates placed greedily over the cells in random order; a cell is left uncovered with probability `skip` (or when it
    has no free neighbour)."""
    used = [[False] * w for _ in range(h)]
    plates = []
    cells = [(y, x) for y in range(h) for x in range(w)]
    rng.shuffle(cells)
    for (y, x) in cells:
        if used[y][x] or rng.random() < skip:
            continue
        opts = [(yy, xx) for (yy, xx) in ((y, x + 1), (y + 1, x), (y, x - 1), (y - 1, x))
                if 0 <= yy < h and 0 <= xx < w and not used[yy][xx]]
        if opts:
            yy, xx = rng.choice(opts)
            used[y][x] = used[yy][xx] = True
            plates.append((min((y, x), (yy, xx)), max((y, x), (yy, xx))))
    return plates


def _plates_of(problem):
    """The plates as pairs of cells, read off the two tables."""
    h, w = problem["height"], problem["width"]
    out = []
    for y in range(h):
        for x in range(w):
            if problem["to_right"][y][x]:
                out.append(((y, x), (y, x + 1)))
            if problem["to_down"][y][x]:
                out.append(((y, x), (y + 1, x)))
    return out


def gen_problem(rng, tier):
    h, w = rng.choice(_SMALL) if rng.random() < 0.5 else rng.choice(_LARGE)
    small = h * w <= _RAW_LIMIT
    mode = rng.random()
    plates = _perfect_tiling(rng, h, w) if mode < 0.75 else None
    if plates is None:
        # partial tiling (READING); on the larger boards at most 2 (even area) / 1..3 (odd area) cells stay uncovered so that
        # the answer space stays small
        if small:
            plates = _greedy_tiling(rng, h, w, rng.choice([0.0, 0.0, 0.3, 1.0]))
        else:
            plates = _perfect_tiling(rng, h, w)
            if plates is None:
                for _ in range(50):
                    plates = _greedy_tiling(rng, h, w, 0.0)
                    if 2 * len(plates) >= h * w - 1:
                        break
            elif plates:
                plates.pop(rng.randrange(len(plates)))
    return _finish(rng, h, w, plates)


def _big_tiling(rng, h, w):
    """A random domino tiling of a larger board without backtracking: parallel dominoes to start with (the last row / column
    of an odd board is tiled the other way, one cell stays uncovered when both sides are odd), then many random flips of two
    side-by-side parallel dominoes (2 x 2 block)."""
    right = [[False] * w for _ in range(h)]
    down = [[False] * w for _ in range(h)]
    for y in range(h):
        for x in range(0, w - 1, 2):
            right[y][x] = True
    if w % 2:
        for y in range(0, h - 1, 2):
            down[y][w - 1] = True
    for _ in range(6 * h * w):
        y, x = rng.randrange(h - 1), rng.randrange(w - 1)
        if right[y][x] and right[y + 1][x]:
            right[y][x] = right[y + 1][x] = False
            down[y][x] = down[y][x + 1] = True
        elif down[y][x] and down[y][x + 1]:
            down[y][x] = down[y][x + 1] = False
            right[y][x] = right[y + 1][x] = True
    return ([((y, x), (y, x + 1)) for y in range(h) for x in range(w) if right[y][x]]
            + [((y, x), (y + 1, x)) for y in range(h) for x in range(w) if down[y][x]])


def extra_program_problems(rng):
    """Larger boards for the program correspondence only (nothing is enumerated there): one non-square medium board and two
    with more than 256 cells (a tall and a wide one); random domino tilings (now and then a few plates removed: READING),
    a hidden filling and the clue modes of the small boards."""
    from . import _loop
    out = []
    for h, w in _loop.big_shapes(rng):
        plates = _big_tiling(rng, h, w)
        if rng.random() < 0.3:
            for _ in range(rng.randint(1, 3)):
                plates.pop(rng.randrange(len(plates)))
        out.append(_finish(rng, h, w, plates, cmode=rng.uniform(0.08, 1.0)))
    return out


def _finish(rng, h, w, plates, cmode=None):
    to_right = [[False] * w for _ in range(h)]
    to_down = [[False] * w for _ in range(h)]
    for (a, b) in plates:
        if a[0] == b[0]:
            to_right[a[0]][min(a[1], b[1])] = True
        else:
            to_down[min(a[0], b[0])][a[1]] = True
    # a hidden rule-obeying filling: plates in random order, each takes a random state compatible with what is placed already
    state = [["."] * w for _ in range(h)]
    fill = rng.choice([0.0, 0.5, 0.8, 1.0])
    order = list(plates)
    rng.shuffle(order)

    def ok(c, s):
        return all(not (0 <= c[0] + dy < h and 0 <= c[1] + dx < w and state[c[0] + dy][c[1] + dx] == s)
                   for dy, dx in ((1, 0), (-1, 0), (0, 1), (0, -1)))
    for (a, b) in order:
        if rng.random() >= fill:
            continue
        opts = [(sa, sb) for (sa, sb) in (("+", "-"), ("-", "+")) if ok(a, sa) and ok(b, sb)]
        if opts:
            state[a[0]][a[1]], state[b[0]][b[1]] = rng.choice(opts)
    covered = {c for p in plates for c in p}
    for y in range(h):
        for x in range(w):
            if (y, x) not in covered and rng.random() < fill:
                opts = [s for s in "+-" if ok((y, x), s)]
                if opts:
                    state[y][x] = rng.choice(opts)
    if cmode is None:
        cmode = rng.random()
    keep = 0.0 if cmode < 0.08 else rng.choice([0.25, 0.5, 0.8, 1.0])

    def none():
        return -1 if rng.random() < 0.85 else -rng.randint(2, 3)
    cond_row = [[sum(1 for x in range(w) if state[y][x] == s) if rng.random() < keep else none() for s in "+-"] for y in range(h)]
    cond_col = [[sum(1 for y in range(h) if state[y][x] == s) if rng.random() < keep else none() for s in "+-"] for x in range(w)]
    if 0.08 <= cmode < 0.4:
        # perturb: arbitrary values (0 included) anywhere -> frequently unsatisfiable
        for _ in range(rng.randint(1, 2)):
            if rng.random() < 0.5:
                cond_row[rng.randrange(h)][rng.randrange(2)] = rng.randint(0, (w + 1) // 2 + 1)
            else:
                cond_col[rng.randrange(w)][rng.randrange(2)] = rng.randint(0, (h + 1) // 2 + 1)
    return {"height": h, "width": w, "to_right": to_right, "to_down": to_down, "cond_row": cond_row, "cond_col": cond_col}


def solve_args(problem):
    return (problem["height"], problem["width"], problem["to_right"], problem["to_down"], problem["cond_row"],
            problem["cond_col"]), {}


def keys(problem, result):
    plus, minus = result
    return list(plus.data) + list(minus.data)


def answer_space(problem):
    h, w = problem["height"], problem["width"]
    n = h * w
    if n <= _RAW_LIMIT:
        # every pair of Boolean grids, so that the "not + and - at once" and the plate constraints are exercised
        for vals in itertools.product((False, True), repeat=2 * n):
            yield list(vals)
        return
    # larger boards: one of {blank, +-, -+} per plate and one of {blank, +, -} per uncovered cell -- a superset of the grids
    # `rule_check` accepts (it rejects everything else by rules 2).  Assumes the plates are disjoint (gen_problem's are).
    plates = _plates_of(problem)
    covered = {c for p in plates for c in p}
    free = [(y, x) for y in range(h) for x in range(w) if (y, x) not in covered]
    for ps in itertools.product(("..", "+-", "-+"), repeat=len(plates)):
        for fs in itertools.product(".+-", repeat=len(free)):
            st = {}
            for (a, b), s in zip(plates, ps):
                st[a], st[b] = s[0], s[1]
            for c, s in zip(free, fs):
                st[c] = s
            cells = [(y, x) for y in range(h) for x in range(w)]
            yield [st[c] == "+" for c in cells] + [st[c] == "-" for c in cells]


def rule_check(problem, answer):
    h, w = problem["height"], problem["width"]
    n = h * w
    plus = [answer[y * w:(y + 1) * w] for y in range(h)]
    minus = [answer[n + y * w:n + (y + 1) * w] for y in range(h)]
    # rule 2: the state of a half is one of +, -, empty
    state = {}
    for y in range(h):
        for x in range(w):
            if plus[y][x] and minus[y][x]:
                return False
            state[(y, x)] = "+" if plus[y][x] else "-" if minus[y][x] else "."
    # rule 2: a plate is a magnet or blank
    for (a, b) in _plates_of(problem):
        if (state[a], state[b]) not in ((".", "."), ("+", "-"), ("-", "+")):
            return False
    # rule 3: equal poles do not share a side
    for (y, x), s in state.items():
        if s == ".":
            continue
        for nb in ((y + 1, x), (y, x + 1)):
            if state.get(nb) == s:
                return False
    # rule 4: counts per line
    for y in range(h):
        for k, s in enumerate("+-"):
            c = problem["cond_row"][y][k]
            if c >= 0 and sum(1 for x in range(w) if state[(y, x)] == s) != c:
                return False
    for x in range(w):
        for k, s in enumerate("+-"):
            c = problem["cond_col"][x][k]
            if c >= 0 and sum(1 for y in range(h) if state[(y, x)] == s) != c:
                return False
    return True


def classify(problem, description):
    if "raised" in description:
        return "exception"
    return "%dx%d" % (problem["height"], problem["width"])


def _tab(t):
    return "(" + " ".join("(" + " ".join(str(int(v)) for v in row) + ")" for row in t) + ")"


def lean_line(problem):
    return "(puz_magnets %d %d %s %s %s %s)" % (problem["height"], problem["width"], _tab(problem["to_right"]),
                                               _tab(problem["to_down"]), _tab(problem["cond_row"]), _tab(problem["cond_col"]))
