"""solve_firefly(height, width, problem)  --  Hotaru Beam / Firefly.

Published rules (puzz.link "Hotaru Beam"; pzprjs answer checks "branch line", "cross line", "dot-to-dot connection"
(lcInvDirB), "wrong number of turns", "dead-end line", "not all connected", "firefly without a line"):
  1. Every firefly is a circle with a black dot on one of its four sides.  From the black dot of EVERY firefly a line
     is drawn along the grid lines (here: from cell centre to cell centre of the module's lattice) until it reaches
     another firefly's circle ... or its own circle.
  2. Lines may turn, but never branch, never cross each other and never end in mid-air.
  3. A line may not connect a black dot directly with another black dot (it may not arrive at a firefly on the side
     that carries that firefly's dot).  Several lines may end at the same firefly (on sides without dot).
  4. A number in a firefly is the number of turns (90 degree bends) of the line that starts at its black dot; a firefly
     without number ("?") puts no condition on the turns.
  5. All fireflies together with their lines form ONE connected network.

Problem format of the module: `problem[y][x]` is a string; first character "." = empty cell (the module writes "..");
otherwise the first character is the side of the dot, "^" up, "v" down, "<" left, ">" right, and the rest is the
number of turns in decimal or "?" ("v?", ">5", "^12").  Any other first character makes the module raise ValueError
when it reaches that cell (not generated here).  The cells are the POINTS of the module's lattice
(`BoolGridFrame(solver, height-1, width-1)`); the answer lists the segments between adjacent cells: first the
horizontal ones (y, x)-(y, x+1) row-major [height x (width-1)], then the vertical ones (y, x)-(y+1, x) row-major
[(height-1) x width].

The checker works on the undirected set of segments by explicit tracing (it knows nothing of the module's
orientation / rank / remaining-turn variables): from every firefly it follows the line that leaves through the dot
side, cell by cell; an empty cell on the way must have exactly two line ends (1 = dead end, 3 = branch, 4 = crossing);
it counts the bends; the walk stops at the first firefly cell it enters (rule 3 is checked there, rule 4 after it).
Afterwards every drawn segment must belong to exactly one of these traced lines (anything else is a line that does
not start at a dot: a stray loop, or a stub at a firefly), and the fireflies must be connected through the
"line from A ends at B" relation (union-find).

The Lean theorem (Properties/C11_Firefly.lean) covers every well-formed instance with AT LEAST ONE firefly, for all
board sizes: program <=> arithmetic certificate (Proofs/C11FireflyL1) <=> rules (Proofs/C11FireflySound, ...Complete);
the rules are stated there by the same tracing (Spec/PuzzleRules/Firefly.lean: `Follows`, `IsLine`, `RulesOn`).  The
parsing of the clue strings is done here (`_clue_sx`), the Lean model receives the parsed table.

READING (published text is silent; the module's behaviour is followed):
  (a) A board WITHOUT any firefly is not a puzzle of this kind.  The module accepts on such a board the empty drawing
      and ALSO any single closed loop (no branch / crossing / dead end) -- its connectivity device tolerates exactly one
      cycle -- and it accepts NOTHING on a board without segments (1 x 1): `count_true(ignored_edge) == 1` cannot hold.
      The checker follows this on firefly-free boards only; the Lean `WellFormed` demands at least one firefly.
  (b) A firefly's own line may return to its own circle (on a side without the dot): the line "reaches a firefly";
      the module allows it and so does pzprjs.
  (c) With at least one firefly a closed loop that touches no firefly is not a line starting at a dot: rejected (the
      module rejects it too, because the fireflies' component already contains the one tolerated cycle).
  (d) A dot that points off the board: no line can leave it, so nothing obeys the rules (module: `ensure(False)`).
"""
import itertools

from . import _loop

NAME = "firefly"
STATUS = "theorem"
THEOREMS = ["Cspuz.C11.Firefly.program_iff_rules", "Cspuz.C11.Firefly.total"]
LEAN_FILE = "C11_Firefly"
LEAN_CMD = "puz_firefly"

# line boards (1 x N, N x 1) can never hold a rule-obeying drawing once a firefly is present (the network needs a cycle):
# kept, but rare
_SHAPES = ([(1, 1), (1, 2), (2, 1), (1, 3), (3, 1), (1, 4), (4, 1)]
           + [(2, 2), (2, 3), (3, 2), (2, 4), (4, 2), (3, 3), (3, 3)] * 4 + [(3, 4), (4, 3), (2, 5), (5, 2)] * 2)

_DIRS = {"^": (-1, 0), "v": (1, 0), "<": (0, -1), ">": (0, 1)}


def _fireflies(h, w, pb):
    """{cell: (direction of the dot, number of turns or None)}."""
    ff = {}
    for y in range(h):
        for x in range(w):
            c = pb[y][x]
            if c[0] != ".":
                ff[(y, x)] = (_DIRS[c[0]], None if c[1] == "?" else int(c[1:]))
    return ff


def _edge(p, q):
    return (p, q) if p <= q else (q, p)


def _trace(h, w, ff, es, p):
    """Follow the line that leaves firefly `p` through its dot side.  Returns (end firefly, bends, segments used) or
    None if the line is missing, ends in mid-air, branches / crosses, or arrives at a dot."""
    d = ff[p][0]
    q = (p[0] + d[0], p[1] + d[1])
    if not (0 <= q[0] < h and 0 <= q[1] < w):
        return None                     # READING (d)
    if _edge(p, q) not in es:
        return None                     # firefly without a line
    used = [_edge(p, q)]
    prev, cur, bends = p, q, 0
    for _ in range(h * w + 1):
        if cur in ff:
            dd = ff[cur][0]
            if (cur[0] + dd[0], cur[1] + dd[1]) == prev:
                return None             # dot-to-dot
            return cur, bends, used
        ns = [r for r in ((cur[0] - 1, cur[1]), (cur[0] + 1, cur[1]), (cur[0], cur[1] - 1), (cur[0], cur[1] + 1))
              if _edge(cur, r) in es]
        if len(ns) != 2:
            return None                 # dead end (1), branch (3), crossing (4)
        nxt = ns[0] if ns[1] == prev else ns[1]
        if (nxt[0] - cur[0], nxt[1] - cur[1]) != (cur[0] - prev[0], cur[1] - prev[1]):
            bends += 1
        used.append(_edge(cur, nxt))
        prev, cur = cur, nxt
    return None


def rule_check(problem, answer):
    h, w, pb = problem["height"], problem["width"], problem["problem"]
    edges = _loop.active_edges(answer, h, w)
    es = {_edge(p, q) for p, q in edges}
    ff = _fireflies(h, w, pb)
    if not ff:
        # READING (a)
        if _loop.n_edges(h, w) == 0:
            return False
        return _loop.trace_loop(edges) is not None
    parent = {p: p for p in ff}

    def find(p):
        while parent[p] != p:
            p = parent[p]
        return p
    used = set()
    for p, (_, n) in ff.items():
        t = _trace(h, w, ff, es, p)
        if t is None:
            return False
        end, bends, segs = t
        if n is not None and bends != n:
            return False
        for e in segs:
            if e in used:
                return False            # two lines on one segment
            used.add(e)
        parent[find(p)] = find(end)
    if used != es:
        return False                    # a line that does not start at a dot (stray loop / stub at a firefly)
    return len({find(p) for p in ff}) == 1


# ---------------------------------------------------------------------------------------------------------------------
# instance generation

def _random_drawing(rng, h, w, cells, tries=12):
    """Fireflies at `cells` with random dots and a self-avoiding random line from each dot to some firefly.
    Returns (dirs, bends, edge set) or None."""
    for _ in range(tries):
        dirs, bends = {}, {}
        occupied = set(cells)
        es = set()
        ok = True
        for p in cells:
            opts = [d for d in _DIRS if 0 <= p[0] + _DIRS[d][0] < h and 0 <= p[1] + _DIRS[d][1] < w]
            rng.shuffle(opts)
            done = False
            for d in opts:
                for _walk in range(4):
                    prev, cur = p, (p[0] + _DIRS[d][0], p[1] + _DIRS[d][1])
                    path, segs, nb = [], [_edge(prev, cur)], 0
                    fail = False
                    while True:
                        if cur in dirs or cur in cells:
                            if cur in dirs and cur != p:
                                dd = _DIRS[dirs[cur]]
                                if (cur[0] + dd[0], cur[1] + dd[1]) == prev:
                                    fail = True
                            if cur == p:
                                dd = _DIRS[d]
                                if (cur[0] + dd[0], cur[1] + dd[1]) == prev:
                                    fail = True
                            break
                        if cur in occupied or cur in path:
                            fail = True
                            break
                        path.append(cur)
                        ns = [r for r in ((cur[0] - 1, cur[1]), (cur[0] + 1, cur[1]), (cur[0], cur[1] - 1), (cur[0], cur[1] + 1))
                              if 0 <= r[0] < h and 0 <= r[1] < w and r != prev and r not in path and (r in cells or r not in occupied)
                              and _edge(cur, r) not in es]
                        if not ns:
                            fail = True
                            break
                        nxt = rng.choice(ns)
                        if (nxt[0] - cur[0], nxt[1] - cur[1]) != (cur[0] - prev[0], cur[1] - prev[1]):
                            nb += 1
                        segs.append(_edge(cur, nxt))
                        prev, cur = cur, nxt
                    if fail or any(e in es for e in segs):
                        continue
                    # a later firefly must not have its dot on the side where this line arrived: remember nothing, the
                    # final rule_check filter below decides
                    dirs[p] = d
                    bends[p] = nb
                    occupied.update(path)
                    es.update(segs)
                    done = True
                    break
                if done:
                    break
            if not done:
                ok = False
                break
        if ok:
            return dirs, bends, es
    return None


def gen_problem(rng, tier):
    h, w = rng.choice(_SHAPES)
    return _gen(rng, h, w)


def extra_program_problems(rng):
    """Larger boards for the program correspondence only (nothing is enumerated there): one non-square medium board and two
    with more than 256 cells (a tall and a wide one); one firefly per 9 to 16 cells (rim and corners included), dots and
    turn numbers read off random self-avoiding lines where such a drawing is found, else random; one of the three boards
    uses the unstructured mode (random fireflies, turn numbers up to two digits)."""
    sizes = _loop.big_shapes(rng)
    loose = rng.randrange(len(sizes))
    return [_gen(rng, h, w, mode=0.9 if i == loose else 0.5, kbig=rng.randint(h * w // 16, h * w // 9))
            for i, (h, w) in enumerate(sizes)]


def _gen(rng, h, w, mode=None, kbig=None):
    pb = [[".."] * w for _ in range(h)]
    cells = [(y, x) for y in range(h) for x in range(w)]
    if mode is None:
        mode = rng.random()
    if mode < 0.08:
        pass                                                    # empty board (READING (a))
    elif mode < 0.13 and h >= 2 and w >= 2:
        # a ring of four adjacent fireflies, each shining at the next; on the wider boards there is room left for a
        # closed loop that touches no firefly (READING (c))
        y0, x0 = rng.choice([0, h - 2]), rng.choice([0, w - 2])
        ring = [((y0, x0), ">"), ((y0, x0 + 1), "v"), ((y0 + 1, x0 + 1), "<"), ((y0 + 1, x0), "^")]
        if rng.random() < 0.5:
            ring = [((y0, x0), "v"), ((y0 + 1, x0), ">"), ((y0 + 1, x0 + 1), "^"), ((y0, x0 + 1), "<")]
        for (p, d) in ring:
            pb[p[0]][p[1]] = d + rng.choice(["0", "0", "?"])
    elif mode < 0.25 and h >= 3 and w >= 3:
        # four fireflies around an empty cell, one of each opposite pair shining at it: the only way to use both dots
        # would be two lines CROSSING in that cell
        cy, cx = rng.randrange(1, h - 1), rng.randrange(1, w - 1)
        a, b = rng.choice([("^", "v"), ("v", "^")]), rng.choice([("<", ">"), (">", "<")])
        around = {(cy - 1, cx): "v" if a[0] == "v" else None, (cy + 1, cx): "^" if a[0] == "^" else None,
                  (cy, cx - 1): ">" if b[0] == ">" else None, (cy, cx + 1): "<" if b[0] == "<" else None}
        for p, d in around.items():
            if d is None:
                opts = [k for k in _DIRS if 0 <= p[0] + _DIRS[k][0] < h and 0 <= p[1] + _DIRS[k][1] < w
                        and (p[0] + _DIRS[k][0], p[1] + _DIRS[k][1]) != (cy, cx)]
                d = rng.choice(opts)
            pb[p[0]][p[1]] = d + rng.choice(["?", "?", "?", "0", "1", "2"])
    elif mode < 0.72:
        dr = None
        for _attempt in range(8):
            k = rng.choice([1, 1, 2, 2, 2, 3, 3, 4]) if kbig is None else kbig
            k = min(k, len(cells))
            pick = list(cells)
            rng.shuffle(pick)
            if rng.random() < 0.4:
                pick.sort(key=lambda c: -((c[0] in (0, h - 1)) + (c[1] in (0, w - 1))))   # corners, then edges
            pick = pick[:k]
            dr = _random_drawing(rng, h, w, pick)
            if dr is not None:
                # keep the drawing if it obeys the rules (connected, no arrival at a dot) for its own turn numbers
                true_pb = [[".."] * w for _ in range(h)]
                for p in pick:
                    true_pb[p[0]][p[1]] = dr[0][p] + str(dr[1][p])
                ans = [_edge(a, b) in dr[2] for a, b in _loop.edge_list(h, w)]
                if rule_check({"height": h, "width": w, "problem": true_pb}, ans) or rng.random() < 0.1:
                    break
        if dr is None:
            for p in pick:
                pb[p[0]][p[1]] = rng.choice("^v<>") + rng.choice(["?", "0", "1", "2"])
        else:
            dirs, bends, _ = dr
            for p in pick:
                r = rng.random()
                if r < 0.55:
                    n = str(bends[p])
                elif r < 0.8:
                    n = "?"
                elif r < 0.93:
                    n = str(rng.randint(0, 3))
                else:
                    n = rng.choice(["10", "12", "007", str(bends[p] + 1)])
                pb[p[0]][p[1]] = dirs[p] + n
            if rng.random() < 0.12:
                y, x = rng.choice(cells)
                pb[y][x] = rng.choice("^v<>") + rng.choice(["?", "0", "1"])
    else:
        p = rng.choice([0.15, 0.3, 0.5]) if kbig is None else kbig / len(cells)
        for (y, x) in cells:
            if rng.random() < p:
                pb[y][x] = rng.choice("^v<>") + rng.choice(["?", "?", "0", "0", "1", "1", "2", "3", "4", "11"])
        if rng.random() < 0.1:
            y, x = rng.choice(cells)
            if pb[y][x] == "..":
                pb[y][x] = rng.choice([".?", ".5", ". "])         # first character "." = empty, whatever follows
    return {"height": h, "width": w, "problem": pb}


def solve_args(problem):
    return (problem["height"], problem["width"], problem["problem"]), {}


def keys(problem, result):
    return _loop.frame_keys(result[0])


def answer_space(problem):
    """Every subset of segments on boards with at most 12 segments; on larger boards the superset of the rule-obeying
    drawings in which every EMPTY cell has 0 or 2 line ends (dead ends, branches and crossings can only be in empty
    cells; firefly cells are unrestricted)."""
    h, w, pb = problem["height"], problem["width"], problem["problem"]
    E = _loop.n_edges(h, w)
    if E <= 12:
        for vals in itertools.product([False, True], repeat=E):
            yield list(vals)
        return
    hor = [[False] * (w - 1) for _ in range(h)]
    ver = [[False] * w for _ in range(h - 1)]
    out = []

    def rec(k):
        if k == h * w:
            out.append([v for row in hor for v in row] + [v for row in ver for v in row])
            return
        y, x = divmod(k, w)
        inc = (1 if x > 0 and hor[y][x - 1] else 0) + (1 if y > 0 and ver[y - 1][x] else 0)
        can_r = x < w - 1
        can_d = y < h - 1
        for r in ([False, True] if can_r else [False]):
            for d in ([False, True] if can_d else [False]):
                if pb[y][x][0] != "." or inc + r + d in (0, 2):
                    if can_r:
                        hor[y][x] = r
                    if can_d:
                        ver[y][x] = d
                    rec(k + 1)
        if can_r:
            hor[y][x] = False
        if can_d:
            ver[y][x] = False
    rec(0)
    for a in out:
        yield a


def classify(problem, description):
    if "raised" in description:
        return "raised"
    if not any(c[0] != "." for row in problem["problem"] for c in row):
        return "no-firefly"
    return "mismatch"


def _clue_sx(c):
    """The parsed clue (string parsing is done HERE, the Lean model receives the parsed structure):
    `e` first character "." ; `s` a string of length < 2 whose first character is not "." (IndexError in the module);
    `(<dir> <num>)` with dir u / d / l / r / o (other character) and num = q ("?" as second character), an integer
    (`int(c[1:])`) or `bad` (int() raises ValueError)."""
    if len(c) >= 1 and c[0] == ".":
        return "e"
    if len(c) < 2:
        return "s"
    d = {"^": "u", "v": "d", "<": "l", ">": "r"}.get(c[0], "o")
    if c[1] == "?":
        return "(%s q)" % d
    try:
        return "(%s %d)" % (d, int(c[1:]))
    except ValueError:
        return "(%s bad)" % d


def lean_line(problem):
    return f"(puz_firefly {problem['height']} {problem['width']} {_loop.grid_sx(problem['problem'], _clue_sx)})"
