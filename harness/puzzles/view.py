"""solve_view(height, width, problem) -- View (puzz.link "view").

Rule text implemented by `rule_check` (the puzz.link statement of "View", as used here: the four rules below; no copy of the
page is available offline, the module has no docstring, and the reading was cross-checked against the module's example):
  1. Write a number (>= 0) into some of the empty cells; the given numbers stay.
  2. A number equals the total count of EMPTY cells visible from its cell in the four orthogonal directions, looking in each
     direction up to (not including) the nearest numbered cell or the border.
  3. Equal numbers are not orthogonally adjacent.
  4. All numbered cells form one orthogonally connected area.

Problem format of the module: `problem[y][x]` = -1 (empty) or the given number.
Answer keys: `nums` (height x width, row-major) followed by `has_number` (row-major).

READING: representation: an empty cell is reported as has_number = False, nums = 0 (the rules say nothing about "the number
of an empty cell"; the module pins it to 0 so that the answer is unique).
READING: a grid without any numbered cell satisfies rule 4 (library convention for an empty active set).
"""
import itertools

NAME = "view"
STATUS = "theorem"
THEOREMS = ["Cspuz.C11.View.program_iff_rules", "Cspuz.C11.View.total"]
LEAN_FILE = "C11_View"
LEAN_CMD = "puz_view"

_SIZES = [(1, 1), (1, 2), (2, 1), (1, 3), (3, 1), (2, 2), (2, 3), (3, 2), (1, 4), (4, 1), (3, 3), (2, 4), (4, 2), (3, 4), (4, 3)]
_DIRS = ((-1, 0), (1, 0), (0, -1), (0, 1))


def _sight(h, w, has, y, x):
    n = 0
    for dy, dx in _DIRS:
        cy, cx = y + dy, x + dx
        while 0 <= cy < h and 0 <= cx < w and not has[cy][cx]:
            n += 1
            cy += dy
            cx += dx
    return n


def gen_problem(rng, tier):
    h, w = rng.choice(_SIZES)
    return _gen(rng, h, w)


def extra_program_problems(rng):
    """Larger boards for the program correspondence only (nothing is enumerated there): one non-square medium board and two
    with more than 256 cells (a tall and a wide one), built like the small ones, never without clues."""
    from . import _loop
    return [_gen(rng, h, w, mode=rng.uniform(0.08, 1.0)) for h, w in _loop.big_shapes(rng)]


def _gen(rng, h, w, mode=None):
    if mode is None:
        mode = rng.random()
    pb = [[-1] * w for _ in range(h)]
    if mode < 0.08:
        return {"height": h, "width": w, "problem": pb}       # empty clue set
    # a random connected numbered area grown from a seed
    target = rng.randint(1, h * w)
    has = [[False] * w for _ in range(h)]
    y, x = rng.randrange(h), rng.randrange(w)
    has[y][x] = True
    area = [(y, x)]
    while len(area) < target:
        y, x = rng.choice(area)
        dy, dx = rng.choice(_DIRS)
        if 0 <= y + dy < h and 0 <= x + dx < w and not has[y + dy][x + dx]:
            has[y + dy][x + dx] = True
            area.append((y + dy, x + dx))
        elif rng.random() < 0.2:
            break
    keep = rng.choice([0.2, 0.4, 0.7, 1.0])
    for y, x in area:
        if rng.random() < keep:
            pb[y][x] = _sight(h, w, has, y, x)
    if mode < 0.35:                                            # perturb: arbitrary clue anywhere (0 and over-large values too)
        for _ in range(rng.randint(1, 2)):
            pb[rng.randrange(h)][rng.randrange(w)] = rng.choice([0, 0, 1, 1, 2, 3, h + w - 2, h + w, h + w + 1])
    return {"height": h, "width": w, "problem": pb}


def solve_args(problem):
    return (problem["height"], problem["width"], problem["problem"]), {}


def keys(problem, result):
    return list(result[0].data) + list(result[1].data)


def answer_space(problem):
    h, w = problem["height"], problem["width"]
    n = h * w
    if n <= 4:
        # every grid: each cell empty (canonical representation nums = 0) or a number 0..h+w+1
        opts = [(0, False)] + [(v, True) for v in range(h + w + 2)]
        for combo in itertools.product(opts, repeat=n):
            yield [c[0] for c in combo] + [c[1] for c in combo]
        return
    # larger boards: for every numbered/empty pattern the one grid whose numbers are the sight counts (a superset of the
    # rule-obeying grids by rule 2), plus one grid with a wrong number so that the checker's rule 2 is exercised
    for vals in itertools.product((False, True), repeat=n):
        has = [list(vals[y * w:(y + 1) * w]) for y in range(h)]
        nums = [_sight(h, w, has, y, x) if has[y][x] else 0 for y in range(h) for x in range(w)]
        yield nums + list(vals)
        if any(vals):
            i = vals.index(True)
            yield nums[:i] + [nums[i] + 1] + nums[i + 1:] + list(vals)


def rule_check(problem, answer):
    h, w, pb = problem["height"], problem["width"], problem["problem"]
    n = h * w
    nums = [answer[y * w:(y + 1) * w] for y in range(h)]
    has = [answer[n + y * w:n + (y + 1) * w] for y in range(h)]
    for y in range(h):
        for x in range(w):
            if pb[y][x] >= 0 and not (has[y][x] and nums[y][x] == pb[y][x]):
                return False
            if not has[y][x]:
                if nums[y][x] != 0:      # READING: representation of an empty cell
                    return False
                continue
            if nums[y][x] != _sight(h, w, has, y, x):
                return False
            if y + 1 < h and has[y + 1][x] and nums[y + 1][x] == nums[y][x]:
                return False
            if x + 1 < w and has[y][x + 1] and nums[y][x + 1] == nums[y][x]:
                return False
    cells = [(y, x) for y in range(h) for x in range(w) if has[y][x]]
    if not cells:
        return True          # READING
    seen = {cells[0]}
    todo = [cells[0]]
    while todo:
        y, x = todo.pop()
        for dy, dx in _DIRS:
            p = (y + dy, x + dx)
            if 0 <= p[0] < h and 0 <= p[1] < w and has[p[0]][p[1]] and p not in seen:
                seen.add(p)
                todo.append(p)
    return len(seen) == len(cells)


def lean_line(problem):
    rows = " ".join("(" + " ".join(str(v) for v in row) + ")" for row in problem["problem"])
    return "(puz_%s %d %d (%s))" % (NAME, problem["height"], problem["width"], rows)
