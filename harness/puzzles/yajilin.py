"""solve_yajilin(height, width, problem).

Published rules (Nikoli / puzz.link "Yajilin"): shade some cells and draw a single closed loop through the centres of
ALL remaining cells that hold no clue (moving horizontally or vertically, never branching, crossing or visiting a
cell twice).  Clue cells are never shaded and the loop does not pass through them; the loop does not pass through
shaded cells.  Shaded cells are not orthogonally adjacent to each other.  A clue (arrow + number) says how many shaded
cells lie in the direction of the arrow between the clue cell and the edge of the board.

Problem format of the module: `problem[y][x]` is a string: ".." empty cell; "??" a clue cell without information (puzz.link
allows clue cells whose number/arrow is hidden); "^n", "vn", "<n", ">n" (n a decimal number) an arrow clue pointing
up / down / left / right.  Answer = the height x (width-1) horizontal centre-to-centre segments, the (height-1) x
width vertical ones, then the height x width shaded-cell grid (row-major).

READING: library convention: "no line at all" also counts as a loop; then EVERY non-clue cell must be shaded (so
this only works when no two non-clue cells are adjacent, e.g. on a 1 x 1 board).
"""
import itertools

from . import _loop

NAME = "yajilin"
STATUS = "theorem"
THEOREMS = ["Cspuz.C11.Yajilin.program_iff_rules", "Cspuz.C11.Yajilin.total"]
LEAN_FILE = "C11_Yajilin"
LEAN_CMD = "puz_yajilin"

_SHAPES = [(1, 1), (1, 2), (2, 1), (1, 3), (3, 1), (1, 4), (4, 1), (2, 2), (2, 3), (3, 2), (2, 4), (4, 2), (3, 3), (3, 3), (3, 4), (4, 3)]


def _ray(h, w, y, x, d):
    if d == "^":
        return [(yy, x) for yy in range(0, y)]
    if d == "v":
        return [(yy, x) for yy in range(y + 1, h)]
    if d == "<":
        return [(y, xx) for xx in range(0, x)]
    if d == ">":
        return [(y, xx) for xx in range(x + 1, w)]
    return None


def gen_problem(rng, tier):
    h, w = rng.choice(_SHAPES)
    return _gen(rng, h, w)


def extra_program_problems(rng):
    """Larger boards for the program correspondence only (nothing is enumerated there): one non-square medium board and two
    with more than 256 cells (a tall and a wide one); shaded cells and arrow clues are read off
    a random loop (`_loop.random_loop`) that leaves a fifth to a third of the cells free."""
    return [_gen(rng, h, w, _loop.random_loop(rng, h, w, rng.choice([0.65, 0.8]))) for h, w in _loop.big_shapes(rng)]


def _gen(rng, h, w, a=None):
    pb = [[".."] * w for _ in range(h)]
    mode = rng.random() if a is None else 0.0
    if mode < 0.75:
        if a is None:
            a = rng.choice(_loop.single_loops(h, w))
        seen = _loop.trace_loop(_loop.active_edges(a, h, w))
        rest = [(y, x) for y in range(h) for x in range(w) if (y, x) not in seen]
        rng.shuffle(rest)
        black = set()
        clue = []
        for (y, x) in rest:
            if rng.random() < 0.5 and not any((y + dy, x + dx) in black for dy, dx in ((0, 1), (1, 0), (0, -1), (-1, 0))):
                black.add((y, x))
            else:
                clue.append((y, x))
        for (y, x) in clue:
            r = rng.random()
            if r < 0.2:
                pb[y][x] = "??"
            else:
                d = rng.choice("^v<>")
                n = sum(1 for c in _ray(h, w, y, x, d) if c in black)
                if rng.random() < 0.15:
                    n = rng.choice([0, 1, 2])
                pb[y][x] = f"{d}{n}"
    else:
        p = rng.choice([0.0, 0.15, 0.3])
        for y in range(h):
            for x in range(w):
                if rng.random() < p:
                    pb[y][x] = rng.choice(["??", "^0", "v0", "<0", ">0", "^1", "v1", "<1", ">1", "^2", ">2", "v10"])
    return {"height": h, "width": w, "problem": pb}


def solve_args(problem):
    return (problem["height"], problem["width"], problem["problem"]), {}


def keys(problem, result):
    return _loop.frame_keys(result[0]) + list(result[1].data)


def answer_space(problem):
    """Superset of the rule-obeying answers: line sets where every cell has 0 or 2 line ends, combined with every
    shading of the empty cells that are not touched by a line (a shaded or a clue cell is never on the loop)."""
    h, w, pb = problem["height"], problem["width"], problem["problem"]
    cells = [(y, x) for y in range(h) for x in range(w)]
    for a in _loop.loop_candidates(h, w, full_small=False):
        touched = set()
        for p, q in _loop.active_edges(a, h, w):
            touched.add(p)
            touched.add(q)
        free = [c for c in cells if c not in touched and pb[c[0]][c[1]] == ".."]
        for vals in itertools.product([False, True], repeat=len(free)):
            sh = dict(zip(free, vals))
            yield list(a) + [sh.get(c, False) for c in cells]


def rule_check(problem, answer):
    h, w, pb = problem["height"], problem["width"], problem["problem"]
    ne = _loop.n_edges(h, w)
    es = _loop.active_edges(answer[:ne], h, w)
    shaded = {(y, x) for y in range(h) for x in range(w) if answer[ne + y * w + x]}
    seen = _loop.trace_loop(es)
    if seen is None:
        return False
    for (y, x) in shaded:
        if (y + 1, x) in shaded or (y, x + 1) in shaded:
            return False
    for y in range(h):
        for x in range(w):
            c = pb[y][x]
            if c == "..":
                # a remaining (unshaded) empty cell is on the loop, a shaded one is not
                if ((y, x) in seen) == ((y, x) in shaded):
                    return False
            else:
                if (y, x) in seen or (y, x) in shaded:
                    return False
                ray = _ray(h, w, y, x, c[0])
                if c != "??" and ray is not None:
                    if sum(1 for q in ray if q in shaded) != int(c[1:]):
                        return False
    return True


def lean_line(problem):
    def enc(c):
        if c == "..":
            return "e"
        if c == "??":
            return "q"
        return "(" + {"^": "u", "v": "d", "<": "l", ">": "r"}.get(c[0], "o") + " " + str(int(c[1:])) + ")"
    return f"(puz_yajilin {problem['height']} {problem['width']} {_loop.grid_sx(problem['problem'], enc)})"


def classify(problem, description):
    return "raised" if "raised" in description else "mismatch"
