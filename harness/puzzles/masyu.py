"""solve_masyu(height, width, problem).

Published rules (Nikoli / puzz.link "Masyu"): draw a single closed loop through the centres of cells, moving
horizontally or vertically; it never branches, crosses itself or visits a cell twice.  The loop passes through ALL
circles.  At a BLACK circle the loop turns (90 degrees) and travels straight through the next cell on both sides (it
may not turn in either of the two neighbouring cells on the loop).  At a WHITE circle the loop goes straight through
and turns in at least one of the two neighbouring cells on the loop (the cell just before or just after).

Problem format of the module: `problem[y][x] == 1` white circle, `== 2` black circle, anything else: empty cell.
Answer = the height x (width-1) horizontal centre-to-centre segments followed by the (height-1) x width vertical ones.

READING: library convention: "no line at all" also counts as a loop (possible only on boards without circles).
"""
from . import _loop

NAME = "masyu"
STATUS = "theorem"
THEOREMS = ["Cspuz.C11.Masyu.program_iff_rules", "Cspuz.C11.Masyu.total"]
LEAN_FILE = "C11_Masyu"
LEAN_CMD = "puz_masyu"

_SHAPES = [(1, 1), (1, 3), (3, 1), (2, 2), (2, 3), (3, 2), (2, 4), (4, 2), (3, 3), (3, 4), (4, 3), (3, 4), (4, 3), (3, 3)]


def _is_turn(p, ns):
    (a, b) = ns
    return not (a[0] == b[0] or a[1] == b[1])


def _circle_ok(kind, p, adj):
    """Does the loop (adjacency `adj`) obey the circle of `kind` (1 white / 2 black) at point p?"""
    if p not in adj:
        return False
    ns = adj[p]
    if kind == 2:
        if not _is_turn(p, ns):
            return False
        # straight through both neighbouring cells on the loop
        return all(not _is_turn(q, adj[q]) for q in ns)
    if _is_turn(p, ns):
        return False
    return any(_is_turn(q, adj[q]) for q in ns)


def gen_problem(rng, tier):
    h, w = rng.choice(_SHAPES)
    return _gen(rng, h, w)


def extra_program_problems(rng):
    """Larger boards for the program correspondence only (nothing is enumerated there): one non-square medium board and two
    with more than 256 cells (a tall and a wide one); the circles are read off a random loop
    (`_loop.random_loop`)."""
    return [_gen(rng, h, w, _loop.random_loop(rng, h, w, rng.choice([0.3, 0.6]))) for h, w in _loop.big_shapes(rng)]


def _gen(rng, h, w, a=None):
    mode = rng.random() if a is None else 0.0
    pb = [[0] * w for _ in range(h)]
    if mode < 0.7:
        if a is None:
            a = rng.choice(_loop.single_loops(h, w))
        es = _loop.active_edges(a, h, w)
        adj = _loop.neighbours_on_loop(es)
        keep = rng.choice([0.2, 0.5, 1.0])
        for p in adj:
            for kind in (1, 2):
                if _circle_ok(kind, p, adj) and rng.random() < keep:
                    pb[p[0]][p[1]] = kind
        if rng.random() < 0.25:
            pb[rng.randrange(h)][rng.randrange(w)] = rng.choice([0, 1, 2])
    elif mode < 0.95:
        p = rng.choice([0.0, 0.15, 0.3])
        pb = [[rng.choice([1, 2]) if rng.random() < p else 0 for x in range(w)] for y in range(h)]
    else:
        pb = [[rng.choice([0, 0, 0, 1, 2, 3, -1]) for x in range(w)] for y in range(h)]
    return {"height": h, "width": w, "problem": pb}


def solve_args(problem):
    return (problem["height"], problem["width"], problem["problem"]), {}


def keys(problem, result):
    return _loop.frame_keys(result[0])


def answer_space(problem):
    return _loop.loop_candidates(problem["height"], problem["width"])


def rule_check(problem, answer):
    h, w, pb = problem["height"], problem["width"], problem["problem"]
    es = _loop.active_edges(answer, h, w)
    if _loop.trace_loop(es) is None:
        return False
    adj = _loop.neighbours_on_loop(es)
    for y in range(h):
        for x in range(w):
            if pb[y][x] in (1, 2) and not _circle_ok(pb[y][x], (y, x), adj):
                return False
    return True


def lean_line(problem):
    return f"(puz_masyu {problem['height']} {problem['width']} {_loop.grid_sx(problem['problem'])})"


def classify(problem, description):
    return "raised" if "raised" in description else "mismatch"
