"""solve_yinyang(height, width, problem).

Published rules (puzz.link "Yin-Yang"): place a black or a white stone in every cell so that
  1. all black stones are orthogonally connected, and all white stones are orthogonally connected;
  2. no 2x2 block of cells holds four stones of the same colour;
  3. the given stones keep their colour.
Problem format: problem[y][x] = 0 empty, 1 white stone, 2 black stone.  Answer: is_black[y][x] row-major.

READING: "all stones of one colour are connected" is read as vacuously true for a colour that does not occur at all
(e.g. the all-black 1xN board), which is what the module does (`active_vertices_connected` accepts the empty set).

The module posts more than the rules: two "auxiliary" constraints (no 2x2 block coloured like a checkerboard) and
"the colour changes at most twice around the outer ring of the board".  Both follow from rule 1 only by a planarity
(Jordan curve) argument; it is formalised in lean/CspuzModel/Proofs/C11YinyangCyc.lean (colour-boundary lattice graph:
a cycle in it is a closed cochain, hence by connectivity of both colours the whole boundary, so every lattice point and
the outside vertex have at most two boundary segments), for all boards including one-row / one-column ones.
"""
import itertools

NAME = "yinyang"
STATUS = "theorem"
THEOREMS = ["Cspuz.C11.Yinyang.program_iff_rules", "Cspuz.C11.Yinyang.total",
            "Cspuz.C11.Yinyang.auxiliary_constraints_implied"]
LEAN_FILE = "C11_Yinyang"
LEAN_CMD = "puz_yinyang"

_SHAPES = [(1, 1), (1, 2), (2, 1), (1, 3), (3, 1), (1, 5), (5, 1), (2, 2), (2, 3), (3, 2), (2, 4), (4, 2), (3, 3), (2, 5), (5, 2), (3, 4), (4, 3),
           (2, 6), (6, 2), (1, 8), (8, 1)]


def gen_problem(rng, tier):
    h, w = rng.choice(_SHAPES)
    return _gen(rng, h, w)


def extra_program_problems(rng):
    """Larger boards for the program correspondence only (nothing is enumerated there): one non-square medium board and two
    with more than 256 cells (a tall and a wide one), stones placed like on the small boards."""
    from . import _loop
    return [_gen(rng, h, w) for h, w in _loop.big_shapes(rng)]


def _gen(rng, h, w):
    pb = [[0] * w for _ in range(h)]
    mode = rng.random()
    if mode < 0.5:
        # stones read off a colouring that obeys the rules if one is found among a few random ones
        best = None
        for _ in range(40):
            g = [rng.random() < 0.5 for _ in range(h * w)]
            if rule_check({"height": h, "width": w, "problem": pb}, g):
                best = g
                break
        if best is None:
            best = [rng.random() < 0.5 for _ in range(h * w)]
        # keep = 1.0: the problem fixes every cell, so the solver's verdict is its verdict on that one colouring
        keep = rng.choice([0.1, 0.3, 0.6, 1.0])
        for y in range(h):
            for x in range(w):
                if rng.random() < keep:
                    pb[y][x] = 2 if best[y * w + x] else 1
        if rng.random() < 0.15:
            pb[rng.randrange(h)][rng.randrange(w)] = rng.choice([1, 2])
    else:
        dens = rng.choice([0.0, 0.15, 0.3, 0.5])
        for y in range(h):
            for x in range(w):
                if rng.random() < dens:
                    pb[y][x] = rng.choice([1, 2])
        if rng.random() < 0.05:
            pb[rng.randrange(h)][rng.randrange(w)] = 3   # not a stone for the module
    return {"height": h, "width": w, "problem": pb}


def solve_args(problem):
    return (problem["height"], problem["width"], problem["problem"]), {}


def keys(problem, result):
    return list(result[0].data)


def answer_space(problem):
    h, w = problem["height"], problem["width"]
    for vals in itertools.product([False, True], repeat=h * w):
        yield list(vals)


def _connected(h, w, member):
    cells = [(y, x) for y in range(h) for x in range(w) if member(y, x)]
    if not cells:
        return True     # READING: an absent colour is (vacuously) connected
    seen = {cells[0]}
    stack = [cells[0]]
    while stack:
        cy, cx = stack.pop()
        for ny, nx in ((cy - 1, cx), (cy + 1, cx), (cy, cx - 1), (cy, cx + 1)):
            if 0 <= ny < h and 0 <= nx < w and (ny, nx) not in seen and member(ny, nx):
                seen.add((ny, nx))
                stack.append((ny, nx))
    return len(seen) == len(cells)


def rule_check(problem, answer):
    h, w = problem["height"], problem["width"]
    pb = problem["problem"]
    black = [answer[y * w:(y + 1) * w] for y in range(h)]
    for y in range(h):
        for x in range(w):
            if pb[y][x] == 1 and black[y][x]:
                return False
            if pb[y][x] == 2 and not black[y][x]:
                return False
    for y in range(h - 1):
        for x in range(w - 1):
            four = {black[y][x], black[y][x + 1], black[y + 1][x], black[y + 1][x + 1]}
            if len(four) == 1:
                return False
    return _connected(h, w, lambda y, x: black[y][x]) and _connected(h, w, lambda y, x: not black[y][x])


def classify(problem, description):
    if "raised" in description:
        return "raises"
    return "line-board" if min(problem["height"], problem["width"]) == 1 else "mismatch"


def _table(t):
    return "(" + " ".join("(" + " ".join(str(v) for v in row) + ")" for row in t) + ")"


def lean_line(problem):
    return "(puz_yinyang %d %d %s)" % (problem["height"], problem["width"], _table(problem["problem"]))
