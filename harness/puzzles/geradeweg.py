"""solve_geradeweg(height, width, problem).

Published rules ("Geradeweg", e.g. puzsq / janko.at): draw a single closed loop through the centres of cells, moving
horizontally or vertically; it never branches, crosses itself or visits a cell twice.  The loop passes through every
numbered cell (it may or may not pass through empty cells).  A number gives the length (counted in cell-to-cell steps)
of the straight line segment(s) of the loop that pass through that cell: if the loop goes straight through the cell the
whole straight segment containing the cell has that length; if the loop turns in the cell, BOTH segments meeting there
have that length.

Problem format of the module: `problem[y][x] >= 1` is a number, anything else (the generator uses 0) an empty cell.
Answer = the height x (width-1) horizontal centre-to-centre segments followed by the (height-1) x width vertical ones.

READING: library convention: "no line at all" also counts as a loop (possible only on boards without numbers).
"""
from . import _loop

NAME = "geradeweg"
STATUS = "theorem"
THEOREMS = ["Cspuz.C11.Geradeweg.program_iff_rules", "Cspuz.C11.Geradeweg.total"]
LEAN_FILE = "C11_Geradeweg"
LEAN_CMD = "puz_geradeweg"

_SHAPES = [(1, 1), (1, 3), (3, 1), (2, 2), (2, 3), (3, 2), (2, 4), (4, 2), (3, 3), (3, 4), (4, 3), (3, 4), (4, 3), (3, 3)]


def _arm(p, d, eset):
    """Number of consecutive loop steps starting at p in direction d."""
    n = 0
    y, x = p
    while True:
        q = (y + d[0], x + d[1])
        if ((y, x), q) in eset or (q, (y, x)) in eset:
            n += 1
            y, x = q
        else:
            return n


def _number_at(p, eset):
    """The set of lengths of the straight segments through p (empty if the loop does not visit p)."""
    left = _arm(p, (0, -1), eset)
    right = _arm(p, (0, 1), eset)
    up = _arm(p, (-1, 0), eset)
    down = _arm(p, (1, 0), eset)
    out = set()
    if left + right > 0:
        out.add(left + right)
    if up + down > 0:
        out.add(up + down)
    return out


def gen_problem(rng, tier):
    h, w = rng.choice(_SHAPES)
    return _gen(rng, h, w)


def extra_program_problems(rng):
    """Larger boards for the program correspondence only (nothing is enumerated there): one non-square medium board and two
    with more than 256 cells (a tall and a wide one); the numbers are read off a random loop
    (`_loop.random_loop`), long straight segments included."""
    return [_gen(rng, h, w, _loop.random_loop(rng, h, w, rng.choice([0.3, 0.6]))) for h, w in _loop.big_shapes(rng)]


def _gen(rng, h, w, a=None):
    mode = rng.random() if a is None else 0.0
    pb = [[0] * w for _ in range(h)]
    if mode < 0.7:
        if a is None:
            a = rng.choice(_loop.single_loops(h, w))
        eset = set(_loop.active_edges(a, h, w))
        keep = rng.choice([0.2, 0.5, 1.0])
        for y in range(h):
            for x in range(w):
                ls = _number_at((y, x), eset)
                if len(ls) == 1 and rng.random() < keep:
                    pb[y][x] = next(iter(ls))
        if rng.random() < 0.25:
            pb[rng.randrange(h)][rng.randrange(w)] = rng.choice([0, 1, 2, 3])
    elif mode < 0.95:
        p = rng.choice([0.0, 0.15, 0.3])
        pb = [[rng.choice([1, 1, 2, 2, 3]) if rng.random() < p else 0 for x in range(w)] for y in range(h)]
    else:
        pb = [[rng.choice([0, 0, 0, 1, 2, 5, -1]) for x in range(w)] for y in range(h)]
    return {"height": h, "width": w, "problem": pb}


def solve_args(problem):
    return (problem["height"], problem["width"], problem["problem"]), {}


def keys(problem, result):
    return _loop.frame_keys(result[0])


def answer_space(problem):
    return _loop.loop_candidates(problem["height"], problem["width"])


def rule_check(problem, answer):
    h, w, pb = problem["height"], problem["width"], problem["problem"]
    es = _loop.active_edges(answer, h, w)
    seen = _loop.trace_loop(es)
    if seen is None:
        return False
    eset = set(es)
    for y in range(h):
        for x in range(w):
            if pb[y][x] >= 1:
                if (y, x) not in seen:
                    return False
                if _number_at((y, x), eset) != {pb[y][x]}:
                    return False
    return True


def lean_line(problem):
    return f"(puz_geradeweg {problem['height']} {problem['width']} {_loop.grid_sx(problem['problem'])})"


def classify(problem, description):
    return "raised" if "raised" in description else "mismatch"
