"""solve_norinori(height, width, blocks).

Published rules (Norinori, Nikoli / puzz.link):
  1. Shade some cells of the board.
  2. Every region (room) contains exactly two shaded cells.
  3. Every shaded cell is orthogonally adjacent to exactly one other shaded cell, i.e. the shaded cells form dominoes
     (1 x 2 blocks; a domino may straddle a region border), and dominoes do not touch each other by a side.

Problem format: `blocks` is the list of regions, each a list of cells `(y, x)`; the regions partition the board.
The answer is the Boolean grid `is_black`.
Well-formed: every cell of the height x width board lies in exactly one region; regions are non-empty.
"""
import itertools

NAME = "norinori"
STATUS = "theorem"
THEOREMS = ["Cspuz.C11.Norinori.program_iff_rules", "Cspuz.C11.Norinori.total"]
LEAN_FILE = "C11_Norinori"
LEAN_CMD = "puz_norinori"


def _partition(rng, h, w, nrooms, connected=True):
    cells = [(y, x) for y in range(h) for x in range(w)]
    if not connected:
        ids = [rng.randrange(nrooms) for _ in cells]
        rooms = {}
        for c, i in zip(cells, ids):
            rooms.setdefault(i, []).append(c)
        return list(rooms.values())
    seeds = rng.sample(cells, nrooms)
    bid = {c: i for i, c in enumerate(seeds)}
    while len(bid) < len(cells):
        cand = []
        for (y, x), i in bid.items():
            for dy, dx in ((-1, 0), (1, 0), (0, -1), (0, 1)):
                c = (y + dy, x + dx)
                if 0 <= c[0] < h and 0 <= c[1] < w and c not in bid:
                    cand.append((c, i))
        cand.sort()
        c, i = rng.choice(cand)
        bid[c] = i
    rooms = [[] for _ in range(nrooms)]
    for c in cells:
        rooms[bid[c]].append(c)
    return rooms


SHAPES_QUICK = [(1, 1), (1, 2), (2, 1), (1, 4), (4, 1), (2, 2), (2, 3), (3, 2), (3, 3), (2, 4), (4, 2)]
SHAPES_THOROUGH = SHAPES_QUICK + [(3, 4), (4, 3), (2, 5), (5, 2), (1, 6), (6, 1), (2, 6), (6, 2), (1, 8), (8, 1)]


def gen_problem(rng, tier):
    h, w = rng.choice(SHAPES_QUICK if tier == "quick" else SHAPES_THOROUGH)
    r = rng.random()
    if r < 0.15:
        nrooms = 1
    else:
        nrooms = rng.randint(1, max(1, h * w // 2))
    if rng.random() < 0.05:
        nrooms = h * w                         # single-cell regions: never solvable
    nrooms = min(nrooms, h * w)
    return _gen(rng, h, w, nrooms)


def extra_program_problems(rng):
    """Larger boards for the program correspondence only (nothing is enumerated there): one non-square medium board and two
    with more than 256 cells (a tall and a wide one), rooms of 3 to 8 cells on average."""
    from . import _loop
    return [_gen(rng, h, w, rng.randint(h * w // 8, h * w // 3)) for h, w in _loop.big_shapes(rng)]


def _gen(rng, h, w, nrooms):
    rooms = _partition(rng, h, w, nrooms, connected=rng.random() < 0.8)
    for room in rooms:
        if rng.random() < 0.5:
            rng.shuffle(room)
    rng.shuffle(rooms)
    return {"height": h, "width": w, "blocks": [[[y, x] for (y, x) in room] for room in rooms]}


def solve_args(problem):
    return (problem["height"], problem["width"], [[(y, x) for y, x in room] for room in problem["blocks"]]), {}


def keys(problem, result):
    return list(result[0].data)


def answer_space(problem):
    for vals in itertools.product([False, True], repeat=problem["height"] * problem["width"]):
        yield list(vals)


def rule_check(problem, answer):
    h, w = problem["height"], problem["width"]
    shaded = {(y, x) for y in range(h) for x in range(w) if answer[y * w + x]}
    # rule 2
    for room in problem["blocks"]:
        if sum(1 for y, x in room if (y, x) in shaded) != 2:
            return False
    # rule 3: the orthogonally connected groups of shaded cells are exactly dominoes (flood fill)
    seen = set()
    for c in sorted(shaded):
        if c in seen:
            continue
        comp = [c]
        seen.add(c)
        for (y, x) in comp:
            for dy, dx in ((-1, 0), (1, 0), (0, -1), (0, 1)):
                d = (y + dy, x + dx)
                if d in shaded and d not in seen:
                    seen.add(d)
                    comp.append(d)
        if len(comp) != 2:
            return False
    return True


def classify(problem, description):
    if "raised" in description:
        return "exception"
    return "%dx%d" % (problem["height"], problem["width"])


def lean_line(problem):
    rooms = " ".join("(" + " ".join("(%d %d)" % (y, x) for y, x in room) + ")" for room in problem["blocks"])
    return "(puz_norinori %d %d (%s))" % (problem["height"], problem["width"], rooms)
