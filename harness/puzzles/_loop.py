"""Shared plain-Python helpers for the loop puzzles (slitherlink, simpleloop, masyu, geradeweg, yajilin).

A "lattice" is an H x W array of points; an answer lists the truth values of its edges in the library's canonical
frame order: horizontal edges row-major (H rows of W-1: edge (y,x)-(y,x+1)), then vertical edges row-major
(H-1 rows of W: edge (y,x)-(y+1,x)).  Nothing here looks at the solver's constraints.
"""
import itertools


def n_edges(H, W):
    return H * max(W - 1, 0) + max(H - 1, 0) * W


def edge_list(H, W):
    """Canonical order of the lattice edges as pairs of points."""
    es = []
    for y in range(H):
        for x in range(W - 1):
            es.append(((y, x), (y, x + 1)))
    for y in range(H - 1):
        for x in range(W):
            es.append(((y, x), (y + 1, x)))
    return es


def active_edges(answer, H, W):
    return [e for e, v in zip(edge_list(H, W), answer) if v]


def trace_loop(edges):
    """`edges`: list of point pairs.  Returns the set of visited points if the edges are EMPTY (library convention: no
    line at all counts as a loop) or form exactly ONE closed loop that never branches, crosses or revisits a point;
    otherwise None.  Done by walking along the line from an arbitrary edge until the start is reached again."""
    if not edges:
        return set()
    adj = {}
    for p, q in edges:
        adj.setdefault(p, []).append(q)
        adj.setdefault(q, []).append(p)
    for p, ns in adj.items():
        if len(ns) != 2:
            return None
    start = edges[0][0]
    prev, cur = start, adj[start][0]
    steps = 1
    seen = {start}
    while cur != start:
        if cur in seen:
            return None
        seen.add(cur)
        a, b = adj[cur]
        nxt = b if a == prev else a
        prev, cur = cur, nxt
        steps += 1
    if steps != len(edges):
        return None  # a second loop exists elsewhere
    return seen


def neighbours_on_loop(edges):
    adj = {}
    for p, q in edges:
        adj.setdefault(p, []).append(q)
        adj.setdefault(q, []).append(p)
    return adj


def loop_candidates(H, W, full_small=True):
    """A superset of all single loops of the lattice, as flat answers: every subset of edges if there are at most 12
    edges, else every subset in which each point has 0 or 2 line ends (a point of a loop has exactly two; branching or
    dead ends are never a loop)."""
    E = n_edges(H, W)
    if E <= 12 and full_small:
        for vals in itertools.product([False, True], repeat=E):
            yield list(vals)
        return
    hor = [[False] * max(W - 1, 0) for _ in range(H)]
    ver = [[False] * W for _ in range(max(H - 1, 0))]
    out = []

    def rec(k):
        if k == H * W:
            out.append([v for row in hor for v in row] + [v for row in ver for v in row])
            return
        y, x = divmod(k, W)
        inc = (1 if x > 0 and hor[y][x - 1] else 0) + (1 if y > 0 and ver[y - 1][x] else 0)
        can_r = x < W - 1
        can_d = y < H - 1
        for r in ([False, True] if can_r else [False]):
            for d in ([False, True] if can_d else [False]):
                if inc + r + d in (0, 2):
                    if can_r:
                        hor[y][x] = r
                    if can_d:
                        ver[y][x] = d
                    rec(k + 1)
        if can_r:
            hor[y][x] = False
        if can_d:
            ver[y][x] = False
    rec(0)
    for a in out:
        yield a


_single_cache = {}


def single_loops(H, W):
    """All answers that are one loop or empty (used by the instance generators only, to derive satisfiable clue sets)."""
    key = (H, W)
    if key not in _single_cache:
        _single_cache[key] = [a for a in loop_candidates(H, W) if trace_loop(active_edges(a, H, W)) is not None]
    return _single_cache[key]


def frame_keys(frame):
    return list(frame.horizontal.data) + list(frame.vertical.data)


def grid_sx(rows, f=str):
    return "(" + " ".join("(" + " ".join(f(v) for v in row) + ")" for row in rows) + ")"


# ---------------------------------------------------------------------------------------------------------------------
# larger boards (program correspondence only: nothing is enumerated there)

MEDIUM_SHAPES = [(6, 9), (9, 6)]
BIG_TALL = [(17, 16), (18, 15)]                              # more than 256 cells
BIG_WIDE = [(16, 17), (15, 18)]


# set (to a list of shapes) by c11.guided_search only: `extra_program_problems` of every module then yields ONE board of a shape
# between the enumerable ones and the large ones
GUIDED_SHAPES = None
GUIDED_CHOICES = [(4, 4), (4, 5), (5, 4), (5, 5), (4, 6), (6, 4), (3, 5), (5, 3), (3, 6), (6, 3), (3, 7), (7, 3), (5, 6), (6, 5), (6, 6), (5, 7), (7, 5), (7, 7)]


def big_shapes(rng, n_big=2, tall=None, wide=None):
    """Shapes for `extra_program_problems`: one clearly non-square medium board, then `n_big` boards with more than 256
    cells (a tall one, then a wide one; 17 x 16 and 16 x 17 have the same number of cells).  `tall` / `wide`: the module's
    own lists of large shapes when its Lean model is too slow for > 256 cells."""
    if GUIDED_SHAPES:
        return [rng.choice(GUIDED_SHAPES)]
    out = [rng.choice(MEDIUM_SHAPES)]
    big = [rng.choice(tall or BIG_TALL), rng.choice(wide or BIG_WIDE)]
    if n_big < 2:
        big = [rng.choice(big)]
    return out + big


def random_loop(rng, H, W, fill=0.5, thin=0.9):
    """A random single loop of the H x W lattice of points as a flat answer (canonical edge order), the boundary of a
    randomly grown set of faces: a face is added only if the boundary is still ONE loop (checked by tracing); a face that
    touches two or more faces of the set is skipped with probability `thin`, so that the set is tree-like and its boundary
    a long winding line.  `fill`: share of the faces aimed at.  All False if the lattice has no face."""
    hor = [[False] * max(W - 1, 0) for _ in range(H)]
    ver = [[False] * W for _ in range(max(H - 1, 0))]
    faces = [(fy, fx) for fy in range(H - 1) for fx in range(W - 1)]
    if faces:
        def toggle(f):
            fy, fx = f
            hor[fy][fx] = not hor[fy][fx]
            hor[fy + 1][fx] = not hor[fy + 1][fx]
            ver[fy][fx] = not ver[fy][fx]
            ver[fy][fx + 1] = not ver[fy][fx + 1]

        def edges():
            return ([((y, x), (y, x + 1)) for y in range(H) for x in range(W - 1) if hor[y][x]]
                    + [((y, x), (y + 1, x)) for y in range(H - 1) for x in range(W) if ver[y][x]])
        start = rng.choice(faces)
        region = {start}
        toggle(start)
        target = max(1, int(len(faces) * fill))
        members = [start]
        for _ in range(25 * target):
            if len(region) >= target:
                break
            fy, fx = rng.choice(members)
            dy, dx = rng.choice(((1, 0), (-1, 0), (0, 1), (0, -1)))
            f = (fy + dy, fx + dx)
            if f in region or not (0 <= f[0] < H - 1 and 0 <= f[1] < W - 1):
                continue
            touching = sum(1 for ey, ex in ((1, 0), (-1, 0), (0, 1), (0, -1)) if (f[0] + ey, f[1] + ex) in region)
            if touching >= 2 and rng.random() < thin:
                continue
            toggle(f)
            if trace_loop(edges()) is None:
                toggle(f)
            else:
                region.add(f)
                members.append(f)
    return [v for row in hor for v in row] + [v for row in ver for v in row]
