"""Shared plain-Python helpers for the loop puzzles (slitherlink, simpleloop, masyu, geradeweg, yajilin).

A "lattice" is an H x W array of points; an answer lists the truth values of its edges in the library's canonical
frame order: horizontal edges row-major (H rows of W-1: edge (y,x)-(y,x+1)), then vertical edges row-major
(H-1 rows of W: edge (y,x)-(y+1,x)).  Nothing here looks at the solver's constraints.
"""
import itertools


def n_edges(H, W):
    return H * max(W - 1, 0) + max(H - 1, 0) * W


def edge_list(H, W):
    """Canonical order of the lattice edges as pairs of points."""
    es = []
    for y in range(H):
        for x in range(W - 1):
            es.append(((y, x), (y, x + 1)))
    for y in range(H - 1):
        for x in range(W):
            es.append(((y, x), (y + 1, x)))
    return es


def active_edges(answer, H, W):
    return [e for e, v in zip(edge_list(H, W), answer) if v]


def trace_loop(edges):
    """`edges`: list of point pairs.  Returns the set of visited points if the edges are EMPTY (library convention: no
    line at all counts as a loop) or form exactly ONE closed loop that never branches, crosses or revisits a point;
    otherwise None.  Done by walking along the line from an arbitrary edge until the start is reached again."""
    if not edges:
        return set()
    adj = {}
    for p, q in edges:
        adj.setdefault(p, []).append(q)
        adj.setdefault(q, []).append(p)
    for p, ns in adj.items():
        if len(ns) != 2:
            return None
    start = edges[0][0]
    prev, cur = start, adj[start][0]
    steps = 1
    seen = {start}
    while cur != start:
        if cur in seen:
            return None
        seen.add(cur)
        a, b = adj[cur]
        nxt = b if a == prev else a
        prev, cur = cur, nxt
        steps += 1
    if steps != len(edges):
        return None  # a second loop exists elsewhere
    return seen


def neighbours_on_loop(edges):
    adj = {}
    for p, q in edges:
        adj.setdefault(p, []).append(q)
        adj.setdefault(q, []).append(p)
    return adj


def loop_candidates(H, W, full_small=True):
    """A superset of all single loops of the lattice, as flat answers: every subset of edges if there are at most 12
    edges, else every subset in which each point has 0 or 2 line ends (a point of a loop has exactly two; branching or
    dead ends are never a loop)."""
    E = n_edges(H, W)
    if E <= 12 and full_small:
        for vals in itertools.product([False, True], repeat=E):
            yield list(vals)
        return
    hor = [[False] * max(W - 1, 0) for _ in range(H)]
    ver = [[False] * W for _ in range(max(H - 1, 0))]
    out = []

    def rec(k):
        if k == H * W:
            out.append([v for row in hor for v in row] + [v for row in ver for v in row])
            return
        y, x = divmod(k, W)
        inc = (1 if x > 0 and hor[y][x - 1] else 0) + (1 if y > 0 and ver[y - 1][x] else 0)
        can_r = x < W - 1
        can_d = y < H - 1
        for r in ([False, True] if can_r else [False]):
            for d in ([False, True] if can_d else [False]):
                if inc + r + d in (0, 2):
                    if can_r:
                        hor[y][x] = r
                    if can_d:
                        ver[y][x] = d
                    rec(k + 1)
        if can_r:
            hor[y][x] = False
        if can_d:
            ver[y][x] = False
    rec(0)
    for a in out:
        yield a


_single_cache = {}


def single_loops(H, W):
    """All answers that are one loop or empty (used by the instance generators only, to derive satisfiable clue sets)."""
    key = (H, W)
    if key not in _single_cache:
        _single_cache[key] = [a for a in loop_candidates(H, W) if trace_loop(active_edges(a, H, W)) is not None]
    return _single_cache[key]


def frame_keys(frame):
    return list(frame.horizontal.data) + list(frame.vertical.data)


def grid_sx(rows, f=str):
    return "(" + " ".join("(" + " ".join(f(v) for v in row) + ")" for row in rows) + ")"
