"""solve_compass(height, width, problem).

Published rules (puzz.link "Compass"): divide the board into regions (orthogonally connected groups of cells) so that
every cell belongs to exactly one region and every region contains exactly one compass.  A number in the upper /
lower / left / right sector of a compass tells how many cells of the compass's region lie in the rows above / in the
rows below / in the columns to the left / in the columns to the right of the compass cell (whole half-planes, not
only the compass's own row or column).  A sector without a number says nothing.

Problem format: list of (y, x, up, left, down, right), -1 (any negative) = no number.  Answer: division[y][x] row-major,
division = index (in the problem list) of the compass whose region contains the cell.

WELL-FORMED: at least one compass (with none, `solve_compass` raises ValueError from `int_array(.., 0, -1)`; a Compass
puzzle without compass is not a puzzle; not generated).  Two compasses on one cell make the instance unsatisfiable
both by the rules (the cell would lie in two regions) and for the module.
"""
import itertools

NAME = "compass"
STATUS = "theorem"
THEOREMS = ["Cspuz.C11.Compass.program_iff_rules", "Cspuz.C11.Compass.total"]
LEAN_FILE = "C11_Compass"
LEAN_CMD = "puz_compass"

# (h, w, max number of compasses) such that k ** (h*w) stays small
_SHAPES = [(1, 1, 2), (1, 2, 3), (2, 1, 3), (1, 3, 4), (3, 1, 4), (1, 4, 4), (4, 1, 4), (2, 2, 4), (1, 5, 4), (5, 1, 4), (2, 3, 4), (3, 2, 4),
           (2, 4, 3), (4, 2, 3), (3, 3, 2), (2, 5, 2), (5, 2, 2), (3, 4, 2), (4, 3, 2), (2, 6, 2), (6, 2, 2), (1, 7, 3), (7, 1, 3)]


def _region_counts(region, y, x):
    return (sum(1 for (cy, cx) in region if cy < y), sum(1 for (cy, cx) in region if cx < x),
            sum(1 for (cy, cx) in region if cy > y), sum(1 for (cy, cx) in region if cx > x))


def gen_problem(rng, tier):
    h, w, kmax = rng.choice(_SHAPES)
    k = rng.randint(1, kmax)
    return _gen(rng, h, w, k)


def extra_program_problems(rng):
    """Larger boards for the program correspondence only (nothing is enumerated there): one non-square medium board and two
    with more than 256 cells (a tall and a wide one); one compass per 8 to 16 cells."""
    from . import _loop
    return [_gen(rng, h, w, rng.randint(h * w // 16, h * w // 8)) for h, w in _loop.big_shapes(rng)]


def _gen(rng, h, w, k):
    cells = [(y, x) for y in range(h) for x in range(w)]
    rng.shuffle(cells)
    if rng.random() < 0.3:
        cells.sort(key=lambda c: -((c[0] in (0, h - 1)) + (c[1] in (0, w - 1))))
    pos = [cells[i % len(cells)] for i in range(k)]          # k > h*w gives duplicate positions (unsatisfiable)
    if rng.random() < 0.04 and k >= 2:
        pos[1] = pos[0]
    mode = rng.random()
    clues = []
    if mode < 0.5:
        # numbers read off a random division grown from the compasses (often satisfiable)
        owner = {p: i for i, p in enumerate(pos)}
        frontier = list(owner)
        while len(owner) < h * w and frontier:
            cy, cx = rng.choice(frontier)
            nb = [(cy + dy, cx + dx) for dy, dx in ((1, 0), (-1, 0), (0, 1), (0, -1))
                  if 0 <= cy + dy < h and 0 <= cx + dx < w and (cy + dy, cx + dx) not in owner]
            if not nb:
                frontier.remove((cy, cx))
                continue
            c = rng.choice(nb)
            owner[c] = owner[(cy, cx)]
            frontier.append(c)
        show = rng.choice([0.0, 0.3, 0.6, 1.0])
        for i, (y, x) in enumerate(pos):
            region = [c for c, o in owner.items() if o == i]
            cnt = _region_counts(region, y, x)
            clues.append([y, x] + [c if rng.random() < show else -1 for c in cnt])
        if rng.random() < 0.2:
            i = rng.randrange(k)
            clues[i][rng.randint(2, 5)] = rng.randint(0, 3)
    else:
        dens = rng.choice([0.0, 0.25, 0.5])
        for (y, x) in pos:
            clues.append([y, x] + [rng.randint(0, max(1, (h * w) // 2)) if rng.random() < dens else -1 for _ in range(4)])
    return {"height": h, "width": w, "problem": clues}


def solve_args(problem):
    return (problem["height"], problem["width"], [tuple(c) for c in problem["problem"]]), {}


def keys(problem, result):
    return list(result[0].data)


def answer_space(problem):
    h, w = problem["height"], problem["width"]
    k = len(problem["problem"])
    for vals in itertools.product(range(k), repeat=h * w):
        yield list(vals)


def _connected(cells):
    cells = set(cells)
    if not cells:
        return False
    start = next(iter(cells))
    seen = {start}
    stack = [start]
    while stack:
        cy, cx = stack.pop()
        for c in ((cy - 1, cx), (cy + 1, cx), (cy, cx - 1), (cy, cx + 1)):
            if c in cells and c not in seen:
                seen.add(c)
                stack.append(c)
    return len(seen) == len(cells)


def rule_check(problem, answer):
    h, w = problem["height"], problem["width"]
    clues = problem["problem"]
    for i, (y, x, up, lf, dw, rg) in enumerate(clues):
        region = [(cy, cx) for cy in range(h) for cx in range(w) if answer[cy * w + cx] == i]
        # the region of compass i is a connected group of cells containing compass i
        if (y, x) not in region or not _connected(region):
            return False
        cu, cl, cd, cr = _region_counts(region, y, x)
        if (up >= 0 and cu != up) or (lf >= 0 and cl != lf) or (dw >= 0 and cd != dw) or (rg >= 0 and cr != rg):
            return False
    # every cell belongs to the region of some compass
    return all(0 <= v < len(clues) for v in answer)


def classify(problem, description):
    if "raised" in description:
        return "raises"
    return "mismatch"


def _table(t):
    return "(" + " ".join("(" + " ".join(str(v) for v in row) + ")" for row in t) + ")"


def lean_line(problem):
    return "(puz_compass %d %d %s)" % (problem["height"], problem["width"], _table(problem["problem"]))
