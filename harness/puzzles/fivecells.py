"""solve_fivecells(height, width, problem).

Published rules (puzz.link "FiveCells"): divide the board (all cells that are not blocked out) into regions of exactly
five orthogonally connected cells each.  A number in a cell tells how many of the four sides of that cell are region
borders; the outer boundary of the board -- and likewise a side facing a blocked-out cell -- counts as a border.

Problem format: problem[y][x] <= -2 blocked-out cell, -1 empty cell, >= 0 number.  Answer: one flag per pair of
edge-adjacent board cells, in the order of the module's graph (for every board cell in row-major order: first the pair
with the cell below, then the pair with the cell to the right), flag = "this side is a region border".  A flag vector
is the border set of a division iff the groups of cells connected through unflagged sides have all their internal
sides unflagged (a flagged side inside one group would be a border that separates nothing).

WELL-FORMED: at least one board cell (with none, `solve_fivecells` raises ValueError from `int_array(0, 0, -1)`;
not generated).
"""
import itertools

NAME = "fivecells"
STATUS = "theorem"
THEOREMS = ["Cspuz.C11.Fivecells.program_iff_rules", "Cspuz.C11.Fivecells.total",
            "Cspuz.C11.Fivecells.invalid_sound"]
LEAN_FILE = "C11_Fivecells"
LEAN_CMD = "puz_fivecells"

_SHAPES = [(1, 5), (5, 1), (2, 5), (5, 2), (2, 3), (3, 2), (3, 3), (3, 4), (4, 3), (2, 6), (6, 2), (1, 4), (1, 6), (4, 1), (2, 2), (1, 1), (1, 10),
           (3, 5), (5, 3), (4, 4)]
_MAX_EDGES = 13


def _board(problem):
    h, w = problem["height"], problem["width"]
    pb = problem["problem"]
    cells = [(y, x) for y in range(h) for x in range(w) if pb[y][x] >= -1]
    cs = set(cells)
    pairs = []
    for (y, x) in cells:
        if (y + 1, x) in cs:
            pairs.append(((y, x), (y + 1, x)))
        if (y, x + 1) in cs:
            pairs.append(((y, x), (y, x + 1)))
    return cells, pairs


def gen_problem(rng, tier):
    while True:
        h, w = rng.choice(_SHAPES)
        n = h * w
        pb = [[-1] * w for _ in range(h)]
        # block out cells: preferably so that a multiple of five remains
        r = rng.random()
        if r < 0.75:
            nblock = n % 5 if n > 5 or n % 5 == 0 else rng.randint(0, n - 1)
            if n >= 10 and rng.random() < 0.3:
                nblock += 5
        else:
            nblock = rng.randint(0, n - 1)
        nblock = min(nblock, n - 1)
        cells = [(y, x) for y in range(h) for x in range(w)]
        rng.shuffle(cells)
        if rng.random() < 0.5:
            cells.sort(key=lambda c: -((c[0] in (0, h - 1)) + (c[1] in (0, w - 1))))
        for (y, x) in cells[:nblock]:
            pb[y][x] = -2 if rng.random() < 0.9 else -3
        out = {"height": h, "width": w, "problem": pb}
        board, pairs = _board(out)
        if len(pairs) <= _MAX_EDGES:
            break
    mode = rng.random()
    if mode < 0.5 and len(board) % 5 == 0:
        # numbers read off a random division into pentominoes if one is found quickly
        sols = []
        for flags in _border_sets(board, pairs):
            if _division_ok(board, pairs, flags):
                sols.append(flags)
                if len(sols) >= 6:
                    break
        if sols:
            flags = rng.choice(sols)
            show = rng.choice([0.0, 0.2, 0.5, 1.0])
            for (y, x) in board:
                if rng.random() < show:
                    pb[y][x] = _borders_of(out, board, pairs, flags, y, x)
            if rng.random() < 0.2:
                y, x = rng.choice(board)
                pb[y][x] = rng.randint(0, 4)
            return out
    dens = rng.choice([0.0, 0.15, 0.3])
    for (y, x) in board:
        if rng.random() < dens:
            pb[y][x] = rng.choice([0, 1, 2, 2, 3, 3, 4, 5])
    return out


def _grown_blocks(rng, h, w, cells, max_size):
    """Random division of `cells` into orthogonally connected blocks of at most `max_size` cells (grown one after the other
    from a random free cell); returns {cell: block index}."""
    free = set(cells)
    owner = {}
    order = list(cells)
    rng.shuffle(order)
    k = 0
    for c in order:
        if c not in free:
            continue
        size = rng.randint(1, max_size)
        block = [c]
        free.discard(c)
        while len(block) < size:
            nb = [(y + dy, x + dx) for (y, x) in block for dy, dx in ((1, 0), (-1, 0), (0, 1), (0, -1)) if (y + dy, x + dx) in free]
            if not nb:
                break
            q = rng.choice(nb)
            free.discard(q)
            block.append(q)
        for q in block:
            owner[q] = k
        k += 1
    return owner


def extra_program_problems(rng):
    """Larger boards for the program correspondence only (nothing is enumerated there): one non-square medium board and two
    with more than 256 cells (a tall and a wide one).  Cells are blocked out (mostly on the rim, as on the small boards) so
    that a multiple of five remains; the numbers are read off a random division into connected regions of at most five
    cells."""
    from . import _loop
    return [_gen_large(rng, h, w) for h, w in _loop.big_shapes(rng)]


def _gen_large(rng, h, w):
    n = h * w
    pb = [[-1] * w for _ in range(h)]
    nblock = n % 5 + 5 * rng.randint(0, n // 40)
    cells = [(y, x) for y in range(h) for x in range(w)]
    rng.shuffle(cells)
    if rng.random() < 0.5:
        cells.sort(key=lambda c: -((c[0] in (0, h - 1)) + (c[1] in (0, w - 1))))
    for (y, x) in cells[:nblock]:
        pb[y][x] = -2 if rng.random() < 0.9 else -3
    out = {"height": h, "width": w, "problem": pb}
    board, pairs = _board(out)
    owner = _grown_blocks(rng, h, w, board, 5)
    flags = [owner[a] != owner[b] for a, b in pairs]
    show = rng.choice([0.15, 0.3, 0.6])
    flag = {}
    for (a, b), f in zip(pairs, flags):
        flag[(a, b)] = flag[(b, a)] = f
    for (y, x) in board:
        if rng.random() < show:
            pb[y][x] = sum(1 for c in ((y - 1, x), (y + 1, x), (y, x - 1), (y, x + 1)) if flag.get(((y, x), c), True))
    for _ in range(rng.randint(0, 2)):
        # an arbitrary number, but not below the count of sides that are borders anyway (the module answers such an instance
        # without posting anything: covered by the small boards)
        y, x = rng.choice(board)
        fixed = sum(1 for c in ((y - 1, x), (y + 1, x), (y, x - 1), (y, x + 1)) if ((y, x), c) not in flag)
        pb[y][x] = rng.randint(fixed, 5)
    return out


def solve_args(problem):
    return (problem["height"], problem["width"], problem["problem"]), {}


def keys(problem, result):
    return list(result[0].data)


def _border_sets(board, pairs):
    return itertools.product([False, True], repeat=len(pairs))


def answer_space(problem):
    board, pairs = _board(problem)
    for flags in _border_sets(board, pairs):
        yield list(flags)


def _group_of(board, pairs, flags):
    nb = {c: [] for c in board}
    for (a, b), f in zip(pairs, flags):
        if not f:
            nb[a].append(b)
            nb[b].append(a)
    group = {}
    for c in board:
        if c in group:
            continue
        group[c] = c
        stack = [c]
        while stack:
            a = stack.pop()
            for b in nb[a]:
                if b not in group:
                    group[b] = c
                    stack.append(b)
    return group


def _division_ok(board, pairs, flags):
    group = _group_of(board, pairs, flags)
    # a flagged side must separate two different regions
    for (a, b), f in zip(pairs, flags):
        if f and group[a] == group[b]:
            return False
    size = {}
    for c in board:
        size[group[c]] = size.get(group[c], 0) + 1
    return all(s == 5 for s in size.values())


def _borders_of(problem, board, pairs, flags, y, x):
    flag = {}
    for (a, b), f in zip(pairs, flags):
        flag[(a, b)] = f
        flag[(b, a)] = f
    cnt = 0
    for c in ((y - 1, x), (y + 1, x), (y, x - 1), (y, x + 1)):
        if ((y, x), c) in flag:
            cnt += 1 if flag[((y, x), c)] else 0
        else:
            cnt += 1        # outer boundary or blocked-out neighbour
    return cnt


def rule_check(problem, answer):
    board, pairs = _board(problem)
    if not _division_ok(board, pairs, answer):
        return False
    pb = problem["problem"]
    for (y, x) in board:
        if pb[y][x] >= 0 and _borders_of(problem, board, pairs, answer, y, x) != pb[y][x]:
            return False
    return True


def classify(problem, description):
    if "raised" in description:
        return "raises"
    return "mismatch"


def _table(t):
    return "(" + " ".join("(" + " ".join(str(v) for v in row) + ")" for row in t) + ")"


def lean_line(problem):
    return "(puz_fivecells %d %d %s)" % (problem["height"], problem["width"], _table(problem["problem"]))
