"""solve_slitherlink(height, width, problem).

Published rules (Nikoli / puzz.link "Slitherlink"): draw a single closed loop along the dotted grid lines (the borders
of the cells; the lattice points are the corners of the cells).  The loop never branches, crosses itself or touches
itself.  A number in a cell says how many of the four sides of that cell are part of the loop; cells without a number
may have any number of loop sides.

Problem format of the module: `problem[y][x] >= 0` is a number clue, any negative entry (the generator uses -1) is "no
clue".  Answer = the (height+1) x width horizontal border segments followed by the height x (width+1) vertical ones.

READING: library convention (documented for `active_edges_single_cycle`): "no line at all" also counts as a loop.
"""
from . import _loop

NAME = "slitherlink"
STATUS = "theorem"
THEOREMS = ["Cspuz.C11.Slitherlink.program_iff_rules", "Cspuz.C11.Slitherlink.total"]
LEAN_FILE = "C11_Slitherlink"
LEAN_CMD = "puz_slitherlink"

_SHAPES = [(1, 1), (1, 2), (2, 1), (1, 3), (3, 1), (2, 2), (2, 3), (3, 2), (1, 4), (4, 1), (2, 3), (3, 2), (3, 3), (2, 4), (4, 2)]


def _sides(h, w, y, x):
    """Indices (in the flat answer) of the four sides of cell (y, x): top, bottom, left, right."""
    nh = (h + 1) * w
    return [y * w + x, (y + 1) * w + x, nh + y * (w + 1) + x, nh + y * (w + 1) + x + 1]


def gen_problem(rng, tier):
    h, w = rng.choice(_SHAPES)
    return _gen(rng, h, w)


def extra_program_problems(rng):
    """Larger boards for the program correspondence only (nothing is enumerated there): one non-square medium board and two
    with more than 256 cells (a tall and a wide one); the numbers are read off a random loop
    (`_loop.random_loop` on the lattice of cell corners), zeros and threes on the rim included."""
    return [_gen(rng, h, w, _loop.random_loop(rng, h + 1, w + 1, rng.choice([0.3, 0.6]))) for h, w in _loop.big_shapes(rng)]


def _gen(rng, h, w, a=None):
    mode = rng.random() if a is None else 0.0
    if mode < 0.65:
        if a is None:
            loops = _loop.single_loops(h + 1, w + 1)
            a = rng.choice(loops) if rng.random() < 0.9 else loops[0]
            keep = rng.choice([0.0, 0.3, 0.6, 1.0])
        else:
            keep = rng.choice([0.3, 0.6])
        pb = [[sum(1 for i in _sides(h, w, y, x) if a[i]) if rng.random() < keep else -1 for x in range(w)] for y in range(h)]
        if rng.random() < 0.25:
            pb[rng.randrange(h)][rng.randrange(w)] = rng.choice([0, 1, 2, 3, 4])
    elif mode < 0.9:
        p = rng.choice([0.3, 0.6])
        pb = [[rng.choice([0, 1, 2, 3, 3, 2, 4]) if rng.random() < p else -1 for x in range(w)] for y in range(h)]
    else:
        pb = [[rng.choice([-1, -1, -2, 0, 5]) for x in range(w)] for y in range(h)]
    return {"height": h, "width": w, "problem": pb}


def solve_args(problem):
    return (problem["height"], problem["width"], problem["problem"]), {}


def keys(problem, result):
    return _loop.frame_keys(result[0])


def answer_space(problem):
    return _loop.loop_candidates(problem["height"] + 1, problem["width"] + 1)


def rule_check(problem, answer):
    h, w, pb = problem["height"], problem["width"], problem["problem"]
    if _loop.trace_loop(_loop.active_edges(answer, h + 1, w + 1)) is None:
        return False
    for y in range(h):
        for x in range(w):
            if pb[y][x] >= 0:
                top = answer[y * w + x]
                bottom = answer[(y + 1) * w + x]
                nh = (h + 1) * w
                left = answer[nh + y * (w + 1) + x]
                right = answer[nh + y * (w + 1) + x + 1]
                if [top, bottom, left, right].count(True) != pb[y][x]:
                    return False
    return True


def lean_line(problem):
    return f"(puz_slitherlink {problem['height']} {problem['width']} {_loop.grid_sx(problem['problem'])})"


def classify(problem, description):
    return "raised" if "raised" in description else "mismatch"
