"""solve_heyawake(height, width, rooms, clues) / solve_heyawake(height, width, rectangles) -- Heyawake (puzz.link, Nikoli).

Rule text implemented by `rule_check` (Nikoli):
  1. Shade some cells. Shaded cells are not orthogonally adjacent.
  2. All unshaded cells form one orthogonally connected area.
  3. A number in a room is the number of shaded cells in that room (rooms without number: any amount).
  4. A straight (horizontal or vertical) line of consecutive unshaded cells must not cross two or more room borders
     (it may not stretch over more than two rooms).

Problem formats of the module: either `(rooms, clues)` with `rooms[i]` = list of (y, x) cells, `clues[i]` = -1 (no number)
or the number; or one list of rectangles `(y0, x0, y1, x1, n)` (half-open), converted by `convert_from_rectangular_repr`.
The rooms partition the board (otherwise ValueError).
Answer key: `is_black` (height x width, row-major); True = shaded.

READING: Heyawake rooms are rectangles; for rectangles "crosses two borders" and "lies in three rooms" coincide. For the
non-rectangular partitions that the module also accepts rule 4 is read as "crosses two room borders" (a line leaving a room
and re-entering it is forbidden), which is what the module implements.
READING: a grid without unshaded cells is connected (library convention; only the 1 x 1 board can be entirely shaded).
"""
import itertools

NAME = "heyawake"
STATUS = "theorem"
THEOREMS = ["Cspuz.C11.Heyawake.program_iff_rules", "Cspuz.C11.Heyawake.total"]
LEAN_FILE = "C11_Heyawake"
LEAN_CMD = "puz_heyawake"

_SIZES = [(1, 1), (1, 2), (2, 1), (1, 3), (3, 1), (2, 2), (2, 3), (3, 2), (1, 4), (4, 1), (1, 5), (5, 1), (3, 3), (2, 4), (4, 2),
          (3, 4), (4, 3), (2, 5), (5, 2), (2, 6), (6, 2)]
_DIRS = ((-1, 0), (1, 0), (0, -1), (0, 1))


def _split(rng, rect, out, p, decay=0.8):
    y0, x0, y1, x1 = rect
    can_h = y1 - y0 >= 2
    can_w = x1 - x0 >= 2
    if (not can_h and not can_w) or rng.random() > p:
        out.append(rect)
        return
    if can_h and (not can_w or rng.random() < 0.5):
        m = rng.randint(y0 + 1, y1 - 1)
        _split(rng, (y0, x0, m, x1), out, p * decay, decay)
        _split(rng, (m, x0, y1, x1), out, p * decay, decay)
    else:
        m = rng.randint(x0 + 1, x1 - 1)
        _split(rng, (y0, x0, y1, m), out, p * decay, decay)
        _split(rng, (y0, m, y1, x1), out, p * decay, decay)


def _free_partition(rng, h, w, k):
    cells = [(y, x) for y in range(h) for x in range(w)]
    seeds = rng.sample(cells, k)
    owner = {s: i for i, s in enumerate(seeds)}
    while len(owner) < len(cells):
        frontier = [(c, owner[(c[0] + dy, c[1] + dx)]) for c in cells if c not in owner
                    for dy, dx in _DIRS if (c[0] + dy, c[1] + dx) in owner]
        c, i = rng.choice(frontier)
        owner[c] = i
    rooms = [[] for _ in range(k)]
    for c in cells:
        rooms[owner[c]].append(list(c))
    return rooms


def _random_solution(rng, h, w):
    black = [[False] * w for _ in range(h)]
    order = [(y, x) for y in range(h) for x in range(w)]
    rng.shuffle(order)
    for y, x in order:
        if rng.random() < 0.5 and not any(0 <= y + dy < h and 0 <= x + dx < w and black[y + dy][x + dx] for dy, dx in _DIRS):
            black[y][x] = True
    return black


def gen_problem(rng, tier):
    h, w = rng.choice(_SIZES)
    return _gen(rng, h, w)


def extra_program_problems(rng):
    """Larger boards for the program correspondence only (nothing is enumerated there): one non-square medium board and two
    with more than 256 cells (a tall and a wide one); many rooms (rectangles split deeper, free partitions with more seeds),
    in both problem formats."""
    from . import _loop
    return [_gen(rng, h, w, big=True) for h, w in _loop.big_shapes(rng)]


def _gen(rng, h, w, big=False):
    black = _random_solution(rng, h, w)
    r = rng.random()
    if r < 0.75:
        rects = []
        if big:
            _split(rng, (0, 0, h, w), rects, 1.0, rng.choice([0.9, 0.95]))
        else:
            _split(rng, (0, 0, h, w), rects, rng.choice([0.6, 0.9, 1.0]))
        if rng.random() < 0.3:
            rng.shuffle(rects)
        rooms = [[[y, x] for y in range(y0, y1) for x in range(x0, x1)] for y0, x0, y1, x1 in rects]
    else:
        rects = None
        rooms = _free_partition(rng, h, w, rng.randint(h * w // 12, h * w // 6) if big else rng.randint(1, min(h * w, 5)))
        if rng.random() < 0.3:
            for rm in rooms:
                rng.shuffle(rm)
    mode = rng.random()
    clues = []
    for rm in rooms:
        true_n = sum(1 for y, x in rm if black[y][x])
        if mode < 0.1:
            clues.append(-1)                                   # empty clue set
        elif rng.random() < 0.6:
            clues.append(true_n)
        elif rng.random() < 0.25:
            clues.append(rng.randint(0, 3))
        else:
            clues.append(-1)
    if rects is not None and rng.random() < 0.5:
        return {"height": h, "width": w, "rects": [list(rc) + [n] for rc, n in zip(rects, clues)]}
    return {"height": h, "width": w, "rooms": rooms, "clues": clues}


def _rooms_clues(problem):
    if "rects" in problem:
        rooms = [[[y, x] for y in range(y0, y1) for x in range(x0, x1)] for y0, x0, y1, x1, _ in problem["rects"]]
        return rooms, [rc[4] for rc in problem["rects"]]
    return problem["rooms"], problem["clues"]


def solve_args(problem):
    if "rects" in problem:
        return (problem["height"], problem["width"], [tuple(rc) for rc in problem["rects"]]), {}
    return (problem["height"], problem["width"], [[(y, x) for y, x in rm] for rm in problem["rooms"]], list(problem["clues"])), {}


def keys(problem, result):
    return list(result[0].data)


def answer_space(problem):
    n = problem["height"] * problem["width"]
    for vals in itertools.product((False, True), repeat=n):
        yield list(vals)


def rule_check(problem, answer):
    h, w = problem["height"], problem["width"]
    rooms, clues = _rooms_clues(problem)
    black = [answer[y * w:(y + 1) * w] for y in range(h)]
    room_of = {}
    for i, rm in enumerate(rooms):
        for y, x in rm:
            room_of[(y, x)] = i
    # 1
    for y in range(h):
        for x in range(w):
            if black[y][x] and ((y + 1 < h and black[y + 1][x]) or (x + 1 < w and black[y][x + 1])):
                return False
    # 3
    for rm, n in zip(rooms, clues):
        if n >= 0 and sum(1 for y, x in rm if black[y][x]) != n:
            return False
    # 4: every maximal straight run of unshaded cells crosses at most one room border
    lines = [[(y, x) for x in range(w)] for y in range(h)] + [[(y, x) for y in range(h)] for x in range(w)]
    for line in lines:
        crossings = 0
        prev = None
        for c in line:
            if black[c[0]][c[1]]:
                prev = None
                crossings = 0
                continue
            if prev is not None and room_of[prev] != room_of[c]:
                crossings += 1
                if crossings >= 2:
                    return False
            prev = c
    # 2
    cells = [(y, x) for y in range(h) for x in range(w) if not black[y][x]]
    if not cells:
        return True          # READING
    seen = {cells[0]}
    todo = [cells[0]]
    while todo:
        y, x = todo.pop()
        for dy, dx in _DIRS:
            p = (y + dy, x + dx)
            if 0 <= p[0] < h and 0 <= p[1] < w and not black[p[0]][p[1]] and p not in seen:
                seen.add(p)
                todo.append(p)
    return len(seen) == len(cells)


def lean_line(problem):
    if "rects" in problem:
        rs = " ".join("(" + " ".join(str(v) for v in rc) + ")" for rc in problem["rects"])
        return "(puz_heyawake %d %d rect (%s))" % (problem["height"], problem["width"], rs)
    rooms = " ".join("(" + " ".join("(%d %d)" % (y, x) for y, x in rm) + ")" for rm in problem["rooms"])
    clues = " ".join(str(n) for n in problem["clues"])
    return "(puz_heyawake %d %d (%s) (%s))" % (problem["height"], problem["width"], rooms, clues)
