"""solve_nurimaze(height, width, wall_vertical, wall_horizontal, mark, start, goal) -- Nurimaze (puzz.link "nurimaze").

Rule text implemented by `rule_check` (puzz.link / Nikoli):
  1. The board is divided into rooms by thick walls. Shade some rooms: a room is shaded entirely or not at all.
  2. The unshaded cells form a maze: all unshaded cells are orthogonally connected, and they contain no loop (there is no
     closed circuit of orthogonally adjacent unshaded cells; in particular no 2 x 2 block of unshaded cells).
  3. No 2 x 2 block of cells is entirely shaded.
  4. The cells with S, G, a circle or a triangle are never shaded.
  5. The (unique) way through the maze from S to G passes through every circle and through no triangle.

Problem format of the module: `wall_vertical[y][x]` (height x (width-1)): truthy = a wall separates (y, x) and (y, x+1);
`wall_horizontal[y][x]` ((height-1) x width): truthy = a wall separates (y, x) and (y+1, x); `mark[y][x]`: 0 nothing,
1 circle, 2 triangle; `start`, `goal`: (y, x) tuples (two different cells of the board).
Answer key: `is_white` (height x width, row-major); True = unshaded.

READING: a mark value other than 0, 1, 2 means "this cell is not shaded" and nothing else (that is what the module does).
READING: rooms are the classes of the cells under "orthogonally adjacent without a wall in between" (a wall segment that
does not separate two rooms, e.g. a dangling one, is ignored), as in the module.
Well-formed instances have start != goal, both on the board (with start == goal the module posts an unsatisfiable program,
the rule text would accept the one-cell way; puzz.link boards always have S and G on different cells).
"""
import importlib
import itertools
import sys
import types


def _import_puzzle_module():
    """cspuz/puzzle/nurimaze.py does `import numpy as np` at module level, but uses it only in `problem_to_pzv_url`
    (`np.base_repr`); numpy is not a declared dependency of cspuz and is absent from this sandbox.  Import the module
    once with a throw-away empty stand-in for numpy (removed from sys.modules again right afterwards); `solve_nurimaze`
    never touches it."""
    if "cspuz.puzzle.nurimaze" in sys.modules:
        return
    try:
        import numpy  # noqa: F401
        return
    except ModuleNotFoundError:
        pass
    sys.modules["numpy"] = types.ModuleType("numpy")
    try:
        importlib.import_module("cspuz.puzzle.nurimaze")
    finally:
        sys.modules.pop("numpy", None)


_import_puzzle_module()

NAME = "nurimaze"
STATUS = "theorem"
THEOREMS = ["Cspuz.C11.Nurimaze.program_iff_rules", "Cspuz.C11.Nurimaze.total"]
LEAN_FILE = "C11_Nurimaze"
LEAN_CMD = "puz_nurimaze"

_SIZES = [(1, 2), (2, 1), (1, 3), (3, 1), (2, 2), (2, 3), (3, 2), (1, 4), (4, 1), (1, 5), (5, 1), (3, 3), (2, 4), (4, 2), (3, 4),
          (4, 3), (2, 5), (5, 2)]
_DIRS = ((-1, 0), (1, 0), (0, -1), (0, 1))


def _nbrs(h, w, y, x):
    return [(y + dy, x + dx) for dy, dx in _DIRS if 0 <= y + dy < h and 0 <= x + dx < w]


def _random_maze(rng, h, w, tries=6):
    """A random set of cells that induces a tree (grown cell by cell: a new cell has exactly one neighbour in the set)."""
    best = None
    for _ in range(tries):
        cells = {(rng.randrange(h), rng.randrange(w))}
        stop = rng.choice([0.0, 0.05, 0.2])
        while True:
            cand = [(y, x) for y in range(h) for x in range(w) if (y, x) not in cells
                    and sum(1 for p in _nbrs(h, w, y, x) if p in cells) == 1]
            if not cand or rng.random() < stop:
                break
            cells.add(rng.choice(cand))
        best = cells
        if not any(all((y + a, x + b) not in cells for a in (0, 1) for b in (0, 1)) for y in range(h - 1) for x in range(w - 1)):
            break
    return best


def _tree_path(h, w, cells, s, g):
    parent = {s: None}
    todo = [s]
    while todo:
        c = todo.pop()
        for p in _nbrs(h, w, *c):
            if p in cells and p not in parent:
                parent[p] = c
                todo.append(p)
    out = []
    c = g
    while c is not None:
        out.append(c)
        c = parent[c]
    return out


def gen_problem(rng, tier):
    h, w = rng.choice(_SIZES)
    return _gen(rng, h, w)


def extra_program_problems(rng):
    """Larger boards for the program correspondence only (nothing is enumerated there): one non-square medium board and two
    with more than 256 cells (a tall and a wide one), always the structured construction (a random maze, rooms cut by
    walls, circles on and triangles off the way from S to G, perturbations)."""
    from . import _loop
    return [_gen(rng, h, w, mode=rng.uniform(0.12, 1.0), tries=2) for h, w in _loop.big_shapes(rng)]


def _gen(rng, h, w, mode=None, tries=6):
    cells = [(y, x) for y in range(h) for x in range(w)]
    if mode is None:
        mode = rng.random()
    mark = [[0] * w for _ in range(h)]
    if mode < 0.12:
        # unstructured: random walls, random marks, random S/G
        p = rng.choice([0.0, 0.3, 0.7, 1.0])
        wv = [[int(rng.random() < p) for _ in range(w - 1)] for _ in range(h)]
        wh = [[int(rng.random() < p) for _ in range(w)] for _ in range(h - 1)]
        for _ in range(rng.choice([0, 0, 1, 2, 3])):
            mark[rng.randrange(h)][rng.randrange(w)] = rng.choice([1, 2, 1, 2, 3])
        s, g = rng.sample(cells, 2)
        return {"height": h, "width": w, "wall_vertical": wv, "wall_horizontal": wh, "mark": mark, "start": list(s), "goal": list(g)}
    white = _random_maze(rng, h, w, tries)
    if len(white) < 2:
        white = set(white) | {rng.choice(_nbrs(h, w, *next(iter(white))))}
    p = rng.choice([0.0, 0.0, 0.25, 0.6, 1.0, 1.0])     # probability of a wall between two cells of the same colour

    def wall(a, b):
        if (a in white) != (b in white):
            return 1
        return rng.choice([1, 1, 1, 2]) if rng.random() < p else 0
    wv = [[wall((y, x), (y, x + 1)) for x in range(w - 1)] for y in range(h)]
    wh = [[wall((y, x), (y + 1, x)) for x in range(w)] for y in range(h - 1)]
    wl = sorted(white)
    s, g = rng.sample(wl, 2)
    path = set(_tree_path(h, w, white, s, g))
    dens = rng.choice([0.0, 0.2, 0.5, 0.9])
    for c in wl:
        if rng.random() < dens:
            if c in path:
                if c not in (s, g) or rng.random() < 0.3:
                    mark[c[0]][c[1]] = 1 if rng.random() < 0.85 else 3
            else:
                mark[c[0]][c[1]] = rng.choice([2, 2, 2, 3, -1])
    if mode < 0.45:
        # perturbations: many of them make the instance unsatisfiable or change the solution set
        for _ in range(rng.randint(1, 2)):
            k = rng.random()
            if k < 0.3 and w > 1:
                y, x = rng.randrange(h), rng.randrange(w - 1)
                wv[y][x] = 1 - min(wv[y][x], 1)
            elif k < 0.6 and h > 1:
                y, x = rng.randrange(h), rng.randrange(w)
                if y < h - 1:
                    wh[y][x] = 1 - min(wh[y][x], 1)
            elif k < 0.85:
                mark[rng.randrange(h)][rng.randrange(w)] = rng.choice([0, 1, 2, 3])
            else:
                c = rng.choice(cells)
                if rng.random() < 0.5:
                    if c != g:
                        s = c
                elif c != s:
                    g = c
    return {"height": h, "width": w, "wall_vertical": wv, "wall_horizontal": wh, "mark": mark, "start": list(s), "goal": list(g)}


def solve_args(problem):
    return (problem["height"], problem["width"], problem["wall_vertical"], problem["wall_horizontal"], problem["mark"],
            tuple(problem["start"]), tuple(problem["goal"])), {}


def keys(problem, result):
    return list(result[0].data)


def answer_space(problem):
    n = problem["height"] * problem["width"]
    for vals in itertools.product((False, True), repeat=n):
        yield list(vals)


def rule_check(problem, answer):
    h, w = problem["height"], problem["width"]
    wv, wh, mark = problem["wall_vertical"], problem["wall_horizontal"], problem["mark"]
    s, g = tuple(problem["start"]), tuple(problem["goal"])
    white = [answer[y * w:(y + 1) * w] for y in range(h)]

    def open_(a, b):       # no wall between the adjacent cells a, b
        (y, x), (y2, x2) = min(a, b), max(a, b)
        return not (wv[y][x] if y == y2 else wh[y][x])
    # rule 1: rooms by flood fill through wall-less borders; each room has one colour
    room = {}
    for c in itertools.product(range(h), range(w)):
        if c in room:
            continue
        room[c] = c
        todo = [c]
        while todo:
            a = todo.pop()
            for b in _nbrs(h, w, *a):
                if b not in room and open_(a, b):
                    room[b] = c
                    todo.append(b)
    for c, r in room.items():
        if white[c[0]][c[1]] != white[r[0]][r[1]]:
            return False
    # rule 3
    for y in range(h - 1):
        for x in range(w - 1):
            if not (white[y][x] or white[y + 1][x] or white[y][x + 1] or white[y + 1][x + 1]):
                return False
    # rule 4
    for y in range(h):
        for x in range(w):
            if (mark[y][x] != 0 or (y, x) in (s, g)) and not white[y][x]:
                return False
    # rule 2: connected (flood fill from S) and loop-free (a connected graph is a tree iff #edges = #vertices - 1)
    cells = [(y, x) for y in range(h) for x in range(w) if white[y][x]]
    parent = {s: None}
    order = [s]
    for a in order:
        for b in _nbrs(h, w, *a):
            if white[b[0]][b[1]] and b not in parent:
                parent[b] = a
                order.append(b)
    if len(order) != len(cells):
        return False
    n_edges = sum(1 for (y, x) in cells for (y2, x2) in ((y + 1, x), (y, x + 1)) if y2 < h and x2 < w and white[y2][x2])
    if n_edges != len(cells) - 1:
        return False
    # rule 5: the way from S to G (unique in a tree): follow the parent pointers back from G
    way = set()
    c = g
    while c is not None:
        way.add(c)
        c = parent[c]
    for y in range(h):
        for x in range(w):
            if mark[y][x] == 1 and (y, x) not in way:
                return False
            if mark[y][x] == 2 and (y, x) in way:
                return False
    return True


def lean_line(problem):
    def tab(t):
        return "(" + " ".join("(" + " ".join(str(int(v)) for v in row) + ")" for row in t) + ")"
    return "(puz_%s %d %d %s %s %s (%d %d) (%d %d))" % (
        NAME, problem["height"], problem["width"], tab(problem["wall_vertical"]), tab(problem["wall_horizontal"]),
        tab(problem["mark"]), problem["start"][0], problem["start"][1], problem["goal"][0], problem["goal"][1])
