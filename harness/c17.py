"""C17 — Decoding arbitrary text never crashes and only yields re-encodable problems."""
import itertools

from . import core, sergen
from . import sercommon as sc
from .core import Finding

THEOREMS = [
    "Cspuz.C17.C17_total",
    "Cspuz.C17.C17_total_problem",
    "Cspuz.C17.C17_total_url",
    "Cspuz.C17.C17_total_puzzles",
    "Cspuz.C17.C17_reencodable_fails",
    "Cspuz.C17.C17_reencodable_partial",
    "Cspuz.C17.C17_reencodable_nested",
    "Cspuz.C17.C17_reencodable_puzzles",
    "Cspuz.C17.C17_rooms_decoded_canonical",
    "Cspuz.C17.C17_reencodable_rooms",
    "Cspuz.C17.C17_reencodable_valued_rooms",
    "Cspuz.C17.C17_reencodable_rooms_puzzles",
]

ALLOWED_ERR = ("ValueError",)


def gen(ctx):
    sergen.gen_all()


def _env(h, w):
    from cspuz.problem_serializer import CombinatorEnv
    return CombinatorEnv(height=h, width=w)


# ------------------------------------------------------------------ generators of problems / URLs

def _grid(rng, h, w, alphabet):
    return [[rng.choice(alphabet) for _ in range(w)] for _ in range(h)]


def puzzle_problem(rng, p, h, w):
    """A valid problem of puzzle p on an h x w board, as the arguments of serialize_<p>."""
    if p == "nurikabe":
        return (_grid(rng, h, w, [0, 0, 0, 0, -1, 1, 2, 9, 15, 16, 255, 256]),)
    if p == "masyu":
        return (_grid(rng, h, w, [0, 0, 1, 2]),)
    if p == "slitherlink":
        return (_grid(rng, h, w, [-1, -1, -1, 0, 1, 2, 3, 4]),)
    if p == "sudoku":
        return (_grid(rng, h, w, [0, 0, 0, 1, 5, 9, 15, 16]),)
    if p == "nurimisaki":
        return (_grid(rng, h, w, [-1, -1, -1, 0, 1, 3, 16]),)
    if p == "yajilin":
        return (_grid(rng, h, w, ["..", "..", "..", "^0", "v1", "<2", ">9", "^15", "v3"] + (["??", ">16", "<40"] if rng.random() < 0.3 else [])),)
    rooms = sc.shuffled_rooms(rng, sc.random_partition(rng, h, w)) if rng.random() < 0.5 else sc.random_partition(rng, h, w)
    if p == "heyawake":
        return (h, w, rooms, [rng.choice([-1, -1, 0, 1, 5, 16]) for _ in rooms])
    return (h, w, rooms)


def valid_url(rng, objs, p, h, w):
    mod, comb, ser, de = objs[p]
    o = sc.run_guarded(lambda: ser(*puzzle_problem(rng, p, h, w)), 5)
    if o[0] == "ret" and isinstance(o[1], str):
        return o[1]
    return None


def dim_text(rng, n):
    r = rng.random()
    if r < 0.6:
        return str(n)
    if r < 0.75:
        d = str(n)
        z = rng.choice([0x660, 0x6f0, 0x966, 0xff10, 0x1d7ce, 0x1d7d8])
        return "".join(chr(z + int(c)) if rng.random() < 0.7 else c for c in d)
    if r < 0.8:
        return "0" * rng.randint(1, 5) + str(n)
    return rng.choice(["", "-1", "+3", "1e3", "²", "3²", " 3", "3 ", "1_0", "①", "x", "1" * 4301, "0" * 4301])


def random_url(rng, names):
    scheme = rng.choice(["http://", "https://", "https://", "httpss://", "ftp://", "http:/", "", "HTTP://", "x https://"])
    host = rng.choice(["puzz.link", "pzv.jp", "a", "", "x/y", "h\nst", "é"])
    path = rng.choice(["/p?", "/p?", "/p.html?", "/p.htm?", "/q?", "/p", "/p.html", "/p.html.html?", "/p??"])
    name = rng.choice(names + ["", "x", "a b", "mashu", "p?q", "n\nm"])
    body = sc.random_text(rng, 10)
    h, w = sc.random_dims(rng)
    parts = [name, dim_text(rng, w), dim_text(rng, h), body]
    if rng.random() < 0.1:
        parts = parts[:rng.randint(0, 3)]
    if rng.random() < 0.1:
        parts.insert(rng.randint(0, len(parts)), sc.random_text(rng, 3))
    u = scheme + host + path + "/".join(parts)
    if rng.random() < 0.1:
        u += rng.choice(["\n", "\nxyz", "/", "\r\n1"])
    return u


LIB_TERMS = [
    ("fixstr", "ab"), ("fixstr", ""), ("dict", [1, 2, None], ["x", "yz", ""]), ("spaces", 0, "g"), ("spaces", -1, "0"),
    ("spaces", "..", "a"), ("spaces", 0, "z"), ("decint",), ("hexint",), ("intspaces", -1, 4, 2), ("intspaces", 0, 0, 35),
    ("multidigit", 2, 5), ("multidigit", 3, 3), ("multidigit", 6, 2), ("multidigit", 1, 0), ("yajilin",),
    ("oneof", [("dict", [-1], ["."]), ("spaces", 0, "g"), ("hexint",)]),
    ("oneof", []), ("tupl", []), ("tupl", [("hexint",), ("fixstr", "/"), ("decint",)]),
    ("seq", ("hexint",), 0), ("seq", ("hexint",), 3), ("seq", ("oneof", [("spaces", -1, "g"), ("intspaces", -1, 4, 2)]), 5),
    ("grid", ("hexint",), None), ("grid", ("multidigit", 2, 5), (2, 0)), ("grid", ("hexint",), (0, 3)),
    ("grid", ("oneof", [("yajilin",), ("spaces", "..", "a")]), None),
    ("rooms", False, False), ("rooms", True, False), ("rooms", False, True), ("rooms", True, True),
    ("vrooms", ("oneof", [("hexint",), ("spaces", -1, "g")]), True, False), ("vrooms", ("hexint",), False, False),
    ("vrooms", ("decint",), False, True),
    ("tupl", [("rooms", False, False), ("seq", ("hexint",), 2)]), ("seq", ("rooms", True, False), 2),
]

# problem-level terms (deserialize returns exactly one item): usable with deserialize_problem
def single(ast):
    k = ast[0]
    if k in ("decint", "hexint", "tupl", "seq", "grid", "rooms", "vrooms", "yajilin"):
        return True
    if k == "dict":
        return True
    if k == "oneof":
        return all(single(a) for a in ast[1])
    return False


def _valid_text(rng, ast, obj, h, w):
    from cspuz.problem_serializer import serialize_problem
    run = sc.sample_run(rng, ast, h, w, 0.0)
    o = sc.run_guarded(lambda: obj.serialize(_env(h, w), run, 0), 1)
    if o[0] == "ret" and o[1] is not None:
        return o[1][1]
    return None


# ------------------------------------------------------------------ thin boards, one dimension around a power of two

THIN_AST = {"Rooms": ("rooms", False, False), "ValuedRooms": ("vrooms", ("hexint",), False, False)}
THIN_CODECS = ("lits", "norinori", "heyawake", "Rooms", "ValuedRooms")
MODEL_MAX_CELLS = 4100     # the Lean Rooms decoder is superlinear: ~0.3 s at 4100 cells, ~3 s at 12300


def thin_text(codec, h, w, cuts):
    """valid text of a Rooms-based codec on the h x w board cut into len(cuts) + 1 slabs (URL for a puzzle codec)"""
    body = sc.slab_border_text(h, w, cuts)
    k = len(cuts) + 1
    if codec == "heyawake":
        body += chr(ord("g") + k - 1)            # k rooms without a clue
    if codec == "ValuedRooms":
        body += "123456789abcdef"[:k]
    if codec in THIN_AST:
        return body
    return "https://puzz.link/p?%s/%d/%d/%s" % (codec, w, h, body)


def thin_cases():
    """Deterministic: long side d around 2**8 .. 2**12, short side 1..3, both orientations, every Rooms-based codec;
    body without borders and body with a few slabs.  For d >= 2047 the slab body only on the one-line boards."""
    out = []
    for d in sc.POW2_DIMS:
        for o in (1, 2, 3):
            for (h, w) in ((o, d), (d, o)):
                for cuts in ((), tuple(sc.slab_cuts(d))):
                    if cuts and d > 1025 and o > 1:
                        continue
                    for codec in THIN_CODECS:
                        out.append((codec, h, w, cuts))
    return out


def _cells_of(v, codec):
    """the rooms of a decoded problem of `codec`, or None if it does not have the documented shape"""
    try:
        if codec in ("lits", "norinori", "heyawake"):
            hh, ww, v = v
        rooms = v[0] if codec in ("heyawake", "ValuedRooms") else v
        return [tuple(c) for r in rooms for c in r]
    except (TypeError, ValueError, IndexError):
        return None


def judge_thin(objs, codec, h, w, text):
    """The property on one Rooms-based codec: None / ValueError, or a problem OF THE STATED DIMENSIONS (every cell of the
    h x w board in exactly one room; the returned size is the declared one) that serializes and decodes back to itself."""
    import cspuz.problem_serializer as ps
    shown = text if len(text) <= 120 else "%s...%s (%d characters; in full in the replay file)" % (text[:80], text[-12:], len(text))
    if codec in THIN_AST:
        obj = sc.build(THIN_AST[codec])
        decode = lambda t: ps.deserialize_problem(obj, t, height=h, width=w)
        encode = lambda v: ps.serialize_problem(obj, v, height=h, width=w)
        call = "deserialize_problem(%s, %r, height=%d, width=%d)" % (sc.comb_sx(obj), shown, h, w)
    else:
        mod, comb, ser, de = objs[codec]
        decode = de
        encode = lambda v: ps.serialize_problem_as_url(comb, codec, h, w, v[2])
        call = "deserialize_%s(%r)" % (codec, shown)
    o = sc.run_guarded(lambda: decode(text), 10)
    bad = None
    if o[0] == "diverge":
        bad = ("non-termination", "does not terminate")
    elif o[0] == "err":
        if o[1] not in ALLOWED_ERR:
            bad = ("exception:" + o[1], "raises " + o[1])
    elif o[1] is not None:
        v = o[1]
        cells = _cells_of(v, codec)
        if cells is None or (codec not in THIN_AST and (v[0], v[1]) != (h, w)) or \
                sorted(cells) != [(y, x) for y in range(h) for x in range(w)]:
            return "rooms:decoded-problem-has-other-dimensions", "%s returns a problem that is not a partition of the %d x %d board (%d cells listed)" % (
                call, h, w, -1 if cells is None else len(cells))
        e = sc.run_guarded(lambda: encode(v), 10)
        if e[0] != "ret" or not isinstance(e[1], str):
            bad = ("not-reencodable", "returns a problem whose serialization %s" % ("raises " + e[1] if e[0] == "err" else "fails"))
        else:
            o2 = sc.run_guarded(lambda: decode(e[1]), 10)
            if o2[0] != "ret" or _typed(o2[1]) != _typed(v):
                bad = ("reencoding-differs", "returns a problem whose canonical text %r decodes differently" % (e[1][:80],))
    if not bad:
        return None
    return "rooms:long-thin-board:" + bad[0], call + " " + bad[1]


def _kind(ro):
    if ro.startswith("(err"):
        return ro.strip("()").replace(" ", ":")
    return ro.split()[0].strip("()")


def correspond(ctx):
    ctx.extra["rule"] = (
        "per library combinator (fixed list covering every class, plus random terms) and per puzzle module: a STRUCTURED "
        "stream (valid encodings / URLs with ONE mutation: deleted, inserted, replaced character, truncated, extended) and a "
        "MALFORMED stream (random strings over 0-9a-z-+._/?:, random Unicode incl. Unicode digits and lone surrogates, "
        "dims 0..70 and huge, dims written with Unicode digits / signs / 4301 digits) through .deserialize at every index, "
        "deserialize_problem, deserialize_problem_as_url (all allowed_puzzles / allow_failure / return_size combinations), "
        "get_puzzle_info_from_url, the regex itself, and each deserialize_<puzzle>; real code vs Lean model, outcome kind "
        "(value / None / exception class) and value compared. non-trivial+distinct = (function, term, text, dims) that "
        "yields a value or an exception")
    ctx.extra["assumptions"] = [sc.PATCH_NOTES]
    import cspuz.problem_serializer as ps
    rng = ctx.rng
    drv = core.Driver()
    objs = sc.puzzle_objects()
    terms = []
    objs_by_sx = {}
    ast_by_sx = {}
    for ast in LIB_TERMS:
        terms.append((ast, sc.build(ast)))
    for _ in range(ctx.n(400, 3000)):
        ast = sc.gen_any_term(rng, rng.choice([1, 2, 3]))
        try:
            terms.append((ast, sc.build(ast)))
        except ValueError:
            pass
    ops, lines = [], []

    def add(op, line, fn, fmt, sample):
        ops.append((op, fn, fmt, sample))
        lines.append(line)

    # ---- 1. combinator methods and deserialize_problem
    for ast, obj in terms:
        sx = sc.comb_sx(obj)
        objs_by_sx[sx] = obj
        ast_by_sx[sx] = ast
        for _ in range(ctx.n(12, 20)):
            h, w = sc.random_dims(rng) if rng.random() < 0.25 else (rng.randint(1, 4), rng.randint(1, 4))
            if max(h, w) > 70 and ast not in LIB_TERMS:
                # a random term may contain a base that produces items without consuming text (e.g. Grid(.., height=0, ..)):
                # with a huge declared board both the real decoder and the model then loop ~h*w times
                h, w = min(h, 70), min(w, 70)
            # nested Seq/Grid/ValuedRooms multiply the number of items; the Lean model appends lists quadratically, so keep
            # the number of decoded items of one case bounded (the real decoder is linear)
            if _items(ast, h, w) > 4000:
                h, w = min(h, 3), min(w, 3)
            if _items(ast, h, w) > 4000:
                ctx.count("skipped:too-many-items")
                continue
            texts = []
            if h * w <= 900:
                t = _valid_text(rng, ast, obj, h, w)
                if t is not None:
                    texts.append((t, "valid"))
                    for _ in range(3):
                        texts.append(sc.mutate_text(rng, t))
            texts.append((sc.random_text(rng), "random"))
            for t, how in texts:
                ctx.count("text:" + how)
                idxs = {0} | ({rng.randint(0, len(t))} if rng.random() < 0.3 else set())
                if len(t) <= 4:
                    idxs |= set(range(len(t) + 1))
                for idx in sorted(idxs):
                    add("de", "(de %s %s %d %d %d)" % (sx, sc.cps(t), idx, h, w),
                        (lambda obj=obj, t=t, idx=idx, h=h, w=w: obj.deserialize(_env(h, w), t, idx)), sc.de_outcome,
                        {"fn": "deserialize", "term": sx, "text": t, "idx": idx, "h": h, "w": w})
                if single(ast):
                    add("dep", "(dep %s %s %d %d)" % (sx, sc.cps(t), h, w),
                        (lambda obj=obj, t=t, h=h, w=w: ps.deserialize_problem(obj, t, height=h, width=w)), sc.val_outcome,
                        {"fn": "deserialize_problem", "term": sx, "text": t, "h": h, "w": w})
    # ---- 1b. thin boards with one side around a power of two (deterministic family `thin_cases`; every case goes through
    # the property oracle in step 4): the model comparison takes, per long side and orientation, one case drawn by the PRNG
    # among those the Lean decoder handles quickly
    thin_model = []
    for d in sc.POW2_DIMS:
        for wide in (True, False):
            o = rng.choice([o for o in (1, 2, 3) if o * d <= MODEL_MAX_CELLS])
            h, w = (o, d) if wide else (d, o)
            thin_model.append((rng.choice(THIN_CODECS), h, w, rng.choice([(), tuple(sc.slab_cuts(d))])))
    for tc, h, w, cuts in thin_model:
        if tc in THIN_AST:
            ast = THIN_AST[tc]
            obj = sc.build(ast)
            sx = sc.comb_sx(obj)
            objs_by_sx[sx] = obj
            ast_by_sx[sx] = ast
            t = thin_text(tc, h, w, cuts)
            ctx.count("text:thin-pow2")
            add("dep", "(dep %s %s %d %d)" % (sx, sc.cps(t), h, w),
                (lambda obj=obj, t=t, h=h, w=w: ps.deserialize_problem(obj, t, height=h, width=w)), sc.val_outcome,
                {"fn": "deserialize_problem", "term": sx, "text": t, "h": h, "w": w})
    # ---- 2. URL layer on puzzle combinators and deserialize_<puzzle>
    names = [objs[p][0].__name__.split(".")[-1] for p in sc.PUZZLES] + ["slither"]
    psx = {p: sc.comb_sx(objs[p][1]) for p in sc.PUZZLES}
    codec = {p: sc.capture_codec(objs[p][0], p)["d"] for p in sc.PUZZLES}
    codec_al = {}
    for p in sc.PUZZLES:
        al = codec[p][1]
        codec_al[p] = "N" if al is None else "(" + " ".join(sc.cps(a) for a in (al if isinstance(al, list) else [al])) + ")"
    urls = []
    for p in sc.PUZZLES:
        for _ in range(ctx.n(60, 300)):
            h, w = (rng.randint(1, 6), rng.randint(1, 6)) if rng.random() < 0.9 else (rng.randint(1, 70), rng.randint(1, 70))
            u = valid_url(rng, objs, p, h, w)
            if u is None:
                continue
            urls.append((p, u, "valid"))
            for _ in range(4):
                m, how = sc.mutate_text(rng, u)
                urls.append((p, m, how))
            if rng.random() < 0.3:
                urls.append((p, u.replace("https://puzz.link/p?", rng.choice(["http://pzv.jp/p.html?", "https://x/p?", "http://pzv.jp/p.htm?"])), "prefix"))
        # large boards without borders (the flood fill visits every cell)
        if p in ("lits", "norinori", "heyawake"):
            for n in (30, 45, 60, 70):
                urls.append((p, "https://puzz.link/p?%s/%d/%d/%s" % (p, n, n, "0" * (2 * ((n * (n - 1) + 4) // 5)) + "g" * 40), "big-no-borders"))
    for tc, th, tw, cuts in thin_model:
        if tc not in THIN_AST:
            urls.append((tc, thin_text(tc, th, tw, cuts), "thin-pow2"))
    for _ in range(ctx.n(2000, 15000)):
        urls.append((rng.choice(sc.PUZZLES), random_url(rng, names), "random-url"))
    for p, u, how in urls:
        ctx.count("url:" + how)
        mod, comb, ser, de = objs[p]
        usx = sc.cps(u)
        # the term and the keyword arguments are sent explicitly (captured from the live module), so the op does not
        # depend on which Gen table the shared driver binary was last built with
        add("pde", "(deurl %s %s %s %s %s)" % (psx[p], usx, codec_al[p], "T" if codec[p][2] else "F", "T" if codec[p][3] else "F"),
            (lambda de=de, u=u: de(u)), sc.val_outcome, {"fn": "deserialize_" + p, "url": u})
        if rng.random() < 0.5:
            al = rng.choice([None, p, [p], ["x", p], "slither", [], ["masyu", "mashu"]])
            af, rs = rng.random() < 0.5, rng.random() < 0.5
            alsx = "N" if al is None else "(" + " ".join(sc.cps(a) for a in (al if isinstance(al, list) else [al])) + ")"
            add("deurl", "(deurl %s %s %s %s %s)" % (psx[p], usx, alsx, "T" if af else "F", "T" if rs else "F"),
                (lambda comb=comb, u=u, al=al, af=af, rs=rs: ps.deserialize_problem_as_url(comb, u, allowed_puzzles=al, allow_failure=af, return_size=rs)),
                sc.val_outcome, {"fn": "deserialize_problem_as_url", "puzzle": p, "url": u, "allowed": al, "allow_failure": af, "return_size": rs})
        if rng.random() < 0.3:
            add("info", "(info %s)" % usx, (lambda u=u: ps.get_puzzle_info_from_url(u)),
                (lambda o: sc.val_outcome(o) if o[0] != "ret" or o[1] is None else "(ok %s %d %d)" % (sc.cps(o[1][0]), o[1][1], o[1][2])),
                {"fn": "get_puzzle_info_from_url", "url": u})
        if rng.random() < 0.3:
            def groups(u=u):
                m = ps._DESERIALIZE_URL_REG.match(u)
                return None if m is None else [m[1], m[2], m[3], m[4]]
            add("match", "(match %s)" % usx, groups,
                (lambda o: sc.val_outcome(o) if o[0] != "ret" or o[1] is None else "(ok %s)" % " ".join(sc.cps(g) for g in o[1])),
                {"fn": "regex", "url": u})
    outs = drv.run(lines)
    for (op, fn, fmt, sample), mo in zip(ops, outs):
        ro = fmt(sc.run_guarded(fn, 0.25 if mo == "diverge" else 30))
        if mo == "(ok N)" and op in ("dep", "deurl", "pde"):
            mo = "none"   # a decoded problem that IS None cannot be told from a failure through these functions
        k = _kind(ro)
        ctx.count(op + ":" + k)
        sample = dict(sample)
        sample["real"] = ro[:200]
        ctx.case(sample, (op, repr(sorted(sample.items()))) if k not in ("none",) else None)
        if ro != mo:
            ctx.disagree("model-vs-code:" + op, real=ro[:2000], model=mo[:2000], **{k2: v for k2, v in sample.items() if k2 != "real"})
    # ---- 3. second half of the property: whatever was returned is serialized again, real vs model
    ops2, lines2 = [], []
    for (op, fn, fmt, sample), mo in zip(ops, outs):
        if op == "dep" and mo.startswith("(ok") and mo != "(ok N)":
            val = sc.sx_val(core.parse_sx(mo)[1])
            obj = objs_by_sx.get(sample["term"])
            if obj is None:
                continue
            h, w = sample["h"], sample["w"]
            ops2.append((lambda obj=obj, val=val, h=h, w=w: ps.serialize_problem(obj, val, height=h, width=w),
                         {"fn": "serialize_problem(decoded)", "term": sample["term"], "value": repr(val)[:300], "h": h, "w": w}))
            lines2.append("(serp %s %s %d %d)" % (sample["term"], sc.val_sx(val), h, w))
        elif op == "pde" and mo.startswith("(ok") and mo != "(ok N)":
            m = ps._DESERIALIZE_URL_REG.match(sample["url"])
            if m is None:
                continue
            p = sample["fn"][len("deserialize_"):]
            val = sc.sx_val(core.parse_sx(mo)[1])
            hh, ww = int(m[3]), int(m[2])
            if p in ("lits", "norinori", "heyawake"):
                if not (isinstance(val, tuple) and len(val) == 3):
                    continue
                val = val[2]
            comb = objs[p][1]
            ops2.append((lambda comb=comb, val=val, hh=hh, ww=ww: ps.serialize_problem(comb, val, height=hh, width=ww),
                         {"fn": "serialize_problem(decoded)", "puzzle": p, "value": repr(val)[:300], "h": hh, "w": ww}))
            lines2.append("(serp %s %s %d %d)" % (psx[p], sc.val_sx(val), hh, ww))
    outs2 = drv.run(lines2)
    for (fn, sample), mo in zip(ops2, outs2):
        ro = sc.str_outcome(sc.run_guarded(fn, 0.25 if mo == "diverge" else 30))
        ctx.count("reencode:" + _kind(ro))
        sample = dict(sample)
        sample["real"] = ro[:200]
        ctx.case(sample, ("reencode", repr(sorted(sample.items()))))
        if ro != mo:
            ctx.disagree("model-vs-code:reencode", real=ro[:2000], model=mo[:2000], **{k2: v for k2, v in sample.items() if k2 != "real"})
    # ---- 4. the property itself on the REAL code (no model involved), for every term inside the scope of the full statement
    # `statement_reencodable` (Spec `wf`, `single`, `terminating`, evaluated by the model driver) and for every puzzle
    # codec: whatever a decoder returns must serialize, and the canonical text must decode to the same problem.  The full
    # re-encodability statement is only partly a theorem, so this oracle runs on every generated case, every run.
    sxs = sorted(objs_by_sx)
    scope = {}
    for sx, mo in zip(sxs, drv.run(["(scope %s)" % sx for sx in sxs])):
        scope[sx] = (mo == "(ok T T T)")
    ctx.prop_failures = []
    for (ast, text, h, w) in CORPUS:
        ctx.count("oracle:corpus")
        j = _judge_term(ast, sc.build(ast), text, h, w)
        if j:
            ctx.count("oracle:FAIL")
            ctx.prop_failures.append((j[0], j[1], {"kind": "ast", "ast": ast, "text": text, "h": h, "w": w, "sig": j[0]}))
            ctx.disagree("property:" + j[0], what=j[1])
    for (op, fn, fmt, sample), mo in zip(ops, outs):
        j = None
        if op == "dep" and scope.get(sample["term"]):
            ctx.count("oracle:term")
            j = _judge_term(ast_by_sx[sample["term"]], objs_by_sx[sample["term"]], sample["text"], sample["h"], sample["w"])
            data = {"kind": "ast", "ast": ast_by_sx[sample["term"]], "text": sample["text"], "h": sample["h"], "w": sample["w"]}
        elif op == "pde":
            ctx.count("oracle:url")
            pz = sample["fn"][len("deserialize_"):]
            j = _judge_url(objs, pz, sample["url"])
            data = {"kind": "url", "puzzle": pz, "url": sample["url"]}
        if j:
            ctx.count("oracle:FAIL")
            data["sig"] = j[0]
            ctx.prop_failures.append((j[0], j[1], data))
            ctx.disagree("property:" + j[0], what=j[1])
    for (tc, h, w, cuts) in thin_cases():
        ctx.count("oracle:thin-pow2")
        text = thin_text(tc, h, w, cuts)
        j = judge_thin(objs, tc, h, w, text)
        ctx.case({"fn": "property-oracle", "codec": tc, "h": h, "w": w, "slabs": len(cuts) + 1}, ("thin", tc, h, w, len(cuts)))
        if j:
            ctx.count("oracle:FAIL")
            ctx.prop_failures.append((j[0], j[1], {"kind": "thin", "codec": tc, "h": h, "w": w, "text": text, "sig": j[0]}))
            ctx.disagree("property:" + j[0], what=j[1][:400] + (" ..." if len(j[1]) > 400 else ""))
    # regenerated puzzle table (the one the theorems were instantiated on in this build)
    sc.check_puzzle_table(ctx, drv, objs)


# ------------------------------------------------------------------ search: the property text as a plain-Python oracle

def _typed(v):
    if isinstance(v, (list, tuple)):
        return (type(v).__name__, tuple(_typed(x) for x in v))
    return (type(v).__name__, v)


def _judge(decode, encode, text):
    """decode(text) must be None, raise ValueError, or give a value that re-encodes and re-decodes to itself.
    Returns None if fine else (class, message)."""
    o = sc.run_guarded(lambda: decode(text), 5)
    if o[0] == "diverge":
        return ("non-termination", "does not terminate")
    if o[0] == "err":
        return None if o[1] in ALLOWED_ERR else ("exception:" + o[1], "raises " + o[1])
    v = o[1]
    if v is None:
        return None
    e = sc.run_guarded(lambda: encode(v), 5)
    if e[0] != "ret" or not isinstance(e[1], str):
        return ("not-reencodable", "returns %r, whose serialization %s" % (v, "raises " + e[1] if e[0] == "err" else "fails"))
    o2 = sc.run_guarded(lambda: decode(e[1]), 5)
    if o2[0] != "ret" or _typed(o2[1]) != _typed(v):
        return ("reencoding-differs", "returns %r; its canonical text %r decodes to %s" % (v, e[1], o2[1] if o2[0] == "ret" else o2))
    return None


def _judge_url(objs, p, u):
    """deserialize_<p>(u) against the property text; returns None if fine else (signature, message)."""
    import cspuz.problem_serializer as ps
    mod, comb, ser, de = objs[p]
    o = sc.run_guarded(lambda: de(u), 5)
    bad = None
    if o[0] == "diverge":
        bad = ("non-termination", "does not terminate")
    elif o[0] == "err" and o[1] not in ALLOWED_ERR:
        bad = ("exception:" + o[1], "raises " + o[1])
    elif o[0] == "ret" and o[1] is not None:
        v = o[1]
        m = ps._DESERIALIZE_URL_REG.match(u)
        hh, ww = int(m[3]), int(m[2])
        prob = v[2] if isinstance(v, tuple) and len(v) == 3 and v[0] == hh and v[1] == ww and p in ("lits", "norinori", "heyawake") else v
        e = sc.run_guarded(lambda: ps.serialize_problem_as_url(comb, m[1], hh, ww, prob), 5)
        if e[0] != "ret":
            bad = ("not-reencodable", "returns %r, which serialize_problem_as_url cannot encode (%s)" % (v, e[1] if e[0] == "err" else "loops"))
        else:
            o2 = sc.run_guarded(lambda: de(e[1]), 5)
            if o2[0] != "ret" or _typed(o2[1]) != _typed(v):
                bad = ("reencoding-differs", "returns %r; its canonical URL %r decodes to %r" % (v, e[1], o2[1] if o2[0] == "ret" else o2))
    if not bad:
        return None
    m = ps._DESERIALIZE_URL_REG.match(u)
    if m is None and bad[0] == "exception:AssertionError":
        sig = "url:assertion-on-non-matching-url"
    else:
        hh = ww = None
        if m is not None:
            try:
                hh, ww = int(m[3]), int(m[2])
            except ValueError:
                pass
        sig = _sig("deserialize_" + p, bad[0], u, hh, ww)
    return sig, "deserialize_%s(%r) %s" % (p, u, bad[1])


def _items(ast, h, w):
    """upper estimate of the number of leaf items one decode of the term yields on an h x w board"""
    k = ast[0]
    if k in ("oneof", "tupl"):
        return max([1] + [_items(a, h, w) for a in ast[1]]) * (len(ast[1]) if k == "tupl" else 1)
    if k == "seq":
        return max(1, ast[2]) * _items(ast[1], h, w)
    if k == "grid":
        hh, ww = (h, w) if ast[2] is None else ast[2]
        return max(1, hh * ww) * _items(ast[1], h, w)
    if k == "vrooms":
        return max(1, h * w) * (1 + _items(ast[1], h, w))
    if k == "rooms":
        return max(1, h * w)
    return 1


def _skeleton(ast):
    k = ast[0]
    if k in ("oneof", "tupl"):
        return "%s(%s)" % (k, ",".join(_skeleton(a) for a in ast[1]))
    if k in ("seq", "grid", "vrooms"):
        return "%s(%s)" % (k, _skeleton(ast[1]))
    return k


def _has_nested_grid(ast, under=False):
    k = ast[0]
    if k == "grid":
        return under or _has_nested_grid(ast[1], True)
    if k in ("seq", "vrooms"):
        return _has_nested_grid(ast[1], True)
    if k in ("oneof", "tupl"):
        return any(_has_nested_grid(a, under) for a in ast[1])
    return False


def _term_sig(ast, cls, msg):
    """stable class of a failing library term, by root cause where it can be told"""
    if cls == "not-reencodable" and "AssertionError" in msg and _has_nested_grid(ast):
        return "grid:inside-seq-grid-or-valuedrooms-cannot-serialize-what-it-decodes"
    return "term:" + _skeleton(ast) + ":" + cls


def _tupl_drops_items(obj, text, h, w):
    """Root-cause probe for a failing case: does some `Tupl.serialize` call hand a component to its element and get
    back fewer consumed items than the component holds (the rest is silently dropped)?"""
    import cspuz.problem_serializer as ps
    o = sc.run_guarded(lambda: ps.deserialize_problem(obj, text, height=h, width=w), 5)
    if o[0] != "ret" or o[1] is None:
        return False
    flag = []
    orig = ps.Tupl.serialize

    def probe(self, env, data, idx):
        if idx < len(data) and isinstance(data[idx], tuple) and len(data[idx]) == len(self._elements):
            for el, comp in zip(self._elements, data[idx]):
                try:
                    r = el.serialize(env, comp, 0)
                except Exception:
                    r = None
                if r is not None and isinstance(comp, list) and r[0] < len(comp):
                    flag.append(1)
        return orig(self, env, data, idx)

    ps.Tupl.serialize = probe
    try:
        sc.run_guarded(lambda: ps.serialize_problem(obj, o[1], height=h, width=w), 5)
    finally:
        ps.Tupl.serialize = orig
    return bool(flag)


# past failures (minimised), run through the property oracle first on every run
CORPUS = [
    # Grid.serialize handed the caller's idx to its inner Seq: a Grid at position >= 1 of a Seq / Grid / ValuedRooms
    # decoded but did not serialize (AssertionError from serialize_problem)
    (("seq", ("grid", ("hexint",), (1, 1)), 2), "12", 3, 3),
    (("grid", ("grid", ("hexint",), (1, 2)), (2, 1)), "1234", 3, 3),
    (("vrooms", ("grid", ("hexint",), (1, 1)), False, False), "g12", 1, 3),
    # Tupl serializes a component with ONE call of its element (known finding, see known_findings.json)
    (("tupl", [("oneof", [("dict", [0], ["."]), ("spaces", 0, "j"), ("hexint",)])]), "r", 3, 3),
]


def _judge_term(ast, obj, text, h, w):
    import cspuz.problem_serializer as ps
    j = _judge(lambda t: ps.deserialize_problem(obj, t, height=h, width=w),
               lambda v: ps.serialize_problem(obj, v, height=h, width=w), text)
    if not j:
        return None
    if j[0] == "reencoding-differs" and _tupl_drops_items(obj, text, h, w):
        return "tupl:element-serializer-leaves-decoded-items", "deserialize_problem(%s, %r, height=%d, width=%d) %s" % (
            sc.comb_sx(obj), text, h, w, j[1])
    return _term_sig(ast, j[0], j[1]), "deserialize_problem(%s, %r, height=%d, width=%d) %s" % (sc.comb_sx(obj), text, h, w, j[1])


ROOMS_BASED = ("deserialize_lits", "deserialize_norinori", "deserialize_heyawake")


def _sig(where, cls, text, h=None, w=None):
    """stable class name of a failure, by root cause where it can be told"""
    rooms = where.startswith("Rooms") or where.startswith("ValuedRooms") or where in ROOMS_BASED
    if rooms and cls == "exception:RecursionError":
        return "rooms:recursion-error-on-large-board"
    if rooms and h is not None and (h == 0 or w == 0):
        return "rooms:board-without-cells"
    if rooms and h is not None and (h == 1 or w == 1):
        return "rooms:single-row-or-column-board"
    if "ajilin" in where:
        return "yajilin:" + cls
    if cls == "not-reencodable" and ("HexInt" in where or where in ("deserialize_nurikabe", "deserialize_sudoku",
                                                                  "deserialize_nurimisaki", "deserialize_heyawake")):
        return "hexint:decodes-text-it-cannot-reencode"
    return where.split("(")[0].lower() + ":" + cls


def search(ctx, why):
    import cspuz.problem_serializer as ps
    rng = ctx.rng
    found = {}

    def note(sig, what, data):
        if sig not in found:
            data["sig"] = sig
            found[sig] = Finding(sig, what, data)

    # 0. failures of the property oracle seen during the correspondence run are findings as they stand
    for sig, what, data in getattr(ctx, "prop_failures", []):
        note(sig, what, dict(data))

    def term_case(name, mk, text, h, w):
        obj = mk()
        j = _judge(lambda t: ps.deserialize_problem(obj, t, height=h, width=w),
                   lambda v: ps.serialize_problem(obj, v, height=h, width=w), text)
        if j:
            note(_sig(name, j[0], text, h, w), "deserialize_problem(%s, %r, height=%d, width=%d) %s" % (name, text, h, w, j[1]),
                 {"kind": "term", "term": name, "text": text, "h": h, "w": w})

    T = {
        "Seq(HexInt(),1)": lambda: ps.Seq(ps.HexInt(), 1),
        "Seq(DecInt(),1)": lambda: ps.Seq(ps.DecInt(), 1),
        "Seq(OneOf(Spaces(0,'g'),HexInt()),2)": lambda: ps.Seq(ps.OneOf(ps.Spaces(0, "g"), ps.HexInt()), 2),
        "Seq(MultiDigit(3,3),4)": lambda: ps.Seq(ps.MultiDigit(3, 3), 4),
        "Seq(OneOf(Spaces(-1,'g'),IntSpaces(-1,4,2)),3)": lambda: ps.Seq(ps.OneOf(ps.Spaces(-1, "g"), ps.IntSpaces(-1, 4, 2)), 3),
        "Tupl(HexInt(),FixStr('/'),DecInt())": lambda: ps.Tupl(ps.HexInt(), ps.FixStr("/"), ps.DecInt()),
        "Grid(OneOf(Dict([-1],['.']),Spaces(0,'g'),HexInt()))": lambda: ps.Grid(ps.OneOf(ps.Dict([-1], ["."]), ps.Spaces(0, "g"), ps.HexInt())),
        "Rooms()": lambda: ps.Rooms(),
        "Rooms(skip_on_error=True)": lambda: ps.Rooms(skip_on_error=True),
        "ValuedRooms(HexInt())": lambda: ps.ValuedRooms(ps.HexInt()),
    }
    alpha = "0f-+g.٣²z"
    # 1. every string up to length 3 (4 for the 1-item terms) over a small alphabet, boards up to 2x2 incl. 0 and 1
    for name, mk in T.items():
        dims = [(1, 1)] if not ("Rooms" in name or "Grid" in name) else [(h, w) for h in range(0, 3) for w in range(0, 3)]
        maxlen = 4 if name.startswith("Seq(HexInt") or name.startswith("Seq(DecInt") else 3
        for n in range(0, maxlen + 1):
            for tup in itertools.product(alpha, repeat=n):
                for (h, w) in dims:
                    term_case(name, mk, "".join(tup), h, w)
    # 2. every leaf method at every index: only None / ValueError / a tuple
    leaves = {
        "FixStr('ab')": ps.FixStr("ab"), "Dict([1,2],['x','yz'])": ps.Dict([1, 2], ["x", "yz"]), "Spaces(0,'g')": ps.Spaces(0, "g"),
        "DecInt()": ps.DecInt(), "HexInt()": ps.HexInt(), "IntSpaces(-1,4,2)": ps.IntSpaces(-1, 4, 2), "MultiDigit(2,5)": ps.MultiDigit(2, 5),
    }
    for name, obj in leaves.items():
        for n in range(0, 4):
            for tup in itertools.product("0f-+gxyz", repeat=n):
                t = "".join(tup)
                for idx in range(0, n + 1):
                    o = sc.run_guarded(lambda: obj.deserialize(_env(1, 1), t, idx), 5)
                    if o[0] == "diverge" or (o[0] == "err" and o[1] not in ALLOWED_ERR):
                        note(name.split("(")[0].lower() + ":exception:" + (o[1] if o[0] == "err" else "non-termination"),
                             "%s.deserialize(env, %r, %d) %s" % (name, t, idx, "raises " + o[1] if o[0] == "err" else "does not terminate"),
                             {"kind": "leaf", "leaf": name, "text": t, "idx": idx})
    # 3. valid room encodings (one mutation) on boards incl. single rows / columns; large boards
    for _ in range(400):
        h, w = rng.choice([(1, rng.randint(1, 6)), (rng.randint(1, 6), 1), (rng.randint(2, 5), rng.randint(2, 5))])
        nbits = (h * (w - 1) + 4) // 5 + ((h - 1) * w + 4) // 5
        t = "".join(rng.choice("0123456789abcdefghijklmnopqrstuv") for _ in range(nbits))
        if rng.random() < 0.5:
            t, _ = sc.mutate_text(rng, t)
        term_case("Rooms(allow_redundant_border=True)", lambda: ps.Rooms(allow_redundant_border=True), t, h, w)
        term_case("Rooms()", T["Rooms()"], t, h, w)
    for n in (40, 60):
        term_case("Rooms()", T["Rooms()"], "0" * (2 * ((n * (n - 1) + 4) // 5)), n, n)
        term_case("Rooms(skip_on_error=True)", T["Rooms(skip_on_error=True)"], "0" * (2 * ((n * (n - 1) + 4) // 5)), n, n)
    # 4. URL functions
    objs = sc.puzzle_objects()
    names = sc.PUZZLES + ["slither"]
    urls = ["", "x", "https://puzz.link/p?", "https://puzz.link/p?lits/3/3", "puzz.link/p?lits/1/1/", "http://pzv.jp/p.html?heyawake/6/6/aa66aapv0fu0g2i3k"]
    for p in sc.PUZZLES:
        for _ in range(40):
            u = valid_url(rng, objs, p, rng.randint(1, 5), rng.randint(1, 5))
            if u:
                urls.append(u)
                urls.append(sc.mutate_text(rng, u)[0])
        urls += ["https://puzz.link/p?%s/%s/%s/%s" % (p, a, b, body) for a in ("0", "1", "2") for b in ("0", "1", "2")
                 for body in ("", "0", "00", "g", "--1", "0.", "1.", "4f", "00g")]
    for _ in range(1500):
        urls.append(random_url(rng, names))
    # every short body over a small alphabet through each puzzle's OWN codec (1x1, 2x1, 1x2 boards)
    own = []
    for p in sc.PUZZLES:
        for (ww, hh) in ((1, 1), (2, 1), (1, 2)):
            for n in range(0, 5):
                for tup in itertools.product("0169af-+.g", repeat=n):
                    own.append((p, "https://puzz.link/p?%s/%d/%d/%s" % (p, ww, hh, "".join(tup))))
    pairs = [(u, p) for u in urls for p in sc.PUZZLES] + [(u, p) for (p, u) in own]
    for (u, p) in pairs:
        j = _judge_url(objs, p, u)
        if j:
            note(j[0], j[1], {"kind": "url", "puzzle": p, "url": u})
    return list(found.values())


def replay(ctx, data):
    import cspuz.problem_serializer as ps
    found = {}
    k = data.get("kind")
    if k == "term":
        ns = {n: getattr(ps, n) for n in ("FixStr", "Dict", "Spaces", "DecInt", "HexInt", "IntSpaces", "MultiDigit", "OneOf", "Tupl",
                                          "Seq", "Grid", "Rooms", "ValuedRooms")}
        obj = eval(data["term"], ns)  # term text produced by search() above
        h, w = data["h"], data["w"]
        j = _judge(lambda t: ps.deserialize_problem(obj, t, height=h, width=w), lambda v: ps.serialize_problem(obj, v, height=h, width=w), data["text"])
        return Finding(data["sig"], "still fails: " + j[1], data) if j else None
    if k == "ast":
        obj = sc.build(data["ast"])
        j = _judge_term(data["ast"], obj, data["text"], data["h"], data["w"])
        return Finding(data["sig"], "still fails: " + j[1], data) if j else None
    if k == "leaf":
        ns = {n: getattr(ps, n) for n in ("FixStr", "Dict", "Spaces", "DecInt", "HexInt", "IntSpaces", "MultiDigit")}
        obj = eval(data["leaf"], ns)
        o = sc.run_guarded(lambda: obj.deserialize(_env(1, 1), data["text"], data["idx"]), 5)
        if o[0] == "diverge" or (o[0] == "err" and o[1] not in ALLOWED_ERR):
            return Finding(data["sig"], "still fails: %s" % (o,), data)
        return None
    if k == "thin":
        j = judge_thin(sc.puzzle_objects(), data["codec"], data["h"], data["w"], data["text"])
        return Finding(data["sig"], "still fails: " + j[1][:400], data) if j else None
    if k == "url":
        objs = sc.puzzle_objects()
        mod, comb, ser, de = objs[data["puzzle"]]
        u = data["url"]
        o = sc.run_guarded(lambda: de(u), 5)
        if o[0] == "diverge" or (o[0] == "err" and o[1] not in ALLOWED_ERR):
            return Finding(data["sig"], "still fails: %s" % (o,), data)
        if o[0] == "ret" and o[1] is not None:
            m = ps._DESERIALIZE_URL_REG.match(u)
            hh, ww = int(m[3]), int(m[2])
            v = o[1]
            prob = v[2] if isinstance(v, tuple) and len(v) == 3 and data["puzzle"] in ("lits", "norinori", "heyawake") else v
            e = sc.run_guarded(lambda: ps.serialize_problem_as_url(comb, m[1], hh, ww, prob), 5)
            if e[0] != "ret":
                return Finding(data["sig"], "still not re-encodable: %r" % (v,), data)
            o2 = sc.run_guarded(lambda: de(e[1]), 5)
            if o2[0] != "ret" or _typed(o2[1]) != _typed(v):
                return Finding(data["sig"], "canonical URL decodes differently", data)
        return None
    return None
