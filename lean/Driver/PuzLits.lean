import Driver.PuzCL
import CspuzModel.Model.Puzzles.Lits
namespace Cspuz.Drv
open Cspuz

/-- `(puz_lits h w (((y x) …) …))` -/
def handlePuzLits : Sexp → Option Sexp
  | .list [.atom "puz_lits", h, w, blocks] => do
    let h ← h.toNat?; let w ← w.toNat?; let blocks ← CL.rooms? blocks
    some (CL.puzProgS (Puzzles.Lits.program { height := h, width := w, blocks := blocks }))
  | _ => none

end Cspuz.Drv
