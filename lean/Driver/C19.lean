import CspuzModel.Model.Sexp
import CspuzModel.Model.Generator
namespace Cspuz.Drv
open Cspuz Cspuz.Gen

namespace C19

def errS (e : PyErr) : Sexp := .list [.atom "err", .atom e.name]

def ints? : Sexp → Option (List Int)
  | .list l => l.mapM Sexp.toInt?
  | _ => none

def grid? : Sexp → Option (Grid Int)
  | .list l => l.mapM ints?
  | _ => none

def gridS (g : Grid Int) : Sexp := .list (g.map fun r => .list (r.map .ofInt))

def pairs? : Sexp → Option (List (Int × Int))
  | .list l => l.mapM fun p => match p with
    | .list [a, b] => do some ((← a.toInt?), (← b.toInt?))
    | _ => none
  | _ => none

/-- `(h w (choice…) default ((dy dx)…) symmetry useMove initial)`; `initial` is `N` or a grid. -/
def arrayCfg? : List Sexp → Option (ArrayCfg Int)
  | [h, w, ch, d, dis, sym, mv, ini] => do
    let ini ← match ini with
      | .atom "N" => some none
      | g => (grid? g).map some
    some { height := ← h.toNat?, width := ← w.toNat?, choice := ← ints? ch, default := ← d.toInt?,
           disallow := ← pairs? dis, symmetry := ← sym.toBool?, useMove := ← mv.toBool?, initial := ini }
  | _ => none

def cellUpdS (u : CellUpd Int) : Sexp := .list (u.map fun t => .list [.ofInt t.1, .ofInt t.2.1, .ofInt t.2.2])

partial def pat? : Sexp → Option (Pat Int)
  | .list (.atom "L" :: l) => (l.mapM pat?).map Pat.list
  | .list (.atom "T" :: l) => (l.mapM pat?).map Pat.tuple
  | .list [.atom "C", v] => v.toInt?.map Pat.const
  | .list [.atom "B", .atom "choice", ch, d] => do some (.builder (.choice (← ints? ch) (← d.toInt?)))
  | .list (.atom "B" :: .atom "array" :: rest) => (arrayCfg? rest).map fun c => .builder (.array c)
  | _ => none

partial def prob? : Sexp → Option (Prob Int)
  | .list (.atom "L" :: l) => (l.mapM prob?).map Prob.list
  | .list (.atom "T" :: l) => (l.mapM prob?).map Prob.tuple
  | .list [.atom "v", v] => v.toInt?.map fun v => .leaf (.val v)
  | .list [.atom "g", g] => (grid? g).map fun g => .leaf (.grid g)
  | _ => none

partial def probS : Prob Int → Sexp
  | .leaf (.val v) => .list [.atom "v", .ofInt v]
  | .leaf (.grid g) => .list [.atom "g", gridS g]
  | .list l => .list (.atom "L" :: l.map probS)
  | .tuple l => .list (.atom "T" :: l.map probS)

/-- Run a `Rand` computation and report the value together with the next raw output (so that the number of
draws consumed is compared as well). -/
def runR {α} (f : α → Sexp) (m : Rand α) (s : XS) : Sexp :=
  match m s with
  | .ok v s' => .list [.atom "ok", f v, .ofNat s'.next.2]
  | .err e => errS e
  | .outOfFuel => .atom "out-of-fuel"

/-- One op of a PRNG call sequence; the state is kept when the op raises (the Python functions raise before
drawing). -/
def prngOp (fuel : Nat) (s : XS) : Sexp → Option (Sexp × XS)
  | .list [.atom "next"] => some (.ofNat s.next.2, s.next.1)
  | .list [.atom "random"] =>
    match randomNum s with
    | .ok n s' => some (.ofNat n, s')
    | _ => none
  | .list [.atom "randint", a, b] => do
    let a ← a.toInt?; let b ← b.toInt?
    match randint fuel a b s with
    | .ok r s' => some (.ofInt r, s')
    | .err e => some (errS e, s)
    | .outOfFuel => some (.atom "out-of-fuel", s)
  | .list [.atom "choice", l] => do
    let l ← ints? l
    match choice fuel l s with
    | .ok r s' => some (.ofInt r, s')
    | .err e => some (errS e, s)
    | .outOfFuel => some (.atom "out-of-fuel", s)
  | .list [.atom "shuffle", l] => do
    let l ← ints? l
    match shuffle fuel l s with
    | .ok r s' => some (.list (r.map .ofInt), s')
    | .err e => some (errS e, s)
    | .outOfFuel => some (.atom "out-of-fuel", s)
  | _ => none

def prngOps (fuel : Nat) : XS → List Sexp → List Sexp → Option (List Sexp)
  | _, [], acc => some acc.reverse
  | s, op :: ops, acc => do
    let (r, s') ← prngOp fuel s op
    prngOps fuel s' ops (r :: acc)

def outputs : Nat → XS → List Sexp → List Sexp
  | 0, _, acc => acc.reverse
  | n + 1, s, acc => outputs n s.next.1 (.ofNat s.next.2 :: acc)

/-! mock callbacks shared with harness/c19.py -/

partial def probCode : Prob Int → List Int
  | .leaf (.val v) => [1, v]
  | .leaf (.grid g) => [2, (g.length : Int)] ++ (g.map fun r => [3, (r.length : Int)] ++ r).flatten
  | .list l => [4, (l.length : Int)] ++ (l.map probCode).flatten
  | .tuple l => [5, (l.length : Int)] ++ (l.map probCode).flatten

def mockHash (codes : List Int) (salt : Nat) : Nat :=
  codes.foldl (fun h v => (h * 1000003 + (v + 1000).toNat) % 2147483647) salt

structure Mock where
  salt : Nat
  indexWeight : Nat
  satPct : Nat
  uniqPct : Nat
  scoreRange : Nat
  preSalt : Option Nat
  prePct : Nat
  penSalt : Option Nat
  penRange : Nat
  table : List (List Nat)

def Mock.accept (m : Mock) (num : Nat) (delta : Int) (step : Nat) : Bool :=
  match m.table[step]? with
  | some row =>
    match row[(-delta - 1).toNat]? with
    | some thr => decide (num < thr)
    | none => false
  | none => false

def mock? : Sexp → Option Mock
  | .list [salt, iw, sat, uq, sr, pre, prePct, pen, penRange, tbl] => do
    let optNat (s : Sexp) : Option (Option Nat) := match s with
      | .atom "N" => some none
      | s => s.toNat?.map some
    let tbl ← match tbl with
      | .list rows => rows.mapM fun r => match r with
        | .list xs => xs.mapM Sexp.toNat?
        | _ => none
      | _ => none
    some { salt := ← salt.toNat?, indexWeight := ← iw.toNat?, satPct := ← sat.toNat?, uniqPct := ← uq.toNat?,
           scoreRange := ← sr.toNat?, preSalt := ← optNat pre, prePct := ← prePct.toNat?,
           penSalt := ← optNat pen, penRange := ← penRange.toNat?, table := tbl }
  | _ => none

def genCfg (fuel : Nat) (pat : Pat Int) (vars : List (List Nat × BuilderSpec Int)) (m : Mock)
    (maxSteps : Option Nat) (solveInitial : Bool) : GenCfg (Prob Int) (List Nat × Upd Int) Nat where
  solver := fun i p =>
    let h := mockHash (probCode p) (m.salt + i * m.indexWeight)
    (decide (h % 100 < m.satPct), h)
  uniqueness := fun a => decide ((a / 100) % 100 < m.uniqPct)
  score := fun a => (((a / 10000) % m.scoreRange : Nat) : Int)
  cluePenalty := m.penSalt.map fun s => fun p => ((mockHash (probCode p) s % m.penRange : Nat) : Int)
  pretest := m.preSalt.map fun s => fun p => decide (mockHash (probCode p) s % 100 < m.prePct)
  nbrs := neighbours fuel pat vars
  apply := realise pat
  accept := m.accept
  maxSteps := maxSteps
  solveInitial := solveInitial

/-- All problems yielded by `generator(problem)` (each `with_update` evaluated; the first exception ends
the list, as it would end the Python iteration). -/
def realiseAll (pat : Pat Int) (prob : Prob Int) : List (List Nat × Upd Int) → List Sexp → List Sexp
  | [], acc => acc.reverse
  | n :: ns, acc =>
    match realise pat prob n with
    | .ok p => realiseAll pat prob ns (probS p :: acc)
    | .error e => (errS e :: acc).reverse

end C19

open C19 in
def handleC19 : Sexp → Option Sexp
  | .list [.atom "c19_next", seed, n] => do
    some (.list (outputs (← n.toNat?) (XS.init (← seed.toInt?)) []))
  | .list [.atom "c19_ops", seed, fuel, .list ops] => do
    some (.list (← prngOps (← fuel.toNat?) (XS.init (← seed.toInt?)) ops []))
  | .list [.atom "c19_choice_cands", ch, cur] => do
    some (.list ((choiceCandidates (← ints? ch) (← cur.toInt?)).map .ofInt))
  | .list [.atom "c19_cands", seed, fuel, .list cfg, g] => do
    let c ← arrayCfg? cfg
    some (runR (fun us => .list (us.map cellUpdS)) (arrayCandidates (← fuel.toNat?) c (← grid? g))
      (XS.init (← seed.toInt?)))
  | .list [.atom "c19_initial", .list cfg] => do
    some (gridS (← arrayCfg? cfg).initialGrid)
  | .list [.atom "c19_apply", g, .list u] => do
    let u ← u.mapM fun t => match t with
      | .list [y, x, v] => do some ((← y.toInt?), (← x.toInt?), (← v.toInt?))
      | _ => none
    match applyCells (← grid? g) u with
    | .ok g' => some (gridS g')
    | .error e => some (errS e)
  | .list [.atom "c19_enum", pat] => do
    let pat ← pat? pat
    let r := enumVars pat []
    some (.list [probS r.1, .list (r.2.map fun pv => .list (pv.1.map .ofNat))])
  | .list [.atom "c19_nbrs", seed, fuel, pat, prob] => do
    let pat ← pat? pat
    let prob ← prob? prob
    let vars := (enumVars pat []).2
    some (runR (fun ns => .list (realiseAll pat prob ns [])) (neighbours (← fuel.toNat?) pat vars prob)
      (XS.init (← seed.toInt?)))
  | .list [.atom "c19_args", a, b, c] => do
    match checkArgs (← a.toBool?) (← b.toBool?) (← c.toBool?) with
    | .ok () => some (.atom "ok")
    | .error e => some (errS e)
  | .list [.atom "c19_gen", seed, fuel, pat, mock, maxSteps, solveInitial] => do
    let pat ← pat? pat
    let m ← mock? mock
    let maxSteps ← match maxSteps with
      | .atom "N" => some none
      | s => s.toNat?.map some
    let r := enumVars pat []
    let cfg := genCfg (← fuel.toNat?) pat r.2 m maxSteps (← solveInitial.toBool?)
    some (runR (fun (res : Option (Prob Int) × List (Prob Int)) =>
        .list [match res.1 with | some p => probS p | none => .atom "N", .list (res.2.map probS)])
      (generate cfg r.1) (XS.init (← seed.toInt?)))
  | _ => none

end Cspuz.Drv
