import CspuzModel.Model.Puzzles.Akari
import CspuzModel.Model.ExprIO
namespace Cspuz.Drv
open Cspuz Cspuz.Spec

private def intList? : Sexp → Option (List Int)
  | .list l => l.mapM Sexp.toInt?
  | _ => none

private def intTable? : Sexp → Option (List (List Int))
  | .list l => l.mapM intList?
  | _ => none

private def puzProgSexp (P : PuzzleProg) : Sexp :=
  .list [.atom "res", Prog.toSexp { decls := P.decls, cs := P.cs },
    .list (P.keys.map fun k =>
      match P.decls[k]? with
      | some (.int _ _) => .atom ("i" ++ toString k)
      | _ => .atom ("b" ++ toString k))]

/-- `(puz_akari height width ((row) …))` -/
def handlePuzAkari : Sexp → Option Sexp
  | .list [.atom "puz_akari", h, w, t] => do
    let h ← h.toNat?; let w ← w.toNat?; let t ← intTable? t
    some (pyResult puzProgSexp (Puzzles.Akari.program { height := h, width := w, problem := t }))
  | _ => none

end Cspuz.Drv
