import CspuzModel.Model.Puzzles.Simpleloop
import Driver.PuzCL
namespace Cspuz.Drv
open Cspuz Cspuz.Spec

/-- `(puz_simpleloop height width ((row) …) py px)` -/
def handlePuzSimpleloop : Sexp → Option Sexp
  | .list [.atom "puz_simpleloop", h, w, t, py, px] => do
    let h ← h.toNat?; let w ← w.toNat?; let t ← CL.table? t
    let py ← py.toInt?; let px ← px.toInt?
    some (CL.puzProgS (Puzzles.Simpleloop.program { height := h, width := w, blocked := t, pivot := (py, px) }))
  | _ => none

end Cspuz.Drv
