import Driver.PuzCL
import CspuzModel.Model.Puzzles.Shakashaka
namespace Cspuz.Drv
open Cspuz

def shakaCell? : Sexp → Option (Option Int)
  | .atom "N" => some none
  | s => s.toInt?.map some

/-- `(puz_shakashaka h w ((cell …) …))`; cell = `N` (white) or an integer. -/
def handlePuzShakashaka : Sexp → Option Sexp
  | .list [.atom "puz_shakashaka", h, w, .list rows] => do
    let h ← h.toNat?; let w ← w.toNat?
    let t ← rows.mapM fun r => match r with
      | .list l => l.mapM shakaCell?
      | _ => none
    some (CL.puzProgS (Puzzles.Shakashaka.program { height := h, width := w, problem := t }))
  | _ => none

end Cspuz.Drv
