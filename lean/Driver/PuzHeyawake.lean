import Driver.PuzCL
import CspuzModel.Model.Puzzles.Heyawake
namespace Cspuz.Drv
open Cspuz

private def rects? : Sexp → Option (List Puzzles.Heyawake.Rect)
  | .list l => l.mapM fun r => match r with
    | .list [a, b, c, d, n] => do
      some { y0 := ← a.toInt?, x0 := ← b.toInt?, y1 := ← c.toInt?, x1 := ← d.toInt?, n := ← n.toInt? }
    | _ => none
  | _ => none

private def ints? : Sexp → Option (List Int)
  | .list l => l.mapM Sexp.toInt?
  | _ => none

/-- `(puz_heyawake h w (((y x) …) …) (clue …))` or `(puz_heyawake h w rect ((y0 x0 y1 x1 n) …))` -/
def handlePuzHeyawake : Sexp → Option Sexp
  | .list [.atom "puz_heyawake", h, w, .atom "rect", rs] => do
    let h ← h.toNat?; let w ← w.toNat?; let rs ← rects? rs
    some (CL.puzProgS (Puzzles.Heyawake.programRect h w rs))
  | .list [.atom "puz_heyawake", h, w, rooms, clues] => do
    let h ← h.toNat?; let w ← w.toNat?; let rooms ← CL.rooms? rooms; let clues ← ints? clues
    some (CL.puzProgS (Puzzles.Heyawake.program { height := h, width := w, rooms := rooms, clues := clues }))
  | _ => none

end Cspuz.Drv
