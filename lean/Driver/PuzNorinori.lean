import Driver.PuzCL
import CspuzModel.Model.Puzzles.Norinori
namespace Cspuz.Drv
open Cspuz

/-- `(puz_norinori h w (((y x) …) …))` -/
def handlePuzNorinori : Sexp → Option Sexp
  | .list [.atom "puz_norinori", h, w, blocks] => do
    let h ← h.toNat?; let w ← w.toNat?; let blocks ← CL.rooms? blocks
    some (CL.puzProgS (Puzzles.Norinori.program { height := h, width := w, blocks := blocks }))
  | _ => none

end Cspuz.Drv
