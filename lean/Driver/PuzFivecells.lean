import Driver.PuzCL
import CspuzModel.Model.Puzzles.Fivecells
namespace Cspuz.Drv
open Cspuz

/-- `(puz_fivecells h w ((row) …))`.  When the module sets `is_invalid` it returns without calling
`solver.solve()`; the harness's recording solver then has nothing to show (`KeyError` in the capture), which
this command mirrors so that the flag itself is compared. -/
def handlePuzFivecells : Sexp → Option Sexp
  | .list [.atom "puz_fivecells", h, w, t] => do
    let h ← h.toNat?; let w ← w.toNat?; let t ← CL.table? t
    let r := Puzzles.Fivecells.run { height := h, width := w, problem := t }
    some (CL.puzProgS (r.bind fun r => if r.isInvalid then .error .keyError else .ok r.prog))
  | _ => none

end Cspuz.Drv
