import CspuzModel.Model.Puzzles.Yajilin
import Driver.PuzCL
namespace Cspuz.Drv
open Cspuz Cspuz.Spec Cspuz.Puzzles.Yajilin

private def clue? : Sexp → Option Clue
  | .atom "e" => some .empty
  | .atom "q" => some .unknown
  | .list [.atom d, n] => do
    let n ← n.toInt?
    match d with
    | "u" => some (.arrow .up n)
    | "d" => some (.arrow .down n)
    | "l" => some (.arrow .left n)
    | "r" => some (.arrow .right n)
    | _ => none
  | _ => none

private def clueTable? : Sexp → Option (List (List Clue))
  | .list rows => rows.mapM fun r => match r with
    | .list l => l.mapM clue?
    | _ => none
  | _ => none

/-- `(puz_yajilin height width ((clue …) …))` with clues `e` (".."), `q` ("??"), `(u n)`, `(d n)`, `(l n)`, `(r n)`. -/
def handlePuzYajilin : Sexp → Option Sexp
  | .list [.atom "puz_yajilin", h, w, t] => do
    let h ← h.toNat?; let w ← w.toNat?; let t ← clueTable? t
    some (CL.puzProgS (Puzzles.Yajilin.program { height := h, width := w, problem := t }))
  | _ => none

end Cspuz.Drv
