import CspuzModel.Model.Sexp
import CspuzModel.Model.PuzzleCodecs
import CspuzModel.Spec.Pzpr
import Driver.C15
/-!
  Line-protocol handlers for property C16: the model of the per-puzzle URL codecs (Model/PuzzleCodecs.lean) and the
  independent pzpr decoders (Spec/Pzpr.lean).  Values / strings / outcomes as in Driver/C15.lean.

  model : `(c16 encarr (v…) markerCp empty dim|N)` `(c16 encseg h w ((id…)…))` `(c16 b2id h w (((y x)…)…))`
          `(c16 aqua h w (((y x)…)…) (v…) (v…))` `(c16 star n k ((id…)…))` `(c16 compto h w ((y x u l d r)…))`
          `(c16 compparse (cp…))` `(c16 sergrid name v)` `(c16 serrooms name h w v)` `(c16 serhey h w rooms clues)`
          `(c16 serheyrect h w ((y0 x0 y1 x1 n)…))`     (deserialize_<p> is `(pde name (cp…))` of Driver/C15)
  spec  : `(pz url (cp…))` `(pz numgrid r c (cp…))` `(pz slither r c (cp…))` `(pz masyu r c (cp…))` `(pz yajilin r c (cp…))`
          `(pz rooms r c (cp…))` `(pz borders r c (cp…))` `(pz heyawake r c (cp…))` `(pz star r c (cp…))`
          `(pz aquarium r c (cp…))` `(pz compass r c (cp…))`            replies `(ok …)` or `none`
-/
namespace Cspuz.Drv
open Cspuz Cspuz.Ser Cspuz.Codecs

def intList? : Sexp → Option (List Int)
  | .list l => l.mapM Sexp.toInt?
  | _ => none

def intGrid? : Sexp → Option (List (List Int))
  | .list l => l.mapM intList?
  | _ => none

def cellList? : Sexp → Option (List (Int × Int))
  | .list l => l.mapM fun p => match p with
    | .list [y, x] => do some ((← y.toInt?), (← x.toInt?))
    | _ => none
  | _ => none

def blocks? : Sexp → Option (List (List (Int × Int)))
  | .list l => l.mapM cellList?
  | _ => none

def pyVals? : Sexp → Option (List PyVal)
  | .list l => l.mapM pyVal?
  | _ => none

def clue? : Sexp → Option CompassClue
  | .list [y, x, u, l, d, r] => do
    some ⟨(← y.toInt?), (← x.toInt?), (← u.toInt?), (← l.toInt?), (← d.toInt?), (← r.toInt?)⟩
  | _ => none

def clueS (c : CompassClue) : Sexp :=
  .list [.ofInt c.y, .ofInt c.x, .ofInt c.up, .ofInt c.left, .ofInt c.down, .ofInt c.right]

def rect? : Sexp → Option (Int × Int × Int × Int × Int)
  | .list [a, b, c, d, e] => do some ((← a.toInt?), (← b.toInt?), (← c.toInt?), (← d.toInt?), (← e.toInt?))
  | _ => none

def optS {α} (f : α → List Sexp) : Option α → Sexp
  | some a => .list (.atom "ok" :: f a)
  | none => .atom "none"

def intsS (l : List Int) : Sexp := .list (l.map .ofInt)
def intGridS (g : List (List Int)) : Sexp := .list (g.map intsS)
def boolGridS (g : List (List Bool)) : Sexp := .list (g.map fun r => .list (r.map .ofBool))
def bordersS (b : Pzpr.Borders) : List Sexp := [boolGridS b.vertical, boolGridS b.horizontal]
def roomsS (rooms : List (List (Nat × Nat))) : Sexp :=
  .list (rooms.map fun r => .list (r.map fun c => .list [.ofNat c.1, .ofNat c.2]))

def arrowS : Pzpr.Arrow → Sexp
  | none => .atom "N"
  | some (d, n) => .list [.ofNat d, .ofInt n]

def compassCellS : Pzpr.CompassCell → Sexp
  | none => .atom "N"
  | some (u, d, l, r) => .list [.ofInt u, .ofInt d, .ofInt l, .ofInt r]

def handleC16 : Sexp → Option Sexp
  | .list [.atom "c16", .atom "encarr", vs, marker, empty, dim] => do
    let vs ← pyVals? vs; let marker ← marker.toNat?; let empty ← pyVal? empty
    let dim ← (match dim with | .atom "N" => some none | d => d.toNat?.map some)
    some (outcomeS (fun r => [strS r]) (encodeArray vs marker empty dim))
  | .list [.atom "c16", .atom "encseg", h, w, g] => do
    let h ← h.toNat?; let w ← w.toNat?; let g ← intGrid? g
    some (outcomeS (fun r => [strS r]) (encodeGridSegmentation h w g))
  | .list [.atom "c16", .atom "b2id", h, w, bs] => do
    let h ← h.toNat?; let w ← w.toNat?; let bs ← blocks? bs
    some (outcomeS (fun r => [intGridS r]) (blocksToBlockId h w bs))
  | .list [.atom "c16", .atom "aqua", h, w, bs, row, col] => do
    let h ← h.toNat?; let w ← w.toNat?; let bs ← blocks? bs; let row ← pyVals? row; let col ← pyVals? col
    some (outcomeS (fun r => [strS r]) (aquariumProblemToUrl h w bs row col))
  | .list [.atom "c16", .atom "star", n, k, g] => do
    let n ← n.toNat?; let k ← k.toInt?; let g ← intGrid? g
    some (outcomeS (fun r => [strS r]) (starBattleProblemToPzvUrl n k g))
  | .list [.atom "c16", .atom "compto", h, w, .list cs] => do
    let h ← h.toNat?; let w ← w.toNat?; let cs ← cs.mapM clue?
    some (outcomeS (fun r => [strS r]) (compassToPuzzLinkUrl h w cs))
  | .list [.atom "c16", .atom "compparse", url] => do
    let url ← strOf? url
    some (outcomeS (fun r => [.ofInt r.1, .ofInt r.2.1, .list (r.2.2.map clueS)]) (compassParsePuzzLinkUrl url))
  | .list [.atom "c16", .atom "sergrid", .atom name, v] => do
    let pc ← Gen.puzzleCodecs.find? (·.name == name); let v ← pyVal? v
    some (outcomeS (fun r => [strS r]) (serializeGridPuzzle pc v))
  | .list [.atom "c16", .atom "serrooms", .atom name, h, w, v] => do
    let pc ← Gen.puzzleCodecs.find? (·.name == name); let h ← h.toNat?; let w ← w.toNat?; let v ← pyVal? v
    some (outcomeS (fun r => [strS r]) (serializeRoomsPuzzle pc h w v))
  | .list [.atom "c16", .atom "serhey", h, w, rooms, clues] => do
    let h ← h.toNat?; let w ← w.toNat?; let rooms ← pyVal? rooms; let clues ← pyVal? clues
    some (outcomeS (fun r => [strS r]) (serializeHeyawake h w rooms clues))
  | .list [.atom "c16", .atom "serheyrect", h, w, .list rs] => do
    let h ← h.toNat?; let w ← w.toNat?; let rs ← rs.mapM rect?
    some (outcomeS (fun r => [strS r]) (serializeHeyawakeRect h w rs))
  | .list [.atom "pz", .atom "url", url] => do
    let url ← strOf? url
    some (optS (fun (f : Pzpr.Frame) => [strS f.name, .ofNat f.cols, .ofNat f.rows, strS f.body]) (Pzpr.parseUrl url))
  | .list [.atom "pz", .atom kind, r, c, body] => do
    let r ← r.toNat?; let c ← c.toNat?; let body ← strOf? body
    match kind with
    | "numgrid" => some (optS (fun g => [intGridS g]) (Pzpr.decodeNumberGrid r c body))
    | "slither" => some (optS (fun g => [intGridS g]) (Pzpr.decodeSlither r c body))
    | "masyu" => some (optS (fun (g : List (List Nat)) => [.list (g.map fun row => .list (row.map .ofNat))]) (Pzpr.decodeMasyu r c body))
    | "yajilin" => some (optS (fun (g : List (List Pzpr.Arrow)) => [.list (g.map fun row => .list (row.map arrowS))])
        (Pzpr.decodeYajilin r c body))
    | "rooms" => some (optS (fun rooms => [roomsS rooms]) (Pzpr.decodeRooms r c body))
    | "borders" => some (optS bordersS (Pzpr.decodeBorders r c body))
    | "heyawake" => some (optS (fun (p : List (List (Nat × Nat)) × List Int) => [roomsS p.1, intsS p.2]) (Pzpr.decodeHeyawake r c body))
    | "star" => some (optS (fun (p : Nat × Pzpr.Borders) => [.ofNat p.1, roomsS (Pzpr.roomsOfBorders r c p.2)] ++ bordersS p.2)
        (Pzpr.decodeStarBattle r c body))
    | "aquarium" => some (optS (fun (p : Pzpr.Borders × List Int × List Int) =>
        [roomsS (Pzpr.roomsOfBorders r c p.1), intsS p.2.1, intsS p.2.2]) (Pzpr.decodeAquarium r c body))
    | "compass" => some (optS (fun (g : List (List Pzpr.CompassCell)) => [.list (g.map fun row => .list (row.map compassCellS))])
        (Pzpr.decodeCompass r c body))
    | _ => none
  | _ => none

end Cspuz.Drv
