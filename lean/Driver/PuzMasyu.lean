import CspuzModel.Model.Puzzles.Masyu
import Driver.PuzCL
namespace Cspuz.Drv
open Cspuz Cspuz.Spec

/-- `(puz_masyu height width ((row) …))` -/
def handlePuzMasyu : Sexp → Option Sexp
  | .list [.atom "puz_masyu", h, w, t] => do
    let h ← h.toNat?; let w ← w.toNat?; let t ← CL.table? t
    some (CL.puzProgS (Puzzles.Masyu.program { height := h, width := w, problem := t }))
  | _ => none

end Cspuz.Drv
