import Driver.PuzCL
import CspuzModel.Model.Puzzles.Nanro
namespace Cspuz.Drv
open Cspuz

/-- `(puz_nanro h w (((y x) …) …) ((num …) …))` -/
def handlePuzNanro : Sexp → Option Sexp
  | .list [.atom "puz_nanro", h, w, blocks, num] => do
    let h ← h.toNat?; let w ← w.toNat?; let blocks ← CL.rooms? blocks; let num ← CL.table? num
    some (CL.puzProgS (Puzzles.Nanro.program { height := h, width := w, blocks := blocks, num := num }))
  | _ => none

end Cspuz.Drv
