import CspuzModel.Model.Sexp
import CspuzModel.Spec.PySlice
namespace Cspuz.Drv
open Cspuz

def optInt? : Sexp → Option (Option Int)
  | .atom "N" => some none
  | s => s.toInt?.map some

def axisKey? : Sexp → Option AxisKey
  | .list [.atom "i", k] => (k.toInt?).map AxisKey.idx
  | .list [.atom "s", a, b, c] => do
    let a ← optInt? a; let b ← optInt? b; let c ← optInt? c
    some (AxisKey.slice a b c)
  | _ => none

def key2? : Sexp → Option Key2
  | .list [.atom "one", k] => (axisKey? k).map Key2.one
  | .list [.atom "pair", a, b] => do some (Key2.pair (← axisKey? a) (← axisKey? b))
  | .list (.atom "coords" :: l) => do
    let ps ← l.mapM fun p => match p with
      | .list [y, x] => do some ((← y.toInt?), (← x.toInt?))
      | _ => none
    some (Key2.coords ps)
  | _ => none

def errS (e : PyErr) : Sexp := .list [.atom "err", .atom e.name]

def idxResult (r : Py (IdxResult Nat)) : Sexp :=
  match r with
  | .error e => errS e
  | .ok (.scalar v) => .list [.atom "scalar", .ofNat v]
  | .ok (.arr1 l) => .list (.atom "arr1" :: l.map .ofNat)
  | .ok (.arr2 h w l) => .list (.atom "arr2" :: .ofNat h :: .ofNat w :: l.map .ofNat)

def handleC13 : Sexp → Option Sexp
  | .list [.atom "gi2", h, w, k] => do
    let h ← h.toNat?; let w ← w.toNat?; let k ← key2? k
    some (idxResult (getitem2D (List.range (h * w)) h w k))
  | .list [.atom "spec2", h, w, k] => do
    let h ← h.toNat?; let w ← w.toNat?; let k ← key2? k
    some (idxResult (Spec.specGetitem (Spec.toRows (List.range (h * w)) h w) h w k))
  | .list [.atom "gi1", n, k] => do
    let n ← n.toNat?; let k ← axisKey? k
    some (idxResult (Spec.specGetitem1D (List.range n) k))
  | .list [.atom "reshape", n, h, w] => do
    let n ← n.toNat?; let h ← h.toNat?; let w ← w.toNat?
    some (idxResult (reshape (List.range n) h w))
  | .list (.atom "nested" :: rows) => do
    -- (nested (e…) (e…) …): Array2D(rows) with the shape inferred → (ok h w e…) | (err ValueError)
    let rows ← rows.mapM fun r => match r with
      | .list es => es.mapM Sexp.toInt?
      | _ => none
    match ofNested rows with
    | .ok (h, w, data) => some (.list (.atom "ok" :: .ofNat h :: .ofNat w :: data.map .ofInt))
    | .error e => some (errS e)
  | .list [.atom "sliceidx", n, a, b, c] => do
    let n ← n.toNat?; let a ← optInt? a; let b ← optInt? b; let c ← optInt? c
    match sliceIndices n a b c with
    | .ok (s, e, st) => some (.list [.ofInt s, .ofInt e, .ofInt st])
    | .error e => some (errS e)
  | _ => none

end Cspuz.Drv
