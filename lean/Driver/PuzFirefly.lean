import CspuzModel.Model.Puzzles.Firefly
import Driver.PuzCL
namespace Cspuz.Drv
open Cspuz Cspuz.Spec Cspuz.Puzzles.Firefly

private def ffNum? : Sexp → Option Num
  | .atom "q" => some .unknown
  | .atom "bad" => some .bad
  | s => s.toInt?.map Num.num

private def ffClue? : Sexp → Option Clue
  | .atom "e" => some .empty
  | .atom "s" => some .short
  | .list [.atom d, n] => do
    let n ← ffNum? n
    match d with
    | "u" => some (.fly (some .up) n)
    | "d" => some (.fly (some .down) n)
    | "l" => some (.fly (some .left) n)
    | "r" => some (.fly (some .right) n)
    | "o" => some (.fly none n)
    | _ => none
  | _ => none

private def ffTable? : Sexp → Option (List (List Clue))
  | .list rows => rows.mapM fun r => match r with
    | .list l => l.mapM ffClue?
    | _ => none
  | _ => none

/-- `(puz_firefly height width ((clue …) …))` with clues `e` (first character "."), `s` (too short a string),
`(<dir> <num>)`, dir `u d l r o` (o = another character), num `q` ("?"), an integer, or `bad`. -/
def handlePuzFirefly : Sexp → Option Sexp
  | .list [.atom "puz_firefly", h, w, t] => do
    let h ← h.toNat?; let w ← w.toNat?; let t ← ffTable? t
    some (CL.puzProgS (Puzzles.Firefly.program { height := h, width := w, problem := t }))
  | _ => none

end Cspuz.Drv
