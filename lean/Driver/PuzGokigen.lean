import Driver.PuzCL
import CspuzModel.Model.Puzzles.Gokigen
namespace Cspuz.Drv
open Cspuz

/-- `(puz_gokigen h w ((row) …))` -/
def handlePuzGokigen : Sexp → Option Sexp
  | .list [.atom "puz_gokigen", h, w, t] => do
    let h ← h.toNat?; let w ← w.toNat?; let t ← CL.table? t
    some (CL.puzProgS (Puzzles.Gokigen.program { height := h, width := w, problem := t }))
  | _ => none

end Cspuz.Drv
