import Driver.PuzCL
import CspuzModel.Model.Puzzles.StarBattle
namespace Cspuz.Drv
open Cspuz

/-- `(puz_star_battle n ((row) (row) …) k)` -/
def handlePuzStarBattle : Sexp → Option Sexp
  | .list [.atom "puz_star_battle", n, blocks, k] => do
    let n ← n.toNat?; let blocks ← CL.table? blocks; let k ← k.toInt?
    some (CL.puzProgS (Puzzles.StarBattle.program { n := n, blocks := blocks, k := k }))
  | _ => none

end Cspuz.Drv
