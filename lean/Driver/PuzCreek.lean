import Driver.PuzCL
import CspuzModel.Model.Puzzles.Creek
namespace Cspuz.Drv
open Cspuz

/-- `(puz_creek h w ((row) …))` -/
def handlePuzCreek : Sexp → Option Sexp
  | .list [.atom "puz_creek", h, w, t] => do
    let h ← h.toNat?; let w ← w.toNat?; let t ← CL.table? t
    some (CL.puzProgS (Puzzles.Creek.program { height := h, width := w, problem := t }))
  | _ => none

end Cspuz.Drv
