import CspuzModel.Model.ExprIO
import CspuzModel.Model.Graph
import CspuzModel.Model.Crossable
namespace Cspuz.Drv
open Cspuz

def edges? : Sexp → Option (List (Nat × Nat))
  | .list l => l.mapM fun p => match p with
    | .list [a, b] => do some ((← a.toNat?), (← b.toNat?))
    | _ => none
  | _ => none

def graph? (n es : Sexp) : Option Graph := do some { n := ← n.toNat?, edges := ← edges? es }

def exprs? : Sexp → Option (List Expr)
  | .list l => Expr.ofSexps? l
  | _ => none

def optExprs? : Sexp → Option (List (Option Expr))
  | .list l => l.mapM fun s => match s with
    | .atom "N" => some none
    | s => (Expr.ofSexp? s).map some
  | _ => none

def edgesS (es : List (Nat × Nat)) : Sexp := .list (es.map fun e => .list [.ofNat e.1, .ofNat e.2])

def progIds (r : Py (Prog × List Expr)) : Sexp :=
  pyResult (fun (p : Prog × List Expr) => .list [.atom "res", p.1.toSexp, .list (p.2.map Expr.toSexp)]) r

def handleGraph : Sexp → Option Sexp
  | .list [.atom "avc", n, es, ia, base, acyclic, prim] => do
    let g ← graph? n es
    some (pyResult Prog.toSexp (activeVerticesConnected g (← exprs? ia) (← base.toNat?) (← acyclic.toBool?) (← prim.toBool?)))
  | .list [.atom "nadj_graph", n, es, ia] => do
    some (pyResult Prog.toSexp (notAdjacentGraph (← graph? n es) (← exprs? ia)))
  | .list [.atom "nadj_grid", h, w, ia] => do
    some (pyResult Prog.toSexp (notAdjacentGrid (← h.toNat?) (← w.toNat?) (← exprs? ia)))
  | .list [.atom "nseg_graph", n, es, ia, base, prim] => do
    some (pyResult Prog.toSexp (notSegmentingGraph (← graph? n es) (← exprs? ia) (← base.toNat?) (← prim.toBool?)))
  | .list [.atom "nseg_grid", h, w, ia, base, prim] => do
    some (pyResult Prog.toSexp (notSegmentingGrid (← h.toNat?) (← w.toNat?) (← exprs? ia) (← base.toNat?) (← prim.toBool?)))
  | .list [.atom "acyclic", n, es, ie, base] => do
    some (pyResult Prog.toSexp (activeEdgesAcyclic (← graph? n es) (← exprs? ie) (← base.toNat?)))
  | .list [.atom "divconn", n, es, dv, k, roots, allowEmpty, prim, base] => do
    let roots : Option (List (Option Nat)) ← match roots with
      | Sexp.atom "N" => some none
      | Sexp.list l => (l.mapM fun (s : Sexp) => match s with
          | Sexp.atom "N" => some (none : Option Nat)
          | s => s.toNat?.map some).map some
      | _ => none
    some (pyResult Prog.toSexp (divisionConnected (← graph? n es) (← exprs? dv) (← k.toNat?) roots
      (← allowEmpty.toBool?) (← prim.toBool?) (← base.toNat?)))
  | .list [.atom "vgroups", n, es, gs, base] => do
    let gs : GroupSize ← match gs with
      | Sexp.atom "none" => some GroupSize.none
      | Sexp.list [Sexp.atom "scalar", e] => (Expr.ofSexp? e).map GroupSize.scalar
      | Sexp.list (Sexp.atom "per" :: l) => (optExprs? (Sexp.list l)).map GroupSize.perVertex
      | _ => none
    some (progIds (variableGroups (← graph? n es) gs (← base.toNat?)))
  | .list [.atom "vgborders", n, es, gs, bd, prim, base] => do
    some (pyResult Prog.toSexp (variableGroupsWithBorders (← graph? n es) (← optExprs? gs) (← exprs? bd)
      (← prim.toBool?) (← base.toNat?)))
  | .list [.atom "cycle", n, es, ie, prim, base] => do
    some (progIds (singleCycle (← graph? n es) (← exprs? ie) (← prim.toBool?) (← base.toNat?)))
  | .list [.atom "path", n, es, ie, prim, base] => do
    some (progIds (singlePath (← graph? n es) (← exprs? ie) (← prim.toBool?) (← base.toNat?)))
  | .list [.atom "cycle_frame", h, w, prim, path] => do
    let H ← h.toNat?; let W ← w.toNat?
    let pr ← prim.toBool?; let pa ← path.toBool?
    let f := Frame.fresh 0 H W
    let r : Py (Prog × List Expr) := do
      let (es, g) ← fromGridFrame f
      if pa then singlePath g es pr (Frame.numVars H W)
      else singleCycle g es pr (Frame.numVars H W)
    some (progIds r)
  | .list [.atom "crossable", h, w, sc, prim] => do
    let H ← h.toNat?; let W ← w.toNat?
    let sc ← sc.toBool?; let pr ← prim.toBool?
    let f := Frame.fresh 0 H W
    some (pyResult (fun (r : Prog × List Expr × List Expr) =>
      .list [.atom "res", r.1.toSexp, .list (r.2.1.map Expr.toSexp ++ r.2.2.map Expr.toSexp)])
      (connectedCrossable f sc pr (Frame.numVars H W)))
  | .list [.atom "crossable2", h, w, sc, prim, b0, extra, neg] => do
    -- frame allocated after `b0` caller variables, `extra` more caller variables after it, entries negated when `neg`
    let H ← h.toNat?; let W ← w.toNat?
    let sc ← sc.toBool?; let pr ← prim.toBool?
    let b0 ← b0.toNat?; let extra ← extra.toNat?; let neg ← neg.toBool?
    let f0 := Frame.fresh b0 H W
    let ng (a : Arr2) : Arr2 := { a with data := a.data.map fun e => Expr.node .not [e] }
    let f : Frame := if neg then { f0 with horizontal := ng f0.horizontal, vertical := ng f0.vertical } else f0
    some (pyResult (fun (r : Prog × List Expr × List Expr) =>
      .list [.atom "res", r.1.toSexp, .list (r.2.1.map Expr.toSexp ++ r.2.2.map Expr.toSexp)])
      (connectedCrossable f sc pr (b0 + Frame.numVars H W + extra)))
  | .list [.atom "vgborders_frame", h, w, gs, prim] => do
    -- division_connected_variable_groups_with_borders(group_size=IntArray2D, is_border=BoolInnerGridFrame): the caller's
    -- h*w size variables come first, then the inner frame's variables, then the auxiliaries
    let H ← h.toNat?; let W ← w.toNat?; let pr ← prim.toBool?
    let gsl ← optExprs? gs
    let inner := InnerFrame.fresh (H * W) H W
    let base := H * W + (H - 1) * W + H * (W - 1)
    let r : Py Prog := do
      let (es, g) ← fromGridFrame inner.dual
      variableGroupsWithBorders g gsl es pr base
    some (pyResult Prog.toSexp r)
  | .list [.atom "grid", h, w] => do
    let g := Graph.grid (← h.toNat?) (← w.toNat?)
    some (.list [.ofNat g.n, edgesS g.edges])
  | .list [.atom "linegraph", n, es] => do
    let g ← graph? n es
    some (.list [.ofNat g.lineGraph.n, edgesS g.lineGraph.edges])
  | .list [.atom "incident", n, es] => do
    let g ← graph? n es
    some (.list ((List.range g.n).map fun v => edgesS (g.incident v)))
  | .list [.atom "fromframe", h, w, base] => do
    let f := Frame.fresh (← base.toNat?) (← h.toNat?) (← w.toNat?)
    some (pyResult (fun (r : List Expr × Graph) =>
      .list [.list (r.1.map Expr.toSexp), .ofNat r.2.n, edgesS r.2.edges]) (fromGridFrame f))
  | _ => none

end Cspuz.Drv
