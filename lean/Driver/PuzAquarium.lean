import CspuzModel.Model.Puzzles.Aquarium
import CspuzModel.Model.ExprIO
namespace Cspuz.Drv
open Cspuz Cspuz.Spec

private def intList? : Sexp → Option (List Int)
  | .list l => l.mapM Sexp.toInt?
  | _ => none

private def blocks? : Sexp → Option (List (List (Int × Int)))
  | .list bs => bs.mapM fun b => match b with
    | .list l => l.mapM fun p => match p with
      | .list [y, x] => do some ((← y.toInt?), (← x.toInt?))
      | _ => none
    | _ => none
  | _ => none

private def puzProgSexp (P : PuzzleProg) : Sexp :=
  .list [.atom "res", Prog.toSexp { decls := P.decls, cs := P.cs },
    .list (P.keys.map fun k =>
      match P.decls[k]? with
      | some (.int _ _) => .atom ("i" ++ toString k)
      | _ => .atom ("b" ++ toString k))]

/-- `(puz_aquarium height width (((y x) …) …) (clue_row…) (clue_col…))`: the repaired program;
`puz_aquarium_asis`: the source as it is (`block_id` with `width` rows). -/
def handlePuzAquarium : Sexp → Option Sexp
  | .list [.atom cmd, h, w, bs, cr, cc] =>
    if cmd == "puz_aquarium" || cmd == "puz_aquarium_asis" then do
      let h ← h.toNat?; let w ← w.toNat?; let bs ← blocks? bs; let cr ← intList? cr; let cc ← intList? cc
      let pb : Puzzles.Aquarium.Problem := { height := h, width := w, blocks := bs, clueRow := cr, clueCol := cc }
      some (pyResult puzProgSexp
        (if cmd == "puz_aquarium" then Puzzles.Aquarium.program pb else Puzzles.Aquarium.programAsIs pb))
    else none
  | _ => none

end Cspuz.Drv
