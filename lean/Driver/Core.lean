import CspuzModel.Model.ExprIO
import CspuzModel.Model.Solver
namespace Cspuz.Drv
open Cspuz

def decls? : Sexp → Option (List VarDecl)
  | .list l => l.mapM VarDecl.ofSexp?
  | _ => none

def valS : Option Val → Sexp
  | some (.b v) => .ofBool v
  | some (.i v) => .ofInt v
  | none => .atom "N"

/-- assignment given positionally: one value per declared variable (`T`/`F` or an integer). -/
def asg? (decls : List VarDecl) : Sexp → Option Asg
  | .list l =>
    if l.length ≠ decls.length then none else
    let vals := l.map fun s => match s with
      | .atom "T" => (true, (0 : Int))
      | .atom "F" => (false, (0 : Int))
      | s => (false, (s.toInt?).getD 0)
    some { b := fun id => (vals.getD id (false, 0)).1, i := fun id => (vals.getD id (false, 0)).2 }
  | _ => none

/-- all assignments of the declared variables (lexicographic, first variable slowest). -/
def allAsgs : List VarDecl → List (List Val)
  | [] => [[]]
  | .bool :: r => let rest := allAsgs r; [false, true].flatMap fun b => rest.map fun t => Val.b b :: t
  | .int lo hi :: r =>
    let rest := allAsgs r
    (List.range (hi - lo + 1).toNat).flatMap fun (k : Nat) => rest.map fun t => Val.i (lo + (k : Int)) :: t

def asgOf (vals : List Val) : Asg :=
  { b := fun id => match vals.getD id (.b false) with | .b v => v | _ => false,
    i := fun id => match vals.getD id (.i 0) with | .i v => v | _ => 0 }

def models (decls : List VarDecl) (cs : List Expr) : List (List Val) :=
  (allAsgs decls).filter fun vals => cs.all fun c => eval (asgOf vals) c == some (.b true)

mutual
partial def ztS : ZT → Sexp
  | .bconst id => .atom s!"b{id}"
  | .iconst id => .atom s!"i{id}"
  | .bval b => .atom (if b then "true" else "false")
  | .ival n => .ofInt n
  | .neg a => .list [.atom "-", ztS a]
  | .add a b => .list [.atom "+", ztS a, ztS b]
  | .sub a b => .list [.atom "-", ztS a, ztS b]
  | .cmp op a b => .list [.atom op.name, ztS a, ztS b]
  | .beq a b => .list [.atom "=", ztS a, ztS b]
  | .not a => .list [.atom "not", ztS a]
  | .and l => .list (.atom "and" :: l.map ztS)
  | .or l => .list (.atom "or" :: l.map ztS)
  | .xor a b => .list [.atom "xor", ztS a, ztS b]
  | .ite c a b => .list [.atom "ite", ztS c, ztS a, ztS b]
  | .distinct l => .list (.atom "distinct" :: l.map ztS)
end

def zvS : ZV → Sexp
  | .pyB b => .list [.atom "py", .ofBool b]
  | .pyI n => .list [.atom "py", .ofInt n]
  | .t x => .list [.atom "z3", ztS x]

def handleCore : Sexp → Option Sexp
  | .list [.atom "eval", ds, e, a] => do
    let ds ← decls? ds; let e ← Expr.ofSexp? e; let σ ← asg? ds a
    some (valS (eval σ e))
  | .list [.atom "zval", ds, e, a] => do
    let ds ← decls? ds; let e ← Expr.ofSexp? e; let σ ← asg? ds a
    some (match convertExpr e with
      | .ok r => valS (r.val σ)
      | .error er => .list [.atom "err", .atom er.name])
  | .list [.atom "convert", e] => do
    let e ← Expr.ofSexp? e
    some (pyResult zvS (convertExpr e))
  | .list [.atom "wt", e] => do
    let e ← Expr.ofSexp? e
    some (.list [.ofBool (wtB e), .ofBool (wtI e)])
  | .list (.atom "models" :: ds :: cs) => do
    let ds ← decls? ds; let cs ← Expr.ofSexps? cs
    let ms := models ds cs
    some (.list [.ofNat ms.length, .list ((ms.take 1).map fun m => .list (m.map fun v => valS (some v)))])
  | .list (.atom "facts" :: ds :: cs) => do
    -- executable spec of "facts common to all solutions" by enumeration (bounded domains)
    let ds ← decls? ds; let cs ← Expr.ofSexps? cs
    let ms := models ds cs
    match ms with
    | [] => some (.atom "unsat")
    | m0 :: rest =>
      some (.list ((List.range ds.length).map fun i =>
        let v0 := m0.getD i (.b false)
        if rest.all (fun m => m.getD i (.b false) == v0) then valS (some v0) else .atom "N"))
  | .list (.atom "solve" :: ds :: keys :: answers :: cs) => do
    -- the refinement loop driven by recorded oracle answers: the k-th backend call returns answers[k]
    let ds ← decls? ds; let cs ← Expr.ofSexps? cs
    let keys ← (← keys.toList?).mapM Sexp.toBool?
    let answers ← (← answers.toList?).mapM fun a => match a with
      | Sexp.atom "N" => some (none : Option Asg)
      | a => (asg? ds a).map some
    let B : Backend := fun _ cs' =>
      match answers[cs'.length - cs.length]? with
      | some r => .ok r
      | none => .error .runtimeError
    let st : SolverState := { decls := ds, isKey := keys, cs := cs, sol := ds.map fun _ => none }
    let (st', out) := solveRefine B st
    let outS := match out with
      | .verdict b => Sexp.ofBool b
      | .raised e => .list [.atom "err", .atom e.name]
      | _ => .atom "?"
    some (.list [outS, .list ((List.range ds.length).map fun i =>
      if keys.getD i false then valS (st'.sol.getD i none) else .atom "-")])
  | .list (.atom "session" :: ops) => do
    -- replay a whole Solver session; `find`/`solve` ops carry the oracle answers recorded from the real run
    let rec nest? : Sexp → Option Nest
      | .list (.atom "l" :: xs) => (xs.mapM nest?).map Nest.items
      | s => (Expr.ofSexp? s).map Nest.leaf
    let step (acc : Option (SolverState × List Sexp)) (op : Sexp) : Option (SolverState × List Sexp) := do
      let (st, outs) ← acc
      let outS (o : OpOut) : Sexp := match o with
        | .unit => .atom "ok"
        | .var id => .list [.atom "var", .ofNat id]
        | .verdict b => .ofBool b
        | .raised e => .list [.atom "err", .atom e.name]
      match op with
      | .list [.atom "bv"] => let (st', o) := st.step (fun _ _ => .ok none) .boolVar; some (st', outs ++ [outS o])
      | .list [.atom "iv", lo, hi] => do
        let (st', o) := st.step (fun _ _ => .ok none) (.intVar (← lo.toInt?) (← hi.toInt?)); some (st', outs ++ [outS o])
      | .list [.atom "ens", a] => do
        let (st', o) := st.step (fun _ _ => .ok none) (.ensure (← nest? a)); some (st', outs ++ [outS o])
      | .list [.atom "key", a] => do
        let (st', o) := st.step (fun _ _ => .ok none) (.addAnswerKey (← nest? a)); some (st', outs ++ [outS o])
      | .list [.atom "find", ans] => do
        let r ← match ans with
          | Sexp.atom "N" => some (none : Option Asg)
          | a => (asg? st.decls a).map some
        let (st', o) := st.step (fun _ _ => .ok r) .findAnswer
        some (st', outs ++ [.list [outS o, .list ((List.range st'.decls.length).map fun i => valS (st'.sol.getD i none))]])
      | _ => none
    let (st, outs) ← ops.foldl step (some ({}, []))
    some (.list [.list outs, .list (st.decls.map VarDecl.toSexp), .list (st.isKey.map Sexp.ofBool), .list (st.cs.map Expr.toSexp)])
  | .list [.atom "refuting", ans] => do
    let ans ← (← ans.toList?).mapM fun a => match a with
      | Sexp.atom "N" => some (none : Option Val)
      | Sexp.atom "T" => some (some (Val.b true))
      | Sexp.atom "F" => some (some (Val.b false))
      | a => (a.toInt?).map fun n => some (Val.i n)
    some (refuting ans).toSexp
  | _ => none

end Cspuz.Drv
