import CspuzModel.Model.Puzzles.Building
import CspuzModel.Model.ExprIO
namespace Cspuz.Drv
open Cspuz Cspuz.Spec

private def intList? : Sexp → Option (List Int)
  | .list l => l.mapM Sexp.toInt?
  | _ => none

private def puzProgSexp (P : PuzzleProg) : Sexp :=
  .list [.atom "res", Prog.toSexp { decls := P.decls, cs := P.cs },
    .list (P.keys.map fun k =>
      match P.decls[k]? with
      | some (.int _ _) => .atom ("i" ++ toString k)
      | _ => .atom ("b" ++ toString k))]

/-- `(puz_building n (up…) (dw…) (lf…) (rg…))` -/
def handlePuzBuilding : Sexp → Option Sexp
  | .list [.atom "puz_building", n, up, dw, lf, rg] => do
    let n ← n.toNat?; let up ← intList? up; let dw ← intList? dw; let lf ← intList? lf; let rg ← intList? rg
    some (pyResult puzProgSexp (Puzzles.Building.program { n := n, up := up, dw := dw, lf := lf, rg := rg }))
  | _ => none

end Cspuz.Drv
