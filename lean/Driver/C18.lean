import CspuzModel.Model.Sexp
import CspuzModel.Model.Segmentation
namespace Cspuz.Drv
open Cspuz Cspuz.Seg

namespace C18

def cell? : Sexp → Option Cell
  | .list [y, x] => do some ((← y.toInt?), (← x.toInt?))
  | _ => none

def block? : Sexp → Option Block
  | .list l => l.mapM cell?
  | _ => none

def blocks? : Sexp → Option Blocks
  | .list l => l.mapM block?
  | _ => none

def optInt? : Sexp → Option (Option Int)
  | .atom "N" => some none
  | s => s.toInt?.map some

def draws? : Sexp → Option (List (Nat × Nat))
  | .list l => l.mapM fun p => match p with
    | .list [a, b] => do some ((← a.toNat?), (← b.toNat?))
    | _ => none
  | _ => none

/-- `(h w minNum maxNum minSize maxSize allowUnmet initialBlocks|N recDepth)` -/
def cfg? : Sexp → Option Cfg
  | .list [h, w, a, b, c, d, allow, ib, depth] => do
    let ib ← (match ib with
      | .atom "N" => some none
      | s => (blocks? s).map some)
    some (mkCfg (← h.toNat?) (← w.toNat?) (← optInt? a) (← optInt? b) (← optInt? c) (← optInt? d)
      (← allow.toBool?) ib (← depth.toNat?))
  | _ => none

def update? : Sexp → Option Update
  | .list [.list ex, app] => do some ((← ex.mapM Sexp.toInt?), (← blocks? app))
  | _ => none

def cellS (c : Cell) : Sexp := .list [.ofInt c.1, .ofInt c.2]
def blockS (b : Block) : Sexp := .list (b.map cellS)
def blocksS (bs : Blocks) : Sexp := .list (bs.map blockS)
def updateS (u : Update) : Sexp := .list [.list (u.1.map .ofInt), blocksS u.2]
def errS (e : PyErr) : Sexp := .list [.atom "err", .atom e.name]

def rounds? : Sexp → Option (List Round)
  | .list l => l.mapM fun r => match r with
    | .list [c, d] => do some { choice := (← c.toNat?), draws := (← draws? d) }
    | _ => none
  | _ => none

end C18
open C18

def handleC18 : Sexp → Option Sexp
  | .list [.atom "c18-cands", cfg, bs, draws] => do
    let cfg ← cfg? cfg; let bs ← blocks? bs; let draws ← draws? draws
    match candidates cfg bs draws with
    | .ok us => some (.list [.atom "ok", .list (us.map updateS)])
    | .raised e => some (errS e)
    | .starved => some (.atom "starved")
  | .list [.atom "c18-copy", bs, u] => do
    let bs ← blocks? bs; let u ← update? u
    some (blocksS (copyWithUpdate bs u))
  | .list [.atom "c18-split", b, draws] => do
    let b ← block? b; let draws ← draws? draws
    match splitBlock b draws with
    | .ok (r, rest) => some (.list [.atom "ok", blockS r.1, blockS r.2, .ofNat rest.length])
    | .raised e => some (errS e)
    | .starved => some (.atom "starved")
  | .list [.atom "c18-isconn", depth, b, ex] => do
    let depth ← depth.toNat?; let b ← block? b
    let ex ← (match ex with
      | .atom "N" => some none
      | s => (cell? s).map some)
    match isConnected depth b ex with
    | .ok r => some (.list [.atom "ok", .ofBool r])
    | .error e => some (errS e)
  | .list [.atom "c18-initial", cfg, rounds] => do
    let cfg ← cfg? cfg; let rounds ← rounds? rounds
    match initial cfg rounds with
    | .done bs => some (.list [.atom "done", blocksS bs])
    | .running bs => some (.list [.atom "running", blocksS bs])
    | .raised e => some (errS e)
    | .starved => some (.atom "starved")
  | .list [.atom "c18-ismet", cfg, bs] => do
    let cfg ← cfg? cfg; let bs ← blocks? bs
    some (.ofBool (isMet cfg bs))
  | _ => none

end Cspuz.Drv
