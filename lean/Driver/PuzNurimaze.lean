import Driver.PuzCL
import CspuzModel.Model.Puzzles.Nurimaze
namespace Cspuz.Drv
open Cspuz

/-- `(puz_nurimaze h w (wall_vertical rows…) (wall_horizontal rows…) (mark rows…) (sy sx) (gy gx))` -/
def handlePuzNurimaze : Sexp → Option Sexp
  | .list [.atom "puz_nurimaze", h, w, wv, wh, mk, .list [sy, sx], .list [gy, gx]] => do
    let h ← h.toNat?; let w ← w.toNat?
    let wv ← CL.table? wv; let wh ← CL.table? wh; let mk ← CL.table? mk
    let sy ← sy.toInt?; let sx ← sx.toInt?; let gy ← gy.toInt?; let gx ← gx.toInt?
    some (CL.puzProgS (Puzzles.Nurimaze.program
      { height := h, width := w, wallVertical := wv, wallHorizontal := wh, mark := mk,
        start := (sy, sx), goal := (gy, gx) }))
  | _ => none

end Cspuz.Drv
