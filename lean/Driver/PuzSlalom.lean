import CspuzModel.Model.Puzzles.Slalom
import Driver.PuzCL
namespace Cspuz.Drv
open Cspuz Cspuz.Spec Cspuz.Puzzles.Slalom

private def slGate? : Sexp → Option Gate
  | .list [y, x, d, l, n] => do
    let d ← match d with
      | .atom "0" => some GDir.hor
      | .atom "1" => some GDir.ver
      | _ => none
    some { y := ← y.toInt?, x := ← x.toInt?, d := d, l := ← l.toInt?, n := ← n.toInt? }
  | _ => none

private def slBools? : Sexp → Option (List (List Bool))
  | .list rows => rows.mapM fun r => match r with
    | .list l => l.mapM Sexp.toBool?
    | _ => none
  | _ => none

/-- `(puz_slalom height width (oy ox) ((T F …) …) ((y x d l n) …))`: `is_black` rows of `T` / `F`; gates with `d` = `0` / `1`. -/
def handlePuzSlalom : Sexp → Option Sexp
  | .list [.atom "puz_slalom", h, w, .list [oy, ox], b, .list gs] => do
    let h ← h.toNat?; let w ← w.toNat?
    let oy ← oy.toInt?; let ox ← ox.toInt?
    let b ← slBools? b
    let gs ← gs.mapM slGate?
    some (CL.puzProgS (Puzzles.Slalom.program { height := h, width := w, origin := (oy, ox), isBlack := b, gates := gs }))
  | _ => none

end Cspuz.Drv
