import CspuzModel.Model.Puzzles.Slitherlink
import Driver.PuzCL
namespace Cspuz.Drv
open Cspuz Cspuz.Spec

/-- `(puz_slitherlink height width ((row) …))` -/
def handlePuzSlitherlink : Sexp → Option Sexp
  | .list [.atom "puz_slitherlink", h, w, t] => do
    let h ← h.toNat?; let w ← w.toNat?; let t ← CL.table? t
    some (CL.puzProgS (Puzzles.Slitherlink.program { height := h, width := w, problem := t }))
  | _ => none

end Cspuz.Drv
