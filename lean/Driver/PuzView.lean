import Driver.PuzCL
import CspuzModel.Model.Puzzles.View
namespace Cspuz.Drv
open Cspuz

/-- `(puz_view h w ((row) …))` -/
def handlePuzView : Sexp → Option Sexp
  | .list [.atom "puz_view", h, w, t] => do
    let h ← h.toNat?; let w ← w.toNat?; let t ← CL.table? t
    some (CL.puzProgS (Puzzles.View.program { height := h, width := w, problem := t }))
  | _ => none

end Cspuz.Drv
