import Driver.PuzCL
import CspuzModel.Model.Puzzles.Magnets
namespace Cspuz.Drv
open Cspuz

/-- `(puz_magnets h w (to_right rows…) (to_down rows…) (cond_row rows…) (cond_col rows…))`; the truth tables are
given as 0/1. -/
def handlePuzMagnets : Sexp → Option Sexp
  | .list [.atom "puz_magnets", h, w, tr, td, cr, cc] => do
    let h ← h.toNat?; let w ← w.toNat?
    let tr ← CL.table? tr; let td ← CL.table? td; let cr ← CL.table? cr; let cc ← CL.table? cc
    let flags := fun (t : List (List Int)) => t.map fun row => row.map fun v => v != 0
    some (CL.puzProgS (Puzzles.Magnets.program
      { height := h, width := w, toRight := flags tr, toDown := flags td, condRow := cr, condCol := cc }))
  | _ => none

end Cspuz.Drv
