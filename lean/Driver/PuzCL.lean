import CspuzModel.Model.ExprIO
import CspuzModel.Model.Puzzles.CLUtil
namespace Cspuz.Drv.CL
open Cspuz Cspuz.Spec

/-- `(res (prog (<decls>) <constraints…>) (<key exprs…>))` / `(err <PyErrName>)`. -/
def puzProgS (r : Py PuzzleProg) : Sexp :=
  pyResult (fun (P : PuzzleProg) =>
    .list [.atom "res", Prog.toSexp { decls := P.decls, cs := P.cs },
      .list (P.keys.map fun k =>
        match P.decls[k]? with
        | some (.int _ _) => Sexp.atom ("i" ++ toString k)
        | _ => Sexp.atom ("b" ++ toString k))]) r

/-- `((a b c) (d e f))` as a table of ints. -/
def table? : Sexp → Option (List (List Int))
  | .list rows => rows.mapM fun r => match r with
    | .list l => l.mapM Sexp.toInt?
    | _ => none
  | _ => none

/-- `(((y x) (y x)) ((y x)))` as a list of rooms. -/
def rooms? : Sexp → Option (List (List (Int × Int)))
  | .list rooms => rooms.mapM fun r => match r with
    | .list l => l.mapM fun p => match p with
      | .list [y, x] => do some ((← y.toInt?), (← x.toInt?))
      | _ => none
    | _ => none
  | _ => none

end Cspuz.Drv.CL
