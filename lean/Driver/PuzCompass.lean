import Driver.PuzCL
import CspuzModel.Model.Puzzles.Compass
namespace Cspuz.Drv
open Cspuz

/-- `(puz_compass h w ((y x up lf dw rg) …))` -/
def handlePuzCompass : Sexp → Option Sexp
  | .list [.atom "puz_compass", h, w, t] => do
    let h ← h.toNat?; let w ← w.toNat?; let t ← CL.table? t
    let cl ← t.mapM fun r => match r with
      | [y, x, up, lf, dw, rg] => some ({ y, x, up, lf, dw, rg } : Puzzles.Compass.Clue)
      | _ => none
    some (CL.puzProgS (Puzzles.Compass.program { height := h, width := w, problem := cl }))
  | _ => none

end Cspuz.Drv
