import CspuzModel.Model.ExprIO
import CspuzModel.Model.Config
import CspuzModel.Spec.Config
namespace Cspuz.Drv.C20
open Cspuz

/-- strings travel as `(s cp cp ...)` (code points), Python `None` as `N` -/
def str? : Sexp → Option String
  | .list (.atom "s" :: cps) => (cps.mapM fun (c : Sexp) => c.toNat?.map Char.ofNat).map String.ofList
  | _ => none

def strS (s : String) : Sexp := .list (.atom "s" :: s.toList.map fun c => Sexp.ofNat c.toNat)

def optStr? : Sexp → Option (Option String)
  | .atom "N" => some none
  | s => (str? s).map some

def optStrS : Option String → Sexp
  | none => .atom "N"
  | some s => strS s

def optBool? : Sexp → Option (Option Bool)
  | .atom "N" => some none
  | s => s.toBool?.map some

def avail? : Sexp → Option Avail
  | .list [c, e, p, z] => do some ⟨← c.toBool?, ← e.toBool?, ← p.toBool?, ← z.toBool?⟩
  | _ => none

def envOf (b p pr dv : Option String) : Env := fun k =>
  if k = "CSPUZ_DEFAULT_BACKEND" then b
  else if k = "CSPUZ_BACKEND_PATH" then p
  else if k = "CSPUZ_USE_GRAPH_PRIMITIVE" then pr
  else if k = "CSPUZ_USE_GRAPH_DIVISION_PRIMITIVE" then dv
  else none

def cfgS (c : Config) : Sexp :=
  .list [.atom "ok", strS c.default_backend, optStrS c.backend_path, .ofBool c.use_graph_primitive,
         .ofBool c.use_graph_division_primitive]

def errV : Sexp := .list [.atom "err", .atom "ValueError"]

def graphFn? : Sexp → Option GraphFn
  | .atom "avc" => some .activeVerticesConnected
  | .atom "divconn" => some .divisionConnected
  | .atom "cycle" => some .singleCycle
  | .atom "path" => some .singlePath
  | .atom "vgborders" => some .variableGroupsWithBorders
  | _ => none

def backendArg? : Sexp → Option BackendArg
  | .atom "N" => some .none
  | .list [.atom "name", s] => (str? s).map .name
  | .list [.atom "cls", k] => k.toNat?.map fun k => .cls (.custom k)
  | _ => none

def entryS : EntryPoint → Sexp
  | .subprocess p => .list [.atom "subprocess", strS p]
  | .moduleSolver m => .list [.atom "module", strS m]
  | .z3 => .atom "z3"
  | .custom k => .list [.atom "custom", .ofNat k]

def prog? : Sexp → Option Prog
  | .list (.atom "prog" :: .list ds :: cs) => do
    some { decls := ← ds.mapM VarDecl.ofSexp?, cs := ← Expr.ofSexps? cs }
  | _ => none

end Cspuz.Drv.C20
namespace Cspuz.Drv
open Cspuz Cspuz.Drv.C20

def handleC20 : Sexp → Option Sexp
  | .list [.atom "c20_strtobool", s] => do
    some (pyResult Sexp.ofBool (strtobool (← str? s)))
  | .list [.atom "c20_parsebool", s] => do
    match Spec.parseBool (← str? s) with
    | some b => some (.ofBool b)
    | none => some errV
  | .list [.atom "c20_byname", s] => do
    some (pyResult (fun c => strS c.pyName) (getBackendByName (← str? s)))
  | .list [.atom "c20_detect", av] => do
    some (strS (detectBackend (← avail? av)))
  | .list [.atom "c20_init", infer, av, b, p, pr, dv] => do
    some (pyResult cfgS (Config.init (← infer.toBool?) (envOf (← optStr? b) (← optStr? p) (← optStr? pr) (← optStr? dv))
      (← avail? av)))
  | .list [.atom "c20_expected", infer, av, b, p, pr, dv] => do
    match Spec.expectedConfig (← infer.toBool?) (envOf (← optStr? b) (← optStr? p) (← optStr? pr) (← optStr? dv))
        (← avail? av) with
    | some c => some (cfgS c)
    | none => some errV
  | .list [.atom "c20_backend", arg, db, path] => do
    let cfg : Config := ⟨← str? db, ← optStr? path, false, false⟩
    some (pyResult (fun c => .list [strS c.pyName, entryS (c.entryPoint cfg)]) (getBackend (← backendArg? arg) cfg))
  | .list [.atom "c20_native", fn, arg, f1, f2, acyclic] => do
    let cfg : Config := ⟨"", none, ← f1.toBool?, ← f2.toBool?⟩
    some (.ofBool ((← graphFn? fn).native (← optBool? arg) cfg (← acyclic.toBool?)))
  | .list [.atom "c20_hasnative", p] => do
    some (.ofBool (Spec.progHasNative (← prog? p)))
  | _ => none

end Cspuz.Drv
