import CspuzModel.Model.ExprIO
import CspuzModel.Spec.SugarSyntax
import CspuzModel.Model.SugarJava
import Driver.Core
namespace Cspuz.Drv
open Cspuz Cspuz.Sugar Cspuz.SugarSyntax

namespace C03

/-- text on the wire: a list of code points (the texts contain blanks, newlines, parentheses) -/
def codes (s : Str) : Sexp := .list (s.map fun c => Sexp.ofNat c.toNat)

def str? : Sexp → Option Str
  | .list l => l.mapM fun x => (x.toNat?).map Char.ofNat
  | _ => none

/-- `(b id)` / `(i id lo hi)` -/
def svar? : Sexp → Option SVar
  | .list [.atom "b", id] => do some ⟨← id.toNat?, .bool⟩
  | .list [.atom "i", id, lo, hi] => do some ⟨← id.toNat?, .int (← lo.toInt?) (← hi.toInt?)⟩
  | _ => none

def svars? : Sexp → Option (List SVar)
  | .list l => l.mapM svar?
  | _ => none

def svarS (v : SVar) : Sexp :=
  match v.decl with
  | .bool => .list [.atom "b", .ofNat v.id]
  | .int lo hi => .list [.atom "i", .ofNat v.id, .ofInt lo, .ofInt hi]

def flags? : Sexp → Option (Option (List Bool))
  | .atom "N" => some none
  | .list l => (l.mapM Sexp.toBool?).map some
  | _ => none

def val? : Sexp → Option (Option Val)
  | .atom "N" => some none
  | .atom "T" => some (some (.b true))
  | .atom "F" => some (some (.b false))
  | s => (s.toInt?).map fun n => some (.i n)

def pyS {α} (f : α → Sexp) : Py α → Sexp
  | .ok a => .list [.atom "ok", f a]
  | .error e => .list [.atom "err", .atom e.name]

def solsS (r : Bool × List (Option Val)) : Sexp :=
  .list [.ofBool r.1, .list (r.2.map valS)]

/-- an assignment from one value per variable (looked up by identifier and kind) -/
def asgOf (vars : List SVar) (vals : List (Option Val)) : Asg :=
  let tab := vars.zip vals
  { b := fun id => match tab.find? (fun p => p.1.id == id && !p.1.isInt) with
      | some (_, some (.b v)) => v
      | _ => false
    i := fun id => match tab.find? (fun p => p.1.id == id && p.1.isInt) with
      | some (_, some (.i v)) => v
      | _ => 0 }

/-- `_call_solver` replaced by a table of recorded (description, reply) pairs -/
def callOf (pairs : List (Str × Str)) : Call := fun desc =>
  match pairs.find? (fun p => p.1 == desc) with
  | some p => p.2
  | none => "NO-RECORDED-REPLY-FOR-THIS-DESCRIPTION".toList

def pairs? : Sexp → Option (List (Str × Str))
  | .list l => l.mapM fun p => match p with
    | .list [a, b] => do some ((← str? a), (← str? b))
    | _ => none
  | _ => none

def kind? : Sexp → Option Kind
  | .atom s => Kind.ofName? s
  | _ => none

def outS : OpOut → Sexp
  | .verdict b => Sexp.ofBool b
  | .raised e => .list [.atom "err", .atom e.name]
  | _ => .atom "?"

/-- all assignments of the declared variables (first variable slowest) -/
def allAsgsV : List SVar → List (List (SVar × Val))
  | [] => [[]]
  | v :: r =>
    let rest := allAsgsV r
    match v.decl with
    | .bool => [false, true].flatMap fun b => rest.map fun t => (v, Val.b b) :: t
    | .int lo hi => (List.range (hi - lo + 1).toNat).flatMap fun (k : Nat) => rest.map fun t => (v, Val.i (lo + (k : Int))) :: t

def asgOfPairs (ps : List (SVar × Val)) : Asg :=
  { b := fun id => match ps.find? (fun p => p.1.id == id && !p.1.isInt) with
      | some (_, .b v) => v
      | _ => false
    i := fun id => match ps.find? (fun p => p.1.id == id && p.1.isInt) with
      | some (_, .i v) => v
      | _ => 0 }

/-- `solveCSP()` by enumeration (first model in lexicographic order) -/
def bruteOracle : SugarJava.Oracle := fun vars cs =>
  ((allAsgsV vars).map asgOfPairs).find? fun σ => cs.all fun c => eval σ c == some (.b true)

end C03

open C03 in
def handleC03 : Sexp → Option Sexp
  | .list (.atom "sugar-desc" :: vars :: keys :: cs) => do
    let vars ← svars? vars; let keys ← flags? keys; let cs ← Expr.ofSexps? cs
    some (pyS codes (cspDescriptionL vars cs keys))
  | .list [.atom "sugar-expr", e] => do
    let e ← Expr.ofSexp? e
    some (pyS codes (Sugar.convertExpr e))
  | .list [.atom "sugar-parse-sat", vars, reply] => do
    let vars ← svars? vars; let reply ← str? reply
    some (pyS solsS ((SugarLike.init vars).parseSat reply))
  | .list [.atom "sugar-parse-facts", vars, reply] => do
    let vars ← svars? vars; let reply ← str? reply
    some (pyS solsS ((SugarLike.init vars).parseFacts reply))
  | .list [.atom "sugar-format-sat", vars, vals] => do
    let vars ← svars? vars
    let vals ← (← vals.toList?).mapM val?
    some (codes (formatSat vars (C03.asgOf vars vals)))
  | .list [.atom "sugar-format-unsat"] => some (codes formatUnsat)
  | .list [.atom "sugar-format-unsat-facts"] => some (codes formatUnsatFacts)
  | .list [.atom "sugar-format-facts", vars, keys, facts] => do
    let vars ← svars? vars
    let keys ← (← keys.toList?).mapM Sexp.toBool?
    let facts ← (← facts.toList?).mapM val?
    let tab := vars.zip facts
    let F : SVar → Option Val := fun v => match tab.find? (fun p => p.1 == v) with
      | some (_, f) => f
      | none => none
    match keyNames vars keys with
    | .ok names => some (codes (formatFacts vars names F))
    | .error e => some (.list [.atom "err", .atom e.name])
  | .list [.atom "sugar-parsecsp", text] => do
    let text ← str? text
    match parseCSPL text with
    | none => some (.atom "none")
    | some (vars, cs, keys) =>
      some (.list [.list (vars.map svarS), .list (cs.map Expr.toSexp),
        match keys with
        | none => .atom "N"
        | some ks => .list (ks.map fun k => .atom (String.ofList k))])
  | .list (.atom "sugar-find" :: decls :: pairs :: cs) => do
    let ds ← decls? decls; let pairs ← pairs? pairs; let cs ← Expr.ofSexps? cs
    let st : SolverState := { decls := ds, isKey := ds.map fun _ => false, cs := cs, sol := ds.map fun _ => none }
    let (st', out) := sugarFindAnswer (callOf pairs) st
    some (.list [outS out, .list (st'.sol.map valS)])
  | .list (.atom "sugar-solve" :: kind :: decls :: keys :: pairs :: cs) => do
    let k ← kind? kind; let ds ← decls? decls; let pairs ← pairs? pairs; let cs ← Expr.ofSexps? cs
    let keys ← (← keys.toList?).mapM Sexp.toBool?
    let st : SolverState := { decls := ds, isKey := keys, cs := cs, sol := ds.map fun _ => none }
    let (st', out) := sugarSolve k (callOf pairs) st
    some (.list [outS out, .list (st'.sol.map valS)])
  | .list [.atom "java-run", text] => do
    let text ← str? text
    some (codes (SugarJava.run bruteOracle text))
  | .list [.atom "sugar-table"] =>
    some (.list (Kind.all.map fun k => .list [.atom k.backendName, .ofBool k.native,
      .atom (match k.row with | some r => r.cls | none => "?"),
      .atom (match k.row with | some r => r.entry | none => "?")]))
  | _ => none

end Cspuz.Drv
