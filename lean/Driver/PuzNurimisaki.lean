import Driver.PuzCL
import CspuzModel.Model.Puzzles.Nurimisaki
namespace Cspuz.Drv
open Cspuz

/-- `(puz_nurimisaki h w ((row) …))` -/
def handlePuzNurimisaki : Sexp → Option Sexp
  | .list [.atom "puz_nurimisaki", h, w, t] => do
    let h ← h.toNat?; let w ← w.toNat?; let t ← CL.table? t
    some (CL.puzProgS (Puzzles.Nurimisaki.program { height := h, width := w, problem := t }))
  | _ => none

end Cspuz.Drv
