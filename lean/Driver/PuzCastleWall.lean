import Driver.PuzCL
import CspuzModel.Model.Puzzles.CastleWall
namespace Cspuz.Drv
open Cspuz Cspuz.Puzzles.CastleWall

def cwArrow? : Sexp → Option Arrow
  | .atom "none" => some .none
  | .atom "other" => some .other
  | .list [.atom d, n] => do
    let d ← match d with
      | "u" => some Dir.up | "d" => some Dir.down | "l" => some Dir.left | "r" => some Dir.right | _ => none
    match n with
    | .atom "bad" => some (.dir d none)
    | n => do some (.dir d (some (← n.toInt?)))
  | _ => none

def cwInside? : Sexp → Option (Option Bool)
  | .atom "N" => some none
  | s => s.toBool?.map some

def cwTable? {α} (f : Sexp → Option α) : Sexp → Option (List (List α))
  | .list rows => rows.mapM fun r => match r with
    | .list l => l.mapM f
    | _ => none
  | _ => none

/-- `(puz_castle_wall h w ((arrow …) …) ((inside …) …))`; arrow = `none` | `other` | `(u|d|l|r n)`, inside = `T` | `F` | `N`. -/
def handlePuzCastleWall : Sexp → Option Sexp
  | .list [.atom "puz_castle_wall", h, w, a, i] => do
    let h ← h.toNat?; let w ← w.toNat?
    let a ← cwTable? cwArrow? a
    let i ← cwTable? cwInside? i
    -- the module before the repair of the line-board defect (see `insideCs'`)
    some (CL.puzProgS (programWith false { height := h, width := w, arrow := a, inside := i } false))
  | .list [.atom "puz_castle_wall", h, w, a, i, .atom "fixed"] => do
    -- the module as it stands
    let h ← h.toNat?; let w ← w.toNat?
    let a ← cwTable? cwArrow? a
    let i ← cwTable? cwInside? i
    some (CL.puzProgS (program { height := h, width := w, arrow := a, inside := i }))
  | _ => none

end Cspuz.Drv
