import CspuzModel.Model.Puzzles.Doppelblock
import CspuzModel.Model.ExprIO
namespace Cspuz.Drv
open Cspuz Cspuz.Spec

private def intList? : Sexp → Option (List Int)
  | .list l => l.mapM Sexp.toInt?
  | _ => none

private def puzProgSexp (P : PuzzleProg) : Sexp :=
  .list [.atom "res", Prog.toSexp { decls := P.decls, cs := P.cs },
    .list (P.keys.map fun k =>
      match P.decls[k]? with
      | some (.int _ _) => .atom ("i" ++ toString k)
      | _ => .atom ("b" ++ toString k))]

/-- `(puz_doppelblock n (clue_row…) (clue_column…))` -/
def handlePuzDoppelblock : Sexp → Option Sexp
  | .list [.atom "puz_doppelblock", n, cr, cc] => do
    let n ← n.toNat?; let cr ← intList? cr; let cc ← intList? cc
    some (pyResult puzProgSexp (Puzzles.Doppelblock.program { n := n, clueRow := cr, clueCol := cc }))
  | _ => none

end Cspuz.Drv
