import Driver.PuzCL
import CspuzModel.Model.Puzzles.Putteria
namespace Cspuz.Drv
open Cspuz

/-- `(puz_putteria h w (((y x) …) …))` -/
def handlePuzPutteria : Sexp → Option Sexp
  | .list [.atom "puz_putteria", h, w, blocks] => do
    let h ← h.toNat?; let w ← w.toNat?; let blocks ← CL.rooms? blocks
    some (CL.puzProgS (Puzzles.Putteria.program { height := h, width := w, blocks := blocks }))
  | _ => none

end Cspuz.Drv
