import Driver.PuzCL
import CspuzModel.Model.Puzzles.Nurikabe
namespace Cspuz.Drv
open Cspuz

/-- `(puz_nurikabe h w ((row) …) low)` with `low` = `N` (unknown_low=None) or an integer. -/
def handlePuzNurikabe : Sexp → Option Sexp
  | .list [.atom "puz_nurikabe", h, w, t, low] => do
    let h ← h.toNat?; let w ← w.toNat?; let t ← CL.table? t
    let low ← match low with
      | .atom "N" => some none
      | s => s.toInt?.map some
    some (CL.puzProgS (Puzzles.Nurikabe.program { height := h, width := w, problem := t, unknownLow := low }))
  | _ => none

end Cspuz.Drv
