import Driver.PuzCL
import CspuzModel.Model.Puzzles.Fillomino
namespace Cspuz.Drv
open Cspuz

/-- `(puz_fillomino h w ((row) …) checkered)` with `checkered` = `T` / `F`. -/
def handlePuzFillomino : Sexp → Option Sexp
  | .list [.atom "puz_fillomino", h, w, t, ck] => do
    let h ← h.toNat?; let w ← w.toNat?; let t ← CL.table? t; let ck ← ck.toBool?
    some (CL.puzProgS (Puzzles.Fillomino.program { height := h, width := w, problem := t, checkered := ck }))
  | _ => none

end Cspuz.Drv
