import Driver.PuzCL
import CspuzModel.Model.Puzzles.Yinyang
namespace Cspuz.Drv
open Cspuz

/-- `(puz_yinyang h w ((row) …))` -/
def handlePuzYinyang : Sexp → Option Sexp
  | .list [.atom "puz_yinyang", h, w, t] => do
    let h ← h.toNat?; let w ← w.toNat?; let t ← CL.table? t
    some (CL.puzProgS (Puzzles.Yinyang.program { height := h, width := w, problem := t }))
  | _ => none

end Cspuz.Drv
