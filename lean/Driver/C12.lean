import CspuzModel.Model.ExprIO
import CspuzModel.Model.ArrayOps
namespace Cspuz.Drv
open Cspuz
namespace C12

def kindS (b : Bool) : Sexp := .atom (if b then "B" else "I")

def kind? : Sexp → Option Bool
  | .atom "B" => some true
  | .atom "I" => some false
  | _ => none

def pyvS : PyV → Sexp
  | .scalar e => .list [.atom "s", e.toSexp]
  | .arr1 b d => .list (.atom "a1" :: kindS b :: d.map Expr.toSexp)
  | .arr2 b h w d => .list (.atom "a2" :: kindS b :: .ofNat h :: .ofNat w :: d.map Expr.toSexp)
  | .other => .list [.atom "o"]

def pyv? : Sexp → Option PyV
  | .list [.atom "s", e] => (Expr.ofSexp? e).map PyV.scalar
  | .list (.atom "a1" :: k :: d) => do some (.arr1 (← kind? k) (← Expr.ofSexps? d))
  | .list (.atom "a2" :: k :: h :: w :: d) => do
    some (.arr2 (← kind? k) (← h.toNat?) (← w.toNat?) (← Expr.ofSexps? d))
  | .list [.atom "o"] => some .other
  | _ => none

def outcomeS : Outcome → Sexp
  | .val v => .list [.atom "val", pyvS v]
  | .notImpl => .atom "NI"
  | .err e => .list [.atom "err", .atom e.name]
  | .absent => .atom "absent"

partial def anest? : Sexp → Option ANest
  | .list [.atom "L", v] => (pyv? v).map ANest.leaf
  | .list (.atom "I" :: l) => (l.mapM anest?).map ANest.items
  | _ => none

def exprRes (r : Py Expr) : Sexp :=
  match r with
  | .ok e => e.toSexp
  | .error e => .list [.atom "err", .atom e.name]

def nbArgs? : Sexp → Option NbArgs
  | .list [.atom "two", y, x] => do some (.two (← y.toInt?) (← x.toInt?))
  | .list [.atom "tuple", y, x] => do some (.tuple (← y.toInt?) (← x.toInt?))
  | .list [.atom "one", y] => do some (.oneInt (← y.toInt?))
  | .list [.atom "tint", y, x, x'] => do some (.tupleAndInt (← y.toInt?) (← x.toInt?) (← x'.toInt?))
  | _ => none

def okind? (s : Sexp) : Option OKind :=
  match s with
  | .atom "arrB1_2" => some .arrB1_2 | .atom "arrB1_3" => some .arrB1_3
  | .atom "arrB2_12" => some .arrB2_12 | .atom "arrB2_21" => some .arrB2_21
  | .atom "arrI1_2" => some .arrI1_2 | .atom "arrI1_3" => some .arrI1_3
  | .atom "arrI2_12" => some .arrI2_12 | .atom "arrI2_21" => some .arrI2_21
  | .atom "bvar" => some .bvar | .atom "bnode" => some .bnode
  | .atom "ivar" => some .ivar | .atom "inode" => some .inode
  | .atom "litT" => some .litT | .atom "lit3" => some .lit3 | .atom "none_" => some .none_
  | _ => none

def unop? : Sexp → Option UnOp
  | .atom "invert" => some .invert
  | .atom "neg" => some .neg
  | _ => none

def form? : Sexp → Option Form
  | .list [.atom "infix", .atom o, a, b] => do some (.infix (← BinOp.ofSym? o) (← okind? a) (← okind? b))
  | .list [.atom "unary", o, a] => do some (.unary (← unop? o) (← okind? a))
  | .list [.atom "call1", .atom m, s, a] => do some (.call1 (← Meth.ofName? m) (← okind? s) (← okind? a))
  | .list [.atom "call0", .atom m, s] => do some (.call0 (← Meth.ofName? m) (← okind? s))
  | .list [.atom "condM", s, t, f] => do some (.condM (← okind? s) (← okind? t) (← okind? f))
  | .list [.atom "thenFn", x, y] => do some (.thenFn (← okind? x) (← okind? y))
  | .list [.atom "condFn", c, t, f] => do some (.condFn (← okind? c) (← okind? t) (← okind? f))
  | _ => none

end C12
open C12 in
def handleC12 : Sexp → Option Sexp
  | .list (.atom "c12" :: rest) =>
    match rest with
    | [.atom "bin", .atom o, a, b] => do
      let o ← BinOp.ofSym? o; let a ← pyv? a; let b ← pyv? b
      some (outcomeS (.ofPy (binop o a b)))
    | [.atom "un", o, a] => do
      let o ← unop? o; let a ← pyv? a
      some (outcomeS (.ofPy (unop o a)))
    | .atom "call" :: .atom m :: self :: args => do
      let m ← Meth.ofName? m; let self ← pyv? self; let args ← args.mapM pyv?
      some (outcomeS (if self.cls.defines m then .ofRes (callMethod m self args) else .absent))
    | [.atom "thenF", x, y] => do
      some (outcomeS (.ofPy (thenF (← pyv? x) (← pyv? y))))
    | [.atom "condF", c, t, f] => do
      some (outcomeS (.ofPy (condF (← pyv? c) (← pyv? t) (← pyv? f))))
    | .atom "ct" :: l => do some (exprRes (countTrueA (← l.mapM anest?)))
    | .atom "fo" :: l => do some (exprRes (foldOrA (← l.mapM anest?)))
    | .atom "fa" :: l => do some (exprRes (foldAndA (← l.mapM anest?)))
    | .atom "ad" :: l => do some (exprRes (alldifferentA (← l.mapM anest?)))
    | [.atom "conv", a, h, w, .atom op] => do
      let a ← pyv? a; let h ← h.toInt?; let w ← w.toInt?
      let cop : ConvOp := if op == "and" then .and_ else if op == "or" then .or_ else .bad
      some (outcomeS (.ofPy (conv2d a h w cop)))
    | [.atom "nb", a, f] => do
      some (outcomeS (.ofPy (fourNeighbors (← pyv? a) (← nbArgs? f))))
    | [.atom "nbi", h, w, f] => do
      match fourNeighborIndices (← h.toNat?) (← w.toNat?) (← nbArgs? f) with
      | .ok l => some (.list (l.map fun p => .list [.ofInt p.1, .ofInt p.2]))
      | .error e => some (.list [.atom "err", .atom e.name])
    | [.atom "form", f] => do
      some (outcomeS (← form? f).run)
    | _ => none
  | _ => none

end Cspuz.Drv
