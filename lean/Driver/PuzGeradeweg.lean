import CspuzModel.Model.Puzzles.Geradeweg
import Driver.PuzCL
namespace Cspuz.Drv
open Cspuz Cspuz.Spec

/-- `(puz_geradeweg height width ((row) …))` -/
def handlePuzGeradeweg : Sexp → Option Sexp
  | .list [.atom "puz_geradeweg", h, w, t] => do
    let h ← h.toNat?; let w ← w.toNat?; let t ← CL.table? t
    some (CL.puzProgS (Puzzles.Geradeweg.program { height := h, width := w, problem := t }))
  | _ => none

end Cspuz.Drv
