import CspuzModel.Model.Sexp
import CspuzModel.Model.GridFrameExt
import CspuzModel.Spec.FrameGeom
namespace Cspuz.Drv
open Cspuz Cspuz.Spec.FrameGeom

namespace C14

def err (e : PyErr) : Sexp := .list [.atom "err", .atom e.name]

/-- Variable id of an expression (every expression in a frame is a `BoolVar`). -/
def idS : Expr → Sexp
  | .bvar i => .ofNat i
  | _ => .atom "?"

def idsS (l : List Expr) : Sexp := .list (l.map idS)
def natsS (l : List Nat) : Sexp := .list (l.map .ofNat)

def pyS {α} (f : α → Sexp) : Py α → Sexp
  | .ok a => f a
  | .error e => err e

def arrS (a : Arr2) : Sexp := .list [.ofNat a.h, .ofNat a.w, idsS a.data]

def frameS (f : Frame) : Sexp := .list [.ofNat f.height, .ofNat f.width, arrS f.horizontal, arrS f.vertical]
def innerS (f : InnerFrame) : Sexp := .list [.ofNat f.height, .ofNat f.width, arrS f.horizontal, arrS f.vertical]

/-- insertion sort of naturals (the spec side reports *sets* of variables) -/
def insertSorted (x : Nat) : List Nat → List Nat
  | [] => [x]
  | y :: ys => if x ≤ y then x :: y :: ys else y :: insertSorted x ys
def sortNat (l : List Nat) : List Nat := l.foldr insertSorted []

end C14
open C14

def handleC14 : Sexp → Option Sexp
  -- model side
  | .list [.atom "frame_get", h, w, base, y, x] => do
    let f := Frame.fresh (← base.toNat?) (← h.toNat?) (← w.toNat?)
    some (pyS idS (f.getitem (← y.toInt?) (← x.toInt?)))
  | .list [.atom "frame_cell", h, w, base, y, x] => do
    let f := Frame.fresh (← base.toNat?) (← h.toNat?) (← w.toNat?)
    some (pyS idsS (f.cellNeighbors (← y.toInt?) (← x.toInt?)))
  | .list [.atom "frame_vertex", h, w, base, y, x] => do
    let f := Frame.fresh (← base.toNat?) (← h.toNat?) (← w.toNat?)
    some (pyS idsS (f.vertexNeighbors (← y.toInt?) (← x.toInt?)))
  | .list [.atom "frame_all", h, w, base] => do
    let f := Frame.fresh (← base.toNat?) (← h.toNat?) (← w.toNat?)
    some (.list [frameS f, idsS f.allEdges])
  | .list [.atom "frame_dual", h, w, base] => do
    let f := Frame.fresh (← base.toNat?) (← h.toNat?) (← w.toNat?)
    some (.list [innerS f.dual, frameS f.dual.dual, idsS f.dual.iter])
  | .list [.atom "frame_graph", h, w, base] => do
    let f := Frame.fresh (← base.toNat?) (← h.toNat?) (← w.toNat?)
    some (pyS (fun (r : List Expr × Graph) =>
      .list [idsS r.1, .ofNat r.2.n, .list (r.2.edges.map fun e => .list [.ofNat e.1, .ofNat e.2])]) (fromGridFrame f))
  | .list [.atom "inner_all", h, w, base] => do
    let g := InnerFrame.fresh (← base.toNat?) (← h.toNat?) (← w.toNat?)
    some (.list [innerS g, frameS g.dual, innerS g.dual.dual, idsS g.iter])
  | .list [.atom "inner_border", h, w, base, kind, y, x] => do
    let g := InnerFrame.fresh (← base.toNat?) (← h.toNat?) (← w.toNat?)
    let y ← y.toInt?; let x ← x.toInt?
    match kind with
    | .atom "h" => some (pyS idS (g.hborder y x))
    | .atom "v" => some (pyS idS (g.vborder y x))
    | _ => none
  | .list [.atom "inner_dual_get", h, w, base, y, x] => do
    let g := InnerFrame.fresh (← base.toNat?) (← h.toNat?) (← w.toNat?)
    some (pyS idS (g.dual.getitem (← y.toInt?) (← x.toInt?)))
  -- cell_neighbors / vertex_neighbors of the frame returned by `dual()` of a fresh inner frame
  | .list [.atom "inner_dual_cell", h, w, base, y, x] => do
    let g := InnerFrame.fresh (← base.toNat?) (← h.toNat?) (← w.toNat?)
    some (pyS idsS (g.dual.cellNeighbors (← y.toInt?) (← x.toInt?)))
  | .list [.atom "inner_dual_vertex", h, w, base, y, x] => do
    let g := InnerFrame.fresh (← base.toNat?) (← h.toNat?) (← w.toNat?)
    some (pyS idsS (g.dual.vertexNeighbors (← y.toInt?) (← x.toInt?)))
  -- executable spec side (Spec/FrameGeom.lean: search of the segment set)
  | .list [.atom "spec_get", h, w, base, y, x] => do
    let H ← h.toNat?; let W ← w.toNat?; let base ← base.toNat?
    match segAt H W (← y.toInt?) (← x.toInt?) with
    | some s => some (.ofNat (s.var base H W))
    | none => some (err .indexError)
  | .list [.atom "spec_cell", h, w, base, y, x] => do
    let H ← h.toNat?; let W ← w.toNat?; let base ← base.toNat?
    let c : Cell := ((← y.toInt?), (← x.toInt?))
    if CellValid H W c then some (natsS (sortNat ((segsOfCell H W c).map (Seg.var base H W))))
    else some (err .indexError)
  | .list [.atom "spec_vertex", h, w, base, y, x] => do
    let H ← h.toNat?; let W ← w.toNat?; let base ← base.toNat?
    let y ← y.toInt?; let x ← x.toInt?
    if 0 ≤ y ∧ 0 ≤ x ∧ PtValid H W (y.toNat, x.toNat) then
      some (natsS (sortNat ((segsOfPoint H W (y.toNat, x.toNat)).map (Seg.var base H W))))
    else some (err .indexError)
  | .list [.atom "spec_all", h, w, base] => do
    let H ← h.toNat?; let W ← w.toNat?; let base ← base.toNat?
    some (.list [natsS ((hSegs H W).map (Seg.var base H W)), natsS ((vSegs H W).map (Seg.var base H W)),
      .list ((allSegs H W).map fun s =>
        .list [.ofNat (s.var base H W), .ofNat (ptIndex W s.ends.1), .ofNat (ptIndex W s.ends.2)])])
  | _ => none

end Cspuz.Drv
