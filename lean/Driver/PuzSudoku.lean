import Driver.PuzCL
import CspuzModel.Model.Puzzles.Sudoku
namespace Cspuz.Drv
open Cspuz

/-- `(puz_sudoku n ((row) (row) …))` -/
def handlePuzSudoku : Sexp → Option Sexp
  | .list [.atom "puz_sudoku", n, cells] => do
    let n ← n.toNat?; let cells ← CL.table? cells
    some (CL.puzProgS (Puzzles.Sudoku.program { n := n, cells := cells }))
  | _ => none

end Cspuz.Drv
