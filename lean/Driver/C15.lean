import CspuzModel.Model.Sexp
import CspuzModel.Model.Serializer
import CspuzModel.Spec.Serializer
import CspuzModel.Gen.PuzzleCombinators
/-!
  Line-protocol handlers for the serializer model (properties C15, C17; C16 builds on them).

  values : `(i n)` `(s cp…)` `N` `(b T|F)` `(t v…)` `(l v…)`        strings : `(cp cp …)`
  terms  : `(fixstr (cp…))` `(dict (v…) ((cp…)…))` `(spaces v offset)` `decint` `hexint` `(intspaces v maxint maxsp)`
           `(multidigit base digits)` `(oneof c…)` `(tupl c…)` `(seq c n)` `(grid c N)` `(grid c h w)`
           `(rooms skip allow)` `(vrooms c skip allow)` `yajilin` `(puzzle name)`
  ops    : `(ser c (v…) idx h w)` `(de c (cp…) idx h w)` `(serp c v h w)` `(dep c (cp…) h w)`
           `(serurl c (name) h w v (prefix))` `(deurl c (url) allowed allowFailure returnSize)` `(info (url))`
           `(match (url))` `(pde name (url))` `(pcomb name)` `(scope c)` (→ `(ok wf single terminating)`)
  replies: `(ok …)` `none` `(err Name)` `diverge`
-/
namespace Cspuz.Drv
open Cspuz Cspuz.Ser

def strOf? : Sexp → Option Str
  | .list l => l.mapM Sexp.toNat?
  | _ => none

partial def pyVal? : Sexp → Option PyVal
  | .atom "N" => some .none
  | .list [.atom "i", n] => n.toInt?.map .int
  | .list (.atom "s" :: cps) => (cps.mapM Sexp.toNat?).map .str
  | .list [.atom "b", b] => b.toBool?.map .bool
  | .list (.atom "t" :: vs) => (vs.mapM pyVal?).map .tuple
  | .list (.atom "l" :: vs) => (vs.mapM pyVal?).map .list
  | _ => none

partial def comb? : Sexp → Option Comb
  | .atom "decint" => some .decInt
  | .atom "hexint" => some .hexInt
  | .atom "yajilin" => some .yajilinClue
  | .list [.atom "fixstr", s] => (strOf? s).map .fixStr
  | .list [.atom "dict", .list bs, .list as] => do
      some (.dict (← bs.mapM pyVal?) (← as.mapM strOf?))
  | .list [.atom "spaces", v, o] => do some (.spaces (← pyVal? v) (← o.toInt?))
  | .list [.atom "intspaces", v, a, b] => do some (.intSpaces (← pyVal? v) (← a.toNat?) (← b.toNat?))
  | .list [.atom "multidigit", a, b] => do some (.multiDigit (← a.toNat?) (← b.toNat?))
  | .list (.atom "oneof" :: cs) => (cs.mapM comb?).map .oneOf
  | .list (.atom "tupl" :: cs) => (cs.mapM comb?).map .tupl
  | .list [.atom "seq", c, n] => do some (.seq (← comb? c) (← n.toNat?))
  | .list [.atom "grid", c, .atom "N"] => do some (.grid (← comb? c) none)
  | .list [.atom "grid", c, h, w] => do some (.grid (← comb? c) (some ((← h.toNat?), (← w.toNat?))))
  | .list [.atom "rooms", a, b] => do some (.rooms (← a.toBool?) (← b.toBool?))
  | .list [.atom "vrooms", c, a, b] => do some (.valuedRooms (← comb? c) (← a.toBool?) (← b.toBool?))
  | .list [.atom "puzzle", .atom name] => (Gen.puzzleCodecs.find? (·.name == name)).map (·.comb)
  | _ => none

def strS (s : Str) : Sexp := .list (s.map .ofNat)

partial def pyValS : PyVal → Sexp
  | .int n => .list [.atom "i", .ofInt n]
  | .str s => .list (.atom "s" :: s.map .ofNat)
  | .none => .atom "N"
  | .bool b => .list [.atom "b", .ofBool b]
  | .tuple l => .list (.atom "t" :: l.map pyValS)
  | .list l => .list (.atom "l" :: l.map pyValS)

partial def combS : Comb → Sexp
  | .fixStr s => .list [.atom "fixstr", strS s]
  | .dict b a => .list [.atom "dict", .list (b.map pyValS), .list (a.map strS)]
  | .spaces v o => .list [.atom "spaces", pyValS v, .ofInt o]
  | .decInt => .atom "decint"
  | .hexInt => .atom "hexint"
  | .intSpaces v a b => .list [.atom "intspaces", pyValS v, .ofNat a, .ofNat b]
  | .multiDigit a b => .list [.atom "multidigit", .ofNat a, .ofNat b]
  | .oneOf cs => .list (.atom "oneof" :: cs.map combS)
  | .tupl cs => .list (.atom "tupl" :: cs.map combS)
  | .seq c n => .list [.atom "seq", combS c, .ofNat n]
  | .grid c none => .list [.atom "grid", combS c, .atom "N"]
  | .grid c (some (h, w)) => .list [.atom "grid", combS c, .ofNat h, .ofNat w]
  | .rooms a b => .list [.atom "rooms", .ofBool a, .ofBool b]
  | .valuedRooms c a b => .list [.atom "vrooms", combS c, .ofBool a, .ofBool b]
  | .yajilinClue => .atom "yajilin"

def outcomeS {α} (f : α → List Sexp) : Outcome α → Sexp
  | .ok a => .list (.atom "ok" :: f a)
  | .none => .atom "none"
  | .raised e => .list [.atom "err", .atom e.name]
  | .diverge => .atom "diverge"

def allowed? : Sexp → Option (Option (List Str))
  | .atom "N" => some none
  | .list l => (l.mapM strOf?).map some
  | _ => none

def handleC15 : Sexp → Option Sexp
  | .list [.atom "ser", c, .list vs, i, h, w] => do
    let c ← comb? c; let vs ← vs.mapM pyVal?; let i ← i.toNat?; let h ← h.toNat?; let w ← w.toNat?
    some (outcomeS (fun r => [.ofNat r.1, strS r.2]) (ser c ⟨h, w⟩ vs i))
  | .list [.atom "de", c, s, i, h, w] => do
    let c ← comb? c; let s ← strOf? s; let i ← i.toNat?; let h ← h.toNat?; let w ← w.toNat?
    some (outcomeS (fun r => [.ofNat r.1, .list (r.2.map pyValS)]) (de c ⟨h, w⟩ s i))
  | .list [.atom "serp", c, v, h, w] => do
    let c ← comb? c; let v ← pyVal? v; let h ← h.toNat?; let w ← w.toNat?
    some (outcomeS (fun r => [strS r]) (serProblem c v h w))
  | .list [.atom "dep", c, s, h, w] => do
    let c ← comb? c; let s ← strOf? s; let h ← h.toNat?; let w ← w.toNat?
    some (outcomeS (fun r => [pyValS r]) (deProblem c s h w))
  | .list [.atom "serurl", c, name, h, w, v, pre] => do
    let c ← comb? c; let name ← strOf? name; let v ← pyVal? v; let h ← h.toNat?; let w ← w.toNat?
    let pre ← strOf? pre
    some (outcomeS (fun r => [strS r]) (serProblemAsUrl c name h w v pre))
  | .list [.atom "deurl", c, url, allowed, af, rs] => do
    let c ← comb? c; let url ← strOf? url; let allowed ← allowed? allowed
    let af ← af.toBool?; let rs ← rs.toBool?
    some (outcomeS (fun r => [pyValS r]) (deProblemAsUrl c url allowed af rs))
  | .list [.atom "info", url] => do
    let url ← strOf? url
    some (outcomeS (fun r => [strS r.1, .ofNat r.2.1, .ofNat r.2.2]) (getPuzzleInfo url))
  | .list [.atom "match", url] => do
    let url ← strOf? url
    match matchUrl url with
    | none => some (.atom "none")
    | some (a, b, c, d) => some (.list [.atom "ok", strS a, strS b, strS c, strS d])
  | .list [.atom "pde", .atom name, url] => do
    let url ← strOf? url
    let pc ← Gen.puzzleCodecs.find? (·.name == name)
    some (outcomeS (fun r => [pyValS r]) (deProblemAsUrl pc.comb url pc.allowed pc.allowFailure pc.returnSize))
  | .list [.atom "ctor", c] => do
    let c ← comb? c
    some (.list [.atom "ok", .ofBool (ctorOk c)])
  | .list [.atom "scope", c] => do
    let c ← comb? c
    some (.list [.atom "ok", .ofBool (wf c), .ofBool (single c), .ofBool (terminating c)])
  | .list [.atom "pcomb", .atom name] => do
    let pc ← Gen.puzzleCodecs.find? (·.name == name)
    some (.list [combS pc.comb, strS pc.urlName,
      (match pc.allowed with | none => .atom "N" | some l => .list (l.map strS)),
      .ofBool pc.allowFailure, .ofBool pc.returnSize])
  | _ => none

end Cspuz.Drv
