import CspuzModel.Model.Sexp
open Cspuz

def handle (s : Sexp) : Sexp :=
  match s with
  | .list (.atom "echo" :: rest) => .list rest
  | _ => .atom "bad-op"

partial def loop (h : IO.FS.Stream) (out : IO.FS.Stream) : IO Unit := do
  let line ← h.getLine
  if line.isEmpty then return ()
  match Sexp.parse line with
  | some s => out.putStrLn (handle s).render
  | none => out.putStrLn "bad-sexp"
  loop h out

def main : IO Unit := do loop (← IO.getStdin) (← IO.getStdout)
