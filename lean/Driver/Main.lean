import Driver.C13
import Driver.Graph
import Driver.Core
import Driver.C18
import Driver.C14
import Driver.C15
import Driver.C16
import Driver.C12
import Driver.C19
import Driver.C20
import Driver.C03
import Driver.PuzSudoku
import Driver.PuzStarBattle
import Driver.PuzPutteria
import Driver.PuzNorinori
import Driver.PuzAkari
import Driver.PuzAquarium
import Driver.PuzBuilding
import Driver.PuzDoppelblock
import Driver.PuzSlitherlink
import Driver.PuzSimpleloop
import Driver.PuzMasyu
import Driver.PuzGeradeweg
import Driver.PuzYajilin
import Driver.PuzCreek
import Driver.PuzGokigen
import Driver.PuzNurimisaki
import Driver.PuzLits
import Driver.PuzHeyawake
import Driver.PuzView
import Driver.PuzNurikabe
import Driver.PuzCompass
import Driver.PuzFillomino
import Driver.PuzFivecells
import Driver.PuzYinyang
import Driver.PuzCastleWall
import Driver.PuzShakashaka
import Driver.PuzMagnets
import Driver.PuzNurimaze
import Driver.PuzFirefly
import Driver.PuzSlalom
import Driver.PuzNanro
open Cspuz Cspuz.Drv

def handlers : List (Sexp → Option Sexp) := [handleC13, handleGraph, handleCore, handleC18, handleC14, handleC15, handleC16, handleC12, handleC19, handleC20, handleC03, handlePuzSudoku, handlePuzStarBattle, handlePuzPutteria, handlePuzNorinori, handlePuzAkari, handlePuzAquarium, handlePuzBuilding, handlePuzDoppelblock, handlePuzSlitherlink, handlePuzSimpleloop, handlePuzMasyu, handlePuzGeradeweg, handlePuzYajilin, handlePuzCreek, handlePuzGokigen, handlePuzNurimisaki, handlePuzLits, handlePuzHeyawake, handlePuzView, handlePuzNurikabe, handlePuzCompass, handlePuzFillomino, handlePuzFivecells, handlePuzYinyang, handlePuzCastleWall, handlePuzShakashaka, handlePuzMagnets, handlePuzNurimaze, handlePuzFirefly, handlePuzSlalom, handlePuzNanro]

def handle (s : Sexp) : Sexp :=
  match s with
  | .list (.atom "echo" :: rest) => .list rest
  | _ =>
    match handlers.findSome? (fun h => h s) with
    | some r => r
    | none => .atom "bad-op"

partial def loop (h : IO.FS.Stream) (out : IO.FS.Stream) : IO Unit := do
  let line ← h.getLine
  if line.isEmpty then return ()
  match Sexp.parse line with
  | some s => out.putStrLn (handle s).render
  | none => out.putStrLn "bad-sexp"
  loop h out

def main : IO Unit := do loop (← IO.getStdin) (← IO.getStdout)
