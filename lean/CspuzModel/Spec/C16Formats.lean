/-
  C16: the problem formats of the puzzle modules (what "all problems in each module's problem format" ranges over),
  the Python values they denote, and what each problem looks like on a pzpr board (the target of the independent
  decoders of Spec/Pzpr.lean).  Core Lean only.
-/
import CspuzModel.Model.PuzzleCodecs
import CspuzModel.Spec.Pzpr
namespace Cspuz.C16F
open Cspuz Cspuz.Ser Cspuz.Codecs

/-- the decimal numeral of `n` has at most 4300 digits – CPython's limit on `int` ↔ `str` conversion, which `int()` in the URL
decoder enforces (no list can be that long; the hypothesis only matters for the explicit heights/widths of the
rooms puzzles) -/
def DecimalOk (n : Nat) : Prop := (toBase 10 n).length ≤ 4300

/-! ### grids of integers (nurikabe, sudoku, nurimisaki, slitherlink, masyu) -/

/-- the Python value of a grid of ints: a list of lists -/
def intGridVal (g : List (List Int)) : PyVal := .list (g.map fun r => .list (r.map .int))

/-- `h` rows of `w` cells, every cell satisfying `P` -/
def IntGrid (P : Int → Prop) (h w : Nat) (g : List (List Int)) : Prop :=
  g.length = h ∧ ∀ r ∈ g, r.length = w ∧ ∀ v ∈ r, P v

/-- nurikabe: `0` no clue, `-1` the clue "?", `n` a number (the URL format has room for numbers up to 4095) -/
def NurikabeCell (v : Int) : Prop := v = -1 ∨ (0 ≤ v ∧ v ≤ 4095)
/-- sudoku: `0` no clue, `n` a given -/
def SudokuCell (v : Int) : Prop := 0 ≤ v ∧ v ≤ 4095
/-- nurimisaki: `-1` no clue, `0` a circle without number, `n` a circle with a number -/
def NurimisakiCell (v : Int) : Prop := -1 ≤ v ∧ v ≤ 4095
/-- slitherlink: `-1` no clue, `0..4` -/
def SlitherCell (v : Int) : Prop := -1 ≤ v ∧ v ≤ 4
/-- masyu: `0` nothing, `1` white circle, `2` black circle -/
def MasyuCell (v : Int) : Prop := 0 ≤ v ∧ v ≤ 2

/-! on a pzpr board (`-1` no clue, `-2` "?") -/
def nurikabeQ (v : Int) : Int := if v = -1 then -2 else if v = 0 then -1 else v
def sudokuQ (v : Int) : Int := if v = 0 then -1 else v
def nurimisakiQ (v : Int) : Int := if v = 0 then -2 else v
def slitherQ (v : Int) : Int := v
def masyuQ (v : Int) : Nat := v.toNat

/-! ### yajilin -/

/-- the clue kinds `solve_yajilin` accepts: `".."` (no clue), `"??"` (a clue cell without information), and an arrow
(`^ v < >` = directions 1–4) with a number (in the URL format: below 256) -/
inductive YCell where
  | empty
  | unknown
  | arrow (dir n : Nat)
  deriving DecidableEq, Repr, Inhabited

def YCell.Ok : YCell → Prop
  | .arrow d n => 1 ≤ d ∧ d ≤ 4 ∧ n ≤ 255
  | _ => True

/-- the Python string: `".."`, `"??"`, `"^12"` (number in canonical decimal form) -/
def YCell.val : YCell → PyVal
  | .empty => .str [46, 46]
  | .unknown => .str [63, 63]
  | .arrow d n => .str (charOfDir d :: toBase 10 n)

def yGridVal (g : List (List YCell)) : PyVal := .list (g.map fun r => .list (r.map YCell.val))

def YGrid (h w : Nat) (g : List (List YCell)) : Prop :=
  g.length = h ∧ ∀ r ∈ g, r.length = w ∧ ∀ v ∈ r, v.Ok

/-- on a pzpr board: `"??"` is a clue cell without direction whose number is "?" -/
def yajilinQ : YCell → Pzpr.Arrow
  | .empty => none
  | .unknown => some (0, -2)
  | .arrow d n => some (d, (n : Int))

/-! ### rooms (lits, norinori, heyawake, aquarium, star battle) -/

/-- a room clue of heyawake / a number outside the board of aquarium: `-1` none, or `0..4095` -/
def ClueVal (v : Int) : Prop := v = -1 ∨ (0 ≤ v ∧ v ≤ 4095)

/-- index of the room containing a cell (`rooms.length` if none) -/
def roomIdx (rooms : List (List (Nat × Nat))) (c : Nat × Nat) : Nat := rooms.findIdx (·.contains c)

/-- the borders of a partition: a border exactly between orthogonally adjacent cells of different rooms -/
def bordersOf (h w : Nat) (rooms : List (List (Nat × Nat))) : Pzpr.Borders :=
  ⟨(List.range h).map fun y => (List.range (w - 1)).map fun x => roomIdx rooms (y, x) != roomIdx rooms (y, x + 1),
   (List.range (h - 1)).map fun y => (List.range w).map fun x => roomIdx rooms (y, x) != roomIdx rooms (y + 1, x)⟩

/-- the borders of a grid of block ids (star battle) -/
def bordersOfIds (h w : Nat) (bid : List (List Int)) : Pzpr.Borders :=
  let idAt (y x : Nat) : Int := (bid.getD y []).getD x 0
  ⟨(List.range h).map fun y => (List.range (w - 1)).map fun x => idAt y x != idAt y (x + 1),
   (List.range (h - 1)).map fun y => (List.range w).map fun x => idAt y x != idAt (y + 1) x⟩

/-! ### compass -/

/-- a compass clue inside the board, numbers `-1` (none) or `0..4095` (everything `encode_array` can write) -/
def CompassClueOk (h w : Nat) (c : CompassClue) : Prop :=
  0 ≤ c.y ∧ c.y < h ∧ 0 ≤ c.x ∧ c.x < w ∧
  (-1 ≤ c.up ∧ c.up ≤ 4095) ∧ (-1 ≤ c.left ∧ c.left ≤ 4095) ∧ (-1 ≤ c.down ∧ c.down ≤ 4095) ∧ (-1 ≤ c.right ∧ c.right ≤ 4095)

/-- row-major position of a clue -/
def cluePos (w : Nat) (c : CompassClue) : Int := c.y * w + c.x

/-- the clue list is in row-major order with pairwise different cells (the order `parse_puzz_link_url` returns) -/
def CompassSorted (w : Nat) (pos : List CompassClue) : Prop := pos.Pairwise fun a b => cluePos w a < cluePos w b

/-- on a pzpr board: `(up, down, left, right)` in the clue's cell -/
def compassBoard (h w : Nat) (pos : List CompassClue) : List (List Pzpr.CompassCell) :=
  (List.range h).map fun (y : Nat) => (List.range w).map fun (x : Nat) =>
    (pos.find? fun c => c.y == (y : Int) && c.x == (x : Int)).map fun c => (c.up, c.down, c.left, c.right)

end Cspuz.C16F
