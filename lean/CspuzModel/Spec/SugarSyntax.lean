/-
  SPEC for C03: how the external solver READS a CSP description — the fragment of Sugar's input syntax
  (http://bach.istc.kobe-u.ac.jp/sugar/ "Syntax of Sugar CSP description", plus the two extension
  operators of csugar / cspuz_core and the `#` answer-key line split off by
  CspuzSugarInterface.loadProblem) that the Sugar-family backends emit — written from that
  documentation, independently of the printer in cspuz/backend/sugar_like.py.  Executable, import-free.

  The text is read as a sequence of S-expressions (blank / newline separated, `(`head arg …`)`):
    (int  <name> <lo> <hi>)      integer variable with domain lo..hi
    (bool <name>)                Boolean variable
    anything else                a constraint (a logical formula)
  Formulas / terms: `true`, `false`, integer literals, variable names, and applications of
    -  (one operand: negation; otherwise left-associated subtraction)   +
    =  !=  <=  <  >=  >     !  &&  ||  iff  xor  =>  if  alldifferent
    graph-active-vertices-connected   graph-division  (`*` = "no size given")
  Their MEANING is `Cspuz.eval` of the tree `toExpr?` builds (Model/Expr.lean: ordinary arithmetic / logic,
  `evalAVC` / `evalDiv` for the two graph operators).
  Only names of the shape `b<digits>` (Boolean) / `i<digits>` (integer) are in the fragment.
-/
import CspuzModel.Model.Sugar
namespace Cspuz.SugarSyntax
open Cspuz Cspuz.Sugar

/-- Generic S-expression of the fragment: an atom, or `(head arg …)` with an atomic head. -/
inductive SX
  | atom (a : Str)
  | app (head : Str) (args : List SX)
  deriving Repr, Inhabited

inductive Tok
  | lp | rp | at (a : Str)
  deriving Repr, Inhabited, DecidableEq

/-- Characters that end an atom. -/
def isDelim (c : Char) : Bool := c == '(' || c == ')' || c == ' ' || c == '\n' || c == '\t' || c == '\r'

def flush (cur : List Char) : List Tok := if cur.isEmpty then [] else [Tok.at cur.reverse]

/-- Lexer; `cur` is the reversed atom being read. -/
def lexGo : List Char → List Char → List Tok
  | [], cur => flush cur
  | c :: cs, cur =>
    if c = '(' then flush cur ++ Tok.lp :: lexGo cs []
    else if c = ')' then flush cur ++ Tok.rp :: lexGo cs []
    else if isDelim c then flush cur ++ lexGo cs []
    else lexGo cs (c :: cur)

/-- Tokens of one line (the end of the line ends an atom, like a blank). -/
def lexLine (l : Str) : List Tok := lexGo (l ++ [' ']) []

/-- An open parenthesis: its head (once read) and the reversed operands read so far. -/
structure Frame where
  head : Option Str
  rev : List SX
  deriving Inhabited

/-- Stack parser for a sequence of S-expressions; the bottom frame collects the top-level ones. -/
def parseToks : List Tok → List Frame → Option (List SX)
  | [], [⟨some _, r⟩] => some r.reverse
  | [], _ => none
  | .lp :: ts, st => parseToks ts (⟨none, []⟩ :: st)
  | .at a :: ts, ⟨none, r⟩ :: st => parseToks ts (⟨some a, r⟩ :: st)
  | .at a :: ts, ⟨some h, r⟩ :: st => parseToks ts (⟨some h, .atom a :: r⟩ :: st)
  | .at _ :: _, [] => none
  | .rp :: ts, ⟨some h, r⟩ :: ⟨some h2, r2⟩ :: st => parseToks ts (⟨some h2, .app h r.reverse :: r2⟩ :: st)
  | .rp :: _, _ => none

def parseSeq (toks : List Tok) : Option (List SX) := parseToks toks [⟨some [], []⟩]

/-- Decimal natural number: one or more ASCII digits. -/
def parseNat? (s : Str) : Option Nat :=
  if s.isEmpty then none
  else s.foldl (fun acc c => acc.bind fun a => if c.isDigit then some (a * 10 + (c.toNat - 48)) else none) (some 0)

/-- Integer literal: optional `-`, then digits. -/
def parseInt? (s : Str) : Option Int :=
  match s with
  | '-' :: d => (parseNat? d).map fun n => -(n : Int)
  | d => (parseNat? d).map fun n => (n : Int)

/-- Meaning of an operator name other than `-`. -/
def sugarOpPlain (name : Str) : Option Op :=
  if name = ['+'] then some .add
  else if name = ['='] then some .eq
  else if name = ['!', '='] then some .ne
  else if name = ['<', '='] then some .le
  else if name = ['<'] then some .lt
  else if name = ['>', '='] then some .ge
  else if name = ['>'] then some .gt
  else if name = ['!'] then some .not
  else if name = ['&', '&'] then some .and
  else if name = ['|', '|'] then some .or
  else if name = ['i', 'f', 'f'] then some .iff
  else if name = ['x', 'o', 'r'] then some .xor
  else if name = ['=', '>'] then some .imp
  else if name = ['i', 'f'] then some .ite
  else if name = "alldifferent".toList then some .alldiff
  else if name = "graph-active-vertices-connected".toList then some .graphAVC
  else if name = "graph-division".toList then some .graphDiv
  else none

/-- Meaning of an operator name applied to `arity` operands. -/
def sugarOp (name : Str) (arity : Nat) : Option Op :=
  if name = ['-'] then (if arity = 1 then some .neg else some .sub)
  else sugarOpPlain name

/-- Meaning of an atom in operand position. -/
def atomExpr? (a : Str) : Option Expr :=
  if a = ['t', 'r', 'u', 'e'] then some (.litB true)
  else if a = ['f', 'a', 'l', 's', 'e'] then some (.litB false)
  else if a = ['*'] then some .litNone
  else match a with
    | 'b' :: d => (parseNat? d).map .bvar
    | 'i' :: d => (parseNat? d).map .ivar
    | d => (parseInt? d).map .litI

mutual
/-- The expression tree an S-expression denotes. -/
def toExpr? : SX → Option Expr
  | .atom a => atomExpr? a
  | .app h args =>
    match sugarOp h args.length, toExprs? args with
    | some op, some as => some (.node op as)
    | _, _ => none
def toExprs? : List SX → Option (List Expr)
  | [] => some []
  | s :: r =>
    match toExpr? s, toExprs? r with
    | some e, some es => some (e :: es)
    | _, _ => none
end

inductive Item
  | decl (v : SVar)
  | constraint (e : Expr)

/-- Classification of one top-level S-expression. -/
def item? : SX → Option Item
  | .app h args =>
    if h = ['i', 'n', 't'] then
      match args with
      | [.atom nm, .atom lo, .atom hi] =>
        (match nm with
         | 'i' :: d => do
           let id ← parseNat? d
           let lo ← parseInt? lo
           let hi ← parseInt? hi
           some (.decl ⟨id, .int lo hi⟩)
         | _ => none)
      | _ => none
    else if h = ['b', 'o', 'o', 'l'] then
      match args with
      | [.atom nm] =>
        (match nm with
         | 'b' :: d => do
           let id ← parseNat? d
           some (.decl ⟨id, .bool⟩)
         | _ => none)
      | _ => none
    else (toExpr? (.app h args)).map .constraint
  | .atom a => (toExpr? (.atom a)).map .constraint

def collect : List SX → Option (List SVar × List Expr)
  | [] => some ([], [])
  | t :: r =>
    match item? t, collect r with
    | some (.decl v), some (vs, cs) => some (v :: vs, cs)
    | some (.constraint e), some (vs, cs) => some (vs, e :: cs)
    | _, _ => none

def isKeyLine (l : Str) : Bool := match l with | '#' :: _ => true | _ => false

/-- `answerKeys = line.substring(1).split(" ")` of the LAST `#` line (names; empty strings name nothing). -/
def keysOf (lines : List Str) : Option (List Str) :=
  match (lines.filter isKeyLine).getLast? with
  | none => none
  | some l => some ((splitOn ' ' (l.drop 1)).filter fun n => !n.isEmpty)

/-- The whole description: the declared variables (in order), the constraints (in order) and, in deduction
mode, the names of the answer keys. -/
def parseCSPL (text : Str) : Option (List SVar × List Expr × Option (List Str)) := do
  let lines := splitOn '\n' text
  let body := lines.filter fun l => !isKeyLine l
  let sxs ← parseSeq (body.flatMap lexLine)
  let (vars, cs) ← collect sxs
  some (vars, cs, keysOf lines)

def parseCSP (text : String) : Option (List SVar × List Expr × Option (List Str)) := parseCSPL text.toList

/-! ### What "the solver is correct" means on such a description -/

/-- `σ` is a model of the program read off the text (ids are the ones in the names). -/
def SatV (vars : List SVar) (cs : List Expr) (σ : Asg) : Prop :=
  (∀ v ∈ vars, ∀ lo hi, v.decl = .int lo hi → lo ≤ σ.i v.id ∧ σ.i v.id ≤ hi) ∧
  ∀ c ∈ cs, eval σ c = some (.b true)

/-- The value of variable `v` under `σ`, with its type. -/
def valV (σ : Asg) (v : SVar) : Val :=
  match v.decl with
  | .bool => .b (σ.b v.id)
  | .int _ _ => .i (σ.i v.id)

/-- `f` is the exact fact about `v`: `some x` when every model gives `x`, `none` when two models differ. -/
def ExactFact (vars : List SVar) (cs : List Expr) (v : SVar) (f : Option Val) : Prop :=
  match f with
  | some x => ∀ σ, SatV vars cs σ → valV σ v = x
  | none => ∃ σ₁ σ₂, SatV vars cs σ₁ ∧ SatV vars cs σ₂ ∧ valV σ₁ v ≠ valV σ₂ v

/-- The external solver honours the protocol of CspuzSugarInterface.java on every description of the
fragment: in answer-finder mode it prints a model of the denoted program in the `s SATISFIABLE` format, or
`s UNSATISFIABLE` when there is none; in deduction mode it prints `unsat` when there is no model and
otherwise `sat` followed by exactly the exact facts of the named keys. -/
def SolverCorrect (S : Call) : Prop :=
  ∀ text vars cs keys, parseCSPL text = some (vars, cs, keys) →
    match keys with
    | none =>
      (∃ σ, SatV vars cs σ ∧ S text = formatSat vars σ) ∨
      ((¬ ∃ σ, SatV vars cs σ) ∧ S text = formatUnsat)
    | some ks =>
      ((¬ ∃ σ, SatV vars cs σ) ∧ S text = formatUnsatFacts) ∨
      ((∃ σ, SatV vars cs σ) ∧ ∃ F : SVar → Option Val,
        (∀ v ∈ vars, ExactFact vars cs v (F v)) ∧ S text = formatFacts vars ks F)

end Cspuz.SugarSyntax
