/-
  SPEC for C12: what "element i denotes exactly A[i] op B[i]", "the number of true items", "the windowed
  and/or", "the in-bounds orthogonal neighbours" mean — written on VALUES, independently of the
  expression trees the library builds.  Import-free apart from the model's data types.
-/
import CspuzModel.Model.ArrayOps
namespace Cspuz.Spec
open Cspuz

/-- Operand kinds are Booleans throughout: `true` = Boolean-valued, `false` = integer-valued. -/
abbrev Kind := Bool

/-- The operand is usable where a value of kind `k` is required: an array of that class, an expression of
that class, or a Python literal of that type (`True` is NOT an integer). -/
def hasKind (k : Kind) (v : PyV) : Bool := if k then v.isBoolLike else v.isIntLike

/-- Operand kinds an infix operator is defined on. -/
def accepts : BinOp → Kind → Bool
  | .and_, k | .or_, k | .xor, k => k
  | .add, k | .sub, k | .lt, k | .le, k | .gt, k | .ge, k => !k
  | .eq, _ | .ne, _ => true

/-- Kind of the result of an infix operator. -/
def resultKind : BinOp → Kind
  | .add | .sub => false
  | _ => true

/-- Ordinary meaning of `x o y` on values of kind `k` (`none`: not defined on such values). -/
def binSem : BinOp → Kind → Val → Val → Option Val
  | .and_, true, .b x, .b y => some (.b (x && y))
  | .or_, true, .b x, .b y => some (.b (x || y))
  | .xor, true, .b x, .b y => some (.b (x != y))
  | .eq, true, .b x, .b y => some (.b (x == y))
  | .ne, true, .b x, .b y => some (.b (x != y))
  | .add, false, .i x, .i y => some (.i (x + y))
  | .sub, false, .i x, .i y => some (.i (x - y))
  | .eq, false, .i x, .i y => some (.b (x == y))
  | .ne, false, .i x, .i y => some (.b (x != y))
  | .lt, false, .i x, .i y => some (.b (decide (x < y)))
  | .le, false, .i x, .i y => some (.b (decide (x ≤ y)))
  | .gt, false, .i x, .i y => some (.b (decide (x > y)))
  | .ge, false, .i x, .i y => some (.b (decide (x ≥ y)))
  | _, _, _, _ => none

def unKind : UnOp → Kind
  | .invert => true
  | .neg => false

def unSem : UnOp → Val → Option Val
  | .invert, .b x => some (.b (!x))
  | .neg, .i x => some (.i (-x))
  | _, _ => none

/-- `x.then(y)`: implication. -/
def impSem : Val → Val → Option Val
  | .b x, .b y => some (.b (!x || y))
  | _, _ => none

/-- `c.cond(t, f)`: if-then-else. -/
def iteSem : Val → Val → Val → Option Val
  | .b c, .i t, .i f => some (.i (if c then t else f))
  | _, _, _ => none

/-- Element `i` of an operand: `A[i]` (row-major) for an array, the scalar itself otherwise. -/
def elem? (v : PyV) (i : Nat) : Option Expr :=
  match v with
  | .scalar e => some e
  | .arr1 _ d => d[i]?
  | .arr2 _ _ _ d => d[i]?
  | .other => none

/-- `r` is an array of class `k` and shape `sh` with `sh.size` elements. -/
def IsArr (r : PyV) (k : Kind) (sh : Shape) : Prop :=
  r.arrKind? = some k ∧ r.shape? = some sh ∧ r.wf = true ∧ ∀ i, i < sh.size → (elem? r i).isSome

/-- All array operands among `xs` have shape `sh`, and at least one of them is an array. -/
def SameShape (sh : Shape) (xs : List PyV) : Prop :=
  (∀ x ∈ xs, x.wf = true ∧ ∀ s, x.shape? = some s → s = sh) ∧ ∃ x ∈ xs, x.shape? = some sh

/-- Two of the operands are arrays of different shapes. -/
def ShapeMismatch (xs : List PyV) : Prop :=
  ∃ x ∈ xs, ∃ y ∈ xs, ∃ s t, x.shape? = some s ∧ y.shape? = some t ∧ s ≠ t

/-! ### helpers -/

def countTrueSem (bs : List Bool) : Int := ((bs.filter id).length : Nat)

/-! ### windows and neighbours -/

/-- The cells of the window with top-left corner `(y, x)`, row-major. -/
def windowCells (h w y x : Nat) : List (Nat × Nat) :=
  (List.range h).flatMap fun dy => (List.range w).map fun dx => (y + dy, x + dx)

/-- The windowed and / or of the cell values `v`. -/
def windowSem (cop : ConvOp) (cells : List (Nat × Nat)) (v : Nat × Nat → Bool) : Bool :=
  match cop with
  | .and_ => cells.all v
  | _ => cells.any v

/-- The element at cell `p = (row, column)` of a row-major array with `W` columns. -/
def cellAt (data : List Expr) (W : Nat) (p : Nat × Nat) : Option Expr := data[p.1 * W + p.2]?

/-- The in-bounds orthogonal neighbours of `(y, x)` in the order up, down, left, right. -/
def neighbours (H W : Nat) (y x : Int) : List (Int × Int) :=
  [(y - 1, x), (y + 1, x), (y, x - 1), (y, x + 1)].filter fun p =>
    decide (0 ≤ p.1 ∧ p.1 < (H : Int) ∧ 0 ≤ p.2 ∧ p.2 < (W : Int))

end Cspuz.Spec
