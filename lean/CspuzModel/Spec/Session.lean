/-
  SPEC for C01/C02: what program a Solver session has accumulated (defined directly from the operation
  history, independently of the state machine), and which facts are common to all solutions.
  Import-free.
-/
import CspuzModel.Model.Solver
namespace Cspuz.Spec
open Cspuz

/-- The variables declared by a history, in declaration order (the id of a variable is its position). -/
def declsOf : List SolverOp → List VarDecl
  | [] => []
  | .boolVar :: r => .bool :: declsOf r
  | .intVar lo hi :: r => .int lo hi :: declsOf r
  | _ :: r => declsOf r

/-- The constraints posted by a history: all flattened arguments of all `ensure` calls, in order
(an `ensure` that raises TypeError at a non-Boolean item keeps the items before it). -/
def csOf : List SolverOp → List Expr
  | [] => []
  | .ensure arg :: r => (arg.flatten.takeWhile Expr.isBoolLike) ++ csOf r
  | _ :: r => csOf r

/-- Every posted constraint is a well-typed Boolean tree. -/
def WellTyped (ops : List SolverOp) : Prop := ∀ c ∈ csOf ops, wtB c = true

/-- The value common to all models for variable `id`, if any. -/
def CommonValue (decls : List VarDecl) (cs : List Expr) (id : Nat) (v : Val) : Prop :=
  ∀ σ, Sat decls cs σ → valOf decls σ id = some v

/-- Two models disagree on variable `id`. -/
def Undetermined (decls : List VarDecl) (cs : List Expr) (id : Nat) : Prop :=
  ∃ σ₁ σ₂, Sat decls cs σ₁ ∧ Sat decls cs σ₂ ∧ valOf decls σ₁ id ≠ valOf decls σ₂ id

end Cspuz.Spec
