/-
  SPEC vocabulary shared by the graph-constraint properties: what it means for the constraints a
  generator adds to be "satisfiable for a given assignment of the caller's variables".  Import-free.
-/
import CspuzModel.Model.Dsl
namespace Cspuz.Spec
open Cspuz

/-- Two assignments agree on the caller's variables (ids below `base`). -/
def AgreeBelow (base : Nat) (σ σ' : Asg) : Prop :=
  ∀ id, id < base → σ.b id = σ'.b id ∧ σ.i id = σ'.i id

/-- `σ'` satisfies an emitted fragment whose auxiliary variables are `base, base+1, …`. -/
def SatFrag (base : Nat) (p : Prog) (σ' : Asg) : Prop :=
  (∀ k lo hi, p.decls[k]? = some (.int lo hi) → lo ≤ σ'.i (base + k) ∧ σ'.i (base + k) ≤ hi) ∧
  ∀ c ∈ p.cs, eval σ' c = some (.b true)

/-- The fragment can be completed to a satisfying assignment of the hidden auxiliary variables
without changing the caller's variables. -/
def Realizable (base : Nat) (p : Prog) (σ : Asg) : Prop :=
  ∃ σ', AgreeBelow base σ σ' ∧ SatFrag base p σ'

/-- Truth value of the `i`-th caller expression under `σ` (false when missing or not a Boolean). -/
def truthAt (σ : Asg) (l : List Expr) (i : Nat) : Bool :=
  match l[i]? with
  | some e => eval σ e == some (.b true)
  | none => false

/-- Integer value of the `i`-th caller expression. -/
def intAt (σ : Asg) (l : List Expr) (i : Nat) : Option Int :=
  match l[i]? with
  | some e => match eval σ e with
    | some (.i v) => some v
    | _ => none
  | none => none

/-- Every caller expression is a well-typed Boolean tree over the caller's variables. -/
def BoolArgs (base : Nat) (l : List Expr) : Prop := ∀ e ∈ l, wtB e = true ∧ e.varsBelow base = true
def IntArgs (base : Nat) (l : List Expr) : Prop := ∀ e ∈ l, wtI e = true ∧ e.varsBelow base = true

end Cspuz.Spec
