/-
  SPEC for C10: crossable loops / paths on a grid frame.
-/
import Mathlib.Combinatorics.SimpleGraph.Connectivity.Connected
import CspuzModel.Model.Crossable
import CspuzModel.Spec.Sat
namespace Cspuz.Spec
open Cspuz

/-- A lattice segment of an `H × W` frame: horizontal `h(y,x)` joins points `(y,x)-(y,x+1)`
(`y ≤ H`, `x < W`); vertical `v(y,x)` joins `(y,x)-(y+1,x)` (`y < H`, `x ≤ W`). -/
inductive LSeg
  | h (y x : Nat)
  | v (y x : Nat)
  deriving DecidableEq, Repr

def LSeg.valid (H W : Nat) : LSeg → Prop
  | .h y x => y ≤ H ∧ x < W
  | .v y x => y < H ∧ x ≤ W

/-- The two end points. -/
def LSeg.ends : LSeg → (Nat × Nat) × (Nat × Nat)
  | .h y x => ((y, x), (y, x + 1))
  | .v y x => ((y, x), (y + 1, x))

def LSeg.touches (s : LSeg) (p : Nat × Nat) : Prop := s.ends.1 = p ∨ s.ends.2 = p

def LSeg.isH : LSeg → Bool
  | .h _ _ => true
  | .v _ _ => false

/-- Which segments are active under `σ`, read off the frame's two arrays. -/
def segActive (f : Frame) (σ : Asg) : LSeg → Bool
  | .h y x => truthAt σ f.horizontal.data (y * f.width + x)
  | .v y x => truthAt σ f.vertical.data (y * (f.width + 1) + x)

/-- A frame is well formed: its two arrays have the shapes every `BoolGridFrame` has (horizontal
`(H+1) × W`, vertical `H × (W+1)`, row-major data of exactly that many entries).  Nothing is said
about what the entries are: fresh variables at any offset, the arrays of an inner frame swapped by
`dual()`, negated variables, compound expressions. -/
def FrameWF (f : Frame) : Prop :=
  f.horizontal.h = f.height + 1 ∧ f.horizontal.w = f.width ∧
  f.horizontal.data.length = (f.height + 1) * f.width ∧
  f.vertical.h = f.height ∧ f.vertical.w = f.width + 1 ∧
  f.vertical.data.length = f.height * (f.width + 1)

/-- Number of active segments at lattice point `(y, x)` (up, down, left, right). -/
def pointDegree (H W : Nat) (act : LSeg → Bool) (y x : Nat) : Nat :=
  (if 0 < y ∧ act (.v (y - 1) x) then 1 else 0) + (if y < H ∧ act (.v y x) then 1 else 0) +
  (if 0 < x ∧ act (.h y (x - 1)) then 1 else 0) + (if x < W ∧ act (.h y x) then 1 else 0)

/-- Degree rules: every lattice point meets 0, 1, 2 or 4 active segments (only 0, 2 or 4 when a cycle
is required), and 4 only at interior points. -/
def DegreeRules (H W : Nat) (act : LSeg → Bool) (singleCycle : Bool) : Prop :=
  ∀ y x, y ≤ H → x ≤ W →
    let d := pointDegree H W act y x
    (d = 0 ∨ (singleCycle = false ∧ d = 1) ∨ d = 2 ∨ d = 4) ∧
    (d = 4 → 0 < y ∧ y < H ∧ 0 < x ∧ x < W)

/-- Two active segments continue each other at a shared lattice point: the point has at most two
active segments, or it is a 4-way point and the two segments are its straight pair (both horizontal
or both vertical). -/
def Continues (H W : Nat) (act : LSeg → Bool) (s t : LSeg) : Prop :=
  s ≠ t ∧ s.valid H W ∧ t.valid H W ∧ act s = true ∧ act t = true ∧
  ∃ p : Nat × Nat, s.touches p ∧ t.touches p ∧
    (pointDegree H W act p.1 p.2 ≤ 2 ∨ (pointDegree H W act p.1 p.2 = 4 ∧ s.isH = t.isH))

/-- The strand graph on segments. -/
def strandGraph (H W : Nat) (act : LSeg → Bool) : SimpleGraph LSeg where
  Adj s t := Continues H W act s t
  symm := ⟨by
    intro s t h
    obtain ⟨hne, hs, ht, as, at_, p, hp1, hp2, hd⟩ := h
    refine ⟨hne.symm, ht, hs, at_, as, p, hp2, hp1, ?_⟩
    rcases hd with hd | hd
    · exact Or.inl hd
    · exact Or.inr ⟨hd.1, hd.2.symm⟩⟩
  loopless := ⟨fun s h => h.1 rfl⟩

/-- All active segments belong to one strand. -/
def OneStrand (H W : Nat) (act : LSeg → Bool) : Prop :=
  ∀ s t, s.valid H W → t.valid H W → act s = true → act t = true → (strandGraph H W act).Reachable s t

/-- The full specification of `active_edges_connected_crossable`. -/
def CrossableOK (H W : Nat) (act : LSeg → Bool) (singleCycle : Bool) : Prop :=
  DegreeRules H W act singleCycle ∧ OneStrand H W act

end Cspuz.Spec
