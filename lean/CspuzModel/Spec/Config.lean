/-
  SPEC for C20: what "the backend and encoding actually used are the ones configured" means, written from
  the property text (tables and explicit word lists), independently of the if-chains of the code.
  Import-free apart from the model's data types, so that the driver can execute it.
-/
import CspuzModel.Model.Config
import CspuzModel.Model.Dsl
namespace Cspuz.Spec
open Cspuz

/-- The documented name → class table. -/
def backendTable : List (String × BackendClass) :=
  [("sugar", .sugar), ("sugar_extended", .sugarExtended), ("z3", .z3), ("csugar", .csugar),
   ("enigma_csp", .enigmaCsp), ("cspuz_core", .cspuzCore)]

def classOfName (s : String) : Option BackendClass := backendTable.lookup s

/-- Documented priority of `auto`: (backend name, is its module importable). -/
def priority (a : Avail) : List (String × Bool) :=
  [("cspuz_core", a.cspuz_core), ("enigma_csp", a.enigma_csp), ("csugar", a.pycsugar), ("z3", a.z3)]

/-- First importable of cspuz_core, enigma_csp, csugar, z3, else sugar. -/
def firstAvailable (a : Avail) : String :=
  match (priority a).find? (fun p => p.2) with
  | some p => p.1
  | none => "sugar"

/-- `config.default_backend` as the property states it, from the value of CSPUZ_DEFAULT_BACKEND. -/
def defaultBackend (envValue : Option String) (a : Avail) : String :=
  match envValue with
  | none => firstAvailable a
  | some x => if x = "auto" then firstAvailable a else x

/-- All spellings of a word that differ only in the case of ASCII letters. -/
def caseVariants : List Char → List (List Char)
  | [] => [[]]
  | c :: r => (caseVariants r).flatMap fun t => if c.toUpper = c then [c :: t] else [c :: t, c.toUpper :: t]

/-- Strict Boolean parsing: exactly the case variants of `true` and `1` mean true, those of `false` and `0`
mean false, and everything else is rejected. -/
def parseBool (s : String) : Option Bool :=
  if s.toList ∈ caseVariants "true".toList ∨ s = "1" then some true
  else if s.toList ∈ caseVariants "false".toList ∨ s = "0" then some false
  else none

/-- Backends that support `graph-active-vertices-connected`. -/
def supportsGraphPrimitive (backend : String) : Bool := ["csugar", "enigma_csp", "cspuz_core"].contains backend
/-- Backends that support `graph-division`. -/
def supportsDivisionPrimitive (backend : String) : Bool := ["enigma_csp", "cspuz_core"].contains backend

/-- The configuration that `Config(infer_from_env)` must produce, or `none` when construction must fail
with `ValueError`. -/
def expectedConfig (inferFromEnv : Bool) (env : Env) (a : Avail) : Option Config :=
  let look (k : String) : Option String := if inferFromEnv then env k else none
  let db := defaultBackend (look "CSPUZ_DEFAULT_BACKEND") a
  let f1 : Option Bool := match look "CSPUZ_USE_GRAPH_PRIMITIVE" with
    | none => some (supportsGraphPrimitive db)
    | some s => parseBool s
  let f2 : Option Bool := match look "CSPUZ_USE_GRAPH_DIVISION_PRIMITIVE" with
    | none => some (supportsDivisionPrimitive db)
    | some s => parseBool s
  match f1, f2 with
  | some b1, some b2 => some { default_backend := db, backend_path := look "CSPUZ_BACKEND_PATH",
                               use_graph_primitive := b1, use_graph_division_primitive := b2 }
  | _, _ => none

/-- The expression contains a native graph operator node somewhere. -/
def hasNative : Expr → Bool
  | .node op args => op == .graphAVC || op == .graphDiv || hasNativeList args
  | _ => false
where hasNativeList : List Expr → Bool
  | [] => false
  | e :: r => hasNative e || hasNativeList r

/-- The emitted program contains a native graph operator. -/
def progHasNative (p : Prog) : Bool := p.cs.any hasNative

/-- Caller-supplied expressions do not already contain native operators. -/
def NativeFree (l : List Expr) : Prop := ∀ e ∈ l, hasNative e = false

end Cspuz.Spec
