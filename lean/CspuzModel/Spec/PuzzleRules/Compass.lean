/-
  SPEC — the published rules of Compass (puzz.link `compass`), written from the rule text, independently of
  how `solve_compass` encodes them.

  Board: `height × width` cells.  Problem: a list of compasses `(y, x, up, left, down, right)` (NOTE the order
  of the four numbers in the problem format of the module); the compass sits on cell `(y, x)`; a negative
  number means "this sector carries no number".
  Answer: one integer per cell, row-major: the index (position in the problem list) of the compass whose region
  contains the cell.

  Rules:
   1. Divide the board into regions (orthogonally connected groups of cells): every cell belongs to exactly
      one region, and every region contains exactly one compass.  So the regions correspond to the compasses:
      every cell carries the index `i` (`0 ≤ i <` number of compasses) of exactly one compass, the cells
      carrying `i` form one orthogonally connected area, and this area contains the cell of compass `i`.
      (Then region `i` contains no other compass `j ≠ i`, as the cell of compass `j` carries `j`; two compasses
      on the same cell make the instance unsolvable.)
   2. A number in the upper / left / lower / right sector of a compass is the number of cells of the compass's
      region that lie in the rows above / in the columns to the left of / in the rows below / in the columns to
      the right of the compass cell (whole half-boards, not only the compass's own column or row).
      A sector without a number says nothing.
-/
import CspuzModel.Model.Puzzles.Compass
import CspuzModel.Spec.PuzzleRules.GridAnswer
import CspuzModel.Spec.PuzzleRules.CellGraph
namespace Cspuz.Spec.Compass
open Cspuz Cspuz.Spec Cspuz.Puzzles.Compass

/-- A well-formed instance: at least one compass, and every compass lies on the board.  The four numbers of
a compass are arbitrary integers (negative = no number). -/
def WellFormed (pb : Problem) : Prop :=
  1 ≤ pb.problem.length ∧
    ∀ c ∈ pb.problem, 0 ≤ c.y ∧ c.y < (pb.height : Int) ∧ 0 ≤ c.x ∧ c.x < (pb.width : Int)

/-- The cells `(row, column)` of the `h × w` board (row-major). -/
def boardCells (h w : Nat) : List (Nat × Nat) :=
  (List.range h).flatMap fun y => (List.range w).map fun x => (y, x)

/-- Number of cells `(y, x)` of the `h × w` board on which `S y x` holds. -/
def countCells (h w : Nat) (S : Nat → Nat → Bool) : Nat :=
  (boardCells h w).countP fun p => S p.1 p.2

/-- Number of cells of region `i` (the cells `(y, x)` with `g y x = i`) that satisfy `S`. -/
def regionCount (pb : Problem) (g : Nat → Nat → Int) (i : Int) (S : Nat → Nat → Bool) : Nat :=
  countCells pb.height pb.width fun y x => decide (g y x = i) && S y x

/-- A sector number: negative = no number (no condition), otherwise it equals the count. -/
def numberOK (v : Int) (count : Nat) : Prop := 0 ≤ v → (count : Int) = v

/-- The conditions on the region of compass `c`, the `i`-th compass of the problem. -/
def CompassOK (pb : Problem) (g : Nat → Nat → Int) (i : Nat) (c : Clue) : Prop :=
  -- 1b. region `i` contains the cell of compass `i` …
  (∀ y x : Nat, (y : Int) = c.y → (x : Int) = c.x → g y x = (i : Int)) ∧
  -- 1c. … and is orthogonally connected
  CellsConnected pb.height pb.width (fun y x => g y x = (i : Int)) ∧
  -- 2. the numbers: cells of region `i` in the rows above / columns left of / rows below / columns right of
  --    the compass cell
  numberOK c.up (regionCount pb g i fun y _ => decide ((y : Int) < c.y)) ∧
  numberOK c.lf (regionCount pb g i fun _ x => decide ((x : Int) < c.x)) ∧
  numberOK c.dw (regionCount pb g i fun y _ => decide (c.y < (y : Int))) ∧
  numberOK c.rg (regionCount pb g i fun _ x => decide (c.x < (x : Int)))

/-- The rules on a grid (`g y x` = index of the compass to whose region cell `(y, x)` belongs). -/
def RulesGrid (pb : Problem) (g : Nat → Nat → Int) : Prop :=
  -- 1a. every cell belongs to the region of exactly one compass
  (∀ y, y < pb.height → ∀ x, x < pb.width → 0 ≤ g y x ∧ g y x < (pb.problem.length : Int)) ∧
  -- 1b, 1c, 2 for every compass
  ∀ (i : Nat) (hi : i < pb.problem.length), CompassOK pb g i pb.problem[i]

/-- The rules on the answer list. -/
def Rules (pb : Problem) (answer : List Val) : Prop :=
  ∃ g : Nat → Nat → Int, answer = intGrid pb.height pb.width g ∧ RulesGrid pb g

end Cspuz.Spec.Compass
