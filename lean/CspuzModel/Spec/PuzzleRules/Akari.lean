/-
  SPEC — the published rules of Akari / Light Up (Nikoli; puzz.link `akari`), written from the rule text,
  independently of how `solve_akari` encodes them.

  Board: `height × width` cells; `problem[y][x]` is -2 for a white cell, -1 for a black cell without a number,
  `k ≥ 0` for a black cell carrying the number `k`.  Answer: one Boolean per cell, row-major ("has a light").

  Rules:
   1. Lights are placed in white cells only.
   2. A light illuminates its own cell and, along its row and its column, every white cell up to the first black
      cell (or the edge).  Every white cell is illuminated by at least one light.
   3. No light is illuminated by another light.
   4. A number on a black cell is the number of lights in the orthogonally adjacent cells.
-/
import CspuzModel.Model.Puzzles.Akari
import CspuzModel.Spec.PuzzleRules.GridAnswer
namespace Cspuz.Spec.Akari
open Cspuz Cspuz.Spec Cspuz.Puzzles.Akari

/-- The entry of the problem table (rows / entries that do not exist read as "black, no number"; a well-formed
problem has them all). -/
def val (pb : Problem) (y x : Nat) : Int := (pb.problem.getD y []).getD x (-1)

/-- A well-formed instance: a `height × width` table of values `≥ -2`. -/
def WellFormed (pb : Problem) : Prop :=
  pb.problem.length = pb.height ∧ ∀ row ∈ pb.problem, row.length = pb.width ∧ ∀ v ∈ row, -2 ≤ v

/-- `(y, x)` is a white cell of the board. -/
def White (pb : Problem) (y x : Nat) : Prop := y < pb.height ∧ x < pb.width ∧ val pb y x = -2

/-- Two cells see each other: they lie in one row or one column and every cell of the segment joining them
(both ends included) is white.  (A white cell sees itself.) -/
def Sees (pb : Problem) (p q : Nat × Nat) : Prop :=
  (p.1 = q.1 ∧ ∀ x, min p.2 q.2 ≤ x → x ≤ max p.2 q.2 → White pb p.1 x) ∨
  (p.2 = q.2 ∧ ∀ y, min p.1 q.1 ≤ y → y ≤ max p.1 q.1 → White pb y p.2)

/-- Number of lights among the (up to four) orthogonal neighbours of `(y, x)` inside the board. -/
def lightsAround (pb : Problem) (g : Nat → Nat → Bool) (y x : Nat) : Nat :=
  (if 0 < y ∧ g (y - 1) x = true then 1 else 0) + (if y + 1 < pb.height ∧ g (y + 1) x = true then 1 else 0) +
  (if 0 < x ∧ g y (x - 1) = true then 1 else 0) + (if x + 1 < pb.width ∧ g y (x + 1) = true then 1 else 0)

/-- The rules on a grid of lights. -/
def RulesGrid (pb : Problem) (g : Nat → Nat → Bool) : Prop :=
  -- 1. lights stand on white cells
  (∀ y, y < pb.height → ∀ x, x < pb.width → g y x = true → White pb y x) ∧
  -- 2. every white cell is illuminated
  (∀ y x, White pb y x → ∃ y' x', y' < pb.height ∧ x' < pb.width ∧ g y' x' = true ∧ Sees pb (y, x) (y', x')) ∧
  -- 3. no two lights see each other
  (∀ y x y' x', y < pb.height → x < pb.width → y' < pb.height → x' < pb.width →
      g y x = true → g y' x' = true → (y, x) ≠ (y', x') → ¬ Sees pb (y, x) (y', x')) ∧
  -- 4. numbered black cells
  (∀ y, y < pb.height → ∀ x, x < pb.width → 0 ≤ val pb y x → (lightsAround pb g y x : Int) = val pb y x)

/-- The rules on the answer list. -/
def Rules (pb : Problem) (answer : List Val) : Prop :=
  ∃ g : Nat → Nat → Bool, answer = boolGrid pb.height pb.width g ∧ RulesGrid pb g

end Cspuz.Spec.Akari
