/-
  SPEC (C11, star_battle): the published rules of Star Battle on the answer grid, independent of the
  encoding.

  Rule text: "Place stars into some cells of the n × n grid so that every row, every column and every
  outlined region contains exactly k stars.  Stars do not touch each other, not even diagonally."
-/
import CspuzModel.Model.Puzzles.StarBattle
import CspuzModel.Spec.PuzzleRules.GridAnswer
namespace Cspuz.Puzzles.StarBattle
open Cspuz Cspuz.Spec

/-- The region id of cell `(y, x)` (`blocks[y][x]`). -/
def region (pb : Problem) (y x : Nat) : Int := ((pb.blocks[y]?).getD [])[x]?.getD 0

/-- A well-formed instance: an `n × n` table of region ids, every id in `range(n)` (`n = 0` allowed; `k` is
any integer; regions need not be connected and an id of `range(n)` may be unused). -/
def WellFormed (pb : Problem) : Prop :=
  pb.blocks.length = pb.n ∧ (∀ row ∈ pb.blocks, row.length = pb.n) ∧
  ∀ y x, y < pb.n → x < pb.n → 0 ≤ region pb y x ∧ region pb y x < pb.n

/-- All cells of the `n × n` board. -/
def cells (n : Nat) : List (Nat × Nat) := (List.range n).flatMap fun y => (List.range n).map fun x => (y, x)

/-- Two different cells share a side or a corner. -/
def Touch (y x y' x' : Nat) : Prop :=
  (y, x) ≠ (y', x') ∧ y ≤ y' + 1 ∧ y' ≤ y + 1 ∧ x ≤ x' + 1 ∧ x' ≤ x + 1

/-- The rules of Star Battle on the Boolean grid `g` (`g y x` = "cell `(y, x)` holds a star"). -/
def GridRules (pb : Problem) (g : Nat → Nat → Bool) : Prop :=
  let n := pb.n
  -- every row holds exactly k stars
  (∀ y, y < n → (((List.range n).countP fun x => g y x : Nat) : Int) = pb.k) ∧
  -- every column
  (∀ x, x < n → (((List.range n).countP fun y => g y x : Nat) : Int) = pb.k) ∧
  -- every region (a region is the non-empty set of cells carrying one id)
  (∀ r : Int, (∃ y x, y < n ∧ x < n ∧ region pb y x = r) →
    (((cells n).countP fun p => decide (region pb p.1 p.2 = r) && g p.1 p.2 : Nat) : Int) = pb.k) ∧
  -- stars do not touch, not even diagonally
  (∀ y x y' x', y < n → x < n → y' < n → x' < n → g y x = true → g y' x' = true → ¬ Touch y x y' x')

/-- The rules for the answer list `a` (aligned with the answer keys): the row-major listing of a grid
obeying the rules. -/
def Rules (pb : Problem) (a : List Val) : Prop :=
  ∃ g : Nat → Nat → Bool, a = boolGrid pb.n pb.n g ∧ GridRules pb g

end Cspuz.Puzzles.StarBattle
