/-
  SPEC — the published rules of Doppelblock (puzz.link `doppelblock`), written from the rule text, independently
  of how `solve_doppelblock` encodes them.

  Board: `n × n` cells (`n ≥ 2`); `clue_row[y]` / `clue_column[x]` is the clue of row `y` / column `x`, negative for
  "no clue".  Answer: one integer per cell, row-major: 0 = black cell, `1..n-2` = a number.

  Rules:
   1. Every cell is black or holds a number 1..n-2; every row and every column contains exactly two black cells
      and each of the numbers 1..n-2 exactly once.
   2. A number outside the grid is the sum of the numbers between the two black cells of its row / column.
-/
import CspuzModel.Model.Puzzles.Doppelblock
import CspuzModel.Spec.PuzzleRules.GridAnswer
namespace Cspuz.Spec.Doppelblock
open Cspuz Cspuz.Spec Cspuz.Puzzles.Doppelblock

/-- A well-formed instance: `n ≥ 2` (two black cells must fit into a line) and one clue slot per row / column. -/
def WellFormed (pb : Problem) : Prop :=
  2 ≤ pb.n ∧ pb.clueRow.length = pb.n ∧ pb.clueCol.length = pb.n

/-- Row `y` read from the left, column `x` read from the top. -/
def row (pb : Problem) (g : Nat → Nat → Int) (y : Nat) : List Int := (List.range pb.n).map fun x => g y x
def col (pb : Problem) (g : Nat → Nat → Int) (x : Nat) : List Int := (List.range pb.n).map fun y => g y x

/-- Number of occurrences of `v` in a line. -/
def occ (l : List Int) (v : Int) : Nat := l.count v

/-- Rule 1 for one line of length `n`. -/
def LineOk (n : Nat) (l : List Int) : Prop :=
  occ l 0 = 2 ∧ ∀ v : Int, 1 ≤ v → v ≤ (n : Int) - 2 → occ l v = 1

/-- Rule 2 for one line: whenever positions `i < k` hold the black cells, the numbers strictly between them sum
to the clue (`clue < 0` is "no clue"). -/
def ClueOk (clue : Int) (l : List Int) : Prop :=
  0 ≤ clue → ∀ i k, i < k → k < l.length → l.getD i 1 = 0 → l.getD k 1 = 0 →
    ((l.take k).drop (i + 1)).sum = clue

/-- The rules on a grid of cell values. -/
def RulesGrid (pb : Problem) (g : Nat → Nat → Int) : Prop :=
  (∀ y, y < pb.n → ∀ x, x < pb.n → 0 ≤ g y x ∧ g y x ≤ (pb.n : Int) - 2) ∧
  (∀ i, i < pb.n →
    LineOk pb.n (row pb g i) ∧ LineOk pb.n (col pb g i) ∧
    ClueOk (pb.clueRow.getD i (-1)) (row pb g i) ∧ ClueOk (pb.clueCol.getD i (-1)) (col pb g i))

/-- The rules on the answer list. -/
def Rules (pb : Problem) (answer : List Val) : Prop :=
  ∃ g : Nat → Nat → Int, answer = intGrid pb.n pb.n g ∧ RulesGrid pb g

end Cspuz.Spec.Doppelblock
