/-
  SPEC (C11, norinori): the published rules of Norinori on the answer grid, independent of the encoding.

  Rule text (Nikoli / puzz.link): "Shade some cells of the board.  Every region contains exactly two
  shaded cells.  Every shaded cell is orthogonally adjacent to exactly one other shaded cell (the shaded
  cells form dominoes, which may straddle region borders and do not touch each other by a side)."
-/
import CspuzModel.Model.Puzzles.Norinori
import CspuzModel.Spec.PuzzleRules.GridAnswer
namespace Cspuz.Puzzles.Norinori
open Cspuz Cspuz.Spec

/-- A well-formed instance: the regions partition the `height × width` board — every listed cell `(y, x)`
lies on the board, no cell is listed twice (neither inside one region nor in two regions), and every cell
of the board is listed.  (`height` / `width` may be 0.) -/
def WellFormed (pb : Problem) : Prop :=
  (∀ block ∈ pb.blocks, ∀ p ∈ block,
      0 ≤ p.1 ∧ p.1 < (pb.height : Int) ∧ 0 ≤ p.2 ∧ p.2 < (pb.width : Int)) ∧
  pb.blocks.flatten.Nodup ∧
  (∀ y x : Nat, y < pb.height → x < pb.width → ((y : Int), (x : Int)) ∈ pb.blocks.flatten)

/-- `|a - b|` on naturals. -/
def dist (a b : Nat) : Nat := (a - b) + (b - a)

/-- Orthogonal adjacency of the cells `(y, x)` and `(y', x')`: `|y - y'| + |x - x'| = 1`. -/
def Adjacent (y x y' x' : Nat) : Prop := dist y y' + dist x x' = 1

/-- `(y', x')` is a shaded cell of the board orthogonally adjacent to `(y, x)`. -/
def ShadedNeighbour (pb : Problem) (g : Nat → Nat → Bool) (y x y' x' : Nat) : Prop :=
  y' < pb.height ∧ x' < pb.width ∧ Adjacent y x y' x' ∧ g y' x' = true

/-- The rules of Norinori on the Boolean grid `g` (`g y x` = cell `(y, x)` is shaded). -/
def GridRules (pb : Problem) (g : Nat → Nat → Bool) : Prop :=
  -- every region contains exactly two shaded cells
  (∀ block ∈ pb.blocks, (block.filter fun p => g p.1.toNat p.2.toNat).length = 2) ∧
  -- every shaded cell of the board has exactly one shaded orthogonal neighbour on the board
  (∀ y x : Nat, y < pb.height → x < pb.width → g y x = true →
    ∃ y' x' : Nat, ShadedNeighbour pb g y x y' x' ∧
      ∀ y'' x'' : Nat, ShadedNeighbour pb g y x y'' x'' → y'' = y' ∧ x'' = x')

/-- The rules of Norinori for the answer list `a` (aligned with the answer keys): it is the row-major
listing of a grid obeying the rules. -/
def Rules (pb : Problem) (a : List Val) : Prop :=
  ∃ g : Nat → Nat → Bool, a = boolGrid pb.height pb.width g ∧ GridRules pb g

end Cspuz.Puzzles.Norinori
