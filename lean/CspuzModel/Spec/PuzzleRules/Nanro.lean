/-
  SPEC — the published rules of Nanro (puzz.link `nanro`; Nikoli "Number road"), written from the rule text,
  independently of how `solve_nanro` encodes them.

  Board: `height × width` cells, divided into regions; `blocks[i]` lists the cells `(y, x)` of region `i`;
  `num[y][x] > 0` is a given number (anything else: no given).
  Answer: one integer per cell, row-major; `0` = the cell holds no number.

  Rules:
   1. Write numbers in some of the cells.
   2. All numbers written in one region are equal, and equal to the number of cells of that region that hold
      a number.
   3. Every region contains at least one number.
   4. Where two cells of different regions share an edge they may not hold the same number.
   5. All numbered cells form one orthogonally connected area.
   6. No 2 × 2 block of cells is entirely numbered.
   7. Given numbers stay.

  READING: regions are normally orthogonally connected; neither the rule text nor `solve_nanro` needs that, and
  `WellFormed` does not ask for it: a region is any set of cells.  `WellFormed` does not ask for non-empty
  regions either: an empty region makes rule 3 unsatisfiable, and the posted program unsatisfiable as well.
  READING: rule 5 for a board without any numbered cell does not arise (rule 3; a well-formed board has a
  cell, hence a region); `CellsConnected` counts "no such cell" as connected, like the library.
-/
import CspuzModel.Model.Puzzles.Nanro
import CspuzModel.Spec.PuzzleRules.GridAnswer
import CspuzModel.Spec.PuzzleRules.CellGraph
namespace Cspuz.Spec.Nanro
open Cspuz Cspuz.Spec Cspuz.Puzzles.Nanro

/-- Cell `(y, x)` is listed in region `b`. -/
def inRegion (b : List (Int × Int)) (y x : Nat) : Bool := b.contains ((y : Int), (x : Int))

/-- Index of the (first) region that lists the cell `(y, x)` (`blocks.length` when there is none; in a
well-formed instance every cell of the board lies in exactly one region). -/
def regionOf (pb : Problem) (y x : Nat) : Nat := pb.blocks.findIdx fun b => inRegion b y x

/-- The given number of the cell `(y, x)` (`0`: none). -/
def given (pb : Problem) (y x : Nat) : Int := (pb.num.getD y []).getD x 0

/-- A well-formed instance: a board with at least one cell, a `height × width` table of givens, and regions that
partition the board: every listed cell lies on the board, no cell is listed twice (neither within one region
nor in two regions), every cell of the board is listed.  Regions need not be connected. -/
def WellFormed (pb : Problem) : Prop :=
  1 ≤ pb.height ∧ 1 ≤ pb.width ∧
  pb.num.length = pb.height ∧ (∀ row ∈ pb.num, row.length = pb.width) ∧
  (∀ b ∈ pb.blocks, ∀ c ∈ b, 0 ≤ c.1 ∧ c.1 < (pb.height : Int) ∧ 0 ≤ c.2 ∧ c.2 < (pb.width : Int)) ∧
  pb.blocks.flatten.Nodup ∧
  (∀ y, y < pb.height → ∀ x, x < pb.width → ∃ b ∈ pb.blocks, ((y : Int), (x : Int)) ∈ b)

/-- Number of cells holding a number among the cells listed in `b`. -/
def numberedIn (g : Nat → Nat → Int) (b : List (Int × Int)) : Nat :=
  (b.filter fun c => g c.1.toNat c.2.toNat != 0).length

/-- The rules on a grid (`g y x` = the number written in cell `(y, x)`, `0` for none). -/
def RulesGrid (pb : Problem) (g : Nat → Nat → Int) : Prop :=
  -- 2, 3. every region holds a number; every number written in it is the count of its numbered cells
  (∀ b ∈ pb.blocks, 1 ≤ numberedIn g b ∧
    ∀ c ∈ b, g c.1.toNat c.2.toNat ≠ 0 → g c.1.toNat c.2.toNat = (numberedIn g b : Int)) ∧
  -- 4. equal numbers do not touch across a region border
  (∀ y, y + 1 < pb.height → ∀ x, x < pb.width → regionOf pb y x ≠ regionOf pb (y + 1) x →
    g y x ≠ 0 → g y x ≠ g (y + 1) x) ∧
  (∀ y, y < pb.height → ∀ x, x + 1 < pb.width → regionOf pb y x ≠ regionOf pb y (x + 1) →
    g y x ≠ 0 → g y x ≠ g y (x + 1)) ∧
  -- 5. the numbered cells are connected
  CellsConnected pb.height pb.width (fun y x => g y x ≠ 0) ∧
  -- 6. no 2 × 2 block is entirely numbered
  (∀ y, y + 1 < pb.height → ∀ x, x + 1 < pb.width →
    ¬ (g y x ≠ 0 ∧ g y (x + 1) ≠ 0 ∧ g (y + 1) x ≠ 0 ∧ g (y + 1) (x + 1) ≠ 0)) ∧
  -- 7. givens
  (∀ y, y < pb.height → ∀ x, x < pb.width → 0 < given pb y x → g y x = given pb y x)

/-- The rules on the answer list. -/
def Rules (pb : Problem) (answer : List Val) : Prop :=
  ∃ g : Nat → Nat → Int, answer = intGrid pb.height pb.width g ∧ RulesGrid pb g

end Cspuz.Spec.Nanro
