/-
  SPEC - the published rules of Geradeweg, written from the rule text, independently of how `solve_geradeweg`
  encodes them.

  Board: `height × width` cells; `problem[y][x] ≥ 1` is a number, anything else an empty cell.
  Answer: one Boolean per step between orthogonally adjacent cells: the lattice of Spec/PuzzleRules/LoopAnswer.lean
  with the cells as lattice points (`H = height - 1`, `W = width - 1`).

  Rules:
   1. The steps drawn form a single closed loop through cell centres, without branching or crossing; no cell is
      visited twice.  READING (library convention): "no line at all" also counts as a loop.
   2. The loop passes through every numbered cell (it may pass through empty cells).
   3. A number is the length (in steps) of the straight line segment(s) of the loop through its cell: if the loop
      goes straight through the cell, the whole straight segment has that length; if the loop turns in the cell,
      both segments meeting there have that length.
  Formalisation of 3: the straight part of the line through `p` along an axis consists of the run of drawn steps
  leaving `p` in the one direction of the axis and the run leaving it in the other; when the line leaves `p` along
  the axis at all (in either direction), its length - the sum of the two runs - is the number.  (Straight through:
  both runs of one axis are non-empty and their sum is the whole segment.  Turn: on each axis one run is empty and
  the other is the segment meeting `p`.)
-/
import CspuzModel.Model.Puzzles.Geradeweg
import CspuzModel.Spec.PuzzleRules.LoopAnswer
namespace Cspuz.Spec.Geradeweg
open Cspuz Cspuz.Spec Cspuz.Spec.FrameGeom Cspuz.Spec.Loop Cspuz.Puzzles.Geradeweg

/-- The entry of the problem table (entries that do not exist read as "empty"; a well-formed problem has them
all). -/
def val (pb : Problem) (y x : Nat) : Int := (pb.problem.getD y []).getD x 0

/-- A well-formed instance: a non-empty board and a `height × width` table of integers. -/
def WellFormed (pb : Problem) : Prop :=
  1 ≤ pb.height ∧ 1 ≤ pb.width ∧ pb.problem.length = pb.height ∧ ∀ row ∈ pb.problem, row.length = pb.width

/-- The unit steps of the lattice leaving `p` in direction `d`, in order: the nearest first, up to the edge. -/
def segsFrom (H W : Nat) (p : Pt) : Dir → List Seg
  | .left => (List.range p.2).reverse.map fun c => Seg.h p.1 c
  | .right => (List.range (W - p.2)).map fun j => Seg.h p.1 (p.2 + j)
  | .up => (List.range p.1).reverse.map fun r => Seg.v r p.2
  | .down => (List.range (H - p.1)).map fun j => Seg.v (p.1 + j) p.2

/-- Length of the straight run of drawn steps leaving `p` in direction `d`. -/
def runLen (H W : Nat) (on : Seg → Bool) (p : Pt) (d : Dir) : Nat :=
  ((segsFrom H W p d).takeWhile fun s => on s).length

/-- Rules 2 and 3 at a cell with the number `n`. -/
def Numbered (H W : Nat) (on : Seg → Bool) (p : Pt) (n : Int) : Prop :=
  onLoop H W on p = true ∧
  ((arm H W on p .left || arm H W on p .right) = true →
    ((runLen H W on p .left + runLen H W on p .right : Nat) : Int) = n) ∧
  ((arm H W on p .up || arm H W on p .down) = true →
    ((runLen H W on p .up + runLen H W on p .down : Nat) : Int) = n)

/-- The rules on the set of drawn steps. -/
def RulesOn (pb : Problem) (on : Seg → Bool) : Prop :=
  IsLoop (pb.height - 1) (pb.width - 1) on ∧
  (∀ y, y < pb.height → ∀ x, x < pb.width → 1 ≤ val pb y x →
    Numbered (pb.height - 1) (pb.width - 1) on (y, x) (val pb y x))

/-- The rules on the answer list. -/
def Rules (pb : Problem) (answer : List Val) : Prop :=
  ∃ on : Seg → Bool, answer = segAnswer (pb.height - 1) (pb.width - 1) on ∧ RulesOn pb on

end Cspuz.Spec.Geradeweg
