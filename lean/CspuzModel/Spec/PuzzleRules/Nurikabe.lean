/-
  SPEC - the published rules of Nurikabe (Nikoli; puzz.link `nurikabe`), written from the rule text,
  independently of how `solve_nurikabe` encodes them.

  Board: `height × width` cells; `problem[y][x] ≥ 1` is a number, `-1` a number of unknown value ("?"), any other
  entry means "no number".  Answer: one Boolean per cell, row-major, "the cell stays white (is not shaded)".

  Rules (shade some cells black):
   1. Numbered cells are not shaded.
   2. Every island - maximal orthogonally connected group of white cells - contains exactly one numbered cell,
      and the number is the count of cells of the island.  (A "?" is a number of unknown value; with the solver option
      `unknown_low = low` its island has at least `low` cells.)
   3. All shaded cells form one orthogonally connected area (the sea).
      READING: the published texts do not say whether a board without any shaded cell is an answer;
      `solve_nurikabe` requires the sea to be non-empty, and that reading is adopted here.
   4. No 2 × 2 block of cells is entirely shaded.
-/
import CspuzModel.Model.Puzzles.Nurikabe
import CspuzModel.Spec.PuzzleRules.CellGraph
import CspuzModel.Spec.PuzzleRules.GridAnswer
namespace Cspuz.Spec.Nurikabe
open Cspuz Cspuz.Spec Cspuz.Puzzles.Nurikabe

/-- The entry of the problem table (entries that do not exist read as "no number"; a well-formed problem has them
all). -/
def val (pb : Problem) (y x : Nat) : Int := (pb.problem.getD y []).getD x 0

/-- A well-formed instance: a `height × width` table of integers, at least one cell. -/
def WellFormed (pb : Problem) : Prop :=
  1 ≤ pb.height ∧ 1 ≤ pb.width ∧ pb.problem.length = pb.height ∧ ∀ row ∈ pb.problem, row.length = pb.width

/-- The cell carries a number (possibly of unknown value). -/
def IsClue (pb : Problem) (y x : Nat) : Prop := val pb y x ≥ 1 ∨ val pb y x = -1

instance (pb : Problem) (y x : Nat) : Decidable (IsClue pb y x) := by unfold IsClue; infer_instance

/-- The white cells of the board. -/
def whiteSet (pb : Problem) (white : Nat → Nat → Bool) : Set (Nat × Nat) :=
  cellSet pb.height pb.width fun y x => white y x = true

/-- Two white cells belong to the same island: they are joined by a path of orthogonally adjacent white cells. -/
def SameIsland (pb : Problem) (white : Nat → Nat → Bool) (p q : Nat × Nat) : Prop :=
  ∃ (hp : p ∈ whiteSet pb white) (hq : q ∈ whiteSet pb white),
    (cellGraph.induce (whiteSet pb white)).Reachable ⟨p, hp⟩ ⟨q, hq⟩

/-- The island of the white cell `p`. -/
def island (pb : Problem) (white : Nat → Nat → Bool) (p : Nat × Nat) : Set (Nat × Nat) :=
  {q | SameIsland pb white p q}

/-- The rules on the grid of white cells. -/
def RulesOn (pb : Problem) (white : Nat → Nat → Bool) : Prop :=
  -- 1. numbered cells are white
  (∀ y, y < pb.height → ∀ x, x < pb.width → IsClue pb y x → white y x = true) ∧
  -- 2. every island contains exactly one numbered cell ...
  (∀ y, y < pb.height → ∀ x, x < pb.width → white y x = true →
    ∃! c : Nat × Nat, c.1 < pb.height ∧ c.2 < pb.width ∧ IsClue pb c.1 c.2 ∧ SameIsland pb white (y, x) c) ∧
  --    ... whose value is the number of cells of the island
  (∀ y, y < pb.height → ∀ x, x < pb.width → val pb y x ≥ 1 →
    ((island pb white (y, x)).ncard : Int) = val pb y x) ∧
  --    (option `unknown_low`: the island of a "?" has at least that many cells)
  (∀ low, pb.unknownLow = some low → ∀ y, y < pb.height → ∀ x, x < pb.width → val pb y x = -1 →
    low ≤ ((island pb white (y, x)).ncard : Int)) ∧
  -- 3. the sea is connected, and (READING) not empty
  CellsConnected pb.height pb.width (fun y x => white y x = false) ∧
  (∃ y, y < pb.height ∧ ∃ x, x < pb.width ∧ white y x = false) ∧
  -- 4. no 2 × 2 block is entirely shaded
  (∀ y x, y + 1 < pb.height → x + 1 < pb.width →
    white y x = true ∨ white y (x + 1) = true ∨ white (y + 1) x = true ∨ white (y + 1) (x + 1) = true)

/-- The rules on the answer list. -/
def Rules (pb : Problem) (answer : List Val) : Prop :=
  ∃ white : Nat → Nat → Bool, answer = boolGrid pb.height pb.width white ∧ RulesOn pb white

end Cspuz.Spec.Nurikabe
