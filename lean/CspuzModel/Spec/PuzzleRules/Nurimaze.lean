/-
  SPEC — the published rules of Nurimaze (puzz.link `nurimaze`, Nikoli), written from the rule text,
  independently of how `solve_nurimaze` encodes them.

  Board: `height × width` cells, divided into rooms by walls: `wall_vertical[y][x] ≠ 0` is a wall between the
  cells `(y, x)` and `(y, x+1)`, `wall_horizontal[y][x] ≠ 0` a wall between `(y, x)` and `(y+1, x)`.
  `mark[y][x]`: 0 nothing, 1 circle, 2 triangle; `start` (S), `goal` (G): two different cells.
  Answer: one Boolean per cell, row-major; `true` = the cell is left UNSHADED (white).

  Rules:
   1. Shade some rooms: a room is shaded entirely or not at all.
   2. The unshaded cells form a maze: they are all orthogonally connected and contain no loop (no closed
      circuit of orthogonally adjacent unshaded cells; in particular no 2 × 2 block of unshaded cells).
   3. No 2 × 2 block of cells is entirely shaded.
   4. The cells with S, G, a circle or a triangle are never shaded.
   5. The (unique) way through the maze from S to G passes through every circle and through no triangle.

  Rule 2 is "the graph of the unshaded cells under orthogonal adjacency is a tree" (Mathlib `IsTree`:
  connected, in particular non-empty — S is unshaded —, and acyclic).  Rule 5 speaks about a path of the
  orthogonal cell graph from S to G all of whose cells are unshaded; in a tree there is exactly one, so "the
  way" is well defined and "there is such a path with the property" is the same as "the path has the property".

  READING: a mark other than 0, 1, 2 only says "this cell is not shaded" (that is what `solve_nurimaze` does
  with such a value; puzz.link has no such mark).
  READING: rooms are the classes of the cells under "orthogonally adjacent without a wall in between"; a wall
  segment that does not separate two rooms (e.g. a dangling one) is ignored.
  Well-formedness: tables of the right shapes, S and G on the board and different.  (For S = G the rule text
  would accept the one-cell way, whereas `solve_nurimaze` posts an unsatisfiable program; puzz.link boards
  always have S and G on different cells.)
-/
import CspuzModel.Model.Puzzles.Nurimaze
import CspuzModel.Spec.PuzzleRules.GridAnswer
import CspuzModel.Spec.PuzzleRules.CellGraph
import Mathlib.Combinatorics.SimpleGraph.Acyclic
import Mathlib.Logic.Relation
namespace Cspuz.Spec.Nurimaze
open Cspuz Cspuz.Spec Cspuz.Puzzles.Nurimaze

/-- `wall_vertical[y][x]` (entries that do not exist read as "wall"; a well-formed problem has them all). -/
def wallV (pb : Problem) (y x : Nat) : Int := (pb.wallVertical.getD y []).getD x 1

/-- `wall_horizontal[y][x]`. -/
def wallH (pb : Problem) (y x : Nat) : Int := (pb.wallHorizontal.getD y []).getD x 1

/-- `mark[y][x]` (entries that do not exist read as "no mark"). -/
def markAt (pb : Problem) (y x : Nat) : Int := (pb.mark.getD y []).getD x 0

/-- The cell of S. -/
def startCell (pb : Problem) : Nat × Nat := (pb.start.1.toNat, pb.start.2.toNat)

/-- The cell of G. -/
def goalCell (pb : Problem) : Nat × Nat := (pb.goal.1.toNat, pb.goal.2.toNat)

/-- A well-formed instance: a board with at least one cell, wall tables of shapes `height × (width-1)` and
`(height-1) × width`, a mark table of shape `height × width`, S and G on the board, S ≠ G. -/
def WellFormed (pb : Problem) : Prop :=
  1 ≤ pb.height ∧ 1 ≤ pb.width ∧
  (pb.wallVertical.length = pb.height ∧ ∀ row ∈ pb.wallVertical, row.length = pb.width - 1) ∧
  (pb.wallHorizontal.length = pb.height - 1 ∧ ∀ row ∈ pb.wallHorizontal, row.length = pb.width) ∧
  (pb.mark.length = pb.height ∧ ∀ row ∈ pb.mark, row.length = pb.width) ∧
  (0 ≤ pb.start.1 ∧ pb.start.1 < (pb.height : Int) ∧ 0 ≤ pb.start.2 ∧ pb.start.2 < (pb.width : Int)) ∧
  (0 ≤ pb.goal.1 ∧ pb.goal.1 < (pb.height : Int) ∧ 0 ≤ pb.goal.2 ∧ pb.goal.2 < (pb.width : Int)) ∧
  pb.start ≠ pb.goal

/-- `p` and its right-hand or lower neighbour `q` (both on the board) are not separated by a wall. -/
def Open (pb : Problem) (p q : Nat × Nat) : Prop :=
  (p.1 = q.1 ∧ p.2 + 1 = q.2 ∧ p.1 < pb.height ∧ q.2 < pb.width ∧ wallV pb p.1 p.2 = 0) ∨
  (p.2 = q.2 ∧ p.1 + 1 = q.1 ∧ q.1 < pb.height ∧ p.2 < pb.width ∧ wallH pb p.1 p.2 = 0)

/-- Two cells belong to the same room: they are linked by a chain of steps that cross no wall. -/
def SameRoom (pb : Problem) : Nat × Nat → Nat × Nat → Prop := Relation.EqvGen (Open pb)

/-- The unshaded cells of the board. -/
def whiteCells (pb : Problem) (g : Nat → Nat → Bool) : Set (Nat × Nat) :=
  cellSet pb.height pb.width (fun y x => g y x = true)

/-- The rules on a grid (`g y x = true` iff cell `(y, x)` is unshaded). -/
def RulesGrid (pb : Problem) (g : Nat → Nat → Bool) : Prop :=
  -- 1. a room is shaded entirely or not at all
  (∀ p q, SameRoom pb p q → g p.1 p.2 = g q.1 q.2) ∧
  -- 2. the unshaded cells form a tree under orthogonal adjacency
  (cellGraph.induce (whiteCells pb g)).IsTree ∧
  -- 3. no 2 × 2 block is entirely shaded
  (∀ y x, y + 1 < pb.height → x + 1 < pb.width →
    ¬ (g y x = false ∧ g y (x + 1) = false ∧ g (y + 1) x = false ∧ g (y + 1) (x + 1) = false)) ∧
  -- 4. S, G and the marked cells are unshaded
  (startCell pb ∈ whiteCells pb g ∧ goalCell pb ∈ whiteCells pb g ∧
    ∀ y, y < pb.height → ∀ x, x < pb.width → markAt pb y x ≠ 0 → g y x = true) ∧
  -- 5. the way from S to G through unshaded cells passes through every circle and through no triangle
  (∃ p : cellGraph.Walk (startCell pb) (goalCell pb), p.IsPath ∧ (∀ c ∈ p.support, c ∈ whiteCells pb g) ∧
    ∀ y, y < pb.height → ∀ x, x < pb.width →
      (markAt pb y x = 1 → (y, x) ∈ p.support) ∧ (markAt pb y x = 2 → (y, x) ∉ p.support))

/-- The rules on the answer list. -/
def Rules (pb : Problem) (answer : List Val) : Prop :=
  ∃ g : Nat → Nat → Bool, answer = boolGrid pb.height pb.width g ∧ RulesGrid pb g

end Cspuz.Spec.Nurimaze
