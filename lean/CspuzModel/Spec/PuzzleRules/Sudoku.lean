/-
  SPEC (C11, sudoku): the published rules of Sudoku on the answer grid, independent of the encoding.

  Rule text: "Fill every cell with a digit 1 … n² so that every row, every column and every outlined
  n × n box contains each of the digits 1 … n² exactly once.  Given digits stay."
-/
import CspuzModel.Model.Puzzles.Sudoku
import CspuzModel.Spec.PuzzleRules.GridAnswer
namespace Cspuz.Puzzles.Sudoku
open Cspuz Cspuz.Spec

/-- The given of cell `(y, x)` (`problem[y][x]`); any value `< 1` is a blank. -/
def clue (pb : Problem) (y x : Nat) : Int := ((pb.cells[y]?).getD [])[x]?.getD 0

/-- A well-formed instance: box size `n ≥ 1` and an `n² × n²` table of givens (any integers; a given
outside `1 … n²` simply makes the instance unsolvable). -/
def WellFormed (pb : Problem) : Prop :=
  1 ≤ pb.n ∧ pb.cells.length = pb.n * pb.n ∧ ∀ row ∈ pb.cells, row.length = pb.n * pb.n

/-- The digit `d` occurs exactly once among the cells `cell p`, `p ∈ ps`. -/
def ExactlyOnce {ι : Type} (ps : ι → Prop) (cell : ι → Int) (d : Int) : Prop :=
  (∃ p, ps p ∧ cell p = d) ∧ ∀ p q, ps p → ps q → cell p = d → cell q = d → p = q

/-- The rules of Sudoku on the integer grid `g` (`g y x` = digit of row `y`, column `x`). -/
def GridRules (pb : Problem) (g : Nat → Nat → Int) : Prop :=
  let n := pb.n
  let size := n * n
  -- every cell holds a digit 1 … size
  (∀ y x, y < size → x < size → 1 ≤ g y x ∧ g y x ≤ size) ∧
  -- every row contains every digit exactly once
  (∀ y, y < size → ∀ d : Int, 1 ≤ d → d ≤ size → ExactlyOnce (fun x : Nat => x < size) (fun x => g y x) d) ∧
  -- every column
  (∀ x, x < size → ∀ d : Int, 1 ≤ d → d ≤ size → ExactlyOnce (fun y : Nat => y < size) (fun y => g y x) d) ∧
  -- every n × n box (box row `by_`, box column `bx`; cells `(by_·n + dy, bx·n + dx)`)
  (∀ by_ bx, by_ < n → bx < n → ∀ d : Int, 1 ≤ d → d ≤ size →
    ExactlyOnce (fun p : Nat × Nat => p.1 < n ∧ p.2 < n) (fun p => g (by_ * n + p.1) (bx * n + p.2)) d) ∧
  -- givens are kept
  (∀ y x, y < size → x < size → 1 ≤ clue pb y x → g y x = clue pb y x)

/-- The rules of Sudoku for the answer list `a` (aligned with the answer keys): it is the row-major listing
of a grid obeying the rules. -/
def Rules (pb : Problem) (a : List Val) : Prop :=
  ∃ g : Nat → Nat → Int, a = intGrid (pb.n * pb.n) (pb.n * pb.n) g ∧ GridRules pb g

end Cspuz.Puzzles.Sudoku
