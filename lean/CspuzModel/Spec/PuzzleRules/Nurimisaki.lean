/-
  SPEC — the published rules of Nurimisaki (puzz.link `nurimisaki`), written from the rule text,
  independently of how `solve_nurimisaki` encodes them.

  Board: `height × width` cells; `problem[y][x]` is -1 for a cell without a circle, 0 for a circle without
  a number, `n ≥ 2` for a circle carrying the number `n`.
  Answer: one Boolean per cell, row-major; `true` = the cell is left UNSHADED (white).

  Rules:
   1. Shade some cells.  All unshaded cells form one orthogonally connected area.
   2. A "cape" is an unshaded cell with exactly one unshaded orthogonal neighbour.  Every cell with a circle is
      a cape (in particular unshaded), and every cape carries a circle (an unshaded cell without a circle is
      not a cape).
   3. A number in a circle is the number of unshaded cells in the straight line that starts at the cape (the
      cape itself included) and runs through its only unshaded neighbour until a shaded cell or the border
      stops it.
   4. No 2 × 2 block of cells is entirely shaded, and none is entirely unshaded.

  READING: a grid without any unshaded cell satisfies "connected" in rule 1 (nothing to connect) — the
  documented convention of `graph.active_vertices_connected`; only possible on boards without a 2 × 2 block
  and without circles.
  READING / well-formedness: the number 1 is NOT a legal Nurimisaki clue (the line of a cape always has at
  least two cells: the cape and its unshaded neighbour; the smallest number the puzz.link editor offers is 2).
  `solve_nurimisaki` treats a circled 1 as "cape with a shaded cell or the border next to it in some
  direction", i.e. like a circle without a number, whereas rule 3 as written has no solution for it.
  `WellFormed` therefore excludes the value 1: every entry is -1, 0 or ≥ 2 (other negative values are not
  part of the format either).
  Rule 3 is stated as "in one of the four directions, the straight run of unshaded cells that starts at the
  circled cell has exactly `n` cells".  Since `n ≥ 2`, the second cell of that run is an unshaded neighbour
  of the circled cell, which by rule 2 has exactly one unshaded neighbour: the direction is necessarily the
  one "through its only unshaded neighbour" (`Cspuz.Proofs.C11Nurimisaki.line_dir_unique` proves this
  remark; it is not used by the theorem).
-/
import CspuzModel.Model.Puzzles.Nurimisaki
import CspuzModel.Spec.PuzzleRules.GridAnswer
import CspuzModel.Spec.PuzzleRules.CellGraph
namespace Cspuz.Spec.Nurimisaki
open Cspuz Cspuz.Spec Cspuz.Puzzles.Nurimisaki

/-- The entry of the problem table (rows / entries that do not exist read as "no circle"; a well-formed
problem has them all). -/
def val (pb : Problem) (y x : Nat) : Int := (pb.problem.getD y []).getD x (-1)

/-- A well-formed instance: a board with at least one cell and a `height × width` table whose entries are
-1 (no circle), 0 (circle without number) or a number `≥ 2`. -/
def WellFormed (pb : Problem) : Prop :=
  1 ≤ pb.height ∧ 1 ≤ pb.width ∧ pb.problem.length = pb.height ∧
    ∀ row ∈ pb.problem, row.length = pb.width ∧ ∀ v ∈ row, v = -1 ∨ v = 0 ∨ 2 ≤ v

/-- Number of unshaded cells among the (up to four) orthogonal neighbours of `(y, x)` inside the board. -/
def whiteNbrs (pb : Problem) (g : Nat → Nat → Bool) (y x : Nat) : Nat :=
  (if 0 < y ∧ g (y - 1) x = true then 1 else 0) + (if y + 1 < pb.height ∧ g (y + 1) x = true then 1 else 0) +
  (if 0 < x ∧ g y (x - 1) = true then 1 else 0) + (if x + 1 < pb.width ∧ g y (x + 1) = true then 1 else 0)

/-- A cape: an unshaded cell with exactly one unshaded orthogonal neighbour. -/
def Cape (pb : Problem) (g : Nat → Nat → Bool) (y x : Nat) : Prop :=
  g y x = true ∧ whiteNbrs pb g y x = 1

/-- The cell with integer coordinates `(y, x)` lies on the board and is unshaded. -/
def onBoardWhite (pb : Problem) (g : Nat → Nat → Bool) (y x : Int) : Prop :=
  0 ≤ y ∧ y < (pb.height : Int) ∧ 0 ≤ x ∧ x < (pb.width : Int) ∧ g y.toNat x.toNat = true

/-- The four directions (row offset, column offset): up, down, left, right. -/
def dirs : List (Int × Int) := [(-1, 0), (1, 0), (0, -1), (0, 1)]

/-- The straight line of unshaded cells that starts at `(y, x)` and runs in direction `d` until a shaded cell
or the border stops it has exactly `n` cells: the cells `(y, x) + k·d` for `k = 0 … n-1` are on the board and
unshaded, and the cell `(y, x) + n·d` is off the board or shaded. -/
def LineIs (pb : Problem) (g : Nat → Nat → Bool) (y x : Nat) (d : Int × Int) (n : Int) : Prop :=
  (∀ k : Int, 0 ≤ k → k < n → onBoardWhite pb g ((y : Int) + k * d.1) ((x : Int) + k * d.2)) ∧
  ¬ onBoardWhite pb g ((y : Int) + n * d.1) ((x : Int) + n * d.2)

/-- The rules on a grid (`g y x = true` iff cell `(y, x)` is unshaded). -/
def RulesGrid (pb : Problem) (g : Nat → Nat → Bool) : Prop :=
  -- 1. the unshaded cells are connected
  CellsConnected pb.height pb.width (fun y x => g y x = true) ∧
  -- 4. no 2 × 2 block is entirely unshaded, none is entirely shaded
  (∀ y x, y + 1 < pb.height → x + 1 < pb.width →
    ¬ (g y x = true ∧ g (y + 1) x = true ∧ g y (x + 1) = true ∧ g (y + 1) (x + 1) = true) ∧
    ¬ (g y x = false ∧ g (y + 1) x = false ∧ g y (x + 1) = false ∧ g (y + 1) (x + 1) = false)) ∧
  -- 2. the capes are exactly the circled cells
  (∀ y, y < pb.height → ∀ x, x < pb.width →
    (val pb y x = -1 → ¬ Cape pb g y x) ∧ (val pb y x ≠ -1 → Cape pb g y x)) ∧
  -- 3. numbers
  (∀ y, y < pb.height → ∀ x, x < pb.width → 2 ≤ val pb y x →
    ∃ d ∈ dirs, LineIs pb g y x d (val pb y x))

/-- The rules on the answer list. -/
def Rules (pb : Problem) (answer : List Val) : Prop :=
  ∃ g : Nat → Nat → Bool, answer = boolGrid pb.height pb.width g ∧ RulesGrid pb g

end Cspuz.Spec.Nurimisaki
