/-
  SPEC vocabulary shared by the rule specifications of puzzles whose answer is one value per cell:
  the answer list handed to `Rules` is the row-major listing of a grid.
-/
import CspuzModel.Model.Expr
namespace Cspuz.Spec
open Cspuz

/-- Row-major listing of a Boolean grid of `h` rows and `w` columns. -/
def boolGrid (h w : Nat) (g : Nat → Nat → Bool) : List Val :=
  (List.range h).flatMap fun y => (List.range w).map fun x => Val.b (g y x)

/-- Row-major listing of an integer grid of `h` rows and `w` columns. -/
def intGrid (h w : Nat) (g : Nat → Nat → Int) : List Val :=
  (List.range h).flatMap fun y => (List.range w).map fun x => Val.i (g y x)

end Cspuz.Spec
