/-
  SPEC — the published rules of Heyawake (Nikoli; puzz.link `heyawake`), written from the rule text,
  independently of how `solve_heyawake` encodes them.

  Board: `height × width` cells, divided into rooms; `rooms[i]` lists the cells `(y, x)` of room `i`,
  `clues[i]` is the number written in room `i` (negative: the room has no number).
  Answer: one Boolean per cell, row-major; `true` = the cell is SHADED.

  Rules:
   1. Shade some cells.  Shaded cells are not orthogonally adjacent.
   2. All unshaded cells form one orthogonally connected area.
   3. A number in a room is the number of shaded cells in that room (rooms without a number: any amount).
   4. A straight (horizontal or vertical) line of consecutive unshaded cells must not cross two or more
      room borders (it may not stretch over more than two rooms).
  READING: Heyawake rooms are rectangles; for rectangles "crosses two room borders" and "lies in three rooms"
  coincide.  `solve_heyawake` also accepts rooms that are arbitrary sets of cells; for those rule 4 is read
  as "crosses two room borders" (a line that leaves a room and re-enters it has crossed two borders).
  Rooms need not be connected.
  READING: a grid without any unshaded cell satisfies rule 2 (nothing to connect) — the documented
  convention of `graph.active_vertices_connected`; published texts do not say (with rule 1 this only
  happens on the 1 × 1 board).
-/
import CspuzModel.Model.Puzzles.Heyawake
import CspuzModel.Spec.PuzzleRules.GridAnswer
import CspuzModel.Spec.PuzzleRules.CellGraph
namespace Cspuz.Spec.Heyawake
open Cspuz Cspuz.Spec Cspuz.Puzzles.Heyawake

/-- Cell `(y, x)` is listed in room `r`. -/
def inRoom (r : List (Int × Int)) (y x : Nat) : Bool := r.contains ((y : Int), (x : Int))

/-- Index of the (first) room that lists the cell `(y, x)` (`rooms.length` when there is none; in a
well-formed instance every cell of the board lies in exactly one room). -/
def roomOf (pb : Problem) (y x : Nat) : Nat := pb.rooms.findIdx fun r => inRoom r y x

/-- The number written in room `i` (negative: none). -/
def clue (pb : Problem) (i : Nat) : Int := pb.clues.getD i (-1)

/-- A well-formed instance: a board with at least one cell, a clue entry for every room, and rooms that
partition the board: every listed cell lies on the board, no cell is listed twice (neither within one room
nor in two rooms), every cell of the board is listed.  Rooms need not be rectangles, nor connected. -/
def WellFormed (pb : Problem) : Prop :=
  1 ≤ pb.height ∧ 1 ≤ pb.width ∧ pb.rooms.length ≤ pb.clues.length ∧
  (∀ r ∈ pb.rooms, ∀ c ∈ r, 0 ≤ c.1 ∧ c.1 < (pb.height : Int) ∧ 0 ≤ c.2 ∧ c.2 < (pb.width : Int)) ∧
  pb.rooms.flatten.Nodup ∧
  (∀ y, y < pb.height → ∀ x, x < pb.width → ∃ r ∈ pb.rooms, ((y : Int), (x : Int)) ∈ r)

/-- Number of shaded cells among the cells listed in `r`. -/
def shadedIn (g : Nat → Nat → Bool) (r : List (Int × Int)) : Nat :=
  (r.filter fun c => g c.1.toNat c.2.toNat).length

/-- There is a room border between the horizontally adjacent cells `(y, x)` and `(y, x + 1)`. -/
def BorderRight (pb : Problem) (y x : Nat) : Prop := roomOf pb y x ≠ roomOf pb y (x + 1)

/-- There is a room border between the vertically adjacent cells `(y, x)` and `(y + 1, x)`. -/
def BorderBelow (pb : Problem) (y x : Nat) : Prop := roomOf pb y x ≠ roomOf pb (y + 1) x

/-- The rules on a grid (`g y x = true` iff cell `(y, x)` is shaded). -/
def RulesGrid (pb : Problem) (g : Nat → Nat → Bool) : Prop :=
  -- 1. no two orthogonally adjacent cells are both shaded
  (∀ y, y < pb.height → ∀ x, x < pb.width → g y x = true →
    (y + 1 < pb.height → g (y + 1) x = false) ∧ (x + 1 < pb.width → g y (x + 1) = false)) ∧
  -- 2. the unshaded cells are connected
  CellsConnected pb.height pb.width (fun y x => g y x = false) ∧
  -- 3. numbers
  (∀ i, i < pb.rooms.length → 0 ≤ clue pb i → (shadedIn g (pb.rooms.getD i []) : Int) = clue pb i) ∧
  -- 4. a horizontal line of cells (y, x1) … (y, x2 + 1) that crosses the two room borders behind x1 and
  --    behind x2 contains a shaded cell; the same for vertical lines
  (∀ y, y < pb.height → ∀ x1 x2, x1 < x2 → x2 + 1 < pb.width → BorderRight pb y x1 → BorderRight pb y x2 →
    ∃ x, x1 ≤ x ∧ x ≤ x2 + 1 ∧ g y x = true) ∧
  (∀ x, x < pb.width → ∀ y1 y2, y1 < y2 → y2 + 1 < pb.height → BorderBelow pb y1 x → BorderBelow pb y2 x →
    ∃ y, y1 ≤ y ∧ y ≤ y2 + 1 ∧ g y x = true)

/-- The rules on the answer list. -/
def Rules (pb : Problem) (answer : List Val) : Prop :=
  ∃ g : Nat → Nat → Bool, answer = boolGrid pb.height pb.width g ∧ RulesGrid pb g

end Cspuz.Spec.Heyawake
