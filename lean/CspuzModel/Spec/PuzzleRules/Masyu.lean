/-
  SPEC - the published rules of Masyu (Nikoli; puzz.link `masyu`), written from the rule text, independently of
  how `solve_masyu` encodes them.

  Board: `height × width` cells; `problem[y][x] == 1` white circle, `== 2` black circle, anything else: empty cell.
  Answer: one Boolean per step between orthogonally adjacent cells: the lattice of Spec/PuzzleRules/LoopAnswer.lean
  with the cells as lattice points (`H = height - 1`, `W = width - 1`).

  Rules:
   1. The steps drawn form a single closed loop through cell centres, without branching or crossing; no cell is
      visited twice.  READING (library convention): "no line at all" also counts as a loop.
   2. The loop passes through every circle.
   3. White circle: the loop goes straight through the cell, and turns in at least one of the two cells next to
      it on the loop (the one before or the one after).
   4. Black circle: the loop turns in the cell, and goes straight through both cells next to it on the loop.
  (2 is part of 3 and 4: going straight through / turning in a cell means leaving it in two directions.)
-/
import CspuzModel.Model.Puzzles.Masyu
import CspuzModel.Spec.PuzzleRules.LoopAnswer
namespace Cspuz.Spec.Masyu
open Cspuz Cspuz.Spec Cspuz.Spec.FrameGeom Cspuz.Spec.Loop Cspuz.Puzzles.Masyu

/-- The entry of the problem table (entries that do not exist read as "empty"; a well-formed problem has them
all). -/
def val (pb : Problem) (y x : Nat) : Int := (pb.problem.getD y []).getD x 0

/-- A well-formed instance: a non-empty board and a `height × width` table of integers. -/
def WellFormed (pb : Problem) : Prop :=
  1 ≤ pb.height ∧ 1 ≤ pb.width ∧ pb.problem.length = pb.height ∧ ∀ row ∈ pb.problem, row.length = pb.width

/-- Rule 3 at the cell `p`. -/
def White (H W : Nat) (on : Seg → Bool) (p : Pt) : Prop :=
  straight H W on p = true ∧ ∃ d, arm H W on p d = true ∧ turn H W on (nb p d) = true

/-- Rule 4 at the cell `p`. -/
def Black (H W : Nat) (on : Seg → Bool) (p : Pt) : Prop :=
  turn H W on p = true ∧ ∀ d, arm H W on p d = true → straight H W on (nb p d) = true

/-- The rules on the set of drawn steps. -/
def RulesOn (pb : Problem) (on : Seg → Bool) : Prop :=
  IsLoop (pb.height - 1) (pb.width - 1) on ∧
  (∀ y, y < pb.height → ∀ x, x < pb.width →
    (val pb y x = 1 → White (pb.height - 1) (pb.width - 1) on (y, x)) ∧
    (val pb y x = 2 → Black (pb.height - 1) (pb.width - 1) on (y, x)))

/-- The rules on the answer list. -/
def Rules (pb : Problem) (answer : List Val) : Prop :=
  ∃ on : Seg → Bool, answer = segAnswer (pb.height - 1) (pb.width - 1) on ∧ RulesOn pb on

end Cspuz.Spec.Masyu
