/-
  SPEC - the published rules of Suraromu / Slalom (Nikoli; puzz.link `slalom`), written from the rule text,
  independently of how `solve_slalom` encodes them (direction bit per step, in- / out-degree, running counter).

  Board: `height × width` cells, some of them black; one cell carries the circle (start / goal, `origin`); the gates
  are straight runs of white cells (dotted lines), horizontal or vertical, closed at both ends by a black cell or by
  the border of the board; a gate may carry a number.
  Answer: one Boolean per step between orthogonally adjacent cells - the lattice of
  Spec/PuzzleRules/LoopAnswer.lean with the cells as lattice points (`H = height - 1`, `W = width - 1`).

  Rules:
   1. The steps drawn form a single closed loop through cell centres, without branching or crossing
      (`IsLoop`; rule 3 excludes the library's "no line at all").
   2. The loop never enters a black cell.
   3. The loop passes through the circle.
   4. The loop passes through every gate exactly once and crosses it at a right angle: exactly one cell of the gate is
      on the loop, and the loop arrives at it and leaves it perpendicular to the dotted line (it does not run along
      the gate).
   5. Starting at the circle and following the loop in one of its two directions - the solver's choice - the gate
      numbered `n` is the `n`-th gate passed (unnumbered gates count as well).
  Rules 3-5 are stated with a ROUND TRIP `t`: the list of the cells of the loop in the order in which they are visited,
  starting at the circle.  Since every gate is met in exactly one cell (rule 4), "the `n`-th gate passed" is the gate
  whose cell is the `n`-th gate cell of the round trip.
-/
import CspuzModel.Model.Puzzles.Slalom
import CspuzModel.Spec.PuzzleRules.LoopAnswer
namespace Cspuz.Spec.Slalom
open Cspuz Cspuz.Spec Cspuz.Spec.FrameGeom Cspuz.Spec.Loop Cspuz.Puzzles.Slalom

/-- The cell is black (entries that do not exist read as "white"; a well-formed problem has them all). -/
def black (pb : Problem) (y x : Nat) : Bool := (pb.isBlack.getD y []).getD x false

/-- The cells of a gate, from its top / left cell onwards. -/
def gateCellsN (g : Gate) : List Pt :=
  (List.range g.l.toNat).map fun i =>
    match g.d with
    | .hor => (g.y.toNat, g.x.toNat + i)
    | .ver => (g.y.toNat + i, g.x.toNat)

/-- The cell is on some dotted line. -/
def isGateCell (pb : Problem) (p : Pt) : Bool := pb.gates.any fun g => decide (p ∈ gateCellsN g)

/-- The circle. -/
def originN (pb : Problem) : Pt := (pb.origin.1.toNat, pb.origin.2.toNat)

/-- The cell is black or lies outside the board: what closes the end of a gate. -/
def wall (pb : Problem) (y x : Int) : Prop :=
  y < 0 ∨ (pb.height : Int) ≤ y ∨ x < 0 ∨ (pb.width : Int) ≤ x ∨ black pb y.toNat x.toNat = true

/-- A well-formed instance (what the module's own `instantiate_problem` produces): a non-empty board with a
`height × width` table of black cells; every gate has length ≥ 1, lies on the board, consists of white cells and is
closed at both ends by a black cell or the border; the gates are pairwise disjoint; the circle is a white cell that is on
no gate; a gate number is `-1` (none) or one of `1 … number of gates`. -/
def WellFormed (pb : Problem) : Prop :=
  1 ≤ pb.height ∧ 1 ≤ pb.width ∧
  pb.isBlack.length = pb.height ∧ (∀ row ∈ pb.isBlack, row.length = pb.width) ∧
  (0 ≤ pb.origin.1 ∧ pb.origin.1 < pb.height ∧ 0 ≤ pb.origin.2 ∧ pb.origin.2 < pb.width) ∧
  black pb (originN pb).1 (originN pb).2 = false ∧ isGateCell pb (originN pb) = false ∧
  (∀ g ∈ pb.gates,
    0 ≤ g.y ∧ 0 ≤ g.x ∧ 1 ≤ g.l ∧
    (match g.d with
     | .hor => g.y < pb.height ∧ g.x + g.l ≤ pb.width ∧ wall pb g.y (g.x - 1) ∧ wall pb g.y (g.x + g.l)
     | .ver => g.x < pb.width ∧ g.y + g.l ≤ pb.height ∧ wall pb (g.y - 1) g.x ∧ wall pb (g.y + g.l) g.x) ∧
    (∀ p ∈ gateCellsN g, black pb p.1 p.2 = false) ∧
    (g.n = -1 ∨ (1 ≤ g.n ∧ g.n ≤ pb.gates.length))) ∧
  (pb.gates.flatMap gateCellsN).Nodup

/-- The step between the cells `p` and `q` is drawn: some segment of the lattice joins them and is on the line. -/
def stepOn (H W : Nat) (on : Seg → Bool) (p q : Pt) : Prop :=
  ∃ s : Seg, s.Valid H W ∧ on s = true ∧ (s.ends = (p, q) ∨ s.ends = (q, p))

/-- Cyclic successor / predecessor of a position in a list of length `n`. -/
def nxt (n k : Nat) : Nat := (k + 1) % n
def prv (n k : Nat) : Nat := (k + n - 1) % n

/-- `t` is a round trip along the drawn line that starts at the circle `o`: it never visits a cell twice, each of its
steps (the one from the last cell back to the first included) is drawn, and every drawn step is one of them. -/
def IsTour (H W : Nat) (on : Seg → Bool) (o : Pt) (t : List Pt) : Prop :=
  t.head? = some o ∧ t.Nodup ∧
  (∀ k, k < t.length → stepOn H W on (t.getD k o) (t.getD (nxt t.length k) o)) ∧
  (∀ s : Seg, s.Valid H W → on s = true →
    ∃ k, k < t.length ∧ (s.ends = (t.getD k o, t.getD (nxt t.length k) o) ∨ s.ends = (t.getD (nxt t.length k) o, t.getD k o)))

/-- The loop arrives at the gate cell from `q` and leaves it for `r` perpendicular to the dotted line: for a
horizontal gate both are in the column of the gate cell `p`, for a vertical gate in its row. -/
def crossesStraight (g : Gate) (q p r : Pt) : Prop :=
  match g.d with
  | .hor => q.2 = p.2 ∧ r.2 = p.2
  | .ver => q.1 = p.1 ∧ r.1 = p.1

/-- Number of gate cells among the first `k + 1` cells of the round trip (the circle is on no gate). -/
def gatesUpTo (pb : Problem) (t : List Pt) (k : Nat) : Nat := (t.take (k + 1)).countP (isGateCell pb)

/-- The rules on the drawn steps `on`. -/
def RulesOn (pb : Problem) (on : Seg → Bool) : Prop :=
  -- 1. one loop
  IsLoop (pb.height - 1) (pb.width - 1) on ∧
  -- 2. not through black cells
  (∀ y, y < pb.height → ∀ x, x < pb.width → black pb y x = true →
    onLoop (pb.height - 1) (pb.width - 1) on (y, x) = false) ∧
  -- 3. a round trip from the circle (in the direction the solver chooses) ...
  ∃ t : List Pt, IsTour (pb.height - 1) (pb.width - 1) on (originN pb) t ∧
    ∀ g ∈ pb.gates, ∃ k, k < t.length ∧
      -- 4. ... meets every gate in exactly one cell, crossing it at a right angle
      t.getD k (originN pb) ∈ gateCellsN g ∧
      (∀ j, j < t.length → t.getD j (originN pb) ∈ gateCellsN g → j = k) ∧
      crossesStraight g (t.getD (prv t.length k) (originN pb)) (t.getD k (originN pb)) (t.getD (nxt t.length k) (originN pb)) ∧
      -- 5. and a numbered gate is the `n`-th gate passed
      (1 ≤ g.n → ((gatesUpTo pb t k : Nat) : Int) = g.n)

/-- The rules on the answer list. -/
def Rules (pb : Problem) (answer : List Val) : Prop :=
  ∃ on : Seg → Bool, answer = segAnswer (pb.height - 1) (pb.width - 1) on ∧ RulesOn pb on

end Cspuz.Spec.Slalom
