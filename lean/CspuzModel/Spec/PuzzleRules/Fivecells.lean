/-
  SPEC — the published rules of FiveCells (puzz.link `fivecells`), written from the rule text, independently
  of how `solve_fivecells` encodes them.

  Problem: a `height × width` table; an entry `>= -1` is a cell of the board (`-1` empty, `n >= 0` the number
  `n`), an entry `<= -2` is blocked out (not part of the board).

  Rules:
   1. Divide the board (all cells that are not blocked out) into regions of exactly five orthogonally
      connected cells each.
   2. A number in a cell tells how many of the four sides of that cell are region borders; the outer boundary
      of the board, and likewise a side facing a blocked-out cell, counts as a border.

  Answer: one Boolean per pair of edge-adjacent board cells, in the order of the module's edge list (for every
  board cell in row-major order: first the pair with the cell below, then the pair with the cell to the
  right); `true` = "this side is a region border" (the two cells lie in different regions).

  A division is given here by a region label for every cell (`region : Nat × Nat → Nat`): two board cells are
  in the same region iff they carry the same label.
-/
import CspuzModel.Model.Puzzles.Fivecells
import CspuzModel.Spec.PuzzleRules.CellGraph
namespace Cspuz.Spec.Fivecells
open Cspuz Cspuz.Spec Cspuz.Puzzles.Fivecells

/-- The entry of the problem table at `(y, x)` (entries that do not exist read as "blocked out"; a
well-formed problem has them all). -/
def val (pb : Problem) (y x : Nat) : Int := (pb.problem.getD y []).getD x (-2)

/-- `p` is a cell of the board: inside the table and not blocked out. -/
def onBoard (pb : Problem) (p : Nat × Nat) : Bool :=
  decide (p.1 < pb.height) && decide (p.2 < pb.width) && decide (-1 ≤ val pb p.1 p.2)

/-- A well-formed instance: a `height × width` table (any integers) with at least one board cell. -/
def WellFormed (pb : Problem) : Prop :=
  pb.problem.length = pb.height ∧ (∀ row ∈ pb.problem, row.length = pb.width) ∧ ∃ p, onBoard pb p = true

/-- The pairs of edge-adjacent board cells in answer order: for every board cell, row-major, first the pair
with the cell below and then the pair with the cell to the right (when those are board cells). -/
def pairs (pb : Problem) : List ((Nat × Nat) × (Nat × Nat)) :=
  (List.range pb.height).flatMap fun y => (List.range pb.width).flatMap fun x =>
    if onBoard pb (y, x) then
      (if onBoard pb (y + 1, x) then [((y, x), (y + 1, x))] else []) ++
      (if onBoard pb (y, x + 1) then [((y, x), (y, x + 1))] else [])
    else []

/-- The region of the board cell `p`: all board cells with the same label. -/
def regionOf (pb : Problem) (region : Nat × Nat → Nat) (p : Nat × Nat) : Set (Nat × Nat) :=
  {q | onBoard pb q = true ∧ region q = region p}

/-- The side of the board cell `p` that faces the position `q` is a region border: `q` is not a board cell
(outside the table or blocked out) or lies in another region. -/
def sideIsBorder (pb : Problem) (region : Nat × Nat → Nat) (p q : Nat × Nat) : Bool :=
  !onBoard pb q || (region q != region p)

/-- Number of sides of the cell `p` (up, down, left, right) that are region borders. -/
def borderCount (pb : Problem) (region : Nat × Nat → Nat) (p : Nat × Nat) : Nat :=
  (if p.1 = 0 ∨ sideIsBorder pb region p (p.1 - 1, p.2) = true then 1 else 0) +
  (if sideIsBorder pb region p (p.1 + 1, p.2) = true then 1 else 0) +
  (if p.2 = 0 ∨ sideIsBorder pb region p (p.1, p.2 - 1) = true then 1 else 0) +
  (if sideIsBorder pb region p (p.1, p.2 + 1) = true then 1 else 0)

/-- The rules on a division of the board given by region labels. -/
def RulesOn (pb : Problem) (region : Nat × Nat → Nat) : Prop :=
  -- 1. every region is orthogonally connected and has exactly five cells
  (∀ p, onBoard pb p = true →
      (cellGraph.induce (regionOf pb region p)).Preconnected ∧ (regionOf pb region p).ncard = 5) ∧
  -- 2. numbers
  (∀ p, onBoard pb p = true → 0 ≤ val pb p.1 p.2 → (borderCount pb region p : Int) = val pb p.1 p.2)

/-- The rules on the answer list: it is the border pattern of a division obeying the rules. -/
def Rules (pb : Problem) (answer : List Val) : Prop :=
  ∃ region : Nat × Nat → Nat, RulesOn pb region ∧
    answer = (pairs pb).map fun pq => Val.b (region pq.1 != region pq.2)

end Cspuz.Spec.Fivecells
