/-
  SPEC — the published rules of Building / Skyscrapers (puzz.link `building`), written from the rule text,
  independently of how `solve_building` encodes them.

  Board: `n × n` cells; `up[x]` / `dw[x]` is the clue above / below column `x`, `lf[y]` / `rg[y]` the clue left /
  right of row `y`; a value `< 1` means "no clue".  Answer: one integer per cell, row-major (the height).

  Rules:
   1. Every cell holds a building of height 1..n; no height occurs twice in a row or in a column.
   2. A number outside the grid is the number of buildings visible from there along the row / column:
      a building is visible iff every building in front of it is lower.
-/
import CspuzModel.Model.Puzzles.Building
import CspuzModel.Spec.PuzzleRules.GridAnswer
namespace Cspuz.Spec.Building
open Cspuz Cspuz.Spec Cspuz.Puzzles.Building

/-- A well-formed instance: a board of positive size and one clue slot per row / column on every side. -/
def WellFormed (pb : Problem) : Prop :=
  1 ≤ pb.n ∧ pb.up.length = pb.n ∧ pb.dw.length = pb.n ∧ pb.lf.length = pb.n ∧ pb.rg.length = pb.n

/-- Number of buildings of the line `l` visible from its front (position 0): those that are higher than
every building before them. -/
def visible (l : List Int) : Nat :=
  (List.range l.length).countP fun i => decide (∀ j, j < i → l.getD j 0 < l.getD i 0)

/-- Row `y` read from the left, column `x` read from the top. -/
def row (pb : Problem) (g : Nat → Nat → Int) (y : Nat) : List Int := (List.range pb.n).map fun x => g y x
def col (pb : Problem) (g : Nat → Nat → Int) (x : Nat) : List Int := (List.range pb.n).map fun y => g y x

/-- Rule 2 for one clue slot: `clue < 1` is "no clue". -/
def ClueOk (clue : Int) (l : List Int) : Prop := 1 ≤ clue → (visible l : Int) = clue

/-- The rules on a grid of heights. -/
def RulesGrid (pb : Problem) (g : Nat → Nat → Int) : Prop :=
  (∀ y, y < pb.n → ∀ x, x < pb.n → 1 ≤ g y x ∧ g y x ≤ pb.n) ∧
  (∀ y, y < pb.n → ∀ x, x < pb.n → ∀ x', x' < pb.n → x ≠ x' → g y x ≠ g y x') ∧
  (∀ x, x < pb.n → ∀ y, y < pb.n → ∀ y', y' < pb.n → y ≠ y' → g y x ≠ g y' x) ∧
  (∀ i, i < pb.n →
    ClueOk (pb.up.getD i 0) (col pb g i) ∧ ClueOk (pb.dw.getD i 0) (col pb g i).reverse ∧
    ClueOk (pb.lf.getD i 0) (row pb g i) ∧ ClueOk (pb.rg.getD i 0) (row pb g i).reverse)

/-- The rules on the answer list. -/
def Rules (pb : Problem) (answer : List Val) : Prop :=
  ∃ g : Nat → Nat → Int, answer = intGrid pb.n pb.n g ∧ RulesGrid pb g

end Cspuz.Spec.Building
