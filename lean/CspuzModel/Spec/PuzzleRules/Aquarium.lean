/-
  SPEC — the published rules of Aquarium (puzz.link `aquarium`), written from the rule text, independently of
  how `solve_aquarium` encodes them.

  Board: `height × width` cells partitioned into tanks (`blocks`: lists of `(y, x)` cells); `clue_row[y]` /
  `clue_col[x]` is the number of water cells of the row / column, negative for "no clue".
  Answer: one Boolean per cell, row-major ("is water").

  Rules:
   1. A number outside the grid is the number of water cells in its row / column.
   2. Inside a tank the water is level and obeys gravity.

  READING of rule 2 (the published texts admit two; puzz.link offers both as a variant switch):
   (a) one level per tank: if a cell of a tank is filled, so is every cell of that tank in the same row and in
       all lower rows;
   (b) the level is shared between touching cells only: two cells of one tank side by side in a row are filled
       or empty together, and a filled cell never lies directly above an empty cell of the same tank.
  The two differ only for tanks with two arms that are not adjacent within a row (U / H shapes).
  `solve_aquarium` implements (b) and `Rules` adopts (b); `RulesWholeTank` states (a) for reference.
-/
import CspuzModel.Model.Puzzles.Aquarium
import CspuzModel.Spec.PuzzleRules.GridAnswer
namespace Cspuz.Spec.Aquarium
open Cspuz Cspuz.Spec Cspuz.Puzzles.Aquarium

/-- Cell `(y, x)` belongs to the tank `b`. -/
def InTank (b : List (Int × Int)) (y x : Nat) : Prop := ((y : Int), (x : Int)) ∈ b

/-- Two cells belong to the same tank. -/
def SameTank (pb : Problem) (y x y' x' : Nat) : Prop := ∃ b ∈ pb.blocks, InTank b y x ∧ InTank b y' x'

/-- A well-formed instance: one clue slot per row and per column; the tanks consist of cells of the board and
every cell of the board lies in exactly one tank. -/
def WellFormed (pb : Problem) : Prop :=
  pb.clueRow.length = pb.height ∧ pb.clueCol.length = pb.width ∧
  (∀ b ∈ pb.blocks, ∀ c ∈ b, 0 ≤ c.1 ∧ c.1 < pb.height ∧ 0 ≤ c.2 ∧ c.2 < pb.width) ∧
  (∀ y, y < pb.height → ∀ x, x < pb.width →
    ∃ i, i < pb.blocks.length ∧ InTank (pb.blocks.getD i []) y x ∧
      ∀ j, j < pb.blocks.length → InTank (pb.blocks.getD j []) y x → j = i)

/-- Number of water cells of row `y` / of column `x`. -/
def rowCount (pb : Problem) (g : Nat → Nat → Bool) (y : Nat) : Nat := ((List.range pb.width).filter fun x => g y x).length
def colCount (pb : Problem) (g : Nat → Nat → Bool) (x : Nat) : Nat := ((List.range pb.height).filter fun y => g y x).length

/-- Rule 1. -/
def Clues (pb : Problem) (g : Nat → Nat → Bool) : Prop :=
  (∀ y, y < pb.height → 0 ≤ pb.clueRow.getD y (-1) → (rowCount pb g y : Int) = pb.clueRow.getD y (-1)) ∧
  (∀ x, x < pb.width → 0 ≤ pb.clueCol.getD x (-1) → (colCount pb g x : Int) = pb.clueCol.getD x (-1))

/-- The rules on a grid of water cells, reading (b). -/
def RulesGrid (pb : Problem) (g : Nat → Nat → Bool) : Prop :=
  Clues pb g ∧
  (∀ y, y < pb.height → ∀ x, x + 1 < pb.width → SameTank pb y x y (x + 1) → g y x = g y (x + 1)) ∧
  (∀ y, y + 1 < pb.height → ∀ x, x < pb.width → SameTank pb y x (y + 1) x → g y x = true → g (y + 1) x = true)

/-- The rules on the answer list. -/
def Rules (pb : Problem) (answer : List Val) : Prop :=
  ∃ g : Nat → Nat → Bool, answer = boolGrid pb.height pb.width g ∧ RulesGrid pb g

/-- Reading (a), for reference only (not used by the theorem). -/
def RulesWholeTank (pb : Problem) (g : Nat → Nat → Bool) : Prop :=
  Clues pb g ∧
  ∀ y x y' x', y < pb.height → x < pb.width → y' < pb.height → x' < pb.width →
    SameTank pb y x y' x' → y ≤ y' → g y x = true → g y' x' = true

end Cspuz.Spec.Aquarium
