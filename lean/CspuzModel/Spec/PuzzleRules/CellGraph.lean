/-
  SPEC vocabulary shared by the rule specifications of shading puzzles: orthogonal adjacency of board
  cells and "these cells form one orthogonally connected area", in Mathlib's `SimpleGraph` vocabulary,
  independent of how cspuz numbers the cells or builds its grid graph.
-/
import CspuzModel.Spec.GraphSpec
namespace Cspuz.Spec

/-- Orthogonal adjacency of cells `(row, column)`: same row and neighbouring columns, or same column and
neighbouring rows. -/
def cellGraph : SimpleGraph (Nat × Nat) where
  Adj p q := (p.1 = q.1 ∧ (p.2 + 1 = q.2 ∨ q.2 + 1 = p.2)) ∨ (p.2 = q.2 ∧ (p.1 + 1 = q.1 ∨ q.1 + 1 = p.1))
  symm := ⟨by
    rintro p q (⟨h1, h2⟩ | ⟨h1, h2⟩)
    · exact Or.inl ⟨h1.symm, h2.symm⟩
    · exact Or.inr ⟨h1.symm, h2.symm⟩⟩
  loopless := ⟨by
    rintro p (⟨_, h2⟩ | ⟨_, h2⟩) <;> omega⟩

/-- The cells of the `h × w` board on which `S` holds. -/
def cellSet (h w : Nat) (S : Nat → Nat → Prop) : Set (Nat × Nat) := {p | p.1 < h ∧ p.2 < w ∧ S p.1 p.2}

/-- The cells of the board on which `S` holds form one orthogonally connected area: any two of them are
joined by a path of orthogonally adjacent such cells (no such cell at all counts as connected). -/
def CellsConnected (h w : Nat) (S : Nat → Nat → Prop) : Prop :=
  (cellGraph.induce (cellSet h w S)).Preconnected

end Cspuz.Spec
