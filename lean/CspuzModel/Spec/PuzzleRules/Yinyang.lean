/-
  SPEC — the published rules of Yin-Yang (puzz.link `yinyang`), written from the rule text, independently
  of how `solve_yinyang` encodes them.

  Board: `height × width` cells; `problem[y][x]` is 0 for an empty cell, 1 for a given white stone, 2 for a
  given black stone.
  Answer: one Boolean per cell, row-major; `true` = the cell holds a BLACK stone, `false` = a WHITE stone.

  Rules:
   1. Place a black or a white stone in every cell (the answer grid has one colour per cell).
   2. All black stones form one orthogonally connected area, and all white stones form one orthogonally
      connected area.
   3. No 2 × 2 block of cells holds four stones of the same colour.
   4. The given stones keep their colour.

  READING: a colour that does not occur at all satisfies "connected" in rule 2 (nothing to connect) — the
  documented convention of `graph.active_vertices_connected`; only possible on boards without a 2 × 2 block.

  `solve_yinyang` posts more than these rules ("auxiliary constraints": no 2 × 2 block coloured like a
  checkerboard; at most two colour changes around the outer ring).  They are NOT part of the rules; the
  theorem shows that they follow from rule 2 (a discrete Jordan-curve argument), so the posted program
  still encodes exactly the rules above.
-/
import CspuzModel.Model.Puzzles.Yinyang
import CspuzModel.Spec.PuzzleRules.GridAnswer
import CspuzModel.Spec.PuzzleRules.CellGraph
namespace Cspuz.Spec.Yinyang
open Cspuz Cspuz.Spec Cspuz.Puzzles.Yinyang

/-- The entry of the problem table (rows / entries that do not exist read as "empty"; a well-formed
problem has them all). -/
def val (pb : Problem) (y x : Nat) : Int := (pb.problem.getD y []).getD x 0

/-- A well-formed instance: a board with at least one cell and a `height × width` table whose entries are
0 (empty), 1 (white stone) or 2 (black stone). -/
def WellFormed (pb : Problem) : Prop :=
  1 ≤ pb.height ∧ 1 ≤ pb.width ∧ pb.problem.length = pb.height ∧
    ∀ row ∈ pb.problem, row.length = pb.width ∧ ∀ v ∈ row, v = 0 ∨ v = 1 ∨ v = 2

/-- The rules on a grid (`g y x = true` iff cell `(y, x)` holds a black stone, `false` iff a white one). -/
def RulesGrid (pb : Problem) (g : Nat → Nat → Bool) : Prop :=
  -- 2. the black stones are connected, the white stones are connected
  CellsConnected pb.height pb.width (fun y x => g y x = true) ∧
  CellsConnected pb.height pb.width (fun y x => g y x = false) ∧
  -- 3. no 2 × 2 block is entirely black, none is entirely white
  (∀ y x, y + 1 < pb.height → x + 1 < pb.width →
    ¬ (g y x = true ∧ g (y + 1) x = true ∧ g y (x + 1) = true ∧ g (y + 1) (x + 1) = true) ∧
    ¬ (g y x = false ∧ g (y + 1) x = false ∧ g y (x + 1) = false ∧ g (y + 1) (x + 1) = false)) ∧
  -- 4. given stones keep their colour
  (∀ y, y < pb.height → ∀ x, x < pb.width →
    (val pb y x = 1 → g y x = false) ∧ (val pb y x = 2 → g y x = true))

/-- The rules on the answer list (rule 1: it is the row-major listing of a grid of colours). -/
def Rules (pb : Problem) (answer : List Val) : Prop :=
  ∃ g : Nat → Nat → Bool, answer = boolGrid pb.height pb.width g ∧ RulesGrid pb g

end Cspuz.Spec.Yinyang
