/-
  SPEC - the published rules of Castle Wall (puzz.link `castle`), written from the rule text, independently of how
  `solve_castle_wall` encodes them.

  Board: `height × width` cells.  `arrow[y][x]` is ".." (no clue), an arrow (up / down / left / right) followed by a
  number, or a string starting with another character (a clue cell without arrow).  `inside[y][x]` is `True` (white
  clue cell), `False` (black clue cell) or `None` (grey / no statement).
  Answer: one Boolean per step between orthogonally adjacent cells: the lattice of Spec/PuzzleRules/LoopAnswer.lean
  with the cells as lattice points (`H = height - 1`, `W = width - 1`, point `(y, x)` = centre of cell `(y, x)`).

  Rules:
   1. The steps drawn form a single closed loop through cell centres, without branching or crossing.
      READING (library convention): "no line at all" also counts as a loop (then every clue cell is outside).
   2. The loop does not pass through clue cells.
   3. A white clue cell lies inside the loop, a black clue cell outside of it.
   4. An arrow clue with the number `n`: exactly `n` unit steps of the loop lie in the direction of the arrow from the
      clue cell, in the clue's own column (vertical steps, for an up / down arrow) resp. its own row (horizontal steps,
      for a left / right arrow).

  "INSIDE" (rule 3) is the even-odd rule of plane geometry, NOT the solver's bookkeeping: a point `p` of the plane that
  is not on a closed curve lies inside the curve iff a ray from `p` to infinity in general position crosses the curve
  an odd number of times.  For the centre `(y, x)` of a cell that is not on the loop take the horizontal ray to the
  LEFT, shifted upwards by less than one cell (the segment from the centre to the start of the shifted ray touches no
  step, since no step ends in this cell): it meets no horizontal step and crosses exactly the vertical steps
  `(y-1, c) - (y, c)` with `c < x`, each of them transversally in one interior point.  (The solver instead keeps one
  auxiliary Boolean per FACE of the lattice and propagates, column by column from the top edge, the parity of the
  HORIZONTAL steps above the face; that both agree is a discrete Jordan-curve fact proved in
  Proofs/C11CastleWallPar.lean.)
-/
import CspuzModel.Model.Puzzles.CastleWall
import CspuzModel.Spec.PuzzleRules.LoopAnswer
namespace Cspuz.Spec.CastleWall
open Cspuz Cspuz.Spec Cspuz.Spec.FrameGeom Cspuz.Spec.Loop Cspuz.Puzzles.CastleWall

/-- The entry of the `arrow` table (entries that do not exist read as "no clue"; a well-formed problem has them
all). -/
def arrowAt (pb : Problem) (y x : Nat) : Arrow := (pb.arrow.getD y []).getD x .none

/-- The entry of the `inside` table. -/
def markAt (pb : Problem) (y x : Nat) : Option Bool := (pb.inside.getD y []).getD x none

/-- A well-formed instance: a non-empty board, two `height × width` tables, the text after an arrow is an integer
literal, and only clue cells are marked white / black (the module's own generator and the pzprv3 format only ever
put the mark on a clue cell). -/
def WellFormed (pb : Problem) : Prop :=
  1 ≤ pb.height ∧ 1 ≤ pb.width ∧
  pb.arrow.length = pb.height ∧ (∀ row ∈ pb.arrow, row.length = pb.width) ∧
  pb.inside.length = pb.height ∧ (∀ row ∈ pb.inside, row.length = pb.width) ∧
  (∀ y x d, arrowAt pb y x ≠ .dir d none) ∧
  (∀ y x, arrowAt pb y x = .none → markAt pb y x = none)

/-- Rule 4: number of steps of the line seen from the cell `(y, x)` in direction `d`, up to the edge of the board:
the vertical steps `(r, x) - (r+1, x)` above (`r + 1 ≤ y`) / below (`y ≤ r`) the cell in its column, the horizontal
steps `(y, c) - (y, c+1)` left (`c + 1 ≤ x`) / right (`x ≤ c`) of the cell in its row. -/
def seen (pb : Problem) (on : Seg → Bool) (y x : Nat) : Puzzles.CastleWall.Dir → Nat
  | .up => (List.range y).countP fun r => on (Seg.v r x)
  | .down => (List.range (pb.height - 1 - y)).countP fun j => on (Seg.v (y + j) x)
  | .left => (List.range x).countP fun c => on (Seg.h y c)
  | .right => (List.range (pb.width - 1 - x)).countP fun j => on (Seg.h y (x + j))

/-- Number of crossings of the line with the ray that goes from (just above) the lattice point `p` to the left: the
lattice points `(p.1, c)`, `c < p.2`, of `p`'s row from which the line leaves upwards. -/
def crossings (H W : Nat) (on : Seg → Bool) (p : Pt) : Nat :=
  (List.range p.2).countP fun c => arm H W on (p.1, c) .up

/-- Even-odd rule: the lattice point `p` (not on the line) lies inside the closed line. -/
def inside (H W : Nat) (on : Seg → Bool) (p : Pt) : Bool := decide (crossings H W on p % 2 = 1)

/-- The rules on the set of drawn steps. -/
def RulesOn (pb : Problem) (on : Seg → Bool) : Prop :=
  -- 1. one loop (or nothing)
  IsLoop (pb.height - 1) (pb.width - 1) on ∧
  (∀ y, y < pb.height → ∀ x, x < pb.width →
    (match arrowAt pb y x with
     | .none => True
     -- 2. clue cells are not on the loop
     | .other => onLoop (pb.height - 1) (pb.width - 1) on (y, x) = false
     -- 2. + 4. arrow clues
     | .dir d n => onLoop (pb.height - 1) (pb.width - 1) on (y, x) = false ∧
         some ((seen pb on y x d : Nat) : Int) = n) ∧
    -- 3. white: inside, black: outside (in particular not on the loop)
    (∀ b, markAt pb y x = some b →
      onLoop (pb.height - 1) (pb.width - 1) on (y, x) = false ∧
      inside (pb.height - 1) (pb.width - 1) on (y, x) = b))

/-- The rules on the answer list. -/
def Rules (pb : Problem) (answer : List Val) : Prop :=
  ∃ on : Seg → Bool, answer = segAnswer (pb.height - 1) (pb.width - 1) on ∧ RulesOn pb on

end Cspuz.Spec.CastleWall
