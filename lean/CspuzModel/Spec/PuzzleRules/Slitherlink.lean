/-
  SPEC - the published rules of Slitherlink (Nikoli; puzz.link `slither`), written from the rule text,
  independently of how `solve_slitherlink` encodes them.

  Board: `height × width` cells; `problem[y][x] ≥ 0` is a number clue, a negative entry means "no clue".
  Answer: one Boolean per border segment of the `(height+1) × (width+1)` lattice of cell corners
  (Spec/PuzzleRules/LoopAnswer.lean).

  Rules:
   1. The segments drawn form a single closed loop along the grid lines, without branching, crossing or touching
      itself.  READING (library convention): "no line at all" also counts as a loop.
   2. A number in a cell is the number of the four sides of that cell that are part of the loop.
-/
import CspuzModel.Model.Puzzles.Slitherlink
import CspuzModel.Spec.PuzzleRules.LoopAnswer
namespace Cspuz.Spec.Slitherlink
open Cspuz Cspuz.Spec Cspuz.Spec.FrameGeom Cspuz.Spec.Loop Cspuz.Puzzles.Slitherlink

/-- The entry of the problem table (entries that do not exist read as "no clue"; a well-formed problem has them
all). -/
def val (pb : Problem) (y x : Nat) : Int := (pb.problem.getD y []).getD x (-1)

/-- A well-formed instance: a `height × width` table of integers. -/
def WellFormed (pb : Problem) : Prop :=
  pb.problem.length = pb.height ∧ ∀ row ∈ pb.problem, row.length = pb.width

/-- The rules on the set of drawn segments. -/
def RulesOn (pb : Problem) (on : Seg → Bool) : Prop :=
  -- 1. one loop (or nothing)
  IsLoop pb.height pb.width on ∧
  -- 2. numbered cells: that many of the four sides (upper, lower, left, right) are drawn
  (∀ y, y < pb.height → ∀ x, x < pb.width → 0 ≤ val pb y x →
    (((cellSegs y x).countP fun s => on s : Nat) : Int) = val pb y x)

/-- The rules on the answer list. -/
def Rules (pb : Problem) (answer : List Val) : Prop :=
  ∃ on : Seg → Bool, answer = segAnswer pb.height pb.width on ∧ RulesOn pb on

end Cspuz.Spec.Slitherlink
