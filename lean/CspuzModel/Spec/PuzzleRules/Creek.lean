/-
  SPEC — the published rules of Creek (puzz.link `creek`), written from the rule text, independently of
  how `solve_creek` encodes them.

  Board: `height × width` cells; clues sit on the lattice points (corners of cells), so the clue table
  `problem` has `height + 1` rows of `width + 1` entries; a negative entry means "no clue".
  Answer: one Boolean per cell, row-major; `true` = the cell is left UNSHADED (white).

  Rules:
   1. Shade some cells.
   2. A number at a lattice point equals the number of shaded cells among the (up to four) cells that
      touch this point.
   3. All unshaded cells form one orthogonally connected area.
  READING: a grid without any unshaded cell satisfies rule 3 (nothing to connect) — the documented
  convention of `graph.active_vertices_connected`; published texts do not say.
-/
import CspuzModel.Model.Puzzles.Creek
import CspuzModel.Spec.PuzzleRules.GridAnswer
import CspuzModel.Spec.PuzzleRules.CellGraph
namespace Cspuz.Spec.Creek
open Cspuz Cspuz.Spec Cspuz.Puzzles.Creek

/-- The clue at lattice point `(y, x)` (entries that do not exist read as "no clue"; a well-formed problem
has them all). -/
def val (pb : Problem) (y x : Nat) : Int := (pb.problem.getD y []).getD x (-1)

/-- A well-formed instance: a board with at least one cell and a `(height+1) × (width+1)` clue table
(any integers; negative = no clue). -/
def WellFormed (pb : Problem) : Prop :=
  1 ≤ pb.height ∧ 1 ≤ pb.width ∧ pb.problem.length = pb.height + 1 ∧
    ∀ row ∈ pb.problem, row.length = pb.width + 1

/-- Number of shaded cells among the cells of the board that touch the lattice point `(y, x)`:
`(y-1, x-1)`, `(y-1, x)`, `(y, x-1)`, `(y, x)`. -/
def shadedAround (pb : Problem) (g : Nat → Nat → Bool) (y x : Nat) : Nat :=
  (if 0 < y ∧ 0 < x ∧ g (y - 1) (x - 1) = false then 1 else 0) +
  (if 0 < y ∧ x < pb.width ∧ g (y - 1) x = false then 1 else 0) +
  (if y < pb.height ∧ 0 < x ∧ g y (x - 1) = false then 1 else 0) +
  (if y < pb.height ∧ x < pb.width ∧ g y x = false then 1 else 0)

/-- The rules on a grid (`g y x = true` iff cell `(y, x)` is unshaded). -/
def RulesGrid (pb : Problem) (g : Nat → Nat → Bool) : Prop :=
  -- 2. numbers
  (∀ y, y ≤ pb.height → ∀ x, x ≤ pb.width → 0 ≤ val pb y x → (shadedAround pb g y x : Int) = val pb y x) ∧
  -- 3. the unshaded cells are connected
  CellsConnected pb.height pb.width (fun y x => g y x = true)

/-- The rules on the answer list. -/
def Rules (pb : Problem) (answer : List Val) : Prop :=
  ∃ g : Nat → Nat → Bool, answer = boolGrid pb.height pb.width g ∧ RulesGrid pb g

end Cspuz.Spec.Creek
