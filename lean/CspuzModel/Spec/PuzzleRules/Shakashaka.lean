/-
  SPEC — the published rules of Shakashaka (Nikoli; puzz.link `shakashaka`), written from the rule text,
  independently of how `solve_shakashaka` encodes them (the solver posts LOCAL conditions around every grid
  point; the rule below is the GLOBAL one: every white area is a rectangle).

  Board: `height × width` cells; `problem[y][x]` is `none` for a white cell, `some v` for a black cell
  (`v < 0`: no number, `v ≥ 0`: the number `v`).
  Answer: one integer per cell, row-major: 0 = nothing, 1..4 = a black right isosceles triangle (half the cell, cut
  along a diagonal) whose right angle sits at the top-left / bottom-left / bottom-right / top-right corner of the cell.

  Rules:
   1. Triangles are placed in white cells only (at most one per cell).
   2. A number in a black cell is the number of triangles in the (up to four) orthogonally adjacent cells.
   3. Every white area that remains — the white cells and the white halves of the triangle cells, joined where they
      touch along a piece of line (not merely at a point) — is a rectangle, upright or rotated by 45°.

  Geometry.  Every cell is cut by its two diagonals into four quarter triangles N, E, S, W (meeting at the cell
  centre).  A triangle of the answer covers two adjacent quarters, a black cell all four.  Two quarters touch along a
  piece of line iff they are neighbours around the centre of one cell or lie on the two sides of a common cell side.
  A white area is a connected component of white quarters.  Coordinates are DOUBLED (`X` to the right, `Y`
  downwards): cell `(y, x)` is the square `[2x, 2x+2] × [2y, 2y+2]`, its centre is `(2x+1, 2y+1)`.  Since the
  boundary of a white area consists of cell sides and cell diagonals, an upright rectangular area has its corners at
  grid points, and a rotated one has its corners at grid points or cell centres: these are the rectangles of the spec.
-/
import CspuzModel.Model.Puzzles.Shakashaka
import CspuzModel.Spec.PuzzleRules.GridAnswer
import Mathlib.Logic.Relation
namespace Cspuz.Spec.Shakashaka
open Cspuz Cspuz.Spec Cspuz.Puzzles.Shakashaka

/-- The entry of the problem table (entries that do not exist read as "black, no number"; a well-formed problem
has them all). -/
def val (pb : Problem) (y x : Nat) : Option Int := (pb.problem.getD y []).getD x (some (-1))

/-- A well-formed instance: a `height × width` table (any numbers). -/
def WellFormed (pb : Problem) : Prop :=
  pb.problem.length = pb.height ∧ ∀ row ∈ pb.problem, row.length = pb.width

/-- A quarter triangle: cell `(y, x)` (any integers: quarters outside the board are never white) and the side of the
cell it rests on: `0 = N, 1 = E, 2 = S, 3 = W`. -/
structure Quarter where
  y : Int
  x : Int
  q : Fin 4
  deriving DecidableEq, Repr

/-- Which quarters of a cell holding the answer value `v` stay white: nothing placed — all four; triangle 1 (black
corner top-left) — E and S; 2 (bottom-left) — N and E; 3 (bottom-right) — N and W; 4 (top-right) — S and W. -/
def whiteQ (v : Int) (q : Fin 4) : Bool :=
  if v = 0 then true
  else if v = 1 then (q = 1 || q = 2)
  else if v = 2 then (q = 0 || q = 1)
  else if v = 3 then (q = 0 || q = 3)
  else if v = 4 then (q = 2 || q = 3)
  else false

/-- The quarter `t` is white: its cell is a white cell of the board and the triangle placed there (if any) does not
cover it. -/
def White (pb : Problem) (g : Nat → Nat → Int) (t : Quarter) : Prop :=
  0 ≤ t.y ∧ t.y < pb.height ∧ 0 ≤ t.x ∧ t.x < pb.width ∧ val pb t.y.toNat t.x.toNat = none ∧
    whiteQ (g t.y.toNat t.x.toNat) t.q = true

/-- The quarter on the other side of the cell side on which `t` rests. -/
def across (t : Quarter) : Quarter :=
  match t.q with
  | 0 => ⟨t.y - 1, t.x, 2⟩
  | 1 => ⟨t.y, t.x + 1, 3⟩
  | 2 => ⟨t.y + 1, t.x, 0⟩
  | 3 => ⟨t.y, t.x - 1, 1⟩

/-- Two quarters touch along a piece of line: neighbours around the centre of one cell, or the two quarters resting
on one cell side from both sides. -/
def Touch (s t : Quarter) : Prop :=
  (s.y = t.y ∧ s.x = t.x ∧ (t.q = s.q + 1 ∨ s.q = t.q + 1)) ∨ t = across s

/-- Two white quarters that touch. -/
def WAdj (pb : Problem) (g : Nat → Nat → Int) (s t : Quarter) : Prop :=
  White pb g s ∧ White pb g t ∧ Touch s t

/-- `t` belongs to the white area of the white quarter `s`. -/
def SameArea (pb : Problem) (g : Nat → Nat → Int) (s t : Quarter) : Prop :=
  Relation.ReflTransGen (WAdj pb g) s t

/-- The three vertices of a quarter, in doubled coordinates `(X, Y)`. -/
def verts (t : Quarter) : List (Int × Int) :=
  let c : Int × Int := (2 * t.x + 1, 2 * t.y + 1)
  match t.q with
  | 0 => [(2 * t.x, 2 * t.y), (2 * t.x + 2, 2 * t.y), c]
  | 1 => [(2 * t.x + 2, 2 * t.y), (2 * t.x + 2, 2 * t.y + 2), c]
  | 2 => [(2 * t.x + 2, 2 * t.y + 2), (2 * t.x, 2 * t.y + 2), c]
  | 3 => [(2 * t.x, 2 * t.y + 2), (2 * t.x, 2 * t.y), c]

/-- `t` lies in the upright rectangle with corners at the grid points `(x0, y0)` and `(x1, y1)` (cell units). -/
def InUpright (x0 x1 y0 y1 : Int) (t : Quarter) : Prop :=
  ∀ v ∈ verts t, 2 * x0 ≤ v.1 ∧ v.1 ≤ 2 * x1 ∧ 2 * y0 ≤ v.2 ∧ v.2 ≤ 2 * y1

/-- `t` lies in the rotated rectangle `2a ≤ X + Y ≤ 2b`, `2c ≤ X - Y ≤ 2d` (sides along the diagonals, corners at
grid points or cell centres). -/
def InRotated (a b c d : Int) (t : Quarter) : Prop :=
  ∀ v ∈ verts t, 2 * a ≤ v.1 + v.2 ∧ v.1 + v.2 ≤ 2 * b ∧ 2 * c ≤ v.1 - v.2 ∧ v.1 - v.2 ≤ 2 * d

/-- A set of quarters is (exactly the set of quarters of) a rectangle, upright or rotated by 45°. -/
def IsRectangle (S : Quarter → Prop) : Prop :=
  (∃ x0 x1 y0 y1 : Int, ∀ t, S t ↔ InUpright x0 x1 y0 y1 t) ∨
  (∃ a b c d : Int, ∀ t, S t ↔ InRotated a b c d t)

/-- Rule 3: every white area is a rectangle. -/
def AllWhiteAreasRectangles (pb : Problem) (g : Nat → Nat → Int) : Prop :=
  ∀ s, White pb g s → IsRectangle (SameArea pb g s)

/-- Number of triangles among the (up to four) orthogonal neighbours of `(y, x)` inside the board. -/
def trianglesAround (pb : Problem) (g : Nat → Nat → Int) (y x : Nat) : Nat :=
  (if 0 < y ∧ g (y - 1) x ≠ 0 then 1 else 0) + (if y + 1 < pb.height ∧ g (y + 1) x ≠ 0 then 1 else 0) +
  (if 0 < x ∧ g y (x - 1) ≠ 0 then 1 else 0) + (if x + 1 < pb.width ∧ g y (x + 1) ≠ 0 then 1 else 0)

/-- Rules 1 and 2 (and the answer alphabet): every cell holds a value `0..4`, black cells hold nothing, numbers count
the neighbouring triangles. -/
def CluesOK (pb : Problem) (g : Nat → Nat → Int) : Prop :=
  (∀ y, y < pb.height → ∀ x, x < pb.width → 0 ≤ g y x ∧ g y x ≤ 4) ∧
  (∀ y, y < pb.height → ∀ x, x < pb.width → ∀ v, val pb y x = some v →
      g y x = 0 ∧ (0 ≤ v → (trianglesAround pb g y x : Int) = v))

/-- The rules on a grid of answer values. -/
def RulesGrid (pb : Problem) (g : Nat → Nat → Int) : Prop :=
  CluesOK pb g ∧ AllWhiteAreasRectangles pb g

/-- The rules on the answer list. -/
def Rules (pb : Problem) (answer : List Val) : Prop :=
  ∃ g : Nat → Nat → Int, answer = intGrid pb.height pb.width g ∧ RulesGrid pb g

/-! ### The local form of rule 3 (what happens around one grid point)

Around the grid point `(py, px)` (the common corner of the cells `(py-1, px-1)`, `(py, px-1)`, `(py, px)`,
`(py-1, px)`) there are eight quarters, each filling an angle of 45°; listed counter-clockwise on the screen, starting
at the ray pointing up. -/

/-- The eight quarters around the grid point `(py, px)`. -/
def octant (py px : Int) (i : Fin 8) : Quarter :=
  match i with
  | 0 => ⟨py - 1, px - 1, 1⟩
  | 1 => ⟨py - 1, px - 1, 2⟩
  | 2 => ⟨py, px - 1, 0⟩
  | 3 => ⟨py, px - 1, 1⟩
  | 4 => ⟨py, px, 3⟩
  | 5 => ⟨py, px, 0⟩
  | 6 => ⟨py - 1, px, 2⟩
  | 7 => ⟨py - 1, px, 3⟩

/-- Every white angle at the point measures 90°, 180° or 360°: either all eight octants are white, or every maximal
cyclic run of white octants (starting at `i`, i.e. `i - 1` is not white) has length exactly 2 or exactly 4. -/
def AnglesOK (o : Fin 8 → Prop) : Prop :=
  (∀ i, o i) ∨
  ∀ i, o i → ¬ o (i - 1) →
    (o (i + 1) ∧ ¬ o (i + 2)) ∨ (o (i + 1) ∧ o (i + 2) ∧ o (i + 3) ∧ ¬ o (i + 4))

/-- At every grid point all white angles are right, straight or full. -/
def LocalAngles (pb : Problem) (g : Nat → Nat → Int) : Prop :=
  ∀ py px : Int, AnglesOK fun i => White pb g (octant py px i)

/-- A straight white angle whose two sides are diagonals (it starts at an odd octant `i`, covers `i .. i+3`, i.e. half of
a cell, the corner of the next cell, half of the third cell) has a completely white cell in its middle: a white strip
between two parallel diagonals at distance half a diagonal cannot be closed to a rectangle. -/
def StraightOK (pb : Problem) (g : Nat → Nat → Int) : Prop :=
  ∀ py px : Int, ∀ i : Fin 8, i.val % 2 = 1 →
    White pb g (octant py px i) → ¬ White pb g (octant py px (i - 1)) →
    White pb g (octant py px (i + 1)) → White pb g (octant py px (i + 2)) → White pb g (octant py px (i + 3)) →
    ¬ White pb g (octant py px (i + 4)) →
    ∀ q, White pb g ⟨(octant py px (i + 1)).y, (octant py px (i + 1)).x, q⟩

/-- The local rules around the grid points (this is what `solve_shakashaka` posts, in geometric terms). -/
def LocalRules (pb : Problem) (g : Nat → Nat → Int) : Prop := LocalAngles pb g ∧ StraightOK pb g

/-- The geometric fact behind the encoding of `solve_shakashaka`: the local rules hold at all grid points iff all white
areas are rectangles. -/
def local_iff_rectangles : Prop :=
  ∀ pb : Problem, ∀ g : Nat → Nat → Int, LocalRules pb g ↔ AllWhiteAreasRectangles pb g

end Cspuz.Spec.Shakashaka
