/-
  SPEC — the published rules of Fillomino (Nikoli / puzz.link `fillomino`), written from the rule text,
  independently of how `solve_fillomino` encodes them.

  Board: `height × width` cells; `problem[y][x] ≥ 1` is a given number, anything else an empty cell.
  Answer: one integer per cell, row-major: the number of cells of the block that contains the cell.

  Rules:
   1. Divide the board into blocks; a block is an orthogonally connected group of cells.
   2. Every given number equals the number of cells of the block that contains it (a block may contain
      several equal numbers, or none).
   3. Two blocks with the same number of cells do not share an edge.
  Variant `checkered = true` ("Checkered Fillomino"):
   4. the blocks can be coloured black / white so that two blocks sharing an edge always get different
      colours.
-/
import CspuzModel.Model.Puzzles.Fillomino
import CspuzModel.Spec.PuzzleRules.GridAnswer
import CspuzModel.Spec.PuzzleRules.CellGraph
namespace Cspuz.Spec.Fillomino
open Cspuz Cspuz.Spec Cspuz.Puzzles.Fillomino

/-- The given at cell `(y, x)` (entries that do not exist read as "empty"; a well-formed problem has them
all). -/
def val (pb : Problem) (y x : Nat) : Int := (pb.problem.getD y []).getD x 0

/-- A well-formed instance: a board with at least one cell and a `height × width` table of integers
(`≥ 1`: a given number; anything else: empty). -/
def WellFormed (pb : Problem) : Prop :=
  1 ≤ pb.height ∧ 1 ≤ pb.width ∧ pb.problem.length = pb.height ∧ ∀ row ∈ pb.problem, row.length = pb.width

/-- `p = (row, column)` is a cell of the `h × w` board. -/
def OnBoard (h w : Nat) (p : Nat × Nat) : Prop := p.1 < h ∧ p.2 < w

/-- A division of the `h × w` board into blocks, given by its "in the same block" relation on the cells
of the board. -/
structure Division (h w : Nat) where
  same : Nat × Nat → Nat × Nat → Prop
  refl : ∀ p, OnBoard h w p → same p p
  symm : ∀ p q, same p q → same q p
  trans : ∀ p q r, same p q → same q r → same p r

/-- The block of cell `p`: the cells of the board in the same block as `p`. -/
def Division.block {h w : Nat} (D : Division h w) (p : Nat × Nat) : Set (Nat × Nat) :=
  {q | OnBoard h w q ∧ D.same p q}

/-- Number of cells of the block of `p`. -/
noncomputable def Division.size {h w : Nat} (D : Division h w) (p : Nat × Nat) : Nat := (D.block p).ncard

/-- The rules on a grid of integers: `g y x` is the number written into cell `(y, x)`. -/
def RulesGrid (pb : Problem) (g : Nat → Nat → Int) : Prop :=
  ∃ D : Division pb.height pb.width,
    -- 1. every block is an orthogonally connected group of cells
    (∀ p, OnBoard pb.height pb.width p → (cellGraph.induce (D.block p)).Preconnected) ∧
    -- the answer: every cell holds the number of cells of its block
    (∀ p, OnBoard pb.height pb.width p → g p.1 p.2 = (D.size p : Int)) ∧
    -- 2. a given number equals the number of cells of its block
    (∀ p, OnBoard pb.height pb.width p → 1 ≤ val pb p.1 p.2 → (D.size p : Int) = val pb p.1 p.2) ∧
    -- 3. two different blocks that share an edge have different numbers of cells
    (∀ p q, OnBoard pb.height pb.width p → OnBoard pb.height pb.width q → cellGraph.Adj p q →
        ¬ D.same p q → D.size p ≠ D.size q) ∧
    -- 4. (checkered) the blocks can be 2-coloured so that blocks sharing an edge differ
    (pb.checkered = true → ∃ colour : Nat × Nat → Bool,
        (∀ p q, OnBoard pb.height pb.width p → OnBoard pb.height pb.width q → D.same p q → colour p = colour q) ∧
        (∀ p q, OnBoard pb.height pb.width p → OnBoard pb.height pb.width q → cellGraph.Adj p q →
            ¬ D.same p q → colour p ≠ colour q))

/-- The rules on the answer list. -/
def Rules (pb : Problem) (answer : List Val) : Prop :=
  ∃ g : Nat → Nat → Int, answer = intGrid pb.height pb.width g ∧ RulesGrid pb g

end Cspuz.Spec.Fillomino
