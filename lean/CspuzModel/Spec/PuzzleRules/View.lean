/-
  SPEC — the published rules of View (puzz.link `view`), written from the rule text, independently of
  how `solve_view` encodes them.

  Board: `height × width` cells; `problem[y][x]` negative = empty cell, otherwise the given number.
  Answer: the numbers `nums` (one integer per cell, row-major) FOLLOWED BY `has_number` (one Boolean per cell,
  row-major; `true` = the cell carries a number).

  Rules:
   1. Write a number (≥ 0) into some of the empty cells; the given numbers stay.
   2. A number equals the total count of EMPTY cells visible from its cell in the four orthogonal directions,
      looking in each direction up to (not including) the nearest numbered cell or the border.
   3. Equal numbers are not orthogonally adjacent.
   4. All numbered cells form one orthogonally connected area.
  READING (representation): an empty cell is reported as `has_number = false`, `nums = 0` (the rules say nothing
  about "the number of an empty cell"; the module pins it to 0).
  READING: a grid without any numbered cell satisfies rule 4 (nothing to connect) — the documented convention
  of `graph.active_vertices_connected`.
-/
import CspuzModel.Model.Puzzles.View
import CspuzModel.Spec.PuzzleRules.GridAnswer
import CspuzModel.Spec.PuzzleRules.CellGraph
namespace Cspuz.Spec.View
open Cspuz Cspuz.Spec Cspuz.Puzzles.View

/-- The entry of the problem table at cell `(y, x)` (entries that do not exist read as "empty"; a well-formed
problem has them all). -/
def val (pb : Problem) (y x : Nat) : Int := (pb.problem.getD y []).getD x (-1)

/-- A well-formed instance: a board with at least one cell and a `height × width` table (any integers;
negative = empty cell). -/
def WellFormed (pb : Problem) : Prop :=
  1 ≤ pb.height ∧ 1 ≤ pb.width ∧ pb.problem.length = pb.height ∧
    ∀ row ∈ pb.problem, row.length = pb.width

/-- Looking along a line of `len` cells (cell `0` of the line is the one next to the viewer, cell `len - 1`
the one at the border), exactly `s` empty cells are visible: the first `s` cells of the line are empty, and
then comes the border (`s = len`) or a numbered cell. -/
def IsRun (emptyAt : Nat → Prop) (len s : Nat) : Prop :=
  s ≤ len ∧ (∀ j, j < s → emptyAt j) ∧ (s < len → ¬ emptyAt s)

/-- The rules on the two grids (`has y x = true` iff cell `(y, x)` carries a number, which is `num y x`). -/
def RulesGrid (pb : Problem) (num : Nat → Nat → Int) (has : Nat → Nat → Bool) : Prop :=
  -- 1. the given numbers stay
  (∀ y, y < pb.height → ∀ x, x < pb.width → 0 ≤ val pb y x → has y x = true ∧ num y x = val pb y x) ∧
  -- representation of an empty cell (READING)
  (∀ y, y < pb.height → ∀ x, x < pb.width → has y x = false → num y x = 0) ∧
  -- 2. a number is the total count of empty cells seen upwards, downwards, to the left and to the right
  (∀ y, y < pb.height → ∀ x, x < pb.width → has y x = true →
    ∃ up down left right : Nat,
      IsRun (fun j => has (y - 1 - j) x = false) y up ∧
      IsRun (fun j => has (y + 1 + j) x = false) (pb.height - 1 - y) down ∧
      IsRun (fun j => has y (x - 1 - j) = false) x left ∧
      IsRun (fun j => has y (x + 1 + j) = false) (pb.width - 1 - x) right ∧
      num y x = ((up + down + left + right : Nat) : Int)) ∧
  -- 3. equal numbers are not orthogonally adjacent
  (∀ y, y + 1 < pb.height → ∀ x, x < pb.width → has y x = true → has (y + 1) x = true → num y x ≠ num (y + 1) x) ∧
  (∀ y, y < pb.height → ∀ x, x + 1 < pb.width → has y x = true → has y (x + 1) = true → num y x ≠ num y (x + 1)) ∧
  -- 4. the numbered cells are connected
  CellsConnected pb.height pb.width (fun y x => has y x = true)

/-- The rules on the answer list: `nums` row-major, then `has_number` row-major. -/
def Rules (pb : Problem) (answer : List Val) : Prop :=
  ∃ (num : Nat → Nat → Int) (has : Nat → Nat → Bool),
    answer = intGrid pb.height pb.width num ++ boolGrid pb.height pb.width has ∧ RulesGrid pb num has

end Cspuz.Spec.View
