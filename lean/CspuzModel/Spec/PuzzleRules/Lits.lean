/-
  SPEC — the published rules of LITS (Nikoli; puzz.link `lits`), written from the rule text, independently of
  how `solve_lits` encodes them.

  Board: `height × width` cells partitioned into regions (`blocks`: a list of regions, each a list of cells
  `(y, x)`).  Answer: one Boolean per cell, row-major; `true` = the cell is shaded.

  Rules (Nikoli):
   1. In every region shade exactly four cells that form a tetromino, i.e. four orthogonally connected cells.
   2. All shaded cells of the board form one orthogonally connected area.
   3. No 2 × 2 block of cells is entirely shaded.
   4. Two tetrominoes of the same shape (L, I, T, S; rotations and reflections count as the same shape) in
      different regions must not share an edge.

  `Rules` states rule 4 GEOMETRICALLY: two cell sets have the same shape iff a symmetry of the square lattice
  (one of the eight maps `(y, x) ↦ (±y, ±x)`, `(±x, ±y)`) followed by a translation maps one onto the other.
  `RulesCode` is identical except that "same shape" is read through the classical two-number CODE of a
  tetromino (how many of its cells are the middle of a straight triple of its cells; does it have a cell with
  three neighbours among its cells): I ↦ (2, no), L ↦ (1, no), S ↦ (0, no), T ↦ (1, yes).  The two readings
  agree on tetrominoes (classification of the tetrominoes); both are defined here on cell sets, without any
  reference to the solver's variables.

  READINGs: regions need not be connected nor have four cells (the rules then have no solution); rule 2 on a
  board without any shaded cell cannot arise (rule 1 shades four cells per region and a well-formed board
  has at least one cell, hence at least one region).
-/
import Mathlib.Data.Set.Card
import CspuzModel.Model.Puzzles.Lits
import CspuzModel.Spec.PuzzleRules.GridAnswer
import CspuzModel.Spec.PuzzleRules.CellGraph
namespace Cspuz.Spec.Lits
open Cspuz Cspuz.Spec Cspuz.Puzzles.Lits

/-- A well-formed instance: a board with at least one cell whose regions partition it — every listed cell lies
on the board, no cell is listed twice (neither inside one region nor in two regions), and every cell of the
board is listed. -/
def WellFormed (pb : Problem) : Prop :=
  1 ≤ pb.height ∧ 1 ≤ pb.width ∧
  (∀ b ∈ pb.blocks, ∀ c ∈ b, 0 ≤ c.1 ∧ c.1 < (pb.height : Int) ∧ 0 ≤ c.2 ∧ c.2 < (pb.width : Int)) ∧
  pb.blocks.flatten.Nodup ∧
  (∀ y x : Nat, y < pb.height → x < pb.width → ((y : Int), (x : Int)) ∈ pb.blocks.flatten)

/-- The shaded cells of the region `b` under the grid `g`. -/
def shadedIn (g : Nat → Nat → Bool) (b : List (Int × Int)) : Set (Nat × Nat) :=
  {p | ((p.1 : Int), (p.2 : Int)) ∈ b ∧ g p.1 p.2 = true}

/-- Rule 1 for one region: exactly four cells, orthogonally connected. -/
def IsTetromino (S : Set (Nat × Nat)) : Prop :=
  S.ncard = 4 ∧ (cellGraph.induce S).Preconnected

/-- Rule 3: no 2 × 2 block of cells of the board is entirely shaded. -/
def NoSquare (pb : Problem) (g : Nat → Nat → Bool) : Prop :=
  ∀ y x, y + 1 < pb.height → x + 1 < pb.width →
    ¬ (g y x = true ∧ g y (x + 1) = true ∧ g (y + 1) x = true ∧ g (y + 1) (x + 1) = true)

/-! ### "the same shape", geometrically -/

/-- The eight symmetries of the square lattice that fix the origin: optionally exchange the two coordinates,
then optionally negate each of them. -/
def latticeSym (swap negY negX : Bool) (p : Int × Int) : Int × Int :=
  let q : Int × Int := if swap then (p.2, p.1) else p
  (if negY then -q.1 else q.1, if negX then -q.2 else q.2)

/-- Two sets of cells have the same shape: a lattice symmetry followed by a translation maps `A` onto `B`
(rotations and reflections count as the same shape). -/
def SameShape (A B : Set (Nat × Nat)) : Prop :=
  ∃ (swap negY negX : Bool) (t : Int × Int),
    (fun p : Nat × Nat =>
        ((latticeSym swap negY negX ((p.1 : Int), (p.2 : Int))).1 + t.1,
         (latticeSym swap negY negX ((p.1 : Int), (p.2 : Int))).2 + t.2)) '' A
      = (fun p : Nat × Nat => ((p.1 : Int), (p.2 : Int))) '' B

/-! ### "the same shape", through the code of a tetromino -/

/-- `p` is a cell of `S` whose two vertical or whose two horizontal neighbours are cells of `S`. -/
def StraightMid (S : Set (Nat × Nat)) (p : Nat × Nat) : Prop :=
  p ∈ S ∧ ((1 ≤ p.1 ∧ (p.1 - 1, p.2) ∈ S ∧ (p.1 + 1, p.2) ∈ S) ∨
           (1 ≤ p.2 ∧ (p.1, p.2 - 1) ∈ S ∧ (p.1, p.2 + 1) ∈ S))

/-- Number of cells of `S` that are the middle of a straight triple of cells of `S`. -/
noncomputable def straightCount (S : Set (Nat × Nat)) : Nat := {p | StraightMid S p}.ncard

/-- Some cell of `S` has (at least) three orthogonal neighbours in `S`. -/
def HasT (S : Set (Nat × Nat)) : Prop :=
  ∃ p ∈ S, 3 ≤ {q | q ∈ S ∧ cellGraph.Adj p q}.ncard

/-- The two sets have the same code. -/
def SameCode (A B : Set (Nat × Nat)) : Prop :=
  straightCount A = straightCount B ∧ (HasT A ↔ HasT B)

/-! ### the rules -/

/-- The rules on a grid (`g y x = true` iff cell `(y, x)` is shaded), for a given reading `Same` of "the two
tetrominoes have the same shape". -/
def RulesGridWith (Same : Set (Nat × Nat) → Set (Nat × Nat) → Prop) (pb : Problem) (g : Nat → Nat → Bool) : Prop :=
  -- 1. every region holds a tetromino
  (∀ b ∈ pb.blocks, IsTetromino (shadedIn g b)) ∧
  -- 2. all shaded cells are connected
  CellsConnected pb.height pb.width (fun y x => g y x = true) ∧
  -- 3. no 2 × 2 block is entirely shaded
  NoSquare pb g ∧
  -- 4. tetrominoes of different regions that share an edge do not have the same shape
  (∀ (i j : Nat) (bi bj : List (Int × Int)), pb.blocks[i]? = some bi → pb.blocks[j]? = some bj → i ≠ j →
    ∀ p ∈ shadedIn g bi, ∀ q ∈ shadedIn g bj, cellGraph.Adj p q →
      ¬ Same (shadedIn g bi) (shadedIn g bj))

/-- The rules, rule 4 read geometrically. -/
def RulesGrid (pb : Problem) (g : Nat → Nat → Bool) : Prop := RulesGridWith SameShape pb g

/-- The rules, rule 4 read through the code of a tetromino. -/
def RulesGridCode (pb : Problem) (g : Nat → Nat → Bool) : Prop := RulesGridWith SameCode pb g

/-- The rules on the answer list. -/
def Rules (pb : Problem) (answer : List Val) : Prop :=
  ∃ g : Nat → Nat → Bool, answer = boolGrid pb.height pb.width g ∧ RulesGrid pb g

/-- The rules on the answer list, code reading of rule 4. -/
def RulesCode (pb : Problem) (answer : List Val) : Prop :=
  ∃ g : Nat → Nat → Bool, answer = boolGrid pb.height pb.width g ∧ RulesGridCode pb g

end Cspuz.Spec.Lits
