/-
  SPEC - the published rules of Simple Loop (puzz.link `simpleloop`), written from the rule text, independently
  of how `solve_simpleloop` encodes them.

  Board: `height × width` cells; `blocked[y][x] ≠ 0` marks a blocked (black) cell; `pivot = (py, px)` is a cell.
  Answer: one Boolean per step between orthogonally adjacent cells: the lattice of Spec/PuzzleRules/LoopAnswer.lean
  with the cells as lattice points (`H = height - 1`, `W = width - 1`).

  Rules:
   1. The steps drawn form a single closed loop through cell centres, without branching or crossing; no cell is
      visited twice.  READING (library convention): "no line at all" also counts as a loop.
   2. The loop passes through every white cell and through no blocked cell.

  READING (pivot): `solve_simpleloop` never reads `blocked[py][px]`.  In the module's problem format the pivot is the
  cell whose colour is DERIVED: `generate_simpleloop` overwrites it with `1 - num_pass % 2`, `num_pass` = number of
  white cells other than the pivot - the pivot is white iff that number is odd (a loop on a square grid has even
  length).  The instance decided is the board with this derived colour (`white` below); on a *consistent* instance
  (`Consistent`: the table already holds the derived colour) this is just the table.
-/
import CspuzModel.Model.Puzzles.Simpleloop
import CspuzModel.Spec.PuzzleRules.LoopAnswer
namespace Cspuz.Spec.Simpleloop
open Cspuz Cspuz.Spec Cspuz.Spec.FrameGeom Cspuz.Spec.Loop Cspuz.Puzzles.Simpleloop

/-- The table says cell `(y, x)` is white (`blocked[y][x] == 0`; missing entries read as blocked). -/
def tableWhite (pb : Problem) (y x : Nat) : Bool := (pb.blocked.getD y []).getD x 1 == 0

/-- `(y, x)` is the pivot cell. -/
def isPivot (pb : Problem) (y x : Nat) : Bool := ((y : Int), (x : Int)) == pb.pivot

/-- Number of white cells other than the pivot. -/
def othersWhite (pb : Problem) : Nat :=
  ((List.range pb.height).flatMap fun y => (List.range pb.width).map fun x => (y, x)).countP
    fun p => !isPivot pb p.1 p.2 && tableWhite pb p.1 p.2

/-- The colour of a cell on the board that is decided (READING (pivot) above). -/
def white (pb : Problem) (y x : Nat) : Bool :=
  if isPivot pb y x then othersWhite pb % 2 == 1 else tableWhite pb y x

/-- The table already holds the derived colour of the pivot. -/
def Consistent (pb : Problem) : Prop :=
  ∀ y, y < pb.height → ∀ x, x < pb.width → isPivot pb y x = true → tableWhite pb y x = (othersWhite pb % 2 == 1)

/-- A well-formed instance: a non-empty board, a `height × width` table, the pivot is a cell of the board. -/
def WellFormed (pb : Problem) : Prop :=
  1 ≤ pb.height ∧ 1 ≤ pb.width ∧
  pb.blocked.length = pb.height ∧ (∀ row ∈ pb.blocked, row.length = pb.width) ∧
  0 ≤ pb.pivot.1 ∧ pb.pivot.1 < pb.height ∧ 0 ≤ pb.pivot.2 ∧ pb.pivot.2 < pb.width

/-- The rules on the set of drawn steps. -/
def RulesOn (pb : Problem) (on : Seg → Bool) : Prop :=
  -- 1. one loop (or nothing)
  IsLoop (pb.height - 1) (pb.width - 1) on ∧
  -- 2. exactly the white cells are visited
  (∀ y, y < pb.height → ∀ x, x < pb.width →
    onLoop (pb.height - 1) (pb.width - 1) on (y, x) = white pb y x)

/-- The rules on the answer list. -/
def Rules (pb : Problem) (answer : List Val) : Prop :=
  ∃ on : Seg → Bool, answer = segAnswer (pb.height - 1) (pb.width - 1) on ∧ RulesOn pb on

end Cspuz.Spec.Simpleloop
