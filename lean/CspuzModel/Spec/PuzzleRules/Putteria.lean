/-
  SPEC (C11, putteria): the published rules of Putteria on the answer grid, independent of the encoding.

  Rule text (puzz.link): "1. Write a number into exactly one cell of every room.  2. The number written into
  a room equals the size (number of cells) of that room.  3. Equal numbers do not appear twice in the same
  row or in the same column.  4. Cells holding numbers are not orthogonally adjacent."
  (The problem format of `solve_putteria` has no crossed-out cells and no pre-filled numbers.)

  The answer is the Boolean grid "cell holds a number"; which number it is follows from rule 2.
-/
import CspuzModel.Model.Puzzles.Putteria
import CspuzModel.Spec.PuzzleRules.GridAnswer
namespace Cspuz.Puzzles.Putteria
open Cspuz Cspuz.Spec

/-- A well-formed instance: the rooms partition the `height × width` board — every listed cell `(y, x)` is a
cell of the board, no cell is listed twice (neither inside a room nor in two rooms), and every cell of the
board is listed.  `height = 0` / `width = 0` are allowed (then there are no cells). -/
def WellFormed (pb : Problem) : Prop :=
  (∀ p ∈ pb.blocks.flatten, 0 ≤ p.1 ∧ p.1 < (pb.height : Int) ∧ 0 ≤ p.2 ∧ p.2 < (pb.width : Int)) ∧
  pb.blocks.flatten.Nodup ∧
  (∀ y x : Nat, y < pb.height → x < pb.width → ((y : Int), (x : Int)) ∈ pb.blocks.flatten)

/-- Cell `p = (y, x)` of the board holds a number in the grid `g`. -/
def numbered (g : Nat → Nat → Bool) (p : Int × Int) : Bool := g p.1.toNat p.2.toNat

/-- The rules of Putteria on the Boolean grid `g` (`g y x` = "cell `(y, x)` holds a number"). -/
def GridRules (pb : Problem) (g : Nat → Nat → Bool) : Prop :=
  -- (1) every room contains exactly one numbered cell
  (∀ b ∈ pb.blocks, b.countP (numbered g) = 1) ∧
  -- (2) the number written in a room is the size `b.length` of the room `b`; hence
  -- (3) two different numbered cells in one row or in one column do not carry the same number:
  --     they lie in rooms of different sizes (in particular not in the same room)
  (∀ b₁ ∈ pb.blocks, ∀ b₂ ∈ pb.blocks, ∀ p ∈ b₁, ∀ q ∈ b₂, p ≠ q → numbered g p = true → numbered g q = true →
    (p.1 = q.1 ∨ p.2 = q.2) → b₁.length ≠ b₂.length) ∧
  -- (4) numbered cells are not orthogonally adjacent: horizontally …
  (∀ y x : Nat, y < pb.height → x + 1 < pb.width → ¬ (g y x = true ∧ g y (x + 1) = true)) ∧
  --     … and vertically
  (∀ y x : Nat, y + 1 < pb.height → x < pb.width → ¬ (g y x = true ∧ g (y + 1) x = true))

/-- The rules for the answer list `a` (aligned with the answer keys): the row-major listing of a grid obeying
the rules. -/
def Rules (pb : Problem) (a : List Val) : Prop :=
  ∃ g : Nat → Nat → Bool, a = boolGrid pb.height pb.width g ∧ GridRules pb g

end Cspuz.Puzzles.Putteria
