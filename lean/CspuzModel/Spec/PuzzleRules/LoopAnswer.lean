/-
  SPEC vocabulary shared by the rule specifications of the loop puzzles (slitherlink, simpleloop, masyu,
  geradeweg, yajilin): the answer is one Boolean per unit segment of a lattice of `(H+1) × (W+1)` points
  ("the segment is part of the line"), listed in the library's frame order - all horizontal segments row by row,
  then all vertical segments row by row (`FrameGeom.allSegs`, written from the picture of the lattice).

  For Slitherlink on a `height × width` board the lattice points are the corners of the cells (`H = height`,
  `W = width`).  For the puzzles whose loop runs through the centres of the cells of a `height × width` board the
  lattice points ARE the cells (`H = height - 1`, `W = width - 1`, point `(y, x)` = cell `(y, x)`), and a segment is one
  step from a cell to a neighbouring cell.

  "A single loop": `Spec.SingleCycle` (Spec/GraphSpec2.lean) on the lattice graph - the segments on the line, taken
  in a suitable cyclic order, join a cyclic sequence of pairwise DIFFERENT points (so the line closes up, never
  branches, never touches or crosses itself), and no other segment is on the line.
  LIBRARY CONVENTION (documented for `active_edges_single_cycle`, part of the property text): "no line at all" also
  counts as a loop; it is the first alternative of `SingleCycle`.
-/
import CspuzModel.Spec.GraphSpec2
import CspuzModel.Spec.FrameGeom
import CspuzModel.Model.Expr
namespace Cspuz.Spec.Loop
open Cspuz Cspuz.Spec Cspuz.Spec.FrameGeom

/-- The answer list that says "segment `s` is on the line iff `on s`". -/
def segAnswer (H W : Nat) (on : Seg → Bool) : List Val := (allSegs H W).map fun s => Val.b (on s)

/-- The lattice as a graph: points numbered row by row, one edge per segment, in the order of the answer list. -/
def latticeGraph (H W : Nat) : Graph :=
  { n := (H + 1) * (W + 1),
    edges := (allSegs H W).map fun s => (ptIndex W s.ends.1, ptIndex W s.ends.2) }

/-- Is the `k`-th segment (in answer order) on the line? -/
def segActive (H W : Nat) (on : Seg → Bool) (k : Nat) : Bool :=
  match (allSegs H W)[k]? with
  | some s => on s
  | none => false

/-- The segments on the line form one single loop - or there is no line at all (library convention). -/
def IsLoop (H W : Nat) (on : Seg → Bool) : Prop := SingleCycle (latticeGraph H W) (segActive H W on)

/-- The line passes through the lattice point `p`: one of the (up to four) segments ending in `p` is on the line. -/
def onLoop (H W : Nat) (on : Seg → Bool) (p : Pt) : Bool := (pointSegs H W p.1 p.2).any on

end Cspuz.Spec.Loop

namespace Cspuz.Spec.Loop
open Cspuz Cspuz.Spec Cspuz.Spec.FrameGeom

/-! ### The line seen from a lattice point (for the puzzles whose clues talk about going straight / turning) -/

/-- The four directions in which a line can leave a lattice point. -/
inductive Dir
  | up | down | left | right
  deriving DecidableEq, Repr, Inhabited

/-- The line leaves the point `p` in direction `d`: the unit segment from `p` to its neighbour in that direction
exists in the lattice and is on the line. -/
def arm (H W : Nat) (on : Seg → Bool) (p : Pt) : Dir → Bool
  | .up => decide (0 < p.1) && on (Seg.v (p.1 - 1) p.2)
  | .down => decide (p.1 < H) && on (Seg.v p.1 p.2)
  | .left => decide (0 < p.2) && on (Seg.h p.1 (p.2 - 1))
  | .right => decide (p.2 < W) && on (Seg.h p.1 p.2)

/-- The neighbouring point in direction `d` (meaningful when the segment in that direction exists). -/
def nb (p : Pt) : Dir → Pt
  | .up => (p.1 - 1, p.2)
  | .down => (p.1 + 1, p.2)
  | .left => (p.1, p.2 - 1)
  | .right => (p.1, p.2 + 1)

/-- The line goes straight through `p`: it leaves `p` in two opposite directions. -/
def straight (H W : Nat) (on : Seg → Bool) (p : Pt) : Bool :=
  (arm H W on p .left && arm H W on p .right) || (arm H W on p .up && arm H W on p .down)

/-- The line turns in `p`: it leaves `p` in a horizontal and in a vertical direction. -/
def turn (H W : Nat) (on : Seg → Bool) (p : Pt) : Bool :=
  (arm H W on p .left || arm H W on p .right) && (arm H W on p .up || arm H W on p .down)

end Cspuz.Spec.Loop
