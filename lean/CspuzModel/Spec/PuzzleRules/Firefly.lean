/-
  SPEC - the published rules of Hotaru Beam / Firefly (puzz.link `firefly`; pzprjs answer checks: branch line,
  cross line, dot-to-dot connection, wrong number of turns, dead-end line, not all connected, firefly without a
  line), written from the rule text, independently of how `solve_firefly` encodes them.

  Board: `height × width` cells; the cells are the points of the lattice of Spec/PuzzleRules/LoopAnswer.lean
  (`H = height - 1`, `W = width - 1`).  An entry of the problem table is empty or a firefly: a circle with a black
  dot on one of its four sides (up / down / left / right), optionally with a number.
  Answer: one Boolean per step between orthogonally adjacent cells ("the step is drawn").

  Rules:
   1. From the black dot of EVERY firefly a line runs from cell to cell until it reaches a firefly (another one or
      the same one).  The cells it passes through on the way are empty.
   2. Lines never branch, never cross and never end in mid-air: an empty cell has no or exactly two drawn steps, and a
      line passes through it from one of them to the other.
   3. A line does not arrive at a firefly on the side that carries this firefly's dot (no dot-to-dot connection).
      Several lines may end at one firefly.
   4. A number in a firefly is the number of 90-degree turns of the line that starts at its dot.
   5. Nothing else is drawn: every drawn step belongs to the line of some firefly.
   6. All fireflies are connected to each other through the lines ("A's line ends at B" links A and B).

  READING: a board without any firefly is not an instance of this puzzle (`WellFormed` demands one); the module
  accepts the empty drawing and any single closed loop there (and nothing on the 1 × 1 board).
-/
import CspuzModel.Model.Puzzles.Firefly
import CspuzModel.Spec.PuzzleRules.LoopAnswer
namespace Cspuz.Spec.Firefly
open Cspuz Cspuz.Spec Cspuz.Spec.FrameGeom Cspuz.Spec.Loop
open Cspuz.Puzzles.Firefly (Problem Clue Num)

/-- The side of the dot as a direction of the lattice. -/
def ld : Puzzles.Firefly.Dir → Dir
  | .up => .up | .down => .down | .left => .left | .right => .right

/-- The entry of the problem table (entries that do not exist read as "empty"; a well-formed problem has them
all). -/
def clue (pb : Problem) (y x : Nat) : Clue := (pb.problem.getD y []).getD x .empty

/-- The firefly in the cell `p`: the side of its dot and its number (if it has one). -/
def firefly (pb : Problem) (p : Pt) : Option (Dir × Option Int) :=
  match clue pb p.1 p.2 with
  | .fly (some d) .unknown => some (ld d, none)
  | .fly (some d) (.num n) => some (ld d, some n)
  | _ => none

/-- A well-formed instance: a non-empty board, a `height × width` table whose entries are empty cells or fireflies
with a proper dot side and a number or "?", and at least one firefly. -/
def WellFormed (pb : Problem) : Prop :=
  1 ≤ pb.height ∧ 1 ≤ pb.width ∧ pb.problem.length = pb.height ∧ (∀ row ∈ pb.problem, row.length = pb.width) ∧
  (∀ y, y < pb.height → ∀ x, x < pb.width →
    clue pb y x = .empty ∨ (∃ d, clue pb y x = .fly (some d) .unknown) ∨ ∃ d n, clue pb y x = .fly (some d) (.num n)) ∧
  ∃ y, y < pb.height ∧ ∃ x, x < pb.width ∧ (firefly pb (y, x)).isSome = true

def opp : Dir → Dir
  | .up => .down | .down => .up | .left => .right | .right => .left

/-- The step from the cell `p` in direction `d`, as a segment of the lattice. -/
def segOf (p : Pt) : Dir → Seg
  | .up => Seg.v (p.1 - 1) p.2
  | .down => Seg.v p.1 p.2
  | .left => Seg.h p.1 (p.2 - 1)
  | .right => Seg.h p.1 p.2

/-- Number of drawn steps at the cell `p`. -/
def armCount (H W : Nat) (on : Seg → Bool) (p : Pt) : Nat :=
  ([Dir.up, Dir.down, Dir.left, Dir.right].filter fun d => arm H W on p d).length

/-- The steps of the walk that starts in `p` and follows the directions. -/
def steps (p : Pt) : List Dir → List (Pt × Dir)
  | [] => []
  | d :: r => (p, d) :: steps (nb p d) r

/-- The cell where the walk ends. -/
def walk (p : Pt) : List Dir → Pt
  | [] => p
  | d :: r => walk (nb p d) r

/-- Number of 90-degree turns of a sequence of steps. -/
def bends : List Dir → Nat
  | a :: b :: r => (if a = b then 0 else 1) + bends (b :: r)
  | _ => 0

/-- The line has just entered the cell `p` by a step in direction `prev` and goes on with the steps `ds`:
either it has arrived (`ds = []`): `p` holds a firefly whose dot is not on the side of arrival (rule 3); or it passes
through the empty cell `p`, which has exactly two drawn steps (rule 2), and leaves it by the drawn step `d` that is
not the one it came by. -/
def Follows (pb : Problem) (on : Seg → Bool) : Pt → Dir → List Dir → Prop
  | p, prev, [] => ∃ d n, firefly pb p = some (d, n) ∧ d ≠ opp prev
  | p, prev, d :: r =>
    firefly pb p = none ∧ armCount (pb.height - 1) (pb.width - 1) on p = 2 ∧ d ≠ opp prev ∧
      arm (pb.height - 1) (pb.width - 1) on p d = true ∧ Follows pb on (nb p d) d r

/-- `d :: ds` are the steps of the line of the firefly in `p` whose dot is on the side `d` (rule 1). -/
def IsLine (pb : Problem) (on : Seg → Bool) (p : Pt) (d : Dir) (ds : List Dir) : Prop :=
  arm (pb.height - 1) (pb.width - 1) on p d = true ∧ Follows pb on (nb p d) d ds

/-- The line of the firefly in `p` ends at the firefly in `q`. -/
def EndsAt (pb : Problem) (on : Seg → Bool) (p q : Pt) : Prop :=
  ∃ d n ds, firefly pb p = some (d, n) ∧ IsLine pb on p d ds ∧ walk p (d :: ds) = q

/-- Two fireflies are linked: one gets from `p` to `q` by repeatedly going from a firefly to the firefly where its
line ends, or backwards. -/
inductive Linked (pb : Problem) (on : Seg → Bool) : Pt → Pt → Prop
  | refl (p : Pt) : Linked pb on p p
  | step {p q r : Pt} : Linked pb on p q → (EndsAt pb on q r ∨ EndsAt pb on r q) → Linked pb on p r

/-- The rules on the set of drawn steps. -/
structure RulesOn (pb : Problem) (on : Seg → Bool) : Prop where
  /-- 2. no dead end, branch or crossing in an empty cell -/
  noBranch : ∀ y, y < pb.height → ∀ x, x < pb.width → firefly pb (y, x) = none →
    armCount (pb.height - 1) (pb.width - 1) on (y, x) = 0 ∨ armCount (pb.height - 1) (pb.width - 1) on (y, x) = 2
  /-- 1., 3., 4. every firefly has its line, with the right number of turns -/
  lines : ∀ y, y < pb.height → ∀ x, x < pb.width → ∀ d n, firefly pb (y, x) = some (d, n) →
    ∃ ds, IsLine pb on (y, x) d ds ∧ ∀ k, n = some k → ((bends (d :: ds) : Nat) : Int) = k
  /-- 5. every drawn step belongs to the line of a firefly -/
  covered : ∀ s : Seg, s.Valid (pb.height - 1) (pb.width - 1) → on s = true →
    ∃ p d n ds, firefly pb p = some (d, n) ∧ IsLine pb on p d ds ∧
      s ∈ (steps p (d :: ds)).map fun st => segOf st.1 st.2
  /-- 6. all fireflies are linked -/
  connected : ∀ p q : Pt, (firefly pb p).isSome = true → (firefly pb q).isSome = true →
    p.1 < pb.height → p.2 < pb.width → q.1 < pb.height → q.2 < pb.width → Linked pb on p q

/-- The rules on the answer list. -/
def Rules (pb : Problem) (answer : List Val) : Prop :=
  ∃ on : Seg → Bool, answer = segAnswer (pb.height - 1) (pb.width - 1) on ∧ RulesOn pb on

end Cspuz.Spec.Firefly
