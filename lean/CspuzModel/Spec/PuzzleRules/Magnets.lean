/-
  SPEC (C11, magnets): the published rules of Magnets on the answer, independent of the encoding.

  Rule text (Janko "Magnete" / puzz.link-style statement): "The board is divided into domino-shaped plates.
  Every plate is either a magnet — one half is the positive pole (+), the other half the negative pole (−) —
  or it is left blank (both halves empty).  Two halves of the same polarity are never orthogonally adjacent.
  The numbers outside the grid give the number of + halves and the number of − halves in each row and each
  column (no number = no constraint)."
-/
import CspuzModel.Model.Puzzles.Magnets
import CspuzModel.Spec.PuzzleRules.GridAnswer
namespace Cspuz.Puzzles.Magnets
open Cspuz Cspuz.Spec

/-- `to_right[y][x]`: cells `(y, x)` and `(y, x+1)` form a plate. -/
def right (pb : Problem) (y x : Nat) : Bool := ((pb.toRight[y]?).getD [])[x]?.getD false

/-- `to_down[y][x]`: cells `(y, x)` and `(y+1, x)` form a plate. -/
def down (pb : Problem) (y x : Nat) : Bool := ((pb.toDown[y]?).getD [])[x]?.getD false

/-- Entry `k` (0 = number of +, 1 = number of −) of the clue pair of line `i`; negative = no clue. -/
def clue (t : List (List Int)) (i k : Nat) : Int := ((t[i]?).getD [])[k]?.getD (-1)

/-- The tables have the dimensions of the board (clue tables: one pair per line) and no plate sticks out of the
board. -/
def Shaped (pb : Problem) : Prop :=
  pb.toRight.length = pb.height ∧ (∀ row ∈ pb.toRight, row.length = pb.width) ∧
  pb.toDown.length = pb.height ∧ (∀ row ∈ pb.toDown, row.length = pb.width) ∧
  pb.condRow.length = pb.height ∧ (∀ r ∈ pb.condRow, r.length = 2) ∧
  pb.condCol.length = pb.width ∧ (∀ r ∈ pb.condCol, r.length = 2) ∧
  (∀ y x, y < pb.height → x < pb.width → right pb y x = true → x + 1 < pb.width) ∧
  (∀ y x, y < pb.height → x < pb.width → down pb y x = true → y + 1 < pb.height)

/-- The number of plates cell `(y, x)` belongs to. -/
def cover (pb : Problem) (y x : Nat) : Nat :=
  (if right pb y x = true then 1 else 0) + (if 0 < x ∧ right pb y (x - 1) = true then 1 else 0) +
  (if down pb y x = true then 1 else 0) + (if 0 < y ∧ down pb (y - 1) x = true then 1 else 0)

/-- A well-formed instance: well-shaped tables, and the plates tile the board — every cell lies in exactly one
plate.  (Any board size; clue values are arbitrary integers, negative = no clue.) -/
def WellFormed (pb : Problem) : Prop :=
  Shaped pb ∧ ∀ y x, y < pb.height → x < pb.width → cover pb y x = 1

/-- The state of one half (cell). -/
inductive Pole
  | blank | plus | minus
  deriving DecidableEq, Repr

/-- A plate with halves `a`, `b` is blank or a magnet. -/
def PlateOk (a b : Pole) : Prop :=
  (a = .blank ∧ b = .blank) ∨ (a = .plus ∧ b = .minus) ∨ (a = .minus ∧ b = .plus)

/-- Two different cells share a side. -/
def Adjacent (y x y' x' : Nat) : Prop :=
  (y = y' ∧ (x + 1 = x' ∨ x' + 1 = x)) ∨ (x = x' ∧ (y + 1 = y' ∨ y' + 1 = y))

/-- The rules of Magnets on the grid of cell states `s`. -/
def GridRules (pb : Problem) (s : Nat → Nat → Pole) : Prop :=
  let h := pb.height
  let w := pb.width
  -- every plate is blank or a magnet
  (∀ y x, y < h → x < w → right pb y x = true → PlateOk (s y x) (s y (x + 1))) ∧
  (∀ y x, y < h → x < w → down pb y x = true → PlateOk (s y x) (s (y + 1) x)) ∧
  -- equal poles are never orthogonally adjacent
  (∀ y x y' x', y < h → x < w → y' < h → x' < w → Adjacent y x y' x' → s y x ≠ .blank → s y x ≠ s y' x') ∧
  -- row clues: number of + and number of −
  (∀ y, y < h → 0 ≤ clue pb.condRow y 0 →
    (((List.range w).countP fun x => decide (s y x = .plus) : Nat) : Int) = clue pb.condRow y 0) ∧
  (∀ y, y < h → 0 ≤ clue pb.condRow y 1 →
    (((List.range w).countP fun x => decide (s y x = .minus) : Nat) : Int) = clue pb.condRow y 1) ∧
  -- column clues
  (∀ x, x < w → 0 ≤ clue pb.condCol x 0 →
    (((List.range h).countP fun y => decide (s y x = .plus) : Nat) : Int) = clue pb.condCol x 0) ∧
  (∀ x, x < w → 0 ≤ clue pb.condCol x 1 →
    (((List.range h).countP fun y => decide (s y x = .minus) : Nat) : Int) = clue pb.condCol x 1)

/-- The rules for the answer list `a` (aligned with the answer keys: the `plus` grid row-major, then the `minus`
grid row-major): the "is +" listing followed by the "is −" listing of a grid of cell states obeying the rules.
(A cell that lies in no plate — impossible in a well-formed instance — carries no plate rule.) -/
def Rules (pb : Problem) (a : List Val) : Prop :=
  ∃ s : Nat → Nat → Pole,
    a = boolGrid pb.height pb.width (fun y x => decide (s y x = .plus)) ++
        boolGrid pb.height pb.width (fun y x => decide (s y x = .minus)) ∧
    GridRules pb s

end Cspuz.Puzzles.Magnets
