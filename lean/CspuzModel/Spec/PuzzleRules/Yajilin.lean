/-
  SPEC - the published rules of Yajilin (Nikoli; puzz.link `yajilin`), written from the rule text, independently
  of how `solve_yajilin` encodes them.

  Board: `height × width` cells; an entry of the problem table is ".." (empty cell), "??" (a clue cell whose arrow
  and number are not given) or an arrow (up / down / left / right) with a number.
  Answer: one Boolean per step between orthogonally adjacent cells (the lattice of
  Spec/PuzzleRules/LoopAnswer.lean with the cells as lattice points, `H = height - 1`, `W = width - 1`), followed by
  one Boolean per cell, row-major ("the cell is shaded").

  Rules:
   1. Some cells are shaded; clue cells are never shaded; no two shaded cells are orthogonally adjacent.
   2. The steps drawn form a single closed loop through cell centres, without branching or crossing; it passes
      through every cell that is neither shaded nor a clue cell, exactly once, and through no other cell.
      READING (library convention): "no line at all" also counts as a loop (then every non-clue cell is shaded).
   3. An arrow clue with the number `n`: exactly `n` shaded cells lie in the direction of the arrow between the clue
      cell and the edge of the board.
-/
import CspuzModel.Model.Puzzles.Yajilin
import CspuzModel.Spec.PuzzleRules.LoopAnswer
import CspuzModel.Spec.PuzzleRules.GridAnswer
namespace Cspuz.Spec.Yajilin
open Cspuz Cspuz.Spec Cspuz.Spec.FrameGeom Cspuz.Spec.Loop Cspuz.Puzzles.Yajilin

/-- The entry of the problem table (entries that do not exist read as "empty"; a well-formed problem has them
all). -/
def clue (pb : Problem) (y x : Nat) : Clue := (pb.problem.getD y []).getD x .empty

/-- A well-formed instance: a non-empty board and a `height × width` table. -/
def WellFormed (pb : Problem) : Prop :=
  1 ≤ pb.height ∧ 1 ≤ pb.width ∧ pb.problem.length = pb.height ∧ ∀ row ∈ pb.problem, row.length = pb.width

/-- Number of shaded cells seen from `(y, x)` in direction `d`, up to the edge of the board. -/
def seen (pb : Problem) (sh : Nat → Nat → Bool) (y x : Nat) : Puzzles.Yajilin.Dir → Nat
  | .up => (List.range y).countP fun r => sh r x
  | .down => (List.range (pb.height - (y + 1))).countP fun j => sh (y + 1 + j) x
  | .left => (List.range x).countP fun c => sh y c
  | .right => (List.range (pb.width - (x + 1))).countP fun j => sh y (x + 1 + j)

/-- The rules on the drawn steps `on` and the shading `sh`. -/
def RulesOn (pb : Problem) (on : Seg → Bool) (sh : Nat → Nat → Bool) : Prop :=
  -- 2. one loop (or nothing) ...
  IsLoop (pb.height - 1) (pb.width - 1) on ∧
  -- 1. no two shaded cells next to each other
  (∀ y, y < pb.height → ∀ x, x < pb.width → sh y x = true →
    (y + 1 < pb.height → sh (y + 1) x = false) ∧ (x + 1 < pb.width → sh y (x + 1) = false)) ∧
  (∀ y, y < pb.height → ∀ x, x < pb.width →
    match clue pb y x with
    -- 2. ... through exactly the empty cells that are not shaded
    | .empty => onLoop (pb.height - 1) (pb.width - 1) on (y, x) = !sh y x
    -- 1./2. clue cells: not shaded, not on the loop
    | .unknown => onLoop (pb.height - 1) (pb.width - 1) on (y, x) = false ∧ sh y x = false
    -- 3. arrow clues
    | .arrow d n => onLoop (pb.height - 1) (pb.width - 1) on (y, x) = false ∧ sh y x = false ∧
        ((seen pb sh y x d : Nat) : Int) = n)

/-- The rules on the answer list. -/
def Rules (pb : Problem) (answer : List Val) : Prop :=
  ∃ (on : Seg → Bool) (sh : Nat → Nat → Bool),
    answer = segAnswer (pb.height - 1) (pb.width - 1) on ++ boolGrid pb.height pb.width sh ∧ RulesOn pb on sh

end Cspuz.Spec.Yajilin
