/-
  SPEC — the published rules of Gokigen Naname / Slant (Nikoli; puzz.link `gokigen`), written from the rule
  text, independently of how `solve_gokigen` encodes them.

  Board: `height × width` cells; the clues sit on the `(height+1) × (width+1)` lattice points (cell corners):
  `problem[y][x]` is the number written at the lattice point `(y, x)`, a negative entry means "no number".
  Answer: one Boolean per cell, row-major; `true` = the diagonal `\` (it joins the lattice points `(y, x)` and
  `(y+1, x+1)`), `false` = the diagonal `/` (it joins `(y, x+1)` and `(y+1, x)`).

  Rules:
   1. Every cell is filled with one of its two diagonals.  (This is the answer format.)
   2. A number at a lattice point is the number of diagonals that touch this point.
   3. The diagonals do not form a closed loop.
-/
import CspuzModel.Model.Puzzles.Gokigen
import CspuzModel.Spec.PuzzleRules.GridAnswer
import CspuzModel.Spec.GraphSpec
namespace Cspuz.Spec.Gokigen
open Cspuz Cspuz.Spec Cspuz.Puzzles.Gokigen

/-- The entry of the clue table (rows / entries that do not exist read as "no number"; a well-formed problem
has them all). -/
def val (pb : Problem) (y x : Nat) : Int := (pb.problem.getD y []).getD x (-1)

/-- A well-formed instance: a `(height+1) × (width+1)` table (any integers; negative = no number). -/
def WellFormed (pb : Problem) : Prop :=
  pb.problem.length = pb.height + 1 ∧ ∀ row ∈ pb.problem, row.length = pb.width + 1

/-- The diagonal drawn in some cell of the board joins the lattice point `p` (its upper end) to the lattice
point `q` (its lower end). -/
def Diagonal (h w : Nat) (g : Nat → Nat → Bool) (p q : Nat × Nat) : Prop :=
  ∃ y x, y < h ∧ x < w ∧
    ((g y x = true ∧ p = (y, x) ∧ q = (y + 1, x + 1)) ∨ (g y x = false ∧ p = (y, x + 1) ∧ q = (y + 1, x)))

/-- The graph drawn on the lattice points: two points are adjacent iff a diagonal joins them.  (Two different
cells never join the same pair of points, so "no closed loop" is acyclicity of this simple graph.) -/
def drawn (h w : Nat) (g : Nat → Nat → Bool) : SimpleGraph (Nat × Nat) := SimpleGraph.fromRel (Diagonal h w g)

/-- Number of diagonals touching the lattice point `(y, x)`: of the (up to four) cells around the point, the
upper-left and the lower-right one touch it with `\`, the upper-right and the lower-left one with `/`. -/
def touching (pb : Problem) (g : Nat → Nat → Bool) (y x : Nat) : Nat :=
  (if 0 < y ∧ 0 < x ∧ g (y - 1) (x - 1) = true then 1 else 0) +
  (if 0 < y ∧ x < pb.width ∧ g (y - 1) x = false then 1 else 0) +
  (if y < pb.height ∧ 0 < x ∧ g y (x - 1) = false then 1 else 0) +
  (if y < pb.height ∧ x < pb.width ∧ g y x = true then 1 else 0)

/-- The rules on a grid of diagonals. -/
def RulesGrid (pb : Problem) (g : Nat → Nat → Bool) : Prop :=
  -- 3. no closed loop
  (drawn pb.height pb.width g).IsAcyclic ∧
  -- 2. numbered lattice points
  (∀ y, y ≤ pb.height → ∀ x, x ≤ pb.width → 0 ≤ val pb y x → (touching pb g y x : Int) = val pb y x)

/-- The rules on the answer list. -/
def Rules (pb : Problem) (answer : List Val) : Prop :=
  ∃ g : Nat → Nat → Bool, answer = boolGrid pb.height pb.width g ∧ RulesGrid pb g

end Cspuz.Spec.Gokigen
