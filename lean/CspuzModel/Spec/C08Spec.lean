/-
  SPEC for C08: non-adjacency, "not segmenting", and the diagonal-forest reformulation used by the
  specialised grid encoding.
-/
import CspuzModel.Spec.GraphSpec
import CspuzModel.Spec.Certs
namespace Cspuz.Spec
open Cspuz

/-- No edge of the multigraph has both endpoints active. -/
def NoAdjacentActive (g : Graph) (act : Nat → Bool) : Prop :=
  ∀ e ∈ g.edges, ¬ (act e.1 = true ∧ act e.2 = true)

/-- The definition of `active_vertices_not_adjacent_and_not_segmenting`: no two adjacent active
vertices, and the INACTIVE vertices induce a connected subgraph. -/
def NotSegmenting (g : Graph) (act : Nat → Bool) : Prop :=
  NoAdjacentActive g act ∧ ActiveConnected g (fun v => !act v)

/-- Cells of an `h × w` board plus one virtual vertex (`none`) for the outside. -/
abbrev DCell (h w : Nat) := Option (Fin h × Fin w)

def onBorder {h w : Nat} (c : Fin h × Fin w) : Prop :=
  c.1.1 = 0 ∨ c.1.1 + 1 = h ∨ c.2.1 = 0 ∨ c.2.1 + 1 = w

def diagonal {h w : Nat} (c d : Fin h × Fin w) : Prop :=
  (c.1.1 + 1 = d.1.1 ∨ d.1.1 + 1 = c.1.1) ∧ (c.2.1 + 1 = d.2.1 ∨ d.2.1 + 1 = c.2.1)

/-- The diagonal graph of the active cells: two active cells are adjacent when they touch at a
corner; an active cell on the outer ring is adjacent to the outside vertex. `act` is indexed by the
flattened cell id `y * w + x`. -/
def diagGraph (h w : Nat) (act : Nat → Bool) : SimpleGraph (DCell h w) where
  Adj a b :=
    match a, b with
    | some c, some d => act (c.1.1 * w + c.2.1) = true ∧ act (d.1.1 * w + d.2.1) = true ∧ diagonal c d
    | some c, none => act (c.1.1 * w + c.2.1) = true ∧ onBorder c
    | none, some d => act (d.1.1 * w + d.2.1) = true ∧ onBorder d
    | none, none => False
  symm := ⟨by
    intro a b hab
    match a, b, hab with
    | some c, some d, h => exact ⟨h.2.1, h.1, ⟨h.2.2.1.symm, h.2.2.2.symm⟩⟩
    | some _, none, h => exact h
    | none, some _, h => exact h⟩
  loopless := ⟨by
    intro a ha
    match a, ha with
    | some c, h => rcases h.2.2.1 with h1 | h1 <;> omega⟩

/-- "Diagonal chains of active cells form a forest whose trees touch the outer border at most once". -/
def DiagForest (h w : Nat) (act : Nat → Bool) : Prop := (diagGraph h w act).IsAcyclic

/-- The certificate expressed by the diagonal rank encoding (cells are `(y, x)` with `y < h`, `x < w`). -/
structure DiagCert (h w : Nat) (act : Nat → Bool) where
  rank : Nat → Nat → Int
  rank_lo : ∀ y x, y < h → x < w → 0 ≤ rank y x
  rank_hi : ∀ y x, y < h → x < w → rank y x ≤ Int.fdiv (((h * w : Nat) : Int) - 1) 2
  /-- ranks differ on every diagonal pair (posted unconditionally) -/
  distinct : ∀ y x y' x', y < h → x < w → y' < h → x' < w →
    (y + 1 = y' ∨ y' + 1 = y) → (x + 1 = x' ∨ x' + 1 = x) → rank y x ≠ rank y' x'
  /-- an active cell has at most one lower-ranked active diagonal neighbour, none if it is on the outer ring -/
  loc : ∀ y x, y < h → x < w → act (y * w + x) = true →
    ∀ (nb : List (Nat × Nat)),
      (∀ p, p ∈ nb ↔ (p.1 < h ∧ p.2 < w ∧ (y + 1 = p.1 ∨ p.1 + 1 = y) ∧ (x + 1 = p.2 ∨ p.2 + 1 = x))) → nb.Nodup →
      (nb.filter fun p => decide (rank p.1 p.2 < rank y x) && act (p.1 * w + p.2)).length ≤
        (if y = 0 ∨ y + 1 = h ∨ x = 0 ∨ x + 1 = w then 0 else 1)

end Cspuz.Spec
