/-
  SPEC (continued): label classes, single cycles and paths in a multigraph.
-/
import CspuzModel.Spec.GraphSpec
namespace Cspuz.Spec
open Cspuz

/-- The vertices carrying label `c`. -/
def labelClass (g : Graph) (lab : Nat → Int) (c : Int) : Set (Fin g.n) := {v | lab v.1 = c}

/-- `division_connected`: every label class induces a connected subgraph, every label is used unless
empty groups are allowed, and each vertex listed in `roots` carries the label of its position. -/
def DivisionOK (g : Graph) (lab : Nat → Int) (k : Nat) (roots : List (Option Nat)) (allowEmpty : Bool) : Prop :=
  (∀ c, c < k → ((toSimple g).induce (labelClass g lab (c : Int))).Preconnected) ∧
  (allowEmpty = false → ∀ c, c < k → ∃ v, v < g.n ∧ lab v = (c : Int)) ∧
  (∀ (c r : Nat), roots[c]? = some (some r) → r < g.n ∧ lab r = (c : Int))

/-- Number of active edge-ends at vertex `v` (a self-loop counts twice). -/
def activeDegree (g : Graph) (act : Nat → Bool) (v : Nat) : Nat :=
  ((g.incident v).filter fun je => act je.2).length

/-- The active edges form exactly one simple cycle, given as a cyclic sequence of distinct vertices
`vs` and distinct edges `es` with `es[k]` joining `vs[k]` and `vs[k+1 mod len]`
(two parallel edges form a cycle of length 2), or there is no active edge. -/
def SingleCycle (g : Graph) (act : Nat → Bool) : Prop :=
  (∀ e, e < g.edges.length → act e = false) ∨
  ∃ (vs es : List Nat), vs.Nodup ∧ es.Nodup ∧ vs.length = es.length ∧ 1 ≤ es.length ∧
    (∀ k, k < es.length → ∃ e a b, es[k]? = some e ∧ vs[k]? = some a ∧
      vs[(k + 1) % vs.length]? = some b ∧ Joins g e a b) ∧
    (∀ e, e < g.edges.length → (act e = true ↔ e ∈ es))

/-- Degree form: every vertex meets 0 or 2 active edge-ends and the active edges are connected
(all their endpoints lie in one component of the active-edge graph), or there is no active edge. -/
def RegularConnected (g : Graph) (act : Nat → Bool) : Prop :=
  (∀ e, e < g.edges.length → act e = false) ∨
  ((∀ v, v < g.n → activeDegree g act v = 0 ∨ activeDegree g act v = 2) ∧
   ∀ u v : Fin g.n, 0 < activeDegree g act u.1 → 0 < activeDegree g act v.1 →
     (activeEdgeGraph g act).Reachable u v)

/-- The active edges form exactly one simple path with at least one edge: distinct vertices
`vs[0..len]`, distinct edges `es[0..len-1]`, `es[k]` joining `vs[k]` and `vs[k+1]`; or there is no
active edge (as documented for `active_edges_single_path`). -/
def SinglePath (g : Graph) (act : Nat → Bool) : Prop :=
  (∀ e, e < g.edges.length → act e = false) ∨
  ∃ (vs es : List Nat), vs.Nodup ∧ es.Nodup ∧ vs.length = es.length + 1 ∧ 1 ≤ es.length ∧
    (∀ k, k < es.length → ∃ e a b, es[k]? = some e ∧ vs[k]? = some a ∧ vs[k + 1]? = some b ∧ Joins g e a b) ∧
    (∀ e, e < g.edges.length → (act e = true ↔ e ∈ es))

/-- Degree form for the path: all degrees in {0,1,2}, exactly two vertices of degree 1, and the active
edges connected; or there is no active edge. -/
def PathRegular (g : Graph) (act : Nat → Bool) : Prop :=
  (∀ e, e < g.edges.length → act e = false) ∨
  ((∀ v, v < g.n → activeDegree g act v ≤ 2) ∧
   ((List.range g.n).filter fun v => activeDegree g act v == 1).length = 2 ∧
   ∀ u v : Fin g.n, 0 < activeDegree g act u.1 → 0 < activeDegree g act v.1 →
     (activeEdgeGraph g act).Reachable u v)

/-- The vertices visited by the active edges. -/
def visited (g : Graph) (act : Nat → Bool) (v : Nat) : Bool := decide (0 < activeDegree g act v)

end Cspuz.Spec
