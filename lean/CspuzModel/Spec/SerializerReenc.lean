/-
  Vocabulary of C17's second half ("whenever a problem is returned, serializing it succeeds and decoding that canonical
  text returns the same problem"): the classes of terms for which re-encodability is stated and proved.

  * `FlatBase b`: `b` is `MultiDigit`, a flat leaf (`Dict`, `Spaces`, `HexInt`, `IntSpaces`, `YajilinClue`) or a `OneOf` of
    flat leaves; `AccLeaf` / `AccItem`: the items such a base accepts, independently of position and neighbours.
  * `closedBase b` (decidable): the padding value `IntSpaces` returns is accepted by some alternative, and when
    `YajilinClue` is an alternative no embedded value of another alternative can be mistaken for a clue with a number.
    Both conditions are necessary: e.g. `OneOf(YajilinClue, Spaces("^007", 'a'))` decodes `"a"` to `"^007"`, which
    re-encodes as the clue `^7`.
  * `SeqGridTerm c`: `c` is a `Seq` / `Grid` whose base is a closed flat base or again a `SeqGridTerm` (arbitrarily deep
    nesting of `Seq` and `Grid`, with or without explicit grid dimensions).
  Core Lean only.
-/
import CspuzModel.Spec.Serializer
namespace Cspuz.Ser
open Cspuz

/-! ### the class of flat bases and the items they accept -/

/-- the items a leaf serializer accepts, independently of the position and of the neighbouring items -/
def AccLeaf : Comb → PyVal → Prop
  | .dict b _, v => v ∈ b
  | .spaces sp _, v => v = sp
  | .hexInt, v => ∃ n : Int, v = .int n ∧ 0 ≤ n ∧ n ≤ 4095
  | .intSpaces _ mi _, v => ∃ n : Int, v = .int n ∧ 0 ≤ n ∧ n ≤ (mi : Int)
  | .multiDigit b _, v => ∃ n : Int, v = .int n ∧ 0 ≤ n ∧ n < (b : Int)
  | .yajilinClue, v => v = .str qq ∨ ∃ c n, dirOfChar c ≠ none ∧ n < 256 ∧ v = .str (c :: toBase 10 n)
  | _, _ => False

/-- leaves that consume one item (plus, for `Spaces`/`IntSpaces`, a run of items equal to the space) and never raise -/
def flatLeaf : Comb → Bool
  | .dict _ _ => true
  | .spaces _ _ => true
  | .hexInt => true
  | .intSpaces _ _ _ => true
  | .yajilinClue => true
  | _ => false

/-- the alternatives of a base: the elements of a `OneOf`, or the term itself -/
def alts : Comb → List Comb
  | .oneOf cs => cs
  | c => [c]

def flatBase : Comb → Bool
  | .multiDigit _ _ => true
  | .oneOf cs => cs.all flatLeaf
  | c => flatLeaf c

/-- **flat bases**: `MultiDigit`, a flat leaf, or a `OneOf` of flat leaves -/
def FlatBase (b : Comb) : Prop := flatBase b = true

/-- the items a base accepts -/
def AccItem : Comb → PyVal → Prop
  | .oneOf cs, v => ∃ c ∈ cs, AccLeaf c v
  | c, v => AccLeaf c v

/-- values embedded in a leaf -/
def leafVals : Comb → List PyVal
  | .dict b _ => b
  | .spaces sp _ => [sp]
  | .intSpaces sp _ _ => [sp]
  | _ => []

/-- an embedded value cannot be mistaken for a yajilin clue with a number (`"^007"`): it is not a string whose tail
consists of decimal digits only -/
def yajOk : PyVal → Bool
  | .str (_ :: rest) => !(rest.all isDecimal)
  | _ => true

def isYaj : Comb → Bool
  | .yajilinClue => true
  | _ => false

/-- decidable sufficient condition for `AccLeaf` on `bool`-free values -/
def accLeafB : Comb → PyVal → Bool
  | .dict b _, v => b.any (fun x => pyEq v x)
  | .spaces sp _, v => pyEq v sp
  | .hexInt, .int n => 0 ≤ n && n ≤ 4095
  | .intSpaces _ mi _, .int n => 0 ≤ n && n ≤ (mi : Int)
  | _, _ => false

/-- the padding value that `IntSpaces` returns is accepted by some alternative -/
def padOk (cs : List Comb) : Comb → Bool
  | .intSpaces sp _ ms => ms == 0 || cs.any (fun c => accLeafB c sp)
  | _ => true

def closedAlts (cs : List Comb) : Bool :=
  cs.all (padOk cs) && (!cs.any isYaj || cs.all (fun c => (leafVals c).all yajOk))

/-- **closed bases**: whatever the decoder of one alternative returns is accepted by the serializer of some
alternative, and no alternative's embedded value is a non-canonical yajilin clue when `YajilinClue` is present -/
def closedBase (b : Comb) : Bool := closedAlts (alts b)

/-! ### nested `Seq` / `Grid` terms -/

/-- **nested `Seq`/`Grid` terms**: a `Seq(b, n)` or `Grid(b[, h, w])` whose base `b` is a closed flat base, or again a
nested `Seq`/`Grid` term -/
inductive SeqGridTerm : Comb → Prop
  | seqFlat (b : Comb) (n : Nat) : FlatBase b → closedBase b = true → SeqGridTerm (.seq b n)
  | gridFlat (b : Comb) (dims : Option (Nat × Nat)) : FlatBase b → closedBase b = true → SeqGridTerm (.grid b dims)
  | seqNest (b : Comb) (n : Nat) : SeqGridTerm b → SeqGridTerm (.seq b n)
  | gridNest (b : Comb) (dims : Option (Nat × Nat)) : SeqGridTerm b → SeqGridTerm (.grid b dims)

end Cspuz.Ser
