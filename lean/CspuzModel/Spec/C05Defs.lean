/-
  SPEC helper vocabulary of C05 (division_connected): the labeling read off an assignment and the
  range hypothesis on the label expressions.  Import-free (core Lean only).
-/
import CspuzModel.Spec.Sat
namespace Cspuz.Spec
open Cspuz

/-- Label of vertex `v` under `σ` (0 when the expression is missing / not an integer). -/
def labOf (σ : Asg) (dv : List Expr) (v : Nat) : Int := (intAt σ dv v).getD 0

/-- The label expressions range over `0..k-1` under `σ`. -/
def InRange (σ : Asg) (dv : List Expr) (n k : Nat) : Prop :=
  ∀ v, v < n → ∃ x, intAt σ dv v = some x ∧ 0 ≤ x ∧ x < (k : Int)

end Cspuz.Spec
