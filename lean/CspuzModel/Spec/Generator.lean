/-
  Specification vocabulary of C19 (problem generation is sound and reproducible under the
  deterministic PRNG), written independently of the code's control flow.  Import-free.
-/
import CspuzModel.Model.Generator
namespace Cspuz.Gen
open Cspuz

/-! ## PRNG -/

/-- All four words of the XorShift state are 32-bit values. -/
def WF (s : XS) : Prop := s.x < D32 ∧ s.y < D32 ∧ s.z < D32 ∧ s.w < D32

/-- The number of `x < limit` with `x % w = r`: how many accepted 32-bit outputs are mapped to `a + r`. -/
def hits (limit w r : Nat) : Nat := ((List.range limit).filter fun x => x % w = r).length

/-! ## shuffle as a function of the draws -/

/-- Swap positions `i` and `j` (nothing when out of range). -/
def swapAt {α} (l : List α) (i j : Nat) : List α :=
  match l[i]?, l[j]? with
  | some a, some b => (l.set i b).set j a
  | _, _ => l

/-- The loop of `shuffle` driven by an explicit list of draws: `js[k]` is the draw for `i = start + k`. -/
def shuffleWith {α} : List Nat → Nat → List α → List α
  | [], _, l => l
  | j :: js, i, l => shuffleWith js (i + 1) (swapAt l i j)

/-- `js` is a possible sequence of draws for a list of length `n`: one draw `j ≤ i` for each `i = 1 … n-1`. -/
def Admissible (js : List Nat) (n : Nat) : Prop :=
  js.length = n - 1 ∧ ∀ k (h : k < js.length), js[k] ≤ k + 1

/-! ## grids -/

variable {V : Type}

/-- Every row is present and has the right length. -/
def Shaped (h w : Nat) (g : Grid V) : Prop := g.length = h ∧ ∀ r ∈ g, r.length = w

/-- The cell at integer coordinates (none outside the stored lists). -/
def cellI (g : Grid V) (y x : Int) : Option V :=
  if 0 ≤ y ∧ 0 ≤ x then (g[y.toNat]?).bind fun r => r[x.toNat]? else none

/-- `(y, x)` is a cell of the `height × width` board. -/
def InR (c : ArrayCfg V) (y x : Int) : Prop := 0 ≤ y ∧ y < c.height ∧ 0 ≤ x ∧ x < c.width

/-- The cell contents after performing the writes of an update in order (the last write wins). -/
def writes : CellUpd V → (Int → Int → Option V) → Int → Int → Option V
  | [], f => f
  | (y', x', v) :: rest, f =>
    writes rest (fun y x => if y = y' ∧ x = x' then some v else f y x)

/-- Default-ness is point symmetric. -/
def Sym (c : ArrayCfg V) (g : Grid V) : Prop :=
  ∀ y x : Int, InR c y x →
    (cellI g y x = some c.default ↔ cellI g (c.height - 1 - y) (c.width - 1 - x) = some c.default)

/-- No two cells at a disallowed offset are both non-default. -/
def NoAdj (c : ArrayCfg V) (g : Grid V) : Prop :=
  ∀ (y x : Int) (d : Int × Int), d ∈ c.disallow → InR c y x → InR c (y + d.1) (x + d.2) →
    cellI g y x = some c.default ∨ cellI g (y + d.1) (x + d.2) = some c.default

/-- The offset set is closed under negation and does not contain `(0, 0)`. -/
def ClosedNeg (D : List (Int × Int)) : Prop := (∀ d ∈ D, (-d.1, -d.2) ∈ D) ∧ (0, 0) ∉ D

/-- All cells hold a value of the choice set or the default. -/
def GridValid (c : ArrayCfg V) (g : Grid V) : Prop :=
  ∀ y x : Int, InR c y x → ∃ v, cellI g y x = some v ∧ (v ∈ c.choice ∨ v = c.default)

/-- What the property demands of one update `u` offered by `ArrayBuilder2D.candidates` for the grid `g`:
it only names cells of the board; every value it writes comes from the choice set, is the default, or
(move updates) already stands in some cell of `g`; `copy_with_update` succeeds; the new grid has the same
shape, agrees with `g` on every cell not named in `u`, and every changed cell holds a value listed for
it in `u`; validity of all cell values is preserved; and with `symmetry` the point symmetry of
default-ness is preserved. -/
def UpdateOk [DecidableEq V] (c : ArrayCfg V) (g : Grid V) (u : CellUpd V) : Prop :=
  (∀ t ∈ u, InR c t.1 t.2.1) ∧
  (∀ t ∈ u, t.2.2 ∈ c.choice ∨ t.2.2 = c.default ∨ ∃ y x, InR c y x ∧ cellI g y x = some t.2.2) ∧
  (∃ g', applyCells g u = .ok g') ∧
  (∀ g', applyCells g u = .ok g' →
    Shaped c.height c.width g' ∧
    (∀ y x, (∀ t ∈ u, ¬ (t.1 = y ∧ t.2.1 = x)) → cellI g' y x = cellI g y x) ∧
    (∀ y x, cellI g' y x = cellI g y x ∨ ∃ t ∈ u, t.1 = y ∧ t.2.1 = x ∧ cellI g' y x = some t.2.2) ∧
    (GridValid c g → GridValid c g') ∧
    (c.symmetry = true → Sym c g → Sym c g'))

/-! ## problems and patterns -/

/-- `p'` differs from `p` at most inside the subtree at path `pos`: same node kinds and lengths along the
path, all siblings off the path identical. -/
inductive DiffersOnlyAt : Prob V → Prob V → List Nat → Prop
  | here (p p' : Prob V) : DiffersOnlyAt p p' []
  | list (l l' : List (Prob V)) (i : Nat) (rest : List Nat) (c c' : Prob V)
      (hlen : l.length = l'.length) (hc : l[i]? = some c) (hc' : l'[i]? = some c')
      (hoff : ∀ j, j ≠ i → l[j]? = l'[j]?) (h : DiffersOnlyAt c c' rest) :
      DiffersOnlyAt (.list l) (.list l') (i :: rest)
  | tuple (l l' : List (Prob V)) (i : Nat) (rest : List Nat) (c c' : Prob V)
      (hlen : l.length = l'.length) (hc : l[i]? = some c) (hc' : l'[i]? = some c')
      (hoff : ∀ j, j ≠ i → l[j]? = l'[j]?) (h : DiffersOnlyAt c c' rest) :
      DiffersOnlyAt (.tuple l) (.tuple l') (i :: rest)

mutual
/-- The problem has the shape of the pattern (lists / tuples of the same lengths; a value of the
builder's kind at every builder). -/
def Conforms : Pat V → Prob V → Prop
  | .builder (.choice _ _), .leaf (.val _) => True
  | .builder (.array _), .leaf (.grid _) => True
  | .const _, .leaf _ => True
  | .list ps, .list cs => ConformsList ps cs
  | .tuple ps, .tuple cs => ConformsList ps cs
  | _, _ => False
def ConformsList : List (Pat V) → List (Prob V) → Prop
  | [], [] => True
  | p :: ps, c :: cs => Conforms p c ∧ ConformsList ps cs
  | _, _ => False
end

/-- What the property demands of an update `u` offered by builder `b` whose current value is `sub`:
`Choice` offers values of its choice set other than the current one; `ArrayBuilder2D` offers `UpdateOk`
cell updates (for a grid of the declared shape). -/
def BuilderUpdOk [DecidableEq V] : BuilderSpec V → Prob V → Upd V → Prop
  | .choice ch _, .leaf (.val cur), .setVal v => v ∈ ch ∧ v ≠ cur
  | .array c, .leaf (.grid g), .cells l => Shaped c.height c.width g → UpdateOk c g l
  | _, _, _ => False

/-! ## generate_problem -/

variable {P N A : Type}

/-- `p` was handed to the solver (as its `i`-th call), the solver said "satisfiable", the uniqueness
test accepted the answer it returned for `p`, and the pretest (if any) accepted `p`. -/
def Accepted (cfg : GenCfg P N A) (trace : List P) (p : P) : Prop :=
  ∃ i, trace[i]? = some p ∧ (cfg.solver i p).1 = true ∧ cfg.uniqueness (cfg.solver i p).2 = true ∧
    cfg.pretestOk p = true

end Cspuz.Gen
