/-
  SPEC: Python list indexing / slicing, written from the language reference in "filter" style
  (which positions are selected, in which order), independently of the start/stop/size
  arithmetic used by cspuz.  Import-free so that the driver can run it against CPython
  (`list(range(n))[key]`) in the correspondence run.
-/
import CspuzModel.Model.Index
namespace Cspuz.Spec

open Cspuz

/-- Clamp of a slice bound for a positive step: `None ↦ dflt`, negative wraps once, then into `[0,n]`. -/
def clampPos (n : Int) (dflt : Int) : Option Int → Int
  | none => dflt
  | some a =>
    let a := if a < 0 then a + n else a
    if a < 0 then 0 else if a > n then n else a

/-- Clamp of a slice bound for a negative step: into `[-1, n-1]`. -/
def clampNeg (n : Int) (dflt : Int) : Option Int → Int
  | none => dflt
  | some a =>
    let a := if a < 0 then a + n else a
    if a < 0 then -1 else if a ≥ n then n - 1 else a

/-- Positions selected by `l[start:stop:step]` on a list of length `n`, in selection order. -/
def sliceSel (n : Nat) (start stop step : Option Int) : Py (List Nat) :=
  let st := step.getD 1
  if st = 0 then .error .valueError
  else if st > 0 then
    let lo := clampPos n 0 start
    let hi := clampPos n n stop
    .ok ((List.range n).filter fun i => lo ≤ (i : Int) ∧ (i : Int) < hi ∧ ((i : Int) - lo) % st = 0)
  else
    let hi := clampNeg n (n - 1) start
    let lo := clampNeg n (-1) stop
    .ok ((List.range n).reverse.filter fun i => lo < (i : Int) ∧ (i : Int) ≤ hi ∧ (hi - (i : Int)) % (-st) = 0)

/-- One axis of length `n` indexed like a Python list: `(is_single_index, positions)`. -/
def axisSel (n : Nat) : AxisKey → Py (Bool × List Nat)
  | .idx k =>
    let p := if k < 0 then k + (n : Int) else k
    if 0 ≤ p ∧ p < (n : Int) then .ok (true, [p.toNat]) else .error .indexError
  | .slice a b c => do
    let l ← sliceSel n a b c
    .ok (false, l)

/-- The equivalent Python list of lists (row-major chunks of width `w`). -/
def toRows {α} (data : List α) : (h w : Nat) → List (List α)
  | 0, _ => []
  | h + 1, w => data.take w :: toRows (data.drop w) h w

def pick {α} (rows : List (List α)) (y x : Nat) : Py α :=
  match rows[y]? with
  | some r => match r[x]? with
    | some v => .ok v
    | none => .error .indexError
  | none => .error .indexError

def specPair {α} (rows : List (List α)) (h w : Nat) (ky kx : AxisKey) : Py (IdxResult α) := do
  let (yf, ysel) ← axisSel h ky
  let (xf, xsel) ← axisSel w kx
  let l ← (ysel.flatMap fun y => xsel.map fun x => (y, x)).mapM fun (y, x) => pick rows y x
  if yf ∧ xf then
    match l with
    | [v] => .ok (.scalar v)
    | _ => .error .indexError
  else if ¬ (yf ∨ xf) then .ok (.arr2 ysel.length xsel.length l)
  else .ok (.arr1 l)

/-- What `A[key]` selects from the nested list `rows` (per-axis Python list semantics). -/
def specGetitem {α} (rows : List (List α)) (h w : Nat) : Key2 → Py (IdxResult α)
  | .one k => specPair rows h w k (.slice none none none)
  | .pair ky kx => specPair rows h w ky kx
  | .coords l => do
    let xs ← l.mapM fun (y, x) => do
      let (_, ys) ← axisSel h (.idx y)
      let (_, xs) ← axisSel w (.idx x)
      match ys, xs with
      | [y], [x] => pick rows y x
      | _, _ => .error .indexError
    .ok (.arr1 xs)

/-- 1-D arrays: `data[key]` on a Python list. -/
def specGetitem1D {α} (data : List α) : AxisKey → Py (IdxResult α)
  | .idx k => do
    let x ← pyIndex data k
    .ok (.scalar x)
  | .slice a b c => do
    let sel ← sliceSel data.length a b c
    let l ← sel.mapM fun i => match data[i]? with
      | some v => .ok v
      | none => .error .indexError
    .ok (.arr1 l)

end Cspuz.Spec
