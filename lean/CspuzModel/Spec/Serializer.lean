/-
  What the words of C15 / C17 mean for the serializer model: locality of a (serialize, deserialize) pair,
  the decidable side conditions on combinator terms ("alternatives distinguishable by their leading character",
  well-formedness), the domain of values ("accepts", no surplus items), and the totality predicate of C17.
  Core Lean only (the driver does not need it, but nothing here needs Mathlib).
-/
import CspuzModel.Model.Serializer
namespace Cspuz.Ser
open Cspuz

/-- `data[i : i + k]` -/
def window (d : List PyVal) (i k : Nat) : List PyVal := (d.drop i).take k

/-- the continuation does not start with a character `str.isdigit` accepts (what `DecInt` needs) -/
def NoDigitHead (rest : Str) : Prop := ∀ c ∈ rest.head?, isDigit c = false

/-- **Locality** of a serializer/deserializer pair on the data satisfying `T`, in contexts whose continuation
satisfies `P`: whatever `s` emits for `data[i : i+k]` is decoded by `d`, wherever the text is embedded, consuming
exactly the emitted characters and returning the consumed items – exactly if `exact`, or whenever items remain
after them; at the very end of the data the decoder may append padding (a `MultiDigit` group is always complete). -/
def LocalF (T : List PyVal → Nat → Prop) (s : SerF) (d : DeF) (P : Str → Prop) (exact : Bool) : Prop :=
  ∀ data i k t, s data i = .ok (k, t) → T data i → ∀ pre rest, P rest →
    ∃ items, d (pre ++ t ++ rest) pre.length = .ok (t.length, items) ∧
      window data i k <+: items ∧ ((exact = true ∨ i + k < data.length) → items = window data i k)

/-! ### character classes (inclusive code-point ranges) -/

abbrev Ranges := List (Nat × Nat)
def Ranges.mem (c : Nat) (rs : Ranges) : Bool := rs.any fun r => r.1 ≤ c && c ≤ r.2
def Ranges.disjoint (a b : Ranges) : Bool := a.all fun x => b.all fun y => x.2 < y.1 || y.2 < x.1
def alnumRanges : Ranges := [(48, 57), (97, 122)]
/-- characters of the base-36 digits with values in `[lo, hi]` (`hi ≤ 35`) -/
def digitCharRanges (lo hi : Nat) : Ranges :=
  (if lo ≤ 9 then [(48 + lo, 48 + min hi 9)] else []) ++ (if 10 ≤ hi then [(87 + max lo 10, 87 + hi)] else [])
def headRange (s : Str) : Ranges := match s with | [] => [] | c :: _ => [(c, c)]

/-! ### syntactic analyses of a term -/

mutual
/-- values embedded in the term are free of `bool` (on which Python `==` is not identity) -/
def PyVal.noBool : PyVal → Bool
  | .bool _ => false
  | .tuple l => noBoolL l
  | .list l => noBoolL l
  | _ => true
def noBoolL : List PyVal → Bool
  | [] => true
  | v :: r => v.noBool && noBoolL r
end

mutual
/-- over-approximation of the first characters of the non-empty texts the term can emit -/
def emitHeads : Comb → Ranges
  | .fixStr s => headRange s
  | .dict _ a => a.flatMap headRange
  | .spaces _ o => if -1 ≤ o && o ≤ 34 then digitCharRanges (o + 1).toNat 35 else alnumRanges
  | .decInt => [(48, 57), (84, 84), (70, 70)]
  | .hexInt => [(45, 45), (43, 43), (48, 57), (97, 102)]
  | .intSpaces _ mi ms => if (mi + 1) * (ms + 1) ≤ 36 then digitCharRanges 0 ((mi + 1) * (ms + 1) - 1) else alnumRanges
  | .multiDigit b k => if 1 ≤ b ^ k && b ^ k ≤ 36 then digitCharRanges 0 (b ^ k - 1) else alnumRanges
  | .oneOf cs => emitHeadsAny cs
  | .tupl es => emitHeadsSeq es
  | .seq b _ => emitHeads b
  | .grid b _ => emitHeads b
  | .rooms _ _ => alnumRanges
  | .valuedRooms v _ _ => alnumRanges ++ emitHeads v
  | .yajilinClue => [(48, 57)]
def emitHeadsAny : List Comb → Ranges
  | [] => []
  | c :: cs => emitHeads c ++ emitHeadsAny cs
def emitHeadsSeq : List Comb → Ranges
  | [] => []
  | c :: cs => emitHeads c ++ (if mayEmitEmpty c then emitHeadsSeq cs else [])
/-- may the term emit the empty text? (over-approximation) -/
def mayEmitEmpty : Comb → Bool
  | .fixStr s => s.isEmpty
  | .dict _ a => a.any (·.isEmpty)
  | .oneOf cs => mayEmitEmptyAny cs
  | .tupl es => mayEmitEmptyAll es
  | .seq b n => n == 0 || mayEmitEmpty b
  | .grid b dims => (match dims with | some (h, w) => h * w == 0 | none => true) || mayEmitEmpty b
  | .rooms _ _ => true
  | .valuedRooms _ _ _ => true
  | _ => false
def mayEmitEmptyAny : List Comb → Bool
  | [] => false
  | c :: cs => mayEmitEmpty c || mayEmitEmptyAny cs
def mayEmitEmptyAll : List Comb → Bool
  | [] => true
  | c :: cs => mayEmitEmpty c && mayEmitEmptyAll cs
end

mutual
/-- `some rs`: the decoder returns `None` unless the text has a character at the start index and it lies in `rs`;
`none`: no such guarantee. -/
def acceptHeads : Comb → Option Ranges
  | .fixStr s => if s.isEmpty then none else some (headRange s)
  | .dict _ a => if a.any (·.isEmpty) then none else some (a.flatMap headRange)
  | .spaces _ o => if -1 ≤ o && o ≤ 34 then some (digitCharRanges (o + 1).toNat 35) else some alnumRanges
  | .decInt => some Gen.digitRanges
  | .hexInt => some [(45, 45), (43, 43), (48, 57), (97, 102)]
  | .intSpaces _ mi ms =>
      if (mi + 1) * (ms + 1) ≤ 36 then some (digitCharRanges 0 ((mi + 1) * (ms + 1) - 1)) else some alnumRanges
  | .multiDigit b k => if 1 ≤ b ^ k && b ^ k ≤ 36 then some (digitCharRanges 0 (b ^ k - 1)) else some alnumRanges
  | .oneOf cs => acceptHeadsAny cs
  | .tupl es => (match es with | [] => none | e :: _ => acceptHeads e)
  | .seq b n => if n == 0 then none else acceptHeads b
  | .grid b dims => (match dims with | some (h, w) => if h * w == 0 then none else acceptHeads b | none => none)
  | .rooms _ _ => none
  | .valuedRooms _ _ _ => none
  | .yajilinClue => some [(48, 57)]
def acceptHeadsAny : List Comb → Option Ranges
  | [] => some []
  | c :: cs => match acceptHeads c, acceptHeadsAny cs with
    | some a, some b => some (a ++ b)
    | _, _ => none
end

/-- **Alternatives distinguishable by their leading character**: what a later alternative emits is never empty
and starts with a character on which every earlier alternative's decoder returns `None`. -/
def distinguishable : List Comb → Bool
  | [] => true
  | c :: cs =>
    cs.all (fun c' => !mayEmitEmpty c' &&
      match acceptHeads c with
      | none => false
      | some a => Ranges.disjoint (emitHeads c') a) && distinguishable cs

mutual
/-- a successful call consumes at least one item / returns at least one item -/
def productive : Comb → Bool
  | .fixStr _ => false
  | .multiDigit _ k => 1 ≤ k
  | .oneOf cs => productiveAll cs
  | _ => true
def productiveAll : List Comb → Bool
  | [] => true
  | c :: cs => productive c && productiveAll cs
end

mutual
/-- the decoder returns exactly the consumed items also at the end of the data (no padding) -/
def exact : Comb → Bool
  | .multiDigit _ k => k ≤ 1
  | .oneOf cs => exactAll cs
  | _ => true
def exactAll : List Comb → Bool
  | [] => true
  | c :: cs => exact c && exactAll cs
end

mutual
/-- the emitted text may end with an open run of decimal digits (`DecInt`), so the continuation must not start
with a digit -/
def needsND : Comb → Bool
  | .decInt => true
  | .oneOf cs => needsNDAny cs
  | .tupl es => needsNDLast es
  | .seq b _ => needsND b
  | .grid b _ => needsND b
  | _ => false
def needsNDAny : List Comb → Bool
  | [] => false
  | c :: cs => needsND c || needsNDAny cs
def needsNDLast : List Comb → Bool
  | [] => false
  | [c] => needsND c
  | _ :: c :: cs => needsNDLast (c :: cs)
end

/-- every emitted text is non-empty and starts with a character that is not a digit -/
def startsND (c : Comb) : Bool := !mayEmitEmpty c && Ranges.disjoint (emitHeads c) Gen.digitRanges

def prefixFree : List Str → Bool
  | [] => true
  | a :: as => as.all (fun b => !(a.isPrefixOf b) && !(b.isPrefixOf a)) && prefixFree as

/-- structural equality test on `bool`-free values is Python `==`; used for the `before` table of `Dict` -/
def pairwiseNe : List PyVal → Bool
  | [] => true
  | v :: r => r.all (fun u => !pyEq v u) && pairwiseNe r

mutual
/-- no `Rooms` / `ValuedRooms` inside (their round trip is up to canonical order: C15_rooms) -/
def noRooms : Comb → Bool
  | .rooms _ _ => false
  | .valuedRooms _ _ _ => false
  | .oneOf cs => noRoomsL cs
  | .tupl es => noRoomsL es
  | .seq b _ => noRooms b
  | .grid b _ => noRooms b
  | _ => true
def noRoomsL : List Comb → Bool
  | [] => true
  | c :: cs => noRooms c && noRoomsL cs
end

mutual
/-- **Well-formed terms** (decidable).  Excluded are only degenerate terms: a `Seq`/`Grid`/`ValuedRooms` base that can
succeed without consuming or producing an item (for which the Python loops forever), `OneOf` alternatives that
are not distinguishable by their leading character, `Dict` tables that are not prefix codes or contain the empty
text (which `Dict.deserialize` refuses at the end of the text), a `DecInt` followed by
something that may start with a digit, padding combinators used directly as `Tupl` elements, numeric parameters
outside what the constructors accept, and `bool` values inside the term. -/
def wf : Comb → Bool
  | .fixStr _ => true
  | .dict b a => b.length == a.length && a.all (fun x => !x.isEmpty) && prefixFree a && pairwiseNe b && noBoolL b
  | .spaces sp o => -1 ≤ o && o ≤ 34 && sp.noBool
  | .decInt => true
  | .hexInt => true
  | .intSpaces sp mi ms => (mi + 1) * (ms + 1) ≤ 36 && sp.noBool
  | .multiDigit b k => 1 ≤ k && b ^ k ≤ 36
  | .oneOf cs => wfAll cs && distinguishable cs
  | .tupl es => wfAll es && exactAll es && followOk es
  | .seq b n => wf b && productive b && (!needsND b || n ≤ 1)
  | .grid b dims => wf b && productive b &&
      (!needsND b || (match dims with | some (h, w) => h * w ≤ 1 | none => false))
  | .rooms _ _ => true
  | .valuedRooms v _ _ => wf v && productive v && !needsND v
  | .yajilinClue => true
def wfAll : List Comb → Bool
  | [] => true
  | c :: cs => wf c && wfAll cs
/-- in a `Tupl`, an element whose text may end with open digits is followed by one that starts with a non-digit -/
def followOk : List Comb → Bool
  | [] => true
  | [_] => true
  | a :: b :: r => (!needsND a || startsND b) && followOk (b :: r)
end

mutual
/-- the term decodes to exactly one item, so it can be used with `serialize_problem` / `deserialize_problem` -/
def single : Comb → Bool
  | .dict _ _ => true
  | .decInt => true
  | .hexInt => true
  | .oneOf cs => singleAll cs
  | .tupl _ => true
  | .seq _ _ => true
  | .grid _ _ => true
  | .rooms _ _ => true
  | .valuedRooms _ _ _ => true
  | .yajilinClue => true
  | _ => false
def singleAll : List Comb → Bool
  | [] => true
  | c :: cs => single c && singleAll cs
end

/-! ### the domain of values: accepted, and without surplus items -/

def rowsFlat : List PyVal → List PyVal
  | [] => []
  | .list l :: r => l ++ rowsFlat r
  | _ :: r => rowsFlat r

/-- `rows` is a list of exactly `h` Python lists of exactly `w` items each -/
def GridShape (h w : Nat) (rows : List PyVal) : Prop :=
  rows.length = h ∧ ∀ r ∈ rows, ∃ l, r = .list l ∧ l.length = w

/-- a yajilin clue `"^7"` carries its number in canonical decimal form (`"^007"` is accepted by the serializer but
comes back as `"^7"`) -/
def YajilinCanon (d : List PyVal) (i : Nat) : Prop :=
  ∀ c rest n, d[i]? = some (.str (c :: rest)) → pyInt rest = .ok n → rest = toBase 10 n

mutual
/-- **No surplus items** at `data[i]`: wherever the Python silently ignores extra material (`Tupl` ignores how much
of a component its element consumed, `Seq`/`Grid` ignore items beyond `n`, `Grid` accepts tuples for rows) the
value has none.  All clauses are conditional on the shape the serializer itself checks. -/
def Tight : Comb → Env → List PyVal → Nat → Prop
  | .oneOf cs, env, d, i => TightAll cs env d i
  | .tupl es, env, d, i => ∀ comps, d[i]? = some (.tuple comps) → TightComps es env comps
  | .seq b n, env, d, i => ∀ l, d[i]? = some (.list l) → l.length ≤ n ∧ ∀ p, Tight b env l p
  | .grid b dims, env, d, i => ∀ rows, d[i]? = some (.list rows) →
      GridShape (gridDims env dims).1 (gridDims env dims).2 rows ∧ ∀ p, Tight b env (rowsFlat rows) p
  | .yajilinClue, _, d, i => YajilinCanon d i
  | _, _, _, _ => True
def TightAll : List Comb → Env → List PyVal → Nat → Prop
  | [], _, _, _ => True
  | c :: cs, env, d, i => Tight c env d i ∧ TightAll cs env d i
def TightComps : List Comb → Env → List PyVal → Prop
  | [], _, _ => True
  | _ :: _, _, [] => True
  | e :: es, env, comp :: comps =>
    (∃ l, comp = .list l ∧ (∀ k t, ser e env l 0 = .ok (k, t) → k = l.length) ∧ Tight e env l 0)
      ∧ TightComps es env comps
end

/-- the data a term is applied to: `bool`-free and tight -/
def Good (c : Comb) (env : Env) (d : List PyVal) (i : Nat) : Prop := noBoolL d = true ∧ Tight c env d i

/-- **Dom**: the problem value `v` is accepted by `serialize_problem` on an `h × w` board and has no surplus. -/
def Dom (c : Comb) (h w : Nat) (v : PyVal) : Prop :=
  Good c ⟨h, w⟩ [v] 0 ∧ ∃ t, ser c ⟨h, w⟩ [v] 0 = .ok (1, t)

/-- locality of a term (with the follow condition and exactness its syntax determines) -/
def CombLocal (c : Comb) (env : Env) : Prop :=
  LocalF (Good c env) (ser c env) (de c env) (fun rest => needsND c = true → NoDigitHead rest) (exact c)

/-! ### C17: what a decoder may do -/

/-- `None`, `ValueError`, or a result that stays inside the text -/
def SafeOutcome (s : Str) (i : Nat) (o : Outcome (Nat × List PyVal)) : Prop :=
  o = .none ∨ o = .raised .valueError ∨ ∃ k items, o = .ok (k, items) ∧ i + k ≤ s.length

def SafeDe (d : DeF) : Prop := ∀ s i, i ≤ s.length → SafeOutcome s i (d s i)

/-- outcome of a problem-level decoder: `None`, `ValueError` or a value -/
def SafeVal (o : Outcome PyVal) : Prop := o = .none ∨ o = .raised .valueError ∨ ∃ v, o = .ok v

mutual
/-- the terms whose decoder cannot spin: every `Seq`/`Grid`/`ValuedRooms` base is productive -/
def terminating : Comb → Bool
  | .oneOf cs => terminatingAll cs
  | .tupl es => terminatingAll es
  | .seq b _ => terminating b && productive b
  | .grid b _ => terminating b && productive b
  | .valuedRooms v _ _ => terminating v && productive v
  | _ => true
def terminatingAll : List Comb → Bool
  | [] => true
  | c :: cs => terminating c && terminatingAll cs
end

end Cspuz.Ser
