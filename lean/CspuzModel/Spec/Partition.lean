/-
  C18 — what "a partition of the height × width board into orthogonally connected blocks, with the number of
  blocks and every block size inside the configured bounds" means.  Written from the property text; uses only
  the TYPES of the model (cells, blocks, the configuration record), none of its functions.  Import-free.
-/
import CspuzModel.Model.Segmentation
namespace Cspuz.Seg.Spec
open Cspuz.Seg

/-- `c` is a cell of the `h × w` board. -/
def InBoard (h w : Nat) (c : Cell) : Prop := 0 ≤ c.1 ∧ c.1 < h ∧ 0 ≤ c.2 ∧ c.2 < w

/-- Orthogonal (4-neighbour) adjacency of two cells. -/
def Adj4 (a b : Cell) : Prop :=
  (a.1 = b.1 ∧ (a.2 = b.2 + 1 ∨ b.2 = a.2 + 1)) ∨ (a.2 = b.2 ∧ (a.1 = b.1 + 1 ∨ b.1 = a.1 + 1))

/-- `Reach S a b`: there is a walk `a = c₀, c₁, …, cₙ = b` of orthogonally adjacent cells all inside `S`. -/
inductive Reach (S : Cell → Prop) : Cell → Cell → Prop
  | refl {a : Cell} : S a → Reach S a a
  | step {a b c : Cell} : Reach S a b → S c → Adj4 b c → Reach S a c

/-- The cell set `S` is orthogonally connected. -/
def ConnectedOn (S : Cell → Prop) : Prop := ∀ a b, S a → S b → Reach S a b

/-- A block (list of cells) is orthogonally connected. -/
def OrthConnected (blk : Block) : Prop := ConnectedOn (fun c => c ∈ blk)

/-- `bs` is a partition of the `h × w` board into non-empty orthogonally connected blocks:
* no cell occurs twice (neither twice in one block nor in two blocks),
* the cells that occur are exactly the cells of the board (none missing, none outside),
* no block is empty, and every block is orthogonally connected. -/
structure Part (h w : Nat) (bs : Blocks) : Prop where
  nodup : bs.flatten.Nodup
  cover : ∀ c : Cell, c ∈ bs.flatten ↔ InBoard h w c
  nonempty : ∀ b ∈ bs, b ≠ []
  connected : ∀ b ∈ bs, OrthConnected b

/-- Number of blocks and every block size inside the configured bounds (after `__init__`'s defaults). -/
structure Bounds (cfg : Cfg) (bs : Blocks) : Prop where
  num : cfg.minNum ≤ (bs.length : Int) ∧ (bs.length : Int) ≤ cfg.maxNum
  size : ∀ b ∈ bs, cfg.minSize ≤ (b.length : Int) ∧ (b.length : Int) ≤ cfg.maxSize

/-- The invariant of property C18. -/
def Inv (cfg : Cfg) (bs : Blocks) : Prop := Part cfg.height cfg.width bs ∧ Bounds cfg bs

end Cspuz.Seg.Spec
