/-
  SPEC: what "connected", "tree", "forest" mean for the graphs handed to cspuz, in Mathlib's
  vocabulary.  (Mathlib allowed here; nothing in this file is executable.)
-/
import Mathlib.Combinatorics.SimpleGraph.Acyclic
import CspuzModel.Model.GraphBase
namespace Cspuz.Spec
open Cspuz

/-- `k`-th edge of the multigraph joins `u` and `v` (in either orientation). -/
def Joins (g : Graph) (k : Nat) (u v : Nat) : Prop :=
  g.edges[k]? = some (u, v) ∨ g.edges[k]? = some (v, u)

/-- No self-loops. -/
def LoopFree (g : Graph) : Prop := ∀ e ∈ g.edges, e.1 ≠ e.2

/-- The simple graph underlying the multigraph `g`, on the vertex type `Fin g.n`. -/
def toSimple (g : Graph) : SimpleGraph (Fin g.n) where
  Adj u v := u ≠ v ∧ ∃ k, Joins g k u.1 v.1
  symm := ⟨by
    intro u v h
    refine ⟨h.1.symm, ?_⟩
    obtain ⟨k, hk⟩ := h.2
    exact ⟨k, hk.symm⟩⟩
  loopless := ⟨fun v h => h.1 rfl⟩

/-- The set of active vertices. -/
def activeSet (g : Graph) (act : Nat → Bool) : Set (Fin g.n) := {v | act v.1 = true}

/-- The active vertices induce a connected subgraph (no active vertex at all counts as connected). -/
def ActiveConnected (g : Graph) (act : Nat → Bool) : Prop :=
  ((toSimple g).induce (activeSet g act)).Preconnected

/-- No two distinct edges of the multigraph join the same pair of active vertices. -/
def NoParallelActive (g : Graph) (act : Nat → Bool) : Prop :=
  ∀ k l u v, k ≠ l → Joins g k u v → Joins g l u v → ¬ (act u = true ∧ act v = true)

/-- The active vertices induce a tree (as a multigraph: a doubled edge is a cycle), or there is none. -/
def ActiveTreeOrEmpty (g : Graph) (act : Nat → Bool) : Prop :=
  (∀ v, v < g.n → act v = false) ∨
  (((toSimple g).induce (activeSet g act)).IsTree ∧ NoParallelActive g act)

/-- The simple graph formed by the active edges (`act k` = the `k`-th edge is active). -/
def activeEdgeGraph (g : Graph) (act : Nat → Bool) : SimpleGraph (Fin g.n) where
  Adj u v := u ≠ v ∧ ∃ k, act k = true ∧ Joins g k u.1 v.1
  symm := ⟨by
    intro u v h
    refine ⟨h.1.symm, ?_⟩
    obtain ⟨k, hk, hj⟩ := h.2
    exact ⟨k, hk, hj.symm⟩⟩
  loopless := ⟨fun v h => h.1 rfl⟩

/-- The active edges contain no cycle; two active parallel edges count as a cycle. -/
def EdgesForest (g : Graph) (act : Nat → Bool) : Prop :=
  (activeEdgeGraph g act).IsAcyclic ∧
  ∀ k l u v, k ≠ l → act k = true → act l = true → Joins g k u v → Joins g l u v → False

end Cspuz.Spec
