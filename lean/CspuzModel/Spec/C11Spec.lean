/-
  SPEC shared by all puzzle solvers (C11): what it means for the program posted by `solve_<puzzle>` to
  encode the puzzle's rules, and what `solve_<puzzle>` then reports.  Import-free.
-/
import CspuzModel.Spec.Session
namespace Cspuz.Spec
open Cspuz

/-- The complete program a `solve_<puzzle>` call posts before calling `solver.solve()`: all declared
variables, all constraints, and the ids of the answer-key variables in the puzzle's canonical order
(row-major; frames: horizontal array then vertical array). -/
structure PuzzleProg where
  decls : List VarDecl
  cs : List Expr
  keys : List Nat
  deriving Repr, Inhabited

/-- Values of the answer keys under a model. -/
def PuzzleProg.keyVals (P : PuzzleProg) (σ : Asg) : List (Option Val) := P.keys.map (valOf P.decls σ)

/-- The program encodes the rules `R` (a predicate on the list of answer values, aligned with `keys`):
an answer grid extends to a model of the whole program (hidden auxiliary variables included) iff it
obeys the rules. -/
def EncodesRules (P : PuzzleProg) (R : List Val → Prop) : Prop :=
  ∀ a : List Val, (∃ σ, Sat P.decls P.cs σ ∧ P.keyVals σ = a.map some) ↔ R a

/-- Well-formedness of the key list: distinct declared variables. -/
def PuzzleProg.KeysOk (P : PuzzleProg) : Prop := P.keys.Nodup ∧ ∀ k ∈ P.keys, k < P.decls.length

/-- The Solver state at the moment `solve()` is called. -/
def PuzzleProg.state (P : PuzzleProg) : SolverState :=
  { decls := P.decls,
    isKey := (List.range P.decls.length).map fun i => P.keys.contains i,
    cs := P.cs,
    sol := P.decls.map fun _ => none }

end Cspuz.Spec
