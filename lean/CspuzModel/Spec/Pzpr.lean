/-
  Independent decoders of the pzpr (puzz.link / pzv.jp) URL encodings used by property C16.  IMPORT-FREE and executable.

  Written from the public description of the format (pzprjs `Encode.js`: decodeNumber16, decodeBorder, decode4Cell,
  decodeCircle, decodeArrowNumber16, decodeRoomNumber16, decodeNumber16EXCell, and the URL parser), NOT from cspuz.  The
  pzprjs source is not available offline; what is written from memory and could not be cross-checked against anything
  but the handful of URLs in /repo/tests and /repo/bench is marked **UNSURE**.

  Conventions.  Text = list of code points.  A board has `rows × cols` cells, cell ids row-major.  `qnum`: `-1` = no
  clue, `-2` = the clue "?" (written `.`), `n ≥ 0` a number.  The decoders here are STRICT where pzpr is lenient: a
  character outside the format, a truncated multi-digit group or a too short bitmap is rejected (`none`) instead of
  being skipped / read as NaN.  Like pzpr they accept a run of empty cells that overshoots the board, and a text
  that ends before the board is full (the remaining cells are empty).  Each decoder returns the unread rest of
  the text (pzpr's `outbstr`), so that encodings can be chained (border bitmaps, then room numbers).
-/
namespace Cspuz.Pzpr

abbrev Str := List Nat

/-- value of `0-9a-z` as a digit (JavaScript `parseInt(c, 36)` on one lower-case character) -/
def digitVal (c : Nat) : Option Nat :=
  if 48 ≤ c ∧ c ≤ 57 then some (c - 48) else if 97 ≤ c ∧ c ≤ 122 then some (c - 87) else none

/-- value of a digit below `base` -/
def digitBelow (base c : Nat) : Option Nat :=
  match digitVal c with
  | some v => if v < base then some v else none
  | none => none

def hexVal (c : Nat) : Option Nat := digitBelow 16 c

/-- `pzpr.include(c, lo, hi)` -/
def between (c lo hi : Nat) : Bool := lo ≤ c && c ≤ hi

/-! ### number16 (`decodeNumber16`): nurikabe, sudoku, nurimisaki, room numbers, numbers outside the board

  `0-9a-f` one hexadecimal digit; `-xx` two hexadecimal digits; `+xxx` three; `.` the clue "?";
  `g`–`z` a run of 1–20 cells without a clue.  (pzpr also knows `=xxx` (+4096) and `%xxx` (+8192); they are outside
  what cspuz writes and are rejected here.) -/

def emptyCells (k : Nat) : List Int := List.replicate k (-1)

/-- fills `n` cells from the text; returns the cells and the unread text -/
def number16 : Nat → Str → Option (List Int × Str)
  | 0, s => some ([], s)
  | n + 1, [] => some (emptyCells (n + 1), [])
  | n + 1, c :: s =>
    if c = 45 then                                  -- '-'
      match s with
      | a :: b :: s' =>
        match hexVal a, hexVal b with
        | some x, some y => (number16 n s').map fun r => (((16 * x + y : Nat) : Int) :: r.1, r.2)
        | _, _ => none
      | _ => none
    else if c = 43 then                             -- '+'
      match s with
      | a :: b :: d :: s' =>
        match hexVal a, hexVal b, hexVal d with
        | some x, some y, some z => (number16 n s').map fun r => (((256 * x + 16 * y + z : Nat) : Int) :: r.1, r.2)
        | _, _, _ => none
      | _ => none
    else if c = 46 then (number16 n s).map fun r => ((-2 : Int) :: r.1, r.2)          -- '.'
    else if between c 103 122 then                  -- 'g'..'z': c - 'f' cells
      (number16 (n + 1 - (c - 102)) s).map fun r => (emptyCells (min (c - 102) (n + 1)) ++ r.1, r.2)
    else
      match hexVal c with
      | some v => (number16 n s).map fun r => ((v : Int) :: r.1, r.2)
      | none => none

/-! ### border bitmaps (`decodeBorder`): lits, norinori, heyawake, starbattle, aquarium

  Five borders per character, a base-32 digit `0-9a-v`, first border = most significant bit.  First the
  `rows · (cols-1)` borders between horizontally adjacent cells (row by row), padded to a whole character, then the
  `(rows-1) · cols` borders between vertically adjacent cells (row by row). -/

def bits5 (v : Nat) : List Bool := [v / 16 % 2 == 1, v / 8 % 2 == 1, v / 4 % 2 == 1, v / 2 % 2 == 1, v % 2 == 1]

def mapOpt {α β} (f : α → Option β) : List α → Option (List β)
  | [] => some []
  | a :: r => match f a, mapOpt f r with
    | some b, some t => some (b :: t)
    | _, _ => none

/-- reads `⌈n/5⌉` characters as `n` bits -/
def bitmap (n : Nat) (s : Str) : Option (List Bool × Str) :=
  let k := (n + 4) / 5
  if s.length < k then none else
  (mapOpt (digitBelow 32) (s.take k)).map fun vs => (((vs.map bits5).flatten).take n, s.drop k)

/-- cuts a flat list into `r` rows of `c` entries -/
def toRows {α} (c : Nat) (l : List α) : Nat → List (List α)
  | 0 => []
  | r + 1 => l.take c :: toRows c (l.drop c) r

/-- the borders of a `rows × cols` board: `vertical[y][x]` separates `(y,x)` from `(y,x+1)`, `horizontal[y][x]`
separates `(y,x)` from `(y+1,x)` -/
structure Borders where
  vertical : List (List Bool)
  horizontal : List (List Bool)
  deriving DecidableEq, Repr, Inhabited

def borders (rows cols : Nat) (s : Str) : Option (Borders × Str) :=
  match bitmap (rows * (cols - 1)) s with
  | none => none
  | some (v, s1) =>
    match bitmap ((rows - 1) * cols) s1 with
    | none => none
    | some (hz, s2) => some (⟨toRows (cols - 1) v rows, toRows cols hz (rows - 1)⟩, s2)

/-! #### rooms of a border set (executable, for the driver): connected components of the "no border between" graph,
ordered by their least cell (row-major), cells row-major.  UNSURE only in that this is how I remember pzpr's
`AreaRoomGraph.rebuild` numbers its components (scan of the cells in id order). -/

def cellsOf (rows cols : Nat) : List (Nat × Nat) :=
  (List.range rows).flatMap fun y => (List.range cols).map fun x => (y, x)

def getBit (g : List (List Bool)) (y x : Nat) : Bool := (g.getD y []).getD x true

/-- one relaxation round: every cell takes the least label among itself and its unseparated neighbours -/
def relax (rows cols : Nat) (b : Borders) (lab : List Nat) : List Nat :=
  (cellsOf rows cols).map fun (y, x) =>
    let me := lab.getD (y * cols + x) 0
    let up := if y > 0 && !getBit b.horizontal (y - 1) x then lab.getD ((y - 1) * cols + x) me else me
    let dn := if y + 1 < rows && !getBit b.horizontal y x then lab.getD ((y + 1) * cols + x) me else me
    let lf := if x > 0 && !getBit b.vertical y (x - 1) then lab.getD (y * cols + x - 1) me else me
    let rg := if x + 1 < cols && !getBit b.vertical y x then lab.getD (y * cols + x + 1) me else me
    min me (min (min up dn) (min lf rg))

def iter {α} (f : α → α) : Nat → α → α
  | 0, a => a
  | n + 1, a => iter f n (f a)

/-- the rooms: after `rows·cols` rounds every cell carries the least cell id of its component -/
def roomsOfBorders (rows cols : Nat) (b : Borders) : List (List (Nat × Nat)) :=
  let lab := iter (relax rows cols b) (rows * cols) (List.range (rows * cols))
  let cs := cellsOf rows cols
  (List.range (rows * cols)).filterMap fun id =>
    if lab.getD id 0 = id then some (cs.filter fun (y, x) => lab.getD (y * cols + x) 0 = id) else none

/-! ### 4-cell (`decode4Cell`): slitherlink

  `0`–`4` a clue; `5`–`9` the clue `c-5` followed by one empty cell; `a`–`e` the clue `c-10` followed by two empty
  cells; `g`–`z` a run of 1–20 empty cells; `.` the clue "?". -/

def fourCell : Nat → Str → Option (List Int × Str)
  | 0, s => some ([], s)
  | n + 1, [] => some (emptyCells (n + 1), [])
  | n + 1, c :: s =>
    if between c 48 52 then (fourCell n s).map fun r => (((c - 48 : Nat) : Int) :: r.1, r.2)
    else if between c 53 57 then
      (fourCell (n - 1) s).map fun r => (((c - 53 : Nat) : Int) :: emptyCells (min 1 n) ++ r.1, r.2)
    else if between c 97 101 then
      (fourCell (n - 2) s).map fun r => (((c - 97 : Nat) : Int) :: emptyCells (min 2 n) ++ r.1, r.2)
    else if between c 103 122 then
      (fourCell (n + 1 - (c - 102)) s).map fun r => (emptyCells (min (c - 102) (n + 1)) ++ r.1, r.2)
    else if c = 46 then (fourCell n s).map fun r => ((-2 : Int) :: r.1, r.2)
    else none

/-! ### circles (`decodeCircle`): masyu

  Three cells per character: a base-27 digit `0-9a-q` whose three base-3 digits (most significant first) are the
  cells: 0 = nothing, 1 = white circle, 2 = black circle.  `⌈n/3⌉` characters. -/

def circle (n : Nat) (s : Str) : Option (List Nat × Str) :=
  let k := (n + 2) / 3
  if s.length < k then none else
  (mapOpt (digitBelow 27) (s.take k)).map fun vs =>
    (((vs.map fun v => [v / 9 % 3, v / 3 % 3, v % 3]).flatten).take n, s.drop k)

/-! ### arrow + number (`decodeArrowNumber16`): yajilin

  `0`–`4` a direction (0 none, 1 up, 2 down, 3 left, 4 right) followed by one hexadecimal digit or `.` ("?");
  `5`–`9` the direction `c-5` followed by two hexadecimal digits; `-` followed by a direction digit and three
  hexadecimal digits; `a`–`z` a run of 1–26 cells without a clue. -/

/-- a clue cell: direction and number (`-2` = "?") -/
abbrev Arrow := Option (Nat × Int)

def arrowNumber16 : Nat → Str → Option (List Arrow × Str)
  | 0, s => some ([], s)
  | n + 1, [] => some (List.replicate (n + 1) none, [])
  | n + 1, c :: s =>
    if between c 48 52 then
      match s with
      | d :: s' =>
        if d = 46 then (arrowNumber16 n s').map fun r => (some (c - 48, (-2 : Int)) :: r.1, r.2)
        else match hexVal d with
          | some v => (arrowNumber16 n s').map fun r => (some (c - 48, (v : Int)) :: r.1, r.2)
          | none => none
      | [] => none
    else if between c 53 57 then
      match s with
      | a :: b :: s' =>
        match hexVal a, hexVal b with
        | some x, some y => (arrowNumber16 n s').map fun r => (some (c - 53, ((16 * x + y : Nat) : Int)) :: r.1, r.2)
        | _, _ => none
      | _ => none
    else if c = 45 then
      match s with
      | d :: a :: b :: e :: s' =>
        match digitBelow 5 d, hexVal a, hexVal b, hexVal e with
        | some dir, some x, some y, some z =>
          (arrowNumber16 n s').map fun r => (some (dir, ((256 * x + 16 * y + z : Nat) : Int)) :: r.1, r.2)
        | _, _, _, _ => none
      | _ => none
    else if between c 97 122 then
      (arrowNumber16 (n + 1 - (c - 96)) s).map fun r => (List.replicate (min (c - 96) (n + 1)) none ++ r.1, r.2)
    else none

/-! ### compass cells

  **UNSURE** (no description of pzpr's `compass` encoding at hand; this follows the one URL in
  /repo/tests/puzzle/test_compass.py): `g`–`z` a run of 1–20 cells without clues; otherwise a clue cell made of four
  number16 tokens (one hexadecimal digit, `-xx`, `+xxx` or `.` for "no number"), in the order up, down, left, right. -/

/-- one number16 token of a compass cell: `-1` for `.` -/
def numToken : Str → Option (Int × Str)
  | [] => none
  | c :: s =>
    if c = 46 then some (-1, s)
    else if c = 45 then
      match s with
      | a :: b :: s' => match hexVal a, hexVal b with
        | some x, some y => some (((16 * x + y : Nat) : Int), s')
        | _, _ => none
      | _ => none
    else if c = 43 then
      match s with
      | a :: b :: d :: s' => match hexVal a, hexVal b, hexVal d with
        | some x, some y, some z => some (((256 * x + 16 * y + z : Nat) : Int), s')
        | _, _, _ => none
      | _ => none
    else match hexVal c with
      | some v => some ((v : Int), s)
      | none => none

/-- a compass cell: `(up, down, left, right)` -/
abbrev CompassCell := Option (Int × Int × Int × Int)

/-- `fuel` bounds the number of tokens (the text length suffices) -/
def compassCells : Nat → Nat → Str → Option (List CompassCell × Str)
  | _, 0, s => some ([], s)
  | _, n + 1, [] => some (List.replicate (n + 1) none, [])
  | 0, _ + 1, _ :: _ => none
  | fuel + 1, n + 1, c :: s =>
    if between c 103 122 then
      (compassCells fuel (n + 1 - (c - 102)) s).map fun r => (List.replicate (min (c - 102) (n + 1)) none ++ r.1, r.2)
    else
      match numToken (c :: s) with
      | none => none
      | some (u, s1) => match numToken s1 with
        | none => none
        | some (d, s2) => match numToken s2 with
          | none => none
          | some (l, s3) => match numToken s3 with
            | none => none
            | some (r, s4) => (compassCells fuel n s4).map fun t => (some (u, d, l, r) :: t.1, t.2)

/-! ### the URL frame

  `https://puzz.link/p?<name>/<cols>/<rows>/<body>` and `http://pzv.jp/p.html?<name>/<cols>/<rows>/<body>` (also with
  `https`): everything after the first `?`, split at `/`: puzzle id, number of COLUMNS (width), number of ROWS
  (height), and the body (which may itself contain `/`, e.g. starbattle's `<stars>/<borders>`). -/

def asciiOf (s : String) : Str := s.toList.map Char.toNat

def knownPrefixes : List Str :=
  [asciiOf "https://puzz.link/p?", asciiOf "http://puzz.link/p?", asciiOf "https://pzv.jp/p.html?",
   asciiOf "http://pzv.jp/p.html?"]

def dropPrefix : Str → Str → Option Str
  | [], s => some s
  | _ :: _, [] => none
  | a :: p, b :: s => if a = b then dropPrefix p s else none

/-- a non-empty run of ASCII decimal digits, as a number -/
def decimal (s : Str) : Option Nat :=
  if s.isEmpty then none else
  s.foldl (fun acc c => match acc with
    | some a => if 48 ≤ c ∧ c ≤ 57 then some (a * 10 + (c - 48)) else none
    | none => none) (some 0)

/-- text up to the first `/`, and what follows it -/
def untilSlash : Str → Option (Str × Str)
  | [] => none
  | c :: s => if c = 47 then some ([], s) else (untilSlash s).map fun r => (c :: r.1, r.2)

structure Frame where
  name : Str
  cols : Nat
  rows : Nat
  body : Str
  deriving DecidableEq, Repr, Inhabited

def parseUrl (url : Str) : Option Frame :=
  (knownPrefixes.findSome? fun p => dropPrefix p url).bind fun q =>
  (untilSlash q).bind fun (name, r1) =>
  (untilSlash r1).bind fun (cs, r2) =>
  (untilSlash r2).bind fun (rs, body) =>
  (decimal cs).bind fun cols => (decimal rs).bind fun rows =>
  if name.isEmpty then none else some ⟨name, cols, rows, body⟩

/-! ### whole bodies, per puzzle kind (the text must be used up) -/

def whole {α} (r : Option (α × Str)) : Option α :=
  match r with
  | some (a, []) => some a
  | _ => none

/-- nurikabe, sudoku, nurimisaki: `rows × cols` cells of number16 -/
def decodeNumberGrid (rows cols : Nat) (body : Str) : Option (List (List Int)) :=
  (whole (number16 (rows * cols) body)).map fun l => toRows cols l rows

/-- slitherlink -/
def decodeSlither (rows cols : Nat) (body : Str) : Option (List (List Int)) :=
  (whole (fourCell (rows * cols) body)).map fun l => toRows cols l rows

/-- masyu -/
def decodeMasyu (rows cols : Nat) (body : Str) : Option (List (List Nat)) :=
  (whole (circle (rows * cols) body)).map fun l => toRows cols l rows

/-- yajilin -/
def decodeYajilin (rows cols : Nat) (body : Str) : Option (List (List Arrow)) :=
  (whole (arrowNumber16 (rows * cols) body)).map fun l => toRows cols l rows

/-- lits, norinori: the borders -/
def decodeBorders (rows cols : Nat) (body : Str) : Option Borders := whole (borders rows cols body)

/-- lits, norinori: the rooms -/
def decodeRooms (rows cols : Nat) (body : Str) : Option (List (List (Nat × Nat))) :=
  (decodeBorders rows cols body).map (roomsOfBorders rows cols)

/-- heyawake (`decodeBorder` then `decodeRoomNumber16`) when the number of rooms is known: one number16 entry per
room, rooms in the order of their least cell -/
def decodeHeyawakeN (rows cols nrooms : Nat) (body : Str) : Option (Borders × List Int) :=
  match borders rows cols body with
  | none => none
  | some (b, rest) => (whole (number16 nrooms rest)).map fun v => (b, v)

/-- heyawake: rooms (from the borders) and their numbers -/
def decodeHeyawake (rows cols : Nat) (body : Str) : Option (List (List (Nat × Nat)) × List Int) :=
  match borders rows cols body with
  | none => none
  | some (b, rest) =>
    let rooms := roomsOfBorders rows cols b
    (whole (number16 rooms.length rest)).map fun v => (rooms, v)

/-- starbattle: `<stars>/<borders>` (`decodeStarCount`, `decodeBorder`) -/
def decodeStarBattle (rows cols : Nat) (body : Str) : Option (Nat × Borders) :=
  (untilSlash body).bind fun (k, rest) =>
  (decimal k).bind fun stars => (decodeBorders rows cols rest).map fun b => (stars, b)

/-- aquarium: `<borders>/<numbers>`: the borders, a `/`, then number16 over the cells outside the board – the `cols`
numbers above the board, then the `rows` numbers to its left (`decodeNumber16EXCell`).  **UNSURE** on three counts, none of
which could be checked offline: that the two parts are separated by `/` (cspuz writes one, deliberately, and its author
publishes such URLs; pzpr's generic decoders simply continue in the unread text), that the regions come first, and the
order top-then-left of the outside cells. -/
def decodeAquarium (rows cols : Nat) (body : Str) : Option (Borders × List Int × List Int) :=
  match borders rows cols body with
  | some (b, 47 :: rest) => (whole (number16 (cols + rows) rest)).map fun v => (b, v.take cols, v.drop cols)
  | _ => none

/-- compass -/
def decodeCompass (rows cols : Nat) (body : Str) : Option (List (List CompassCell)) :=
  (whole (compassCells (body.length + 1) (rows * cols) body)).map fun l => toRows cols l rows

end Cspuz.Pzpr
