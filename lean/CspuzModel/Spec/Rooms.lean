/-
  What "room partition", "canonical ordering of rooms and cells" and "values still attached to the same rooms"
  mean (C15, second half).  Written independently of the encoder/decoder.
-/
import CspuzModel.Spec.Serializer
import Mathlib.Logic.Relation
namespace Cspuz.Ser
open Cspuz

/-- orthogonal neighbours on the board -/
def Adj4 (a b : Nat × Nat) : Prop :=
  (a.1 = b.1 ∧ (a.2 + 1 = b.2 ∨ b.2 + 1 = a.2)) ∨ (a.2 = b.2 ∧ (a.1 + 1 = b.1 ∨ b.1 + 1 = a.1))

/-- any two cells of the room are joined by a chain of orthogonally adjacent cells of the room -/
def RoomConnected (r : List (Nat × Nat)) : Prop :=
  ∀ a ∈ r, ∀ b ∈ r, Relation.ReflTransGen (fun x y => Adj4 x y ∧ y ∈ r) a b

/-- `rooms` (in ANY order, cells in ANY order) is a partition of the `h × w` board into non-empty connected rooms -/
structure ValidPartition (h w : Nat) (rooms : List (List (Nat × Nat))) : Prop where
  nonempty : ∀ r ∈ rooms, r ≠ []
  cover : rooms.flatten.Perm (cells h w)
  connected : ∀ r ∈ rooms, RoomConnected r

/-- cells of a room in row-major order -/
def canonRoom (h w : Nat) (r : List (Nat × Nat)) : List (Nat × Nat) := (cells h w).filter fun c => r.contains c

/-- **canonical form**: rooms ordered by their least cell (row-major), cells of each room row-major -/
def canonRooms (h w : Nat) (rooms : List (List (Nat × Nat))) : List (List (Nat × Nat)) :=
  (cells h w).filterMap fun c =>
    (rooms.find? (·.contains c)).bind fun r =>
      if (canonRoom h w r).head? = some c then some (canonRoom h w r) else none

/-- the values re-ordered along with their rooms: the i-th canonical room keeps the value its room had -/
def canonValues (h w : Nat) (rooms : List (List (Nat × Nat))) (values : List PyVal) : List PyVal :=
  (cells h w).filterMap fun c =>
    ((rooms.zip values).find? (·.1.contains c)).bind fun rv =>
      if (canonRoom h w rv.1).head? = some c then some rv.2 else none

/-- a Python list of `r` lists of `c` bits (`0` / `1`) -/
def BitGrid (r c : Nat) (V : PyVal) : Prop :=
  ∃ rows, V = .list rows ∧ rows.length = r ∧
    ∀ row ∈ rows, ∃ bits, row = .list bits ∧ bits.length = c ∧ ∀ b ∈ bits, b = .int 0 ∨ b = .int 1

/-- the bitmap layer of `Rooms`: the two border bitmaps survive `Tupl(Grid(MultiDigit(2,5),h,w-1), Grid(…,h-1,w))` in
any context (an instance of the general composition theorem of C15) -/
def BordersRT (h w : Nat) : Prop :=
  ∀ V H : PyVal, BitGrid h (w - 1) V → BitGrid (h - 1) w H →
    ∃ t, bordersSer h w [.tuple [.list [V], .list [H]]] 0 = .ok (1, t) ∧
      ∀ pre rest, bordersDe h w (pre ++ t ++ rest) pre.length = .ok (t.length, [.tuple [.list [V], .list [H]]])

end Cspuz.Ser
