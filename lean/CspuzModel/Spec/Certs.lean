/-
  Arithmetic certificates: for each encoding of cspuz/graph.py, the exact condition on the values of
  the auxiliary variables that the emitted constraints express.  They are the interface between
  (L1) "the emitted program is satisfiable iff a certificate exists" — an evaluation argument about
  the model's program — and (L2) "a certificate exists iff the graph predicate holds" — graph theory.
  Import-free.
-/
import CspuzModel.Model.GraphBase
namespace Cspuz.Spec
open Cspuz

def b2n (b : Bool) : Nat := if b then 1 else 0

/-- Number of entries `(j, e)` of `incident_edges[i]` selected by `p`. -/
def countInc (g : Graph) (i : Nat) (p : Nat × Nat → Bool) : Nat := ((g.incident i).filter p).length

/-- `_active_vertices_connected` (rank/root encoding). -/
structure AVCCert (g : Graph) (act : Nat → Bool) (acyclic : Bool) where
  rank : Nat → Int
  root : Nat → Bool
  rank_lo : ∀ i, i < g.n → 0 ≤ rank i
  rank_hi : ∀ i, i < g.n → rank i ≤ (g.n : Int) - 1
  /-- every active vertex has ≥ 1 (exactly 1 when acyclic) of: lower-ranked active incident entries, being the root -/
  loc : ∀ i, i < g.n → act i = true →
    if acyclic then countInc g i (fun je => decide (rank je.1 < rank i) && act je.1) + b2n (root i) = 1
    else countInc g i (fun je => decide (rank je.1 < rank i) && act je.1) + b2n (root i) ≥ 1
  /-- acyclic only: ranks differ along every edge (posted unconditionally) -/
  distinct : acyclic = true → ∀ i, i < g.n → ∀ je ∈ g.incident i, i < je.1 → rank je.1 ≠ rank i
  one_root : ((List.range g.n).filter root).length ≤ 1

/-- `active_edges_acyclic`. `act e` = edge `e` is active. -/
structure ForestCert (g : Graph) (act : Nat → Bool) where
  rank : Nat → Int
  rank_lo : ∀ i, i < g.n → 0 ≤ rank i
  rank_hi : ∀ i, i < g.n → rank i ≤ (g.n : Int) - 1
  distinct : ∀ i, i < g.n → ∀ je ∈ g.incident i, i < je.1 → rank i ≠ rank je.1
  loc : ∀ i, i < g.n → countInc g i (fun je => decide (rank je.1 < rank i) && act je.2) ≤ 1

end Cspuz.Spec
