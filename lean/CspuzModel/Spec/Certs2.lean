/-
  Arithmetic certificates (continued): division_connected, single cycle, variable groups,
  grid not-segmenting.  Same role as Spec/Certs.lean.  Import-free.
-/
import CspuzModel.Spec.Certs
namespace Cspuz.Spec
open Cspuz

/-- `_division_connected` (rank / is_root / spanning_forest encoding).
`lab v` is the label of vertex `v`, `roots[c]` the optional prescribed root of label `c`. -/
structure DivCert (g : Graph) (lab : Nat → Int) (k : Nat) (roots : List (Option Nat)) (allowEmpty : Bool) where
  rank : Nat → Int
  root : Nat → Bool
  sf : Nat → Bool
  rank_lo : ∀ i, i < g.n → 0 ≤ rank i
  rank_hi : ∀ i, i < g.n → rank i ≤ (g.n : Int) - 1
  /-- forest edges only join equal labels with different ranks -/
  edge : ∀ i, i < g.n → ∀ je ∈ g.incident i, i < je.1 → sf je.2 = true →
    lab i = lab je.1 ∧ rank i ≠ rank je.1
  /-- each non-root has exactly one lower forest neighbour, each root none -/
  loc : ∀ i, i < g.n →
    countInc g i (fun je => sf je.2 && decide (rank i > rank je.1)) = if root i then 0 else 1
  /-- one root per label (at most one when empty groups are allowed) -/
  per : ∀ c, c < k →
    if allowEmpty then ((List.range g.n).filter fun v => root v && decide (lab v = (c : Int))).length ≤ 1
    else ((List.range g.n).filter fun v => root v && decide (lab v = (c : Int))).length = 1
  rts : ∀ (c r : Nat), roots[c]? = some (some r) → lab r = (c : Int) ∧ root r = true

/-- `_active_edges_single_cycle` (degree + rank/root encoding). `act e` = edge `e` is active. -/
structure CycleCert (g : Graph) (act : Nat → Bool) where
  passed : Nat → Bool
  rank : Nat → Int
  root : Nat → Bool
  rank_lo : ∀ i, i < g.n → 0 ≤ rank i
  rank_hi : ∀ i, i < g.n → rank i ≤ (g.n : Int) - 1
  deg : ∀ i, i < g.n → countInc g i (fun je => act je.2) = if passed i then 2 else 0
  loc : ∀ i, i < g.n → passed i = true →
    countInc g i (fun je => act je.2 && decide (rank je.1 ≥ rank i)) ≤ if root i then 2 else 1
  one_root : ((List.range g.n).filter root).length = 1

end Cspuz.Spec
