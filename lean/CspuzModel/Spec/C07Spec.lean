/-
  SPEC for C07: variable-group division (with / without borders).
-/
import CspuzModel.Spec.GraphSpec
import CspuzModel.Spec.Certs
import CspuzModel.Spec.Sat
import CspuzModel.Model.Graph
namespace Cspuz.Spec
open Cspuz

/-- A partition of the vertices `0 … n-1`, given by its "same block" relation. -/
structure VPartition (n : Nat) where
  same : Nat → Nat → Prop
  refl : ∀ v, v < n → same v v
  symm : ∀ u v, same u v → same v u
  trans : ∀ u v w, same u v → same v w → same u w

/-- The block of `v` as a set of vertices of `g`. -/
def blockOf (g : Graph) (P : VPartition g.n) (v : Nat) : Set (Fin g.n) := {w | P.same v w.1}

/-- Number of vertices in the block of `v`. -/
noncomputable def blockSize (g : Graph) (P : VPartition g.n) (v : Nat) : Nat :=
  Set.ncard (blockOf g P v)

/-- The size demanded for vertex `v` by the `group_size` argument under `σ`, if any. -/
def sizeSpec (σ : Asg) (gs : GroupSize) (v : Nat) : Option Int :=
  match gs with
  | .none => none
  | .scalar s => match eval σ s with | some (.i x) => some x | _ => none
  | .perVertex l => match l[v]? with
    | some (some e) => (match eval σ e with | some (.i x) => some x | _ => none)
    | _ => none

/-- The `group_size` argument is well-formed: integer expressions over the caller's variables, and a
per-vertex list has one entry per vertex. -/
def SizeArgs (base n : Nat) : GroupSize → Prop
  | .none => True
  | .scalar s => wtI s = true ∧ s.varsBelow base = true
  | .perVertex l => l.length = n ∧ ∀ e, some e ∈ l → wtI e = true ∧ e.varsBelow base = true

/-- Every block induces a connected subgraph and every vertex with a specified size lies in a block of
exactly that size. -/
def PartitionOK (g : Graph) (P : VPartition g.n) (size : Nat → Option Int) : Prop :=
  (∀ v, v < g.n → ((toSimple g).induce (blockOf g P v)).Preconnected) ∧
  (∀ v s, v < g.n → size v = some s → (blockSize g P v : Int) = s)

/-- The group ids `gid` realise the partition: equal ids exactly within a block. -/
def Realises (n : Nat) (P : VPartition n) (gid : Nat → Int) : Prop :=
  ∀ u v, u < n → v < n → (gid u = gid v ↔ P.same u v)

/-- The partition obtained by cutting the border edges: `u`, `v` are in the same block iff they are
joined by a path of non-border edges. -/
def cutGraph (g : Graph) (border : Nat → Bool) : SimpleGraph (Fin g.n) where
  Adj u v := u ≠ v ∧ ∃ k, border k = false ∧ Joins g k u.1 v.1
  symm := ⟨by
    intro u v h
    obtain ⟨hne, k, hk, hj⟩ := h
    exact ⟨hne.symm, k, hk, hj.symm⟩⟩
  loopless := ⟨fun v h => h.1 rfl⟩

/-- For the `_with_borders` form: the blocks obtained by cutting the border edges meet the size
condition and every border edge joins two different blocks. -/
def BordersOK (g : Graph) (border : Nat → Bool) (size : Nat → Option Int) : Prop :=
  (∀ k u v, border k = true → Joins g k u v → ∀ (hu : u < g.n) (hv : v < g.n),
      ¬ (cutGraph g border).Reachable ⟨u, hu⟩ ⟨v, hv⟩) ∧
  (∀ v s (hv : v < g.n), size v = some s →
      (Set.ncard {w : Fin g.n | (cutGraph g border).Reachable ⟨v, hv⟩ w} : Int) = s)

/-- The arithmetic certificate of `_division_connected_variable_groups`. -/
structure GroupCert (g : Graph) (size : Nat → Option Int) (withSizes : Bool) (perEdge : Bool) where
  gid : Nat → Int
  rank : Nat → Int
  root : Nat → Bool
  ae : Nat → Bool
  ds : Nat → Int
  ts : Nat → Int
  gid_rng : ∀ i, i < g.n → 0 ≤ gid i ∧ gid i ≤ (g.n : Int) - 1
  rank_rng : ∀ i, i < g.n → 0 ≤ rank i ∧ rank i ≤ (g.n : Int) - 1
  root_iff : ∀ i, i < g.n → (root i = true ↔ rank i = 0)
  root_gid : ∀ i, i < g.n → root i = true → gid i = (i : Int)
  ae_rank : ∀ i, i < g.n → ∀ je ∈ g.incident i, ae je.2 = true → rank je.1 ≠ rank i
  loc : ∀ i, i < g.n →
    countInc g i (fun je => ae je.2 && decide (rank je.1 < rank i)) = if root i then 0 else 1
  ae_gid : ∀ k u v, g.edges[k]? = some (u, v) → ae k = true → gid u = gid v
  /-- size bookkeeping (only when a `group_size` argument is given) -/
  sz_rng : withSizes = true → ∀ i, i < g.n → 1 ≤ ds i ∧ ds i ≤ g.n ∧ 1 ≤ ts i ∧ ts i ≤ g.n
  sz_le : withSizes = true → ∀ i, i < g.n → ds i ≤ ts i
  sz_root : withSizes = true → ∀ i, i < g.n → root i = true → ds i = ts i
  sz_sum : withSizes = true → ∀ i, i < g.n →
    ((g.incident i).map fun je => if ae je.2 && decide (rank je.1 > rank i) then ds je.1 else 0).sum + 1 = ds i
  sz_spec : withSizes = true → ∀ i s, i < g.n → size i = some s → ts i = s
  sz_edge : withSizes = true → perEdge = true →
    ∀ k u v, g.edges[k]? = some (u, v) → ae k = true → ts u = ts v

end Cspuz.Spec
