/-
  SPEC for C14: the geometry of the edge lattice of a `H × W` grid, written from the picture and not
  from the accessor code.  Import-free (core Lean only) so that the driver can execute it.

  A frame of height `H` and width `W` has
    * lattice points `(y, x)`, `0 ≤ y ≤ H`, `0 ≤ x ≤ W`;
    * cells `(y, x)`, `0 ≤ y < H`, `0 ≤ x < W` (cell `(y, x)` has the points `(y, x)`, `(y, x+1)`, `(y+1, x)`,
      `(y+1, x+1)` as corners);
    * horizontal unit segments `h(y, x)`, `0 ≤ y ≤ H`, `0 ≤ x < W`, joining the points `(y, x)`-`(y, x+1)` and
      separating the cells `(y-1, x) | (y, x)` (one of them is outside the board on the outer border);
    * vertical unit segments `v(y, x)`, `0 ≤ y < H`, `0 ≤ x ≤ W`, joining `(y, x)`-`(y+1, x)` and separating the
      cells `(y, x-1) | (y, x)`.
  In *doubled coordinates* the point `(y, x)` sits at `(2y, 2x)`, the centre of cell `(y, x)` at `(2y+1, 2x+1)`, and a
  segment at the midpoint of its two end points.

  `BoolGridFrame(solver, H, W)` allocates one Boolean variable per segment: first the horizontal ones row by row,
  then the vertical ones row by row (`Seg.var`).
-/
namespace Cspuz.Spec.FrameGeom

/-- A unit segment of the lattice, named by its upper / left end point. -/
inductive Seg
  | h (y x : Nat)
  | v (y x : Nat)
  deriving DecidableEq, Repr

/-- Lattice point `(y, x)`. -/
abbrev Pt := Nat × Nat
/-- Cell `(y, x)`; integers, because the outer neighbour of a border segment has a coordinate `-1`
(or `H`, `W`) and is not a cell of the board. -/
abbrev Cell := Int × Int

def PtValid (H W : Nat) (p : Pt) : Prop := p.1 ≤ H ∧ p.2 ≤ W
def CellValid (H W : Nat) (c : Cell) : Prop := 0 ≤ c.1 ∧ c.1 < H ∧ 0 ≤ c.2 ∧ c.2 < W

instance (H W : Nat) (p : Pt) : Decidable (PtValid H W p) := by unfold PtValid; exact inferInstance
instance (H W : Nat) (c : Cell) : Decidable (CellValid H W c) := by unfold CellValid; exact inferInstance

namespace Seg

/-- The segment exists in the `H × W` frame. -/
def Valid (H W : Nat) : Seg → Prop
  | h y x => y ≤ H ∧ x < W
  | v y x => y < H ∧ x ≤ W

instance (H W : Nat) : (s : Seg) → Decidable (s.Valid H W)
  | h _ _ => by unfold Valid; exact inferInstance
  | v _ _ => by unfold Valid; exact inferInstance

/-- The two lattice points the segment joins. -/
def ends : Seg → Pt × Pt
  | h y x => ((y, x), (y, x + 1))
  | v y x => ((y, x), (y + 1, x))

/-- The two cells the segment separates (upper | lower, resp. left | right). -/
def sides : Seg → Cell × Cell
  | h y x => (((y : Int) - 1, (x : Int)), ((y : Int), (x : Int)))
  | v y x => (((y : Int), (x : Int) - 1), ((y : Int), (x : Int)))

/-- Position of the segment in doubled coordinates: the midpoint of its end points `(2y₁,2x₁)`, `(2y₂,2x₂)`. -/
def mid (s : Seg) : Int × Int :=
  (((s.ends.1.1 + s.ends.2.1 : Nat) : Int), ((s.ends.1.2 + s.ends.2.2 : Nat) : Int))

/-- The segment has `p` as an end point. -/
def Touches (s : Seg) (p : Pt) : Prop := s.ends.1 = p ∨ s.ends.2 = p
/-- The segment is one of the sides of cell `c`. -/
def Bounds (s : Seg) (c : Cell) : Prop := s.sides.1 = c ∨ s.sides.2 = c

instance (s : Seg) (p : Pt) : Decidable (s.Touches p) := by unfold Touches; exact inferInstance
instance (s : Seg) (c : Cell) : Decidable (s.Bounds c) := by unfold Bounds; exact inferInstance

/-- Identifier of the Boolean variable sitting on the segment in `BoolGridFrame(solver, H, W)` when the
solver had `base` Boolean variables before: `(H+1)·W` horizontal ones row-major, then `H·(W+1)` vertical ones. -/
def var (base H W : Nat) : Seg → Nat
  | h y x => base + y * W + x
  | v y x => base + (H + 1) * W + y * (W + 1) + x

end Seg

/-- Variable of the horizontal segment `h(y, x)`. -/
def geomH (base H W y x : Nat) : Nat := (Seg.h y x).var base H W
/-- Variable of the vertical segment `v(y, x)`. -/
def geomV (base H W y x : Nat) : Nat := (Seg.v y x).var base H W

/-- Number of the lattice point `(y, x)` as a graph vertex. -/
def ptIndex (W : Nat) (p : Pt) : Nat := p.1 * (W + 1) + p.2

/-- All horizontal segments, row-major. -/
def hSegs (H W : Nat) : List Seg := (List.range (H + 1)).flatMap fun y => (List.range W).map fun x => Seg.h y x
/-- All vertical segments, row-major. -/
def vSegs (H W : Nat) : List Seg := (List.range H).flatMap fun y => (List.range (W + 1)).map fun x => Seg.v y x
/-- Every segment of the frame exactly once. -/
def allSegs (H W : Nat) : List Seg := hSegs H W ++ vSegs H W

/-! ### Executable geometric oracles ("search the segment set"), used by the driver as the spec side -/

/-- The segment whose doubled-coordinate position is `(Y, X)`, if there is one. -/
def segAt (H W : Nat) (Y X : Int) : Option Seg := (allSegs H W).find? fun s => decide (s.mid = (Y, X))

/-- The sides of cell `c` (in enumeration order). -/
def segsOfCell (H W : Nat) (c : Cell) : List Seg := (allSegs H W).filter fun s => decide (s.Bounds c)

/-- The segments ending in lattice point `p` (in enumeration order). -/
def segsOfPoint (H W : Nat) (p : Pt) : List Seg := (allSegs H W).filter fun s => decide (s.Touches p)

/-! ### The same sets in the order in which the accessors are documented to return them -/

/-- up, down, left, right side of cell `(y, x)`. -/
def cellSegs (y x : Nat) : List Seg := [Seg.h y x, Seg.h (y + 1) x, Seg.v y x, Seg.v y (x + 1)]

/-- The segments going up, down, left, right from the point `(y, x)` (those that exist). -/
def pointSegs (H W y x : Nat) : List Seg :=
  (if y > 0 then [Seg.v (y - 1) x] else []) ++ (if y < H then [Seg.v y x] else []) ++
  (if x > 0 then [Seg.h y (x - 1)] else []) ++ (if x < W then [Seg.h y x] else [])

/-! ### Inner borders of a board (the object `BoolInnerGridFrame` of a `H' × W'` board describes)

`hb(y, x)` (`0 ≤ y < H'-1`, `0 ≤ x < W'`) separates the cells `(y, x) | (y+1, x)`;
`vb(y, x)` (`0 ≤ y < H'`, `0 ≤ x < W'-1`) separates `(y, x) | (y, x+1)`.
Duality: the points of a `H × W` frame are the cells of the `(H+1) × (W+1)` board; the segment joining two points is
the border between the corresponding two cells. -/

inductive Border
  | hb (y x : Nat)
  | vb (y x : Nat)
  deriving DecidableEq, Repr

namespace Border

def Valid (H' W' : Nat) : Border → Prop
  | hb y x => y + 1 < H' ∧ x < W'
  | vb y x => y < H' ∧ x + 1 < W'

/-- The two board cells the border separates. -/
def sides : Border → Pt × Pt
  | hb y x => ((y, x), (y + 1, x))
  | vb y x => ((y, x), (y, x + 1))

/-- Variable on the border in `BoolInnerGridFrame(solver, H', W')` (horizontal `(H'-1)×W'` first, then vertical
`H'×(W'-1)`). -/
def var (base H' W' : Nat) : Border → Nat
  | hb y x => base + y * W' + x
  | vb y x => base + (H' - 1) * W' + y * (W' - 1) + x

end Border

/-- The border of the dual board that corresponds to a segment: same pair of (points = cells). -/
def Seg.dual : Seg → Border
  | .h y x => .vb y x
  | .v y x => .hb y x

/-- The segment of the dual frame that corresponds to a border. -/
def Border.dual : Border → Seg
  | .hb y x => .v y x
  | .vb y x => .h y x

end Cspuz.Spec.FrameGeom
