/-
  Model of the reference wrapper sugar_extension/CspuzSugarInterface.java, `run()`: `loadProblem` (Sugar's parser +
  the `#` answer-key line: `Spec/SugarSyntax.parseCSPL` is that reading), answer-finder mode and the deduction mode with
  its own refute-and-re-solve loop, over an abstract `solveCSP()` oracle.  Import-free.

  `while (true)` is modelled with a fuel of `#variables + 1`; `Proofs/C03Java.lean` shows the fuel is never exhausted
  for a correct oracle (each satisfiable refutingJ clause refutes at least one key).
-/
import CspuzModel.Spec.SugarSyntax
namespace Cspuz.SugarJava
open Cspuz Cspuz.Sugar Cspuz.SugarSyntax

/-- `solveCSP()` on the current `problem`: the declared variables and the constraint list; `some σ` = satisfiable
with the values `csp.get…Variable(name).getValue()`. -/
abbrev Oracle := List SVar → List Expr → Option Asg

/-- One slot of `notRefutedInt/answerInt` (or `…Bool`). -/
structure Entry where
  v : SVar
  live : Bool
  ans : Val
  deriving Repr, Inhabited

/-- `Expression.create(name).ne(answerInt[i])` / `Expression.create(name).xor(Expression.create(answerBool[i]))`. -/
def clauseExpr (e : Entry) : Expr :=
  match e.ans with
  | .i n => .node .ne [.ivar e.v.id, .litI n]
  | .b b => .node .xor [.bvar e.v.id, .litB b]

def clause (e : Entry) : Option Expr := if e.live then some (clauseExpr e) else none

/-- `Expression.create(Expression.OR, refutingExpr)`: the int slots first, then the bool slots. -/
def refutingJ (es : List Entry) : Expr := .node .or (es.filterMap clause)

/-- `if (answer[i] != value) notRefuted[i] = false`. -/
def demoteJ (σ : Asg) (es : List Entry) : List Entry :=
  es.map fun e => if valV σ e.v = e.ans then e else { e with live := false }

/-- The `while (true)` loop: `problem.add(OR …); if (!solveCSP()) break; …`. -/
def loop (O : Oracle) (vars : List SVar) : Nat → List Expr → List Entry → List Entry
  | 0, _, es => es
  | fuel + 1, problem, es =>
    let problem' := problem ++ [refutingJ es]
    match O vars problem' with
    | none => es
    | some σ => loop O vars fuel problem' (demoteJ σ es)

def valStr : Val → Str
  | .i n => intStr n
  | .b b => boolS b

/-- `if (isAnswerKey[i] && notRefuted[i]) println(name + " " + answer[i])`. -/
def factLineOf (keys : List Str) (e : Entry) : Option Str :=
  if keys.contains e.v.name && e.live then some (e.v.name ++ ' ' :: valStr e.ans) else none

/-- `run()`. -/
def run (O : Oracle) (text : Str) : Str :=
  match parseCSPL text with
  | none => []      -- Sugar's parser rejects the input (an exception, nothing printed)
  | some (vars, cs, keys) =>
    match O vars cs, keys with
    | none, none => formatUnsat
    | some σ, none => formatSat vars σ
    | none, some _ => formatUnsatFacts
    | some σ, some ks =>
      let es := (intVarsOf vars ++ boolVarsOf vars).map fun v =>
        ({ v := v, live := ks.contains v.name, ans := valV σ v } : Entry)
      let es' := loop O vars (es.length + 1) cs es
      unlines (['s', 'a', 't'] :: es'.filterMap (factLineOf ks))

end Cspuz.SugarJava
