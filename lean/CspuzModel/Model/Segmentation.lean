/-
  Model of cspuz/generator/segmentation.py (`SegmentationBuilder2D`, `split_block`, `_is_connected`).
  Import-free (core Lean only; linked into the driver).

  Conventions
  * A cell is the Python tuple `(y, x)`; coordinates are `Int` because the code computes `y - 1`, `x - 1`
    and list indexing with a negative index wraps around.
  * Every use of the global `random` module is a PARAMETER of the model:
      - `split_block` draws pairs `(randint(0,n-1), randint(0,n-1))` until they differ: the model consumes a
        stream `List (Nat × Nat)` of raw pairs (`nextSeeds`); a pair that `randint(0, n-1)` cannot return, or an
        exhausted stream, gives the non-Python outcome `Drawn.starved`;
      - `initial` calls `random.choice(cands)` once per round: the model takes the chosen index per round.
    Theorems quantify over all streams / choices.
  * Python's iteration order over the `set` `adjacent_pairs` is unspecified: the model lists the merge
    candidates sorted by `(i, j)` without duplicates; the harness compares that part as a set.
  * `_is_connected` is recursive; `visit`'s first argument is the number of Python frames still available
    (`Cfg.recDepth`), so `RecursionError` is part of the model.
  * `bfsLoop` needs fuel (the `while len(q) > 0` loop); `bfs` supplies `len(block) + 1`, which is proved
    sufficient (`Proofs/C18Bfs.lean: bfs_never_out_of_fuel`).  Out of fuel is reported as `RuntimeError`, which the
    Python code can never raise there, so any occurrence would show up as a correspondence disagreement.
-/
import CspuzModel.Model.Py
namespace Cspuz.Seg

abbrev Cell := Int × Int
abbrev Block := List Cell
abbrev Blocks := List Block
/-- `(exclude, append)` as built by `candidates`. -/
abbrev Update := List Int × List Block
abbrev Table := List (List Int)
/-- The `ans` dict of `bfs` (newest entry first; a key is inserted at most once). -/
abbrev Dist := List (Cell × Nat)

/-- Outcome of code that consumes externally supplied random draws. -/
inductive Drawn (α : Type) where
  | ok (a : α)
  | raised (e : PyErr)
  | starved
  deriving Repr, DecidableEq

/-- The builder object after `__init__` (bounds after the `or` defaults). -/
structure Cfg where
  height : Nat
  width : Nat
  minNum : Int
  maxNum : Int
  minSize : Int
  maxSize : Int
  allowUnmet : Bool
  initialBlocks : Option Blocks
  /-- Python frames available to `_is_connected.visit`. -/
  recDepth : Nat

/-- Python `v or d` for `v : None | int` (`None` and `0` are falsy). -/
def pyOr (v : Option Int) (d : Int) : Int :=
  match v with
  | none => d
  | some x => if x = 0 then d else x

/-- `SegmentationBuilder2D.__init__`. -/
def mkCfg (h w : Nat) (minNum maxNum minSize maxSize : Option Int) (allow : Bool)
    (ib : Option Blocks) (depth : Nat) : Cfg :=
  { height := h, width := w,
    minNum := pyOr minNum 1, maxNum := pyOr maxNum ((h : Int) * w),
    minSize := pyOr minSize 1, maxSize := pyOr maxSize ((h : Int) * w),
    allowUnmet := allow, initialBlocks := ib, recDepth := depth }

def rowCells (y w : Nat) : List Cell := (List.range w).map fun (x : Nat) => ((y : Int), (x : Int))
/-- The single block built by `initial()` (row-major). -/
def allCells (h w : Nat) : Block := (List.range h).flatMap fun y => rowCells y w

/-! ### `_copy_with_update` -/

/-- `[previous[i] for i in range(len(previous)) if i not in exclude]` (the counter starts at `i`). -/
def keepFrom (excl : List Int) : Blocks → Nat → Blocks
  | [], _ => []
  | b :: bs, i => if (i : Int) ∈ excl then keepFrom excl bs (i + 1) else b :: keepFrom excl bs (i + 1)

def copyWithUpdate (prev : Blocks) (u : Update) : Blocks := keepFrom u.1 prev 0 ++ u.2

/-! ### `split_block` -/

/-- `[(-1, 0), (1, 0), (0, -1), (0, 1)]` applied to `c`. -/
def nbrs4 (c : Cell) : List Cell := [(c.1 - 1, c.2), (c.1 + 1, c.2), (c.1, c.2 - 1), (c.1, c.2 + 1)]

/-- dict lookup. -/
def dget : Dist → Cell → Option Nat
  | [], _ => none
  | (k, v) :: rest, c => if k = c then some v else dget rest c

/-- The `for dy, dx in ...` loop of `bfs` for a popped cell with distance `d`. -/
def bfsExpand (blk : Block) (d : Nat) : List Cell → List Cell → Dist → List Cell × Dist
  | [], q, ans => (q, ans)
  | n :: ns, q, ans =>
    if n ∈ blk ∧ dget ans n = none then bfsExpand blk d ns (q ++ [n]) ((n, d + 1) :: ans)
    else bfsExpand blk d ns q ans

/-- `while len(q) > 0` with fuel. -/
def bfsLoop (blk : Block) : Nat → List Cell → Dist → Py Dist
  | _, [], ans => .ok ans
  | 0, _ :: _, _ => .error .runtimeError
  | fuel + 1, c :: q, ans =>
    match dget ans c with
    | none => .error .keyError
    | some d =>
      let r := bfsExpand blk d (nbrs4 c) q ans
      bfsLoop blk fuel r.1 r.2

def bfs (blk : Block) (seed : Cell) : Py Dist := bfsLoop blk (blk.length + 1) [seed] [(seed, 0)]

/-- The final `for b in block` loop (`dist_a[b]` / `dist_b[b]` raise `KeyError` for unreached cells). -/
def assign (da db : Dist) : List Cell → Py (Block × Block)
  | [] => .ok ([], [])
  | c :: cs =>
    match dget da c with
    | none => .error .keyError
    | some a =>
      match dget db c with
      | none => .error .keyError
      | some b =>
        match assign da db cs with
        | .error e => .error e
        | .ok r => if a ≤ b then .ok (c :: r.1, r.2) else .ok (r.1, c :: r.2)

/-- `split_block` after the seed indices have been drawn. -/
def splitWith (blk : Block) (a b : Nat) : Py (Block × Block) :=
  match blk[a]?, blk[b]? with
  | some sa, some sb =>
    match bfs blk sa with
    | .error e => .error e
    | .ok da =>
      match bfs blk sb with
      | .error e => .error e
      | .ok db => assign da db blk
  | _, _ => .error .indexError

/-- The `while True` rejection loop: the first pair with `a ≠ b`.  `n = len(block)`. -/
def nextSeeds (n : Nat) : List (Nat × Nat) → Option ((Nat × Nat) × List (Nat × Nat))
  | [] => none
  | p :: rest =>
    if p.1 < n ∧ p.2 < n then (if p.1 ≠ p.2 then some (p, rest) else nextSeeds n rest) else none

def splitBlock (blk : Block) (draws : List (Nat × Nat)) : Drawn ((Block × Block) × List (Nat × Nat)) :=
  if blk.length < 2 then .raised .assertionError
  else
    match nextSeeds blk.length draws with
    | none => .starved
    | some (p, rest) =>
      match splitWith blk p.1 p.2 with
      | .ok r => .ok (r, rest)
      | .error e => .raised e

/-! ### `_is_connected` -/

/-- The recursive `visit`; the first argument is the remaining recursion depth, the last the `visited` set
(newest first). -/
def visit (blk : Block) (excl : Option Cell) : Nat → Cell → List Cell → Py (List Cell)
  | 0, _, _ => .error .recursionError
  | d + 1, c, vis =>
    if c ∉ blk ∨ c ∈ vis ∨ some c = excl then .ok vis
    else
      match visit blk excl d (c.1 - 1, c.2) (c :: vis) with
      | .error e => .error e
      | .ok v1 =>
        match visit blk excl d (c.1 + 1, c.2) v1 with
        | .error e => .error e
        | .ok v2 =>
          match visit blk excl d (c.1, c.2 - 1) v2 with
          | .error e => .error e
          | .ok v3 => visit blk excl d (c.1, c.2 + 1) v3

/-- `set(block)` as a duplicate-free list. -/
def dedup : List Cell → List Cell
  | [] => []
  | c :: cs => if c ∈ cs then dedup cs else c :: dedup cs

def isConnected (depth : Nat) (blk : Block) (excl : Option Cell) : Py Bool :=
  match blk with
  | [] => .error .indexError
  | [_] => .ok excl.isNone
  | c0 :: c1 :: _ =>
    match visit blk excl depth (if some c0 = excl then c1 else c0) [] with
    | .error e => .error e
    | .ok vis =>
      .ok (decide ((vis.length : Int) = ((dedup blk).length : Int) -
        (match excl with
         | none => 0
         | some e => if e ∈ blk then 1 else 0)))

/-! ### `candidates` -/

/-- Python list index normalisation for a list of length `n`. -/
def wrapIdx (n : Nat) (k : Int) : Py Nat :=
  if 0 ≤ (if k < 0 then k + n else k) ∧ (if k < 0 then k + n else k) < n
  then .ok (if k < 0 then k + n else k).toNat else .error .indexError

/-- `block_id[y][x] = v`. -/
def tblSet (t : Table) (c : Cell) (v : Int) : Py Table :=
  match wrapIdx t.length c.1 with
  | .error e => .error e
  | .ok yy =>
    match t[yy]? with
    | none => .error .indexError
    | some row =>
      match wrapIdx row.length c.2 with
      | .error e => .error e
      | .ok xx => .ok (t.set yy (row.set xx v))

def fillBlock (v : Int) : List Cell → Table → Py Table
  | [], t => .ok t
  | c :: cs, t =>
    match tblSet t c v with
    | .error e => .error e
    | .ok t' => fillBlock v cs t'

def fillAll : Blocks → Nat → Table → Py Table
  | [], _, t => .ok t
  | b :: bs, i, t =>
    match fillBlock (i : Int) b t with
    | .error e => .error e
    | .ok t' => fillAll bs (i + 1) t'

def buildTable (h w : Nat) (bs : Blocks) : Py Table :=
  fillAll bs 0 (List.replicate h (List.replicate w (-1)))

/-- `block_id[y][x]` for `0 ≤ y, x`. -/
def tblGet (t : Table) (y x : Nat) : Py Int :=
  match t[y]? with
  | none => .error .indexError
  | some row =>
    match row[x]? with
    | none => .error .indexError
    | some v => .ok v

/-- Sequential loop collecting list results; the first error wins. -/
def collectM {α β : Type} (f : α → Py (List β)) : List α → Py (List β)
  | [] => .ok []
  | a :: as =>
    match f a with
    | .error e => .error e
    | .ok xs =>
      match collectM f as with
      | .error e => .error e
      | .ok ys => .ok (xs ++ ys)

/-- `for y in range(height): for x in range(width)`. -/
def boardCells (h w : Nat) : List (Nat × Nat) :=
  (List.range h).flatMap fun y => (List.range w).map fun x => (y, x)

/-- One of the two neighbour tests of the merge scan: `a = block_id[y][x]`, `b` the neighbour's id.
`none` is Python's `continue` (which also skips the other direction for this cell). -/
def mergeDir (cfg : Cfg) (bs : Blocks) (a b : Int) : Py (Option (List (Int × Int))) :=
  if a ≠ b ∧ b ≠ -1 then
    match pyIndex bs a with
    | .error e => .error e
    | .ok bi =>
      match pyIndex bs b with
      | .error e => .error e
      | .ok bj =>
        if (bi.length : Int) + bj.length > cfg.maxSize then .ok none
        else .ok (some [if a < b then (a, b) else (b, a)])
  else .ok (some [])

/-- Neighbour id below / right of `(y, x)` when the guard `y < height - 1` / `x < width - 1` holds. -/
def idBelow (cfg : Cfg) (t : Table) (y x : Nat) : Py (Option Int) :=
  if y + 1 < cfg.height then
    match tblGet t (y + 1) x with
    | .error e => .error e
    | .ok b => .ok (some b)
  else .ok none

def idRight (cfg : Cfg) (t : Table) (y x : Nat) : Py (Option Int) :=
  if x + 1 < cfg.width then
    match tblGet t y (x + 1) with
    | .error e => .error e
    | .ok b => .ok (some b)
  else .ok none

def mergeDir? (cfg : Cfg) (bs : Blocks) (a : Int) (nb : Py (Option Int)) : Py (Option (List (Int × Int))) :=
  match nb with
  | .error e => .error e
  | .ok none => .ok (some [])
  | .ok (some b) => mergeDir cfg bs a b

/-- Body of the merge scan for one cell. -/
def mergeAt (cfg : Cfg) (bs : Blocks) (t : Table) (p : Nat × Nat) : Py (List (Int × Int)) :=
  match tblGet t p.1 p.2 with
  | .error e => .error e
  | .ok a =>
    if a = -1 then .ok []
    else
      match mergeDir? cfg bs a (idBelow cfg t p.1 p.2) with
      | .error e => .error e
      | .ok none => .ok []
      | .ok (some v) =>
        match mergeDir? cfg bs a (idRight cfg t p.1 p.2) with
        | .error e => .error e
        | .ok none => .ok v
        | .ok (some hz) => .ok (v ++ hz)

def pairLt (p q : Int × Int) : Bool := p.1 < q.1 || (p.1 == q.1 && p.2 < q.2)

/-- Insert into a sorted duplicate-free list (the model's canonical order of the `adjacent_pairs` set). -/
def insertPair (p : Int × Int) : List (Int × Int) → List (Int × Int)
  | [] => [p]
  | q :: qs => if p = q then q :: qs else if pairLt p q then p :: q :: qs else q :: insertPair p qs

def sortPairs : List (Int × Int) → List (Int × Int)
  | [] => []
  | p :: ps => insertPair p (sortPairs ps)

/-- `ret.append(([i, j], [current[i] + current[j]]))`. -/
def mergeUpdate (bs : Blocks) (p : Int × Int) : Py (List Update) :=
  match pyIndex bs p.1 with
  | .error e => .error e
  | .ok bi =>
    match pyIndex bs p.2 with
    | .error e => .error e
    | .ok bj => .ok [([p.1, p.2], [bi ++ bj])]

def mergeCands (cfg : Cfg) (bs : Blocks) (t : Table) : Py (List Update) :=
  match collectM (mergeAt cfg bs t) (boardCells cfg.height cfg.width) with
  | .error e => .error e
  | .ok ps => collectM (mergeUpdate bs) (sortPairs ps)

/-- The `2 * (len(block) - 1)` split attempts on block `i`. -/
def splitAttempts (cfg : Cfg) (i : Nat) (blk : Block) :
    Nat → List (Nat × Nat) → Drawn (List Update × List (Nat × Nat))
  | 0, draws => .ok ([], draws)
  | n + 1, draws =>
    match splitBlock blk draws with
    | .raised e => .raised e
    | .starved => .starved
    | .ok (ab, rest) =>
      match splitAttempts cfg i blk n rest with
      | .raised e => .raised e
      | .starved => .starved
      | .ok (us, rest') =>
        .ok ((if (ab.1.length : Int) ≥ cfg.minSize ∧ (ab.2.length : Int) ≥ cfg.minSize
              then [([(i : Int)], [ab.1, ab.2])] else []) ++ us, rest')

/-- `for i, block in enumerate(current)` of the split part (counter starts at `i`). -/
def splitBlocks (cfg : Cfg) : Blocks → Nat → List (Nat × Nat) → Drawn (List Update × List (Nat × Nat))
  | [], _, draws => .ok ([], draws)
  | blk :: bs, i, draws =>
    if (blk.length : Int) ≥ cfg.minSize * 2 then
      match splitAttempts cfg i blk (2 * (blk.length - 1)) draws with
      | .raised e => .raised e
      | .starved => .starved
      | .ok (us, rest) =>
        match splitBlocks cfg bs (i + 1) rest with
        | .raised e => .raised e
        | .starved => .starved
        | .ok (vs, rest') => .ok (us ++ vs, rest')
    else splitBlocks cfg bs (i + 1) draws

/-- One `if len(donor) > min and len(receiver) < max and _is_connected(donor, c)` of the mutate part. -/
def moveOne (cfg : Cfg) (excl : List Int) (donor recv : Block) (c : Cell) : Py (List Update) :=
  if (donor.length : Int) > cfg.minSize ∧ (recv.length : Int) < cfg.maxSize then
    match isConnected cfg.recDepth donor (some c) with
    | .error e => .error e
    | .ok true => .ok [(excl, [donor.filter (fun p => p ≠ c), recv ++ [c]])]
    | .ok false => .ok []
  else .ok []

/-- One of the two neighbour tests of the mutate scan; `ca` has id `a`, `cb` has id `b`. `none` = `continue`. -/
def moveDir (cfg : Cfg) (bs : Blocks) (a b : Int) (ca cb : Cell) : Py (Option (List Update)) :=
  if a ≠ b then
    if a = -1 ∨ b = -1 then .ok none
    else
      match pyIndex bs a with
      | .error e => .error e
      | .ok bi =>
        match pyIndex bs b with
        | .error e => .error e
        | .ok bj =>
          match moveOne cfg [a, b] bi bj ca with
          | .error e => .error e
          | .ok u1 =>
            match moveOne cfg [a, b] bj bi cb with
            | .error e => .error e
            | .ok u2 => .ok (some (u1 ++ u2))
  else .ok (some [])

def moveDir? (cfg : Cfg) (bs : Blocks) (a : Int) (nb : Py (Option Int)) (ca cb : Cell) :
    Py (Option (List Update)) :=
  match nb with
  | .error e => .error e
  | .ok none => .ok (some [])
  | .ok (some b) => moveDir cfg bs a b ca cb

/-- Body of the mutate scan for one cell. -/
def moveAt (cfg : Cfg) (bs : Blocks) (t : Table) (p : Nat × Nat) : Py (List Update) :=
  match tblGet t p.1 p.2 with
  | .error e => .error e
  | .ok a =>
    match moveDir? cfg bs a (idBelow cfg t p.1 p.2) ((p.1 : Int), (p.2 : Int)) ((p.1 : Int) + 1, (p.2 : Int)) with
    | .error e => .error e
    | .ok none => .ok []
    | .ok (some v) =>
      match moveDir? cfg bs a (idRight cfg t p.1 p.2) ((p.1 : Int), (p.2 : Int)) ((p.1 : Int), (p.2 : Int) + 1) with
      | .error e => .error e
      | .ok none => .ok v
      | .ok (some hz) => .ok (v ++ hz)

def moveCands (cfg : Cfg) (bs : Blocks) (t : Table) : Py (List Update) :=
  collectM (moveAt cfg bs t) (boardCells cfg.height cfg.width)

/-- `SegmentationBuilder2D.candidates(current)`; `draws` feeds every `split_block` call in order. -/
def candidates (cfg : Cfg) (bs : Blocks) (draws : List (Nat × Nat)) : Drawn (List Update) :=
  match buildTable cfg.height cfg.width bs with
  | .error e => .raised e
  | .ok t =>
    match (if (bs.length : Int) > cfg.minNum then mergeCands cfg bs t else .ok []) with
    | .error e => .raised e
    | .ok ms =>
      match (if (bs.length : Int) < cfg.maxNum then splitBlocks cfg bs 0 draws else .ok ([], draws)) with
      | .raised e => .raised e
      | .starved => .starved
      | .ok ss =>
        match moveCands cfg bs t with
        | .error e => .raised e
        | .ok mv => .ok (ms ++ ss.1 ++ mv)

/-! ### `initial` -/

/-- The `is_met` computation of `initial`. -/
def isMet (cfg : Cfg) (bs : Blocks) : Bool :=
  decide (cfg.minNum ≤ (bs.length : Int) ∧ (bs.length : Int) ≤ cfg.maxNum) &&
  bs.all fun b => decide (cfg.minSize ≤ (b.length : Int) ∧ (b.length : Int) ≤ cfg.maxSize)

/-- The random inputs of one round of the `while True` loop of `initial`. -/
structure Round where
  draws : List (Nat × Nat)
  /-- index returned by `random.choice` into the model's candidate list -/
  choice : Nat

inductive InitResult where
  | done (bs : Blocks)
  | raised (e : PyErr)
  /-- the supplied rounds are used up and the loop is still running (state `bs`) -/
  | running (bs : Blocks)
  | starved
  deriving Repr, DecidableEq

def initialLoop (cfg : Cfg) : List Round → Blocks → InitResult
  | [], bs => if isMet cfg bs then .done bs else .running bs
  | r :: rs, bs =>
    if isMet cfg bs then .done bs
    else
      match candidates cfg bs r.draws with
      | .raised e => .raised e
      | .starved => .starved
      | .ok [] => .raised .indexError
      | .ok (u :: us) =>
        match (u :: us)[r.choice]? with
        | none => .starved
        | some v => initialLoop cfg rs (copyWithUpdate bs v)

def initialBlocks (cfg : Cfg) : Blocks :=
  match cfg.initialBlocks with
  | none => [allCells cfg.height cfg.width]
  | some ib => ib

def initial (cfg : Cfg) (rounds : List Round) : InitResult :=
  if cfg.allowUnmet then .done (initialBlocks cfg) else initialLoop cfg rounds (initialBlocks cfg)

end Cspuz.Seg
