/-
  Model of the constraint generators of cspuz/graph.py.  Each Python function that calls
  `solver.int_array / bool_array / ensure` is a pure function returning the program fragment it emits
  (`Prog`: new declarations + constraints, in emission order); `base` is the number of variables the
  solver already has, so auxiliary ids are `base + k` in the Python allocation order.  Import-free.
-/
import CspuzModel.Model.GridFrame
namespace Cspuz
open Expr

def getE (l : List Expr) (i : Nat) : Py Expr :=
  match l[i]? with
  | some x => .ok x
  | none => .error .indexError

/-- Python `a & b` where each side is a `BoolExpr` or a Python bool. -/
def andPy (a b : Expr) : Py Expr :=
  match a, b with
  | .litB x, .litB y => .ok (.litB (x && y))
  | _, _ => if a.isBoolLike && b.isBoolLike then .ok (.node .and [a, b]) else .error .typeError

/-- The comparison operator seen from the other operand (`a < b` is `b > a`). -/
def Op.mirror : Op → Op
  | .lt => .gt | .gt => .lt | .le => .ge | .ge => .le | o => o

/-- Python `a <cmp> b` where each side is an `IntExpr` or a Python int.  Python tries the *right*
operand's reflected method first when the left one is a literal, and also when the right operand's
class is a proper subclass of the left one's (`IntVar` is a subclass of `IntExpr`), so in those cases
the emitted node has the operands swapped and the mirrored operator. -/
def cmpPy (op : Op) (a b : Expr) : Py Expr :=
  match a, b with
  | .litI x, .litI y => .ok (.litB (cmpOp op x y))
  | .litI _, _ => if b.isIntExpr then .ok (.node op.mirror [b, a]) else .error .typeError
  | .node _ _, .ivar _ => if a.isIntExpr then .ok (.node op.mirror [b, a]) else .error .typeError
  | _, _ => if a.isIntExpr && b.isIntLike then .ok (.node op [a, b]) else .error .typeError

/-- `solver.ensure(x)` for one scalar: must be a `BoolExpr` or a Python bool. -/
def ensure1 (x : Expr) : Py Expr := if x.isBoolLike then .ok x else .error .typeError

def ivars (base n : Nat) : List Expr := (List.range n).map fun i => .ivar (base + i)

def edgeLits (es : List (Nat × Nat)) : List Expr := es.flatMap fun e => [.litI e.1, .litI e.2]

/-! ### active_vertices_connected -/

/-- `_active_vertices_connected(solver, is_active, graph, acyclic, use_graph_primitive)`. -/
def activeVerticesConnected (g : Graph) (ia : List Expr) (base : Nat) (acyclic prim : Bool) : Py Prog :=
  if prim && !acyclic then
    if ia.length ≠ g.n then .error .valueError
    else .ok { cs := [.node .graphAVC ([.litI g.n, .litI g.edges.length] ++ ia ++ edgeLits g.edges)] }
  else do
    let n := g.n
    let rdecl ← intArrayDecls n 0 ((n : Int) - 1)
    let rank (i : Nat) : Expr := .ivar (base + i)
    let root (i : Nat) : Expr := .bvar (base + n + i)
    let per ← (List.range n).mapM fun i => do
      let less ← (g.incident i).mapM fun je => do
        andPy (.node .lt [rank je.1, rank i]) (← getE ia je.1)
      let ai ← getE ia i
      let ct ← countTrue (less ++ [root i])
      if acyclic then
        let ne := (g.incident i).filterMap fun je =>
          if i < je.1 then some (.node .ne [rank je.1, rank i]) else none
        .ok (ne ++ [thenRaw ai (.node .eq [ct, .litI 1])])
      else
        .ok [thenRaw ai (.node .ge [ct, .litI 1])]
    let ctr ← countTrue ((List.range n).map root)
    .ok { decls := rdecl ++ List.replicate n .bool,
          cs := per.flatten ++ [.node .le [ctr, .litI 1]] }

/-! ### active_vertices_not_adjacent -/

/-- graph form: `for i, j in graph: ensure(~(is_active[i] & is_active[j]))`. -/
def notAdjacentGraph (g : Graph) (ia : List Expr) : Py Prog := do
  let cs ← g.edges.mapM fun ij => do
    let a ← getE ia ij.1
    let b ← getE ia ij.2
    match ← andPy a b with
    | .litB _ => .error .typeError     -- `~True` is the int -2, rejected by ensure
    | e => .ok (.node .not [e])
  .ok { cs := cs }

/-- grid form: `~(a[1:, :] & a[:-1, :])` then `~(a[:, 1:] & a[:, :-1])`, flattened row-major. -/
def notAdjacentGrid (h w : Nat) (a : List Expr) : Py Prog := do
  let at_ (y x : Nat) : Py Expr := getE a (y * w + x)
  let v ← ((List.range (h - 1)).flatMap fun y => (List.range w).map fun x => (y, x)).mapM fun (yx : Nat × Nat) => do
    .ok (.node .not [.node .and [← at_ (yx.1 + 1) yx.2, ← at_ yx.1 yx.2]])
  let hz ← ((List.range h).flatMap fun y => (List.range (w - 1)).map fun x => (y, x)).mapM fun (yx : Nat × Nat) => do
    .ok (.node .not [.node .and [← at_ yx.1 (yx.2 + 1), ← at_ yx.1 yx.2]])
  .ok { cs := v ++ hz }

/-! ### active_vertices_not_adjacent_and_not_segmenting -/

/-- graph form (is_active must be a BoolArray1D so that `~is_active` exists). -/
def notSegmentingGraph (g : Graph) (ia : List Expr) (base : Nat) (prim : Bool) : Py Prog := do
  let p1 ← notAdjacentGraph g ia
  let p2 ← activeVerticesConnected g (ia.map fun x => .node .not [x]) base false prim
  .ok (p1 ++ p2)

/-- the four diagonal offsets in the Python loop order. -/
def diagOffsets : List (Int × Int) := [(-1, -1), (-1, 1), (1, -1), (1, 1)]

/-- specialised grid encoding (diagonal ranks); used for boards with `h, w ≥ 2`. -/
def notSegmentingGridDiag (h w : Nat) (a : List Expr) (base : Nat) : Py Prog := do
  let p1 ← notAdjacentGrid h w a
  let rdecl ← intArrayDecls (h * w) 0 (pyDiv ((h * w : Nat) - 1 : Int) 2)
  let rank (y x : Nat) : Expr := .ivar (base + y * w + x)
  let per ← ((List.range h).flatMap fun y => (List.range w).map fun x => (y, x)).mapM fun (yx : Nat × Nat) => do
    let y : Nat := yx.1
    let x : Nat := yx.2
    let nb : List (Nat × Nat) := diagOffsets.filterMap fun d =>
      let y2 : Int := (y : Int) + d.1
      let x2 : Int := (x : Int) + d.2
      if 0 ≤ y2 ∧ y2 < h ∧ 0 ≤ x2 ∧ x2 < w then some (y2.toNat, x2.toNat) else none
    let nonzero := nb.length < 4
    let less ← nb.mapM fun p => do
      .ok (.node .and [.node .lt [rank p.1 p.2, rank y x], ← getE a (p.1 * w + p.2)])
    let ne := nb.filterMap fun p =>
      if p.1 < y ∨ (p.1 = y ∧ p.2 < x) then some (.node .ne [rank p.1 p.2, rank y x]) else none
    let ct ← countTrue less
    let ayx ← getE a (y * w + x)
    .ok (ne ++ [.node .imp [ayx, .node .le [ct, .litI (if nonzero then 0 else 1)]]])
  .ok (p1 ++ { decls := rdecl, cs := per.flatten })

/-- `active_vertices_not_adjacent_and_not_segmenting(solver, is_active)` on a BoolArray2D: boards with
a single row or column use the generic route on the grid graph (there a cell touches the outer border
on two sides and the diagonal encoding does not apply). -/
def notSegmentingGrid (h w : Nat) (a : List Expr) (base : Nat) (prim : Bool) : Py Prog :=
  if h == 1 || w == 1 then do
    let p1 ← notAdjacentGrid h w a
    let p2 ← activeVerticesConnected (Graph.grid h w) (a.map fun x => .node .not [x]) base false prim
    .ok (p1 ++ p2)
  else notSegmentingGridDiag h w a base

/-! ### active_edges_acyclic -/

def activeEdgesAcyclic (g : Graph) (ie : List Expr) (base : Nat) : Py Prog := do
  let n := g.n
  let rdecl ← intArrayDecls n 0 ((n : Int) - 1)
  let rank (i : Nat) : Expr := .ivar (base + i)
  let per ← (List.range n).mapM fun i => do
    let items ← (g.incident i).mapM fun je => do
      let l ← andPy (.node .lt [rank je.1, rank i]) (← getE ie je.2)
      .ok (l, if i < je.1 then [Expr.node .ne [rank i, rank je.1]] else [])
    let ct ← countTrue (items.map (·.1))
    .ok ((items.flatMap (·.2)) ++ [.node .le [ct, .litI 1]])
  .ok { decls := rdecl, cs := per.flatten }

/-! ### division_connected -/

/-- `_division_connected`; `roots` entries are `none` (Python `None`) or a vertex id. -/
def divisionConnected (g : Graph) (dv : List Expr) (k : Nat) (roots : Option (List (Option Nat)))
    (allowEmpty prim : Bool) (base : Nat) : Py Prog := do
  let n := g.n
  let m := g.edges.length
  let rootCs (withIsRoot : Option (Nat → Expr)) : Py (List Expr) :=
    match roots with
    | none => .ok []
    | some rs => do
      let l ← rs.zipIdx.mapM fun ri =>
        match ri.1 with
        | none => .ok []
        | some r => do
          let c ← cmpPy .eq (← getE dv r) (.litI ri.2)
          match withIsRoot with
          | none => .ok [c]
          | some f => .ok [c, f r]
      .ok l.flatten
  if prim then
    let per ← (List.range k).mapM fun (i : Nat) => do
      let rb := base + i * n
      let region := bvars rb n
      let eqs ← (List.range n).mapM fun v => do
        let d ← getE dv v
        let c ← cmpPy .eq d (.litI i)
        .ok (.node .iff [.bvar (rb + v), c])
      let avc ← activeVerticesConnected g region 0 false true
      let ne ← if allowEmpty then .ok [] else do
        let ct ← countTrue region
        .ok [.node .ge [ct, .litI 1]]
      .ok (eqs ++ avc.cs ++ ne)
    let rc ← rootCs none
    .ok { decls := List.replicate (k * n) .bool, cs := per.flatten ++ rc }
  else
    let rdecl ← intArrayDecls n 0 ((n : Int) - 1)
    let rank (i : Nat) : Expr := .ivar (base + i)
    let isRoot (i : Nat) : Expr := .bvar (base + n + i)
    let sf (e : Nat) : Expr := .bvar (base + 2 * n + e)
    let per ← (List.range n).mapM fun i => do
      let items ← (g.incident i).mapM fun je => do
        let j := je.1
        let l := Expr.node .and [sf je.2, .node .gt [rank i, rank j]]
        let c ← if i < j then do
              let deq ← cmpPy .eq (← getE dv i) (← getE dv j)
              let both ← andPy deq (.node .ne [rank i, rank j])
              .ok [Expr.node .imp [sf je.2, both]]
            else .ok []
        .ok (l, c)
      let ct ← countTrue (items.map (·.1))
      .ok (items.flatMap (·.2) ++ [.node .eq [ct, .node .ite [isRoot i, .litI 0, .litI 1]]])
    let perRegion ← (List.range k).mapM fun (i : Nat) => do
      let items ← ((List.range n).zip dv).mapM fun (vd : Nat × Expr) => do
        let c ← cmpPy .eq vd.2 (.litI i)
        andPy (isRoot vd.1) c
      let ct ← countTrue items
      .ok (Expr.node (if allowEmpty then .le else .eq) [ct, .litI 1])
    let rc ← rootCs (some isRoot)
    .ok { decls := rdecl ++ List.replicate n .bool ++ List.replicate m .bool,
          cs := per.flatten ++ perRegion ++ rc }

/-! ### division_connected_variable_groups -/

/-- The three shapes of `group_size`. -/
inductive GroupSize
  | none
  | scalar (s : Expr)                      -- an int or an IntExpr
  | perVertex (l : List (Option Expr))     -- a list/array with `None` holes
  deriving Repr, Inhabited

/-- `_division_connected_variable_groups`; returns the program and the `group_id` variables. -/
def variableGroups (g : Graph) (gs : GroupSize) (base : Nat) : Py (Prog × List Expr) := do
  let n := g.n
  let m := g.edges.length
  let d1 ← intArrayDecls n 0 ((n : Int) - 1)
  let gid (i : Nat) : Expr := .ivar (base + i)
  let rank (i : Nat) : Expr := .ivar (base + n + i)
  let isRoot (i : Nat) : Expr := .bvar (base + 2 * n + i)
  let ae (e : Nat) : Expr := .bvar (base + 3 * n + e)
  let c0 := (List.range n).map fun i => Expr.node .iff [isRoot i, .node .eq [rank i, .litI 0]]
  let per ← (List.range n).mapM fun i => do
    let a := Expr.node .imp [isRoot i, .node .eq [gid i, .litI i]]
    let b := (g.incident i).map fun je => Expr.node .imp [ae je.2, .node .ne [rank je.1, rank i]]
    let ct ← countTrue ((g.incident i).map fun je => .node .and [ae je.2, .node .lt [rank je.1, rank i]])
    .ok ([a] ++ b ++ [.node .eq [ct, .node .ite [isRoot i, .litI 0, .litI 1]]])
  let c2 := g.edges.zipIdx.map fun uv => Expr.node .imp [ae uv.2, .node .eq [gid uv.1.1, gid uv.1.2]]
  let baseDecls := d1 ++ d1 ++ List.replicate n .bool ++ List.replicate m .bool
  let ids := (List.range n).map gid
  match gs with
  | .none => .ok ({ decls := baseDecls, cs := c0 ++ per.flatten ++ c2 }, ids)
  | _ =>
    let d2 ← intArrayDecls n 1 n
    let ds (i : Nat) : Expr := .ivar (base + 3 * n + m + i)
    let ts (i : Nat) : Expr := .ivar (base + 4 * n + m + i)
    let c3 := (List.range n).map fun i => Expr.node .le [ds i, ts i]
    let c4 := (List.range n).map fun i => Expr.node .imp [isRoot i, .node .eq [ds i, ts i]]
    let per2 ← (List.range n).mapM fun i => do
      let terms := (g.incident i).map fun je =>
        Expr.node .ite [.node .and [ae je.2, .node .gt [rank je.1, rank i]], ds je.1, .litI 0]
      -- Python: sum(terms) + 1 == ds[i]
      let lhs : Expr := match terms with
        | [] => .litI 1
        | t :: r => .node .add [r.foldl (fun acc x => .node .add [acc, x]) (.node .add [.litI 0, t]), .litI 1]
      -- `lhs == ds[i]`: reflected both for the literal `1` and for an IntExpr node against an IntVar
      let c ← cmpPy .eq lhs (ds i)
      let s ← match gs with
        | .scalar s => .ok (some s)
        | .perVertex l => match l[i]? with
            | some x => .ok x
            | none => .error .indexError
        | .none => .ok none
      match s with
      | none => .ok [c]
      | some s =>
        if s.isIntLike then .ok [c, .node .eq [ts i, s]] else .error .typeError
    let c5 := match gs with
      | .scalar _ => []
      | _ => g.edges.zipIdx.map fun uv => Expr.node .imp [ae uv.2, .node .eq [ts uv.1.1, ts uv.1.2]]
    .ok ({ decls := baseDecls ++ d2 ++ d2, cs := c0 ++ per.flatten ++ c2 ++ c3 ++ c4 ++ per2.flatten ++ c5 }, ids)

/-- Python `a == b` for Boolean operands (`BoolExpr` or bool). -/
def iffPy (a b : Expr) : Py Expr :=
  match a, b with
  | .litB x, .litB y => .ok (.litB (x == y))
  | .litB _, _ => if b.isBoolExpr then .ok (.node .iff [b, a]) else .error .typeError
  | .node _ _, .bvar _ => if a.isBoolExpr then .ok (.node .iff [b, a]) else .error .typeError
  | _, _ => if a.isBoolExpr && b.isBoolLike then .ok (.node .iff [a, b]) else .error .typeError

/-- `_division_connected_variable_groups_with_borders`. -/
def variableGroupsWithBorders (g : Graph) (gs : List (Option Expr)) (border : List Expr) (prim : Bool)
    (base : Nat) : Py Prog :=
  if gs.length ≠ g.n then .error .valueError
  else if border.length ≠ g.edges.length then .error .valueError
  else if prim then
    .ok { cs := [.node .graphDiv ([.litI g.n, .litI g.edges.length] ++ gs.map (fun x => x.getD .litNone)
                    ++ edgeLits g.edges ++ border)] }
  else do
    let (p, gid) ← variableGroups g (.perVertex gs) base
    let cs ← g.edges.zipIdx.mapM fun uv => do
      let a ← getE gid uv.1.1
      let b ← getE gid uv.1.2
      iffPy (← getE border uv.2) (.node .ne [a, b])
    .ok (p ++ { cs := cs })

/-! ### active_edges_single_cycle / single_path -/

def degreeOf (g : Graph) (ie : List Expr) (i : Nat) : Py Expr := do
  let l ← (g.incident i).mapM fun je => getE ie je.2
  countTrue l

/-- `_active_edges_single_cycle`; returns the program and the `is_passed` variables. -/
def singleCycle (g : Graph) (ie : List Expr) (prim : Bool) (base : Nat) : Py (Prog × List Expr) := do
  let n := g.n
  let passed (i : Nat) : Expr := .bvar (base + i)
  if prim then
    let degs ← (List.range n).mapM fun i => do
      .ok (Expr.node .eq [← degreeOf g ie i, .node .ite [passed i, .litI 2, .litI 0]])
    let avc ← activeVerticesConnected g.lineGraph ie 0 false true
    .ok ({ decls := List.replicate n .bool, cs := degs ++ avc.cs }, (List.range n).map passed)
  else
    let rdecl ← intArrayDecls n 0 ((n : Int) - 1)
    let rank (i : Nat) : Expr := .ivar (base + n + i)
    let isRoot (i : Nat) : Expr := .bvar (base + 2 * n + i)
    let per ← (List.range n).mapM fun i => do
      let d ← degreeOf g ie i
      let items ← (g.incident i).mapM fun je => do
        andPy (← getE ie je.2) (.node .ge [rank je.1, rank i])
      let ct ← countTrue items
      .ok [Expr.node .eq [d, .node .ite [passed i, .litI 2, .litI 0]],
           .node .imp [passed i, .node .le [ct, .node .ite [isRoot i, .litI 2, .litI 1]]]]
    let ctr ← countTrue ((List.range n).map isRoot)
    .ok ({ decls := List.replicate n .bool ++ rdecl ++ List.replicate n .bool,
           cs := per.flatten ++ [.node .eq [ctr, .litI 1]] }, (List.range n).map passed)

/-- `_active_edges_single_path` (only the primitive route exists; otherwise `RuntimeError("TODO")`).
`emptyOk` models the repaired code, where the empty edge set is admitted as documented. -/
def singlePath (g : Graph) (ie : List Expr) (prim : Bool) (base : Nat) : Py (Prog × List Expr) := do
  let n := g.n
  let passed (i : Nat) : Expr := .bvar (base + i)
  if prim then
    let per ← (List.range n).mapM fun i => do
      let d ← degreeOf g ie i
      .ok ([Expr.node .imp [passed i, .node .or [.node .eq [d, .litI 1], .node .eq [d, .litI 2]]],
            .node .imp [.node .not [passed i], .node .eq [d, .litI 0]]], Expr.node .eq [d, .litI 1])
    let ctEnd ← countTrue (per.map (·.2))
    let anyEdge ← foldOr ie
    let avc ← activeVerticesConnected g.lineGraph ie 0 false true
    .ok ({ decls := List.replicate n .bool,
           cs := per.flatMap (·.1) ++ [.node .eq [ctEnd, .node .ite [anyEdge, .litI 2, .litI 0]]] ++ avc.cs },
         (List.range n).map passed)
  else .error .runtimeError

end Cspuz
