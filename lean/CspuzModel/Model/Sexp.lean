/-
  S-expressions: the wire format of the line protocol between the Python harness and the
  Lean driver.  Import-free.
-/
import CspuzModel.Model.Py
namespace Cspuz

inductive Sexp
  | atom (s : String)
  | list (l : List Sexp)
  deriving Repr, Inhabited, BEq

namespace Sexp

mutual
partial def render : Sexp → String
  | atom s => s
  | list l => "(" ++ intercalate " " (l.map render) ++ ")"
end

/-- Tokens of a line. -/
inductive Tok | lp | rp | at (s : String)

def tokenize (s : String) : List Tok :=
  let flush (cur : List Char) (acc : List Tok) : List Tok :=
    if cur.isEmpty then acc else Tok.at (String.ofList cur.reverse) :: acc
  let rec go (cs : List Char) (cur : List Char) (acc : List Tok) : List Tok :=
    match cs with
    | [] => (flush cur acc).reverse
    | c :: cs =>
      if c = '(' then go cs [] (Tok.lp :: flush cur acc)
      else if c = ')' then go cs [] (Tok.rp :: flush cur acc)
      else if c = ' ' ∨ c = '\n' ∨ c = '\t' ∨ c = '\r' then go cs [] (flush cur acc)
      else go cs (c :: cur) acc
  go s.toList [] []

/-- Stack-based parser: `stack` holds the reversed partial lists of the open parentheses. -/
def parseToks : List Tok → List (List Sexp) → Option Sexp
  | [], [[x]] => some x
  | [], _ => none
  | Tok.lp :: ts, st => parseToks ts ([] :: st)
  | Tok.rp :: ts, cur :: up :: st => parseToks ts ((Sexp.list cur.reverse :: up) :: st)
  | Tok.rp :: _, _ => none
  | Tok.at s :: ts, cur :: st => parseToks ts ((Sexp.atom s :: cur) :: st)
  | Tok.at _ :: _, [] => none

def parse (s : String) : Option Sexp := parseToks (tokenize s) [[]]

def toInt? : Sexp → Option Int
  | atom s => s.toInt?
  | _ => none

def toNat? : Sexp → Option Nat
  | atom s => s.toNat?
  | _ => none

def ofInt (n : Int) : Sexp := atom (toString n)
def ofNat (n : Nat) : Sexp := atom (toString n)
def ofBool (b : Bool) : Sexp := atom (if b then "T" else "F")
def toBool? : Sexp → Option Bool
  | atom "T" => some true
  | atom "F" => some false
  | _ => none

def toList? : Sexp → Option (List Sexp)
  | list l => some l
  | _ => none

end Sexp
end Cspuz
