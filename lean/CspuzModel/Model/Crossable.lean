/-
  Model of `graph.active_edges_connected_crossable` (and `…_single_cycle_crossable`).  Import-free.
-/
import CspuzModel.Model.Graph
namespace Cspuz
open Expr

/-- The 3-nodes-per-point auxiliary graph: nodes `3*(y*width+x) + {0: plain, 1: horizontal pass, 2: vertical pass}`
followed by one node per vertical segment and then one per horizontal segment. -/
def crossGraph (height width : Nat) : Graph :=
  let pts := height * width * 3
  let vE := (List.range (height - 1)).flatMap fun y => (List.range width).flatMap fun x =>
    let eid := pts + y * width + x
    let v0 := (y * width + x) * 3
    let v1 := ((y + 1) * width + x) * 3
    [(eid, v0), (eid, v0 + 2), (eid, v1), (eid, v1 + 2)]
  let hE := (List.range height).flatMap fun y => (List.range (width - 1)).flatMap fun x =>
    let eid := pts + (height - 1) * width + y * (width - 1) + x
    let v0 := (y * width + x) * 3
    let v1 := (y * width + x + 1) * 3
    [(eid, v0), (eid, v0 + 1), (eid, v1), (eid, v1 + 1)]
  { n := pts + (height - 1) * width + height * (width - 1), edges := vE ++ hE }

/-- `active_edges_connected_crossable(solver, frame, single_cycle, use_graph_primitive)`:
returns the program and the two returned arrays (`is_passed`, `is_cross`, each `(H+1)×(W+1)` row-major). -/
def connectedCrossable (f : Frame) (singleCycle prim : Bool) (base : Nat) :
    Py (Prog × List Expr × List Expr) := do
  let height := f.height + 1
  let width := f.width + 1
  let hw := height * width
  let passed (y x : Nat) : Expr := .bvar (base + y * width + x)
  let cross (y x : Nat) : Expr := .bvar (base + hw + y * width + x)
  let cells := (List.range height).flatMap fun y => (List.range width).map fun x => (y, x)
  let c0 := cells.map fun (yx : Nat × Nat) => Expr.node .imp [cross yx.1 yx.2, passed yx.1 yx.2]
  let per ← cells.mapM fun (yx : Nat × Nat) => do
    let y := yx.1
    let x := yx.2
    let bd : List Expr :=
      if y == 0 || y == height - 1 || x == 0 || x == width - 1 then [.node .not [cross y x]] else []
    let nb ← f.vertexNeighbors y x
    let d ← countTrue nb
    let pc : Expr := .node .and [passed y x, cross y x]
    let pn : Expr := .node .and [passed y x, .node .not [cross y x]]
    let deg : List Expr :=
      if singleCycle then [.node .imp [pn, .node .eq [d, .litI 2]]]
      else [.node .imp [pn, .node .ge [d, .litI 1]], .node .imp [pn, .node .le [d, .litI 2]]]
    .ok (bd ++ [.node .imp [.node .not [passed y x], .node .eq [d, .litI 0]],
                .node .imp [pc, .node .eq [d, .litI 4]]] ++ deg)
  let ps (y x : Nat) : Expr := .bvar (base + 2 * hw + y * width + x)
  let pdh (y x : Nat) : Expr := .bvar (base + 3 * hw + y * width + x)
  let pdv (y x : Nat) : Expr := .bvar (base + 4 * hw + y * width + x)
  let c1 := cells.map fun (yx : Nat × Nat) =>
    Expr.node .iff [ps yx.1 yx.2, .node .and [passed yx.1 yx.2, .node .not [cross yx.1 yx.2]]]
  let c2 := cells.map fun (yx : Nat × Nat) => Expr.node .iff [pdh yx.1 yx.2, cross yx.1 yx.2]
  let c3 := cells.map fun (yx : Nat × Nat) => Expr.node .iff [pdv yx.1 yx.2, cross yx.1 yx.2]
  let gvPts := cells.flatMap fun (yx : Nat × Nat) => [ps yx.1 yx.2, pdh yx.1 yx.2, pdv yx.1 yx.2]
  let gvV ← ((List.range (height - 1)).flatMap fun y => (List.range width).map fun x => (y, x)).mapM
    fun (yx : Nat × Nat) => f.vertical.get yx.1 yx.2
  let gvH ← ((List.range height).flatMap fun y => (List.range (width - 1)).map fun x => (y, x)).mapM
    fun (yx : Nat × Nat) => f.horizontal.get yx.1 yx.2
  let avc ← activeVerticesConnected (crossGraph height width) (gvPts ++ gvV ++ gvH) (base + 5 * hw) false prim
  .ok ({ decls := List.replicate (5 * hw) .bool ++ avc.decls,
         cs := c0 ++ per.flatten ++ c1 ++ c2 ++ c3 ++ avc.cs },
       cells.map (fun (yx : Nat × Nat) => passed yx.1 yx.2), cells.map (fun (yx : Nat × Nat) => cross yx.1 yx.2))

end Cspuz
