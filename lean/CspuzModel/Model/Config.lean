/-
  Model of cspuz/configuration.py (`_get_default`, `_strtobool`, `_detect_backend`, `Config.__init__`),
  of the backend dispatch of cspuz/solver.py (`_get_backend_by_name`, `_get_default_backend`,
  `_get_backend`) and of the `use_graph_primitive is None` branches of cspuz/graph.py.
  Import-free (core Lean only).

  Strings are Lean `String`s.  `str.lower()` is modelled by ASCII case folding (`Char.toLower`, which maps
  'A'..'Z' to 'a'..'z' and nothing else); see the trusted base of C20 for why this is exact for the four
  accepted words.  The environment is a function `String → Option String` (`os.environ.get`), the result of
  the four import probes of `_detect_backend` is a record of Booleans (true = `import m` succeeds, false =
  it raises `ImportError`).
-/
import CspuzModel.Model.Py
namespace Cspuz

/-- `os.environ.get` -/
abbrev Env := String → Option String

/-- `_get_default(infer_from_env, env_key, default)` with a string default. -/
def getDefault (inferFromEnv : Bool) (env : Env) (key : String) (dflt : String) : String :=
  if inferFromEnv then
    match env key with
    | some v => v
    | none => dflt
  else dflt

/-- `_get_default(infer_from_env, env_key, None)`. -/
def getDefaultNone (inferFromEnv : Bool) (env : Env) (key : String) : Option String :=
  if inferFromEnv then env key else none

/-- `s.lower()` (ASCII case folding only). -/
def pyLower (s : String) : String := String.ofList (s.toList.map Char.toLower)

/-- `_strtobool`. -/
def strtobool (s : String) : Py Bool :=
  let s := pyLower s
  if s = "true" ∨ s = "1" then .ok true
  else if s = "false" ∨ s = "0" then .ok false
  else .error .valueError

/-- Which of the four probed modules can be imported. -/
structure Avail where
  cspuz_core : Bool
  enigma_csp : Bool
  pycsugar : Bool
  z3 : Bool
  deriving DecidableEq, Repr, Inhabited

/-- `_detect_backend()`: the probes in source order. -/
def detectBackend (a : Avail) : String :=
  if a.cspuz_core then "cspuz_core"
  else if a.enigma_csp then "enigma_csp"
  else if a.pycsugar then "csugar"
  else if a.z3 then "z3"
  else "sugar"

/-- The attributes of `cspuz.configuration.Config` that the property talks about (`solver_timeout` is
always `None` after construction and `csugar_binding` is never assigned). -/
structure Config where
  default_backend : String
  backend_path : Option String
  use_graph_primitive : Bool
  use_graph_division_primitive : Bool
  deriving DecidableEq, Repr, Inhabited

/-- `Config.__init__(infer_from_env)`. -/
def Config.init (inferFromEnv : Bool) (env : Env) (avail : Avail) : Py Config := do
  let defaultBackend := getDefault inferFromEnv env "CSPUZ_DEFAULT_BACKEND" "auto"
  let defaultBackend := if defaultBackend = "auto" then detectBackend avail else defaultBackend
  let backendPath := getDefaultNone inferFromEnv env "CSPUZ_BACKEND_PATH"
  let graphPrimitiveDefault :=
    if defaultBackend = "csugar" ∨ defaultBackend = "enigma_csp" ∨ defaultBackend = "cspuz_core"
    then "True" else "False"
  let graphDivisionPrimitiveDefault :=
    if defaultBackend = "enigma_csp" ∨ defaultBackend = "cspuz_core" then "True" else "False"
  let ugp ← strtobool (getDefault inferFromEnv env "CSPUZ_USE_GRAPH_PRIMITIVE" graphPrimitiveDefault)
  let ugdp ← strtobool
    (getDefault inferFromEnv env "CSPUZ_USE_GRAPH_DIVISION_PRIMITIVE" graphDivisionPrimitiveDefault)
  .ok { default_backend := defaultBackend, backend_path := backendPath,
        use_graph_primitive := ugp, use_graph_division_primitive := ugdp }

/-- The backend classes: the five of backend/sugar_like.py, `backend.z3.Z3Backend`, and any class object
supplied by the caller (identified by an opaque number). -/
inductive BackendClass
  | sugar | sugarExtended | z3 | csugar | enigmaCsp | cspuzCore
  | custom (id : Nat)
  deriving DecidableEq, Repr, Inhabited

/-- Python class names (`cls.__name__`) of the six built-in classes. -/
def BackendClass.pyName : BackendClass → String
  | .sugar => "SugarBackend" | .sugarExtended => "SugarExtendedBackend" | .z3 => "Z3Backend"
  | .csugar => "CSugarBackend" | .enigmaCsp => "EnigmaCSPBackend" | .cspuzCore => "CspuzCoreBackend"
  | .custom id => "custom" ++ toString id

/-- `_get_backend_by_name`. -/
def getBackendByName (name : String) : Py BackendClass :=
  if name = "sugar" then .ok .sugar
  else if name = "sugar_extended" then .ok .sugarExtended
  else if name = "z3" then .ok .z3
  else if name = "csugar" then .ok .csugar
  else if name = "enigma_csp" then .ok .enigmaCsp
  else if name = "cspuz_core" then .ok .cspuzCore
  else .error .valueError

/-- The `backend=` argument of `Solver.find_answer` / `Solver.solve`. -/
inductive BackendArg
  | none
  | name (s : String)
  | cls (c : BackendClass)
  deriving DecidableEq, Repr, Inhabited

/-- `_get_default_backend()` reading the given configuration. -/
def getDefaultBackend (cfg : Config) : Py BackendClass := getBackendByName cfg.default_backend

/-- `_get_backend(backend)`. -/
def getBackend (arg : BackendArg) (cfg : Config) : Py BackendClass :=
  match arg with
  | .none => getDefaultBackend cfg
  | .name s => getBackendByName s
  | .cls c => .ok c

/-- The external entry point a backend instance hands the problem to (`_call_solver` of
backend/sugar_like.py; `config.backend_path or "sugar"` treats the empty string like `None`). -/
inductive EntryPoint
  | subprocess (executable : String)     -- `run_subprocess([path, "/dev/stdin"], ...)`
  | moduleSolver (module : String)       -- `import m; m.solver(description)`
  | z3                                   -- the z3 Python API
  | custom (id : Nat)                    -- whatever the caller's class does
  deriving DecidableEq, Repr, Inhabited

def sugarPath (cfg : Config) : String :=
  match cfg.backend_path with
  | some p => if p = "" then "sugar" else p
  | none => "sugar"

def BackendClass.entryPoint (cfg : Config) : BackendClass → EntryPoint
  | .sugar => .subprocess (sugarPath cfg)
  | .sugarExtended => .subprocess (sugarPath cfg)
  | .csugar => .moduleSolver "pycsugar"
  | .enigmaCsp => .moduleSolver "enigma_csp"
  | .cspuzCore => .moduleSolver "cspuz_core"
  | .z3 => .z3
  | .custom id => .custom id

/-- `if use_graph_primitive is None: use_graph_primitive = config.<flag>`. -/
def resolveFlag (arg : Option Bool) (cfgFlag : Bool) : Bool :=
  match arg with
  | none => cfgFlag
  | some b => b

/-- The test that selects the native operator in `_active_vertices_connected`:
`use_graph_primitive and not acyclic` after the `None` fallback. -/
def usePrimitive (arg : Option Bool) (cfgFlag : Bool) (acyclic : Bool) : Bool :=
  resolveFlag arg cfgFlag && !acyclic

/-- The functions of cspuz/graph.py that fall back to the configuration. -/
inductive GraphFn
  | activeVerticesConnected | divisionConnected | singleCycle | singlePath | variableGroupsWithBorders
  deriving DecidableEq, Repr, Inhabited

def GraphFn.all : List GraphFn :=
  [.activeVerticesConnected, .divisionConnected, .singleCycle, .singlePath, .variableGroupsWithBorders]

/-- Which configuration attribute the function reads when the argument is `None`. -/
def GraphFn.cfgFlag : GraphFn → Config → Bool
  | .variableGroupsWithBorders, cfg => cfg.use_graph_division_primitive
  | _, cfg => cfg.use_graph_primitive

/-- Only `_active_vertices_connected` has an `acyclic` parameter. -/
def GraphFn.hasAcyclic : GraphFn → Bool
  | .activeVerticesConnected => true
  | _ => false

/-- The flag with which the function selects its route. -/
def GraphFn.native (fn : GraphFn) (arg : Option Bool) (cfg : Config) (acyclic : Bool) : Bool :=
  if fn.hasAcyclic then usePrimitive arg (fn.cfgFlag cfg) acyclic else resolveFlag arg (fn.cfgFlag cfg)

/-! ### rows of the generated tables (Gen/C20Tables.lean) -/

/-- A result as recorded in the generated tables: the value, or the name of the Python exception. -/
def tbl {α : Type} (r : Py α) : Except String α :=
  match r with
  | .ok a => .ok a
  | .error e => .error e.name

/-- One recorded run of `Config(infer_from_env)`: the inputs (availability of the probed modules, the
four environment variables) and the observed attributes or exception. -/
structure ConfigRow where
  infer : Bool
  avail : Avail
  backend : Option String
  path : Option String
  prim : Option String
  div : Option String
  out : Except String Config
  deriving Repr

/-- The environment of a recorded run. -/
def ConfigRow.env (r : ConfigRow) : Env := fun k =>
  if k = "CSPUZ_DEFAULT_BACKEND" then r.backend
  else if k = "CSPUZ_BACKEND_PATH" then r.path
  else if k = "CSPUZ_USE_GRAPH_PRIMITIVE" then r.prim
  else if k = "CSPUZ_USE_GRAPH_DIVISION_PRIMITIVE" then r.div
  else none

/-- The model reproduces the recorded run. -/
def ConfigRow.agrees (r : ConfigRow) : Bool :=
  decide (tbl (Config.init r.infer r.env r.avail) = r.out)

end Cspuz
