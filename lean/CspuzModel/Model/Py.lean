/-
  Python-level basics shared by every model file.  Import-free (core Lean only).
-/
namespace Cspuz

/-- The Python exception kinds that the properties talk about.  Partial Python operations
are modelled as `Except PyErr α`; they are never totalised with a default. -/
inductive PyErr
  | typeError | valueError | indexError | keyError | assertionError
  | recursionError | notImplementedError | runtimeError | z3Exception | attributeError
  deriving DecidableEq, Repr, Inhabited

def PyErr.name : PyErr → String
  | .typeError => "TypeError" | .valueError => "ValueError" | .indexError => "IndexError"
  | .keyError => "KeyError" | .assertionError => "AssertionError"
  | .recursionError => "RecursionError" | .notImplementedError => "NotImplementedError"
  | .runtimeError => "RuntimeError" | .z3Exception => "Z3Exception"
  | .attributeError => "AttributeError"

abbrev Py (α : Type) := Except PyErr α

instance {ε α : Type} [DecidableEq ε] [DecidableEq α] : DecidableEq (Except ε α)
  | .ok a, .ok b => if h : a = b then isTrue (by rw [h]) else isFalse (by intro h'; cases h'; exact h rfl)
  | .error a, .error b => if h : a = b then isTrue (by rw [h]) else isFalse (by intro h'; cases h'; exact h rfl)
  | .ok _, .error _ => isFalse (by intro h; cases h)
  | .error _, .ok _ => isFalse (by intro h; cases h)

/-- Python `//` on integers (floor division). -/
def pyDiv (a b : Int) : Int := Int.fdiv a b
/-- Python `%` on integers (sign of the divisor). -/
def pyMod (a b : Int) : Int := Int.fmod a b

/-- Python list indexing with a possibly negative index. -/
def pyIndex {α} (l : List α) (k : Int) : Py α :=
  let n : Int := l.length
  let p := if k < 0 then k + n else k
  if 0 ≤ p ∧ p < n then
    match l[p.toNat]? with
    | some x => .ok x
    | none => .error .indexError
  else .error .indexError

def intercalate (sep : String) : List String → String
  | [] => ""
  | [x] => x
  | x :: xs => x ++ sep ++ intercalate sep xs

end Cspuz
