/-
  Model of the array operators and aggregate helpers of cspuz (property C12):
    cspuz/array.py        `_is_bool_like`, `_is_int_like`, `_elementwise`, the dunder / `then` / `cond` /
                          `fold_or` / `fold_and` / `count_true` / `alldifferent` methods of
                          BoolArray1D/2D and IntArray1D/2D, `conv2d`, `_four_neighbors`,
                          `_four_neighbor_indices`
    cspuz/constraints.py  `flatten_iterator`, `cond`, `then`, `count_true`, `fold_or`, `fold_and`, `alldifferent`
    cspuz/expr.py         the scalar dunders, `BoolExpr.cond` / `BoolExpr.then`
  together with CPython's binary-operator dispatch (`a op b`: left method, reflected method of the
  right operand, subclass priority, identity fall-back of `==` / `!=`).

  The model describes the code WITH the two repairs demanded by the property (DESIGN §6):
    D4  `_is_int_like` rejects Python bools (as `_is_int_expr_like` of expr.py does);
    D5  `constraints.cond` / `constraints.then` type-check their scalar fall-through with
        `_make_int_expr` / `_make_bool_expr` and raise `TypeError` instead of returning `NotImplemented`.
  On the unrepaired tree the regenerated table `Gen/DunderTable.lean` and the correspondence run differ
  from this model exactly on those rows.

  Import-free (core Lean only).
-/
import CspuzModel.Model.Graph
import CspuzModel.Model.Index
import CspuzModel.Model.Solver
namespace Cspuz

/-! ### Values -/

/-- `.shape` of an array: `(n,)` or `(h, w)`. -/
inductive Shape
  | d1 (n : Nat)
  | d2 (h w : Nat)
  deriving DecidableEq, Repr, Inhabited

/-- `functools.reduce(lambda x, y: x * y, shape, 1)`. -/
def Shape.size : Shape → Nat
  | .d1 n => n
  | .d2 h w => h * w

/-- A Python-level operand.  The class of an array (`BoolArray…` / `IntArray…`) is a tag, it is not
derived from the content (`BoolArray1D([])` and `IntArray1D([])` differ).  `scalar e` is an expression
object, a Python `bool` / `int` literal or `None`; `other` is any other object (a `str`, a function …),
assumed to be distinct from every other operand and not iterable. -/
inductive PyV
  | scalar (e : Expr)
  | arr1 (isBool : Bool) (data : List Expr)
  | arr2 (isBool : Bool) (h w : Nat) (data : List Expr)
  | other
  deriving Repr, Inhabited

def PyV.shape? : PyV → Option Shape
  | .arr1 _ d => some (.d1 d.length)
  | .arr2 _ h w _ => some (.d2 h w)
  | _ => none

def PyV.data? : PyV → Option (List Expr)
  | .arr1 _ d => some d
  | .arr2 _ _ _ d => some d
  | _ => none

/-- `Some isBool` for an array object. -/
def PyV.arrKind? : PyV → Option Bool
  | .arr1 b _ => some b
  | .arr2 b _ _ _ => some b
  | _ => none

def PyV.isArr (v : PyV) : Bool := v.arrKind?.isSome

/-- The invariant established by the constructors of `Array2D` (`len(data) == h * w`). -/
def PyV.wf : PyV → Bool
  | .arr2 _ h w d => d.length == h * w
  | _ => true

/-- `array._is_bool_like`: `isinstance(value, (BoolExpr, bool, BoolArray1D, BoolArray2D))`. -/
def PyV.isBoolLike : PyV → Bool
  | .scalar e => e.isBoolLike
  | .arr1 b _ => b
  | .arr2 b _ _ _ => b
  | .other => false

/-- `array._is_int_like` (repaired, D4): `isinstance(value, (IntExpr, int, IntArray1D, IntArray2D))
and not isinstance(value, bool)`. -/
def PyV.isIntLike : PyV → Bool
  | .scalar e => e.isIntLike
  | .arr1 b _ => !b
  | .arr2 b _ _ _ => !b
  | .other => false

/-! ### `_elementwise` -/

/-- The type-check table at the top of `_elementwise`: `ok false` = `return NotImplemented`,
`error ValueError` = unknown operator. -/
def ewTypeCheck (op : Op) (xs : List PyV) : Py Bool :=
  if op.isCmp then .ok (xs.length == 2 && xs.all PyV.isIntLike)
  else match op with
  | .and | .or | .iff | .xor | .imp => .ok (xs.length == 2 && xs.all PyV.isBoolLike)
  | .not => .ok (match xs with | [x] => x.isBoolLike | _ => false)
  | .alldiff => .ok (xs.all PyV.isIntLike)
  | .add | .sub => .ok (xs.length == 2 && xs.all PyV.isIntLike)
  | .neg => .ok (match xs with | [x] => x.isIntLike | _ => false)
  | .ite => .ok (match xs with | [c, t, f] => c.isBoolLike && t.isIntLike && f.isIntLike | _ => false)
  | _ => .error .valueError

/-- `operand.shape != shape` does not hold for this operand (non-arrays are not checked). -/
def PyV.shapeOk (shape : Shape) (x : PyV) : Bool :=
  match x.shape? with
  | some s => s == shape
  | none => true

/-- The operand of element `i`: `operand.data[i]` for an array, the operand itself otherwise.
(`other` cannot pass the type check, so its branch is unreachable from `elementwise`.) -/
def PyV.at (x : PyV) (i : Nat) : Py Expr :=
  match x with
  | .scalar e => .ok e
  | .arr1 _ d => getE d i
  | .arr2 _ _ _ d => getE d i
  | .other => .error .typeError

/-- The `i`-th produced node: `BoolExpr(op, expr_operands)` / `IntExpr(op, expr_operands)` — no
per-element type check. -/
def ewElem (op : Op) (xs : List PyV) (i : Nat) : Py Expr := do
  let es ← xs.mapM (fun x => x.at i)
  .ok (.node op es)

/-- The result object: class by `is_bool_op(op)` and by `len(shape)`. -/
def mkArr (isBool : Bool) (shape : Shape) (res : List Expr) : PyV :=
  match shape with
  | .d1 _ => .arr1 isBool res
  | .d2 h w => .arr2 isBool h w res

/-- `_elementwise(op, shape, operands)`; `ok none` is `NotImplemented`.  (`shape` always comes from the
`.shape` of an array, so the `shape is None` / `len(shape)` branches are unreachable.) -/
def elementwise (op : Op) (shape : Shape) (xs : List PyV) : Py (Option PyV) :=
  match ewTypeCheck op xs with
  | .error e => .error e
  | .ok false => .ok none
  | .ok true =>
    if xs.all (PyV.shapeOk shape) then
      match (List.range shape.size).mapM (ewElem op xs) with
      | .ok res => .ok (some (mkArr op.isBoolOp shape res))
      | .error e => .error e
    else .error .valueError

/-! ### Classes and methods -/

/-- Python classes of the operands. -/
inductive Cls
  | boolArray1D | boolArray2D | intArray1D | intArray2D
  | boolExpr | boolVar | intExpr | intVar
  | pyBool | pyInt | noneType | object
  deriving DecidableEq, Repr, Inhabited

def PyV.cls : PyV → Cls
  | .arr1 true _ => .boolArray1D
  | .arr1 false _ => .intArray1D
  | .arr2 true _ _ _ => .boolArray2D
  | .arr2 false _ _ _ => .intArray2D
  | .scalar (.bvar _) => .boolVar
  | .scalar (.ivar _) => .intVar
  | .scalar (.litB _) => .pyBool
  | .scalar (.litI _) => .pyInt
  | .scalar .litNone => .noneType
  | .scalar (.node op _) =>
    if op.isBoolOp || op == .graphAVC || op == .graphDiv then .boolExpr
    else if op.isIntOp then .intExpr else .object
  | .other => .object

/-- `some isBool` for the four array classes. -/
def Cls.arrKind? : Cls → Option Bool
  | .boolArray1D | .boolArray2D => some true
  | .intArray1D | .intArray2D => some false
  | _ => none

/-- `some isBool` for the expression classes. -/
def Cls.exprKind? : Cls → Option Bool
  | .boolExpr | .boolVar => some true
  | .intExpr | .intVar => some false
  | _ => none

def Cls.isBuiltinNum : Cls → Bool
  | .pyBool | .pyInt => true
  | _ => false

/-- `issubclass(c, d) and c is not d` among the classes above. -/
def Cls.properSubclass : Cls → Cls → Bool
  | .boolVar, .boolExpr => true
  | .intVar, .intExpr => true
  | .pyBool, .pyInt => true
  | _, _ => false

/-- Method names. -/
inductive Meth
  | invert | neg
  | and_ | rand | or_ | ror | xor | rxor
  | eq | ne | lt | le | gt | ge
  | add | radd | sub | rsub
  | then_ | cond | foldOr | foldAnd | countTrue | alldifferent
  deriving DecidableEq, Repr, Inhabited

def Meth.all : List Meth :=
  [.invert, .neg, .and_, .rand, .or_, .ror, .xor, .rxor, .eq, .ne, .lt, .le, .gt, .ge,
   .add, .radd, .sub, .rsub, .then_, .cond, .foldOr, .foldAnd, .countTrue, .alldifferent]

def Meth.pyName : Meth → String
  | .invert => "__invert__" | .neg => "__neg__"
  | .and_ => "__and__" | .rand => "__rand__" | .or_ => "__or__" | .ror => "__ror__"
  | .xor => "__xor__" | .rxor => "__rxor__"
  | .eq => "__eq__" | .ne => "__ne__" | .lt => "__lt__" | .le => "__le__" | .gt => "__gt__" | .ge => "__ge__"
  | .add => "__add__" | .radd => "__radd__" | .sub => "__sub__" | .rsub => "__rsub__"
  | .then_ => "then" | .cond => "cond" | .foldOr => "fold_or" | .foldAnd => "fold_and"
  | .countTrue => "count_true" | .alldifferent => "alldifferent"

def Meth.ofName? (s : String) : Option Meth := Meth.all.find? (fun m => m.pyName == s)

/-- The operator and operand order of the unary dunders of the Boolean (`true`) / integer (`false`)
classes (the same table for the array classes and for `BoolExpr` / `IntExpr`). -/
def unarySpec : Bool → Meth → Option Op
  | true, .invert => some .not
  | false, .neg => some .neg
  | _, _ => none

/-- … and of the binary dunders: `(op, reflected)`; reflected methods build `[other, self]`. -/
def binarySpec : Bool → Meth → Option (Op × Bool)
  | true, .and_ => some (.and, false)
  | true, .rand => some (.and, true)
  | true, .or_ => some (.or, false)
  | true, .ror => some (.or, true)
  | true, .eq => some (.iff, false)
  | true, .ne => some (.xor, false)
  | true, .xor => some (.xor, false)
  | true, .rxor => some (.xor, true)
  | false, .add => some (.add, false)
  | false, .radd => some (.add, true)
  | false, .sub => some (.sub, false)
  | false, .rsub => some (.sub, true)
  | false, .eq => some (.eq, false)
  | false, .ne => some (.ne, false)
  | false, .ge => some (.ge, false)
  | false, .gt => some (.gt, false)
  | false, .le => some (.le, false)
  | false, .lt => some (.lt, false)
  | _, _ => none

/-- Which of the methods above a class defines (below `object`). -/
def Cls.defines (c : Cls) (m : Meth) : Bool :=
  match c.arrKind?, c.exprKind? with
  | some b, _ =>
    (unarySpec b m).isSome || (binarySpec b m).isSome ||
      (if b then m == .then_ || m == .cond || m == .foldOr || m == .foldAnd || m == .countTrue
       else m == .alldifferent)
  | none, some b =>
    (unarySpec b m).isSome || (binarySpec b m).isSome ||
      (b && (m == .then_ || m == .cond || m == .foldOr || m == .foldAnd || m == .countTrue))
  | none, none =>
    c.isBuiltinNum &&
      !(m == .then_ || m == .cond || m == .foldOr || m == .foldAnd || m == .countTrue || m == .alldifferent)

/-- `res is NotImplemented` → `raise TypeError`. -/
def raiseNI (r : Py (Option PyV)) : Py (Option PyV) :=
  match r with
  | .ok none => .error .typeError
  | r => r

def swapIf (sw : Bool) (self oth : PyV) : List PyV := if sw then [oth, self] else [self, oth]

/-- A method of the four array classes, `cls.m(self, *args)`.  `ok none` = `NotImplemented`;
`AttributeError` when the class has no such method (or `self` has no `.shape` / `.data`);
`TypeError` for a wrong number of arguments. -/
def arrayMethod (cls : Cls) (m : Meth) (self : PyV) (args : List PyV) : Py (Option PyV) :=
  match cls.arrKind? with
  | none => .error .attributeError
  | some isBool =>
    if !cls.defines m then .error .attributeError else
    match self.shape?, self.data? with
    | some sh, some data =>
      match m, args with
      | .then_, [o] => raiseNI (elementwise .imp sh [self, o])
      | .cond, [t, f] => raiseNI (elementwise .ite sh [self, t, f])
      | .foldOr, [] => .ok (some (.scalar (.node .or data)))
      | .foldAnd, [] => .ok (some (.scalar (.node .and data)))
      | .countTrue, [] => (countTrue data).map fun e => some (.scalar e)
      | .alldifferent, [] => .ok (some (.scalar (.node .alldiff data)))
      | m, [] =>
        match unarySpec isBool m with
        | some op => elementwise op sh [self]
        | none => .error .typeError
      | m, [o] =>
        match binarySpec isBool m with
        | some (op, sw) => elementwise op sh (swapIf sw self o)
        | none => .error .typeError
      | _, _ => .error .typeError
    | _, _ => .error .attributeError

/-- The operands as expression-level values; `none` when one of them is an array or a foreign object
(then every `_is_*_expr_like` test of expr.py fails on it). -/
def allScalars : List PyV → Option (List Expr)
  | [] => some []
  | .scalar e :: r => (allScalars r).map (e :: ·)
  | _ :: _ => none

/-- `_make_bool_expr` / `_make_int_expr` applied to Python-level operands. -/
def makeExprV (op : Op) (xs : List PyV) : Py (Option PyV) :=
  match allScalars xs with
  | none => if op.isBoolOp || op.isIntOp then .ok none else .error .valueError
  | some es =>
    (if op.isBoolOp then makeBoolExpr op es else makeIntExpr op es).map fun r => r.map PyV.scalar

/-! ### `constraints.then` / `constraints.cond` (repaired, D5) -/

def PyV.isBoolArr (v : PyV) : Bool := v.arrKind? == some true
def PyV.isIntArr (v : PyV) : Bool := v.arrKind? == some false

/-- `constraints.then(x, y)`. -/
def thenF (x y : PyV) : Py PyV :=
  let sh :=
    if x.isBoolArr then x.shape?
    else if y.isBoolArr then y.shape? else none
  let r :=
    match sh with
    | some sh => elementwise .imp sh [x, y]
    | none => makeExprV .imp [x, y]
  match r with
  | .ok (some v) => .ok v
  | .ok none => .error .typeError
  | .error e => .error e

/-- `constraints.cond(c, t, f)`. -/
def condF (c t f : PyV) : Py PyV :=
  let sh :=
    if c.isBoolArr then c.shape?
    else if t.isIntArr then t.shape?
    else if f.isIntArr then f.shape? else none
  let r :=
    match sh with
    | some sh => elementwise .ite sh [c, t, f]
    | none => makeExprV .ite [c, t, f]
  match r with
  | .ok (some v) => .ok v
  | .ok none => .error .typeError
  | .error e => .error e

def PyV.isIntExprLike : PyV → Bool
  | .scalar e => e.isIntLike
  | _ => false

def PyV.isBoolExprLike : PyV → Bool
  | .scalar e => e.isBoolLike
  | _ => false

/-- A method of `BoolExpr` / `BoolVar` (`isBool = true`) or `IntExpr` / `IntVar`. -/
def exprMethod (cls : Cls) (m : Meth) (self : PyV) (args : List PyV) : Py (Option PyV) :=
  match cls.exprKind? with
  | none => .error .attributeError
  | some isBool =>
    if !cls.defines m then .error .attributeError else
    match m, args with
    | .then_, [o] =>
      -- BoolExpr.then
      if o.isBoolExprLike then raiseNI (makeExprV .imp [self, o])
      else (thenF self o).map some
    | .cond, [t, f] =>
      -- BoolExpr.cond
      if t.isIntExprLike && f.isIntExprLike then raiseNI (makeExprV .ite [self, t, f])
      else (condF self t f).map some
    | .foldOr, [] => .ok (some self)
    | .foldAnd, [] => .ok (some self)
    | .countTrue, [] => raiseNI (makeExprV .ite [self, .scalar (.litI 1), .scalar (.litI 0)])
    | m, [] =>
      match unarySpec isBool m with
      | some op => makeExprV op [self]
      | none => .error .typeError
    | m, [o] =>
      match binarySpec isBool m with
      | some (op, sw) => makeExprV op (swapIf sw self o)
      | none => .error .typeError
    | _, _ => .error .typeError

/-! ### Python's own `bool` / `int` -/

/-- Bitwise combination of two integers in two's complement (`fuel` bounds the number of bits). -/
def bitwiseInt (f : Bool → Bool → Bool) : Nat → Int → Int → Int
  | 0, a, b => if f (decide (a < 0)) (decide (b < 0)) then -1 else 0
  | k + 1, a, b =>
    if (a == 0 || a == -1) && (b == 0 || b == -1) then
      (if f (a == -1) (b == -1) then -1 else 0)
    else
      2 * bitwiseInt f k (Int.fdiv a 2) (Int.fdiv b 2)
        + (if f (Int.fmod a 2 == 1) (Int.fmod b 2 == 1) then 1 else 0)

def litVal? : PyV → Option (Bool × Int)      -- (is a bool, numeric value)
  | .scalar (.litB b) => some (true, if b then 1 else 0)
  | .scalar (.litI n) => some (false, n)
  | _ => none

def bitLit (f : Bool → Bool → Bool) (a b : Bool × Int) : PyV :=
  if a.1 && b.1 then .scalar (.litB (f (a.2 == 1) (b.2 == 1)))
  else .scalar (.litI (bitwiseInt f (a.2.natAbs + b.2.natAbs + 1) a.2 b.2))

/-- The numeric methods of Python's `int` / `bool` on literals (`NotImplemented` for anything else). -/
def builtinMethod (m : Meth) (self : PyV) (args : List PyV) : Py (Option PyV) :=
  match litVal? self with
  | none => .error .attributeError
  | some a =>
    if !Cls.pyInt.defines m then .error .attributeError else
    match m, args with
    | .invert, [] => .ok (some (.scalar (.litI (-a.2 - 1))))
    | .neg, [] => .ok (some (.scalar (.litI (-a.2))))
    | .invert, _ => .error .typeError
    | .neg, _ => .error .typeError
    | m, [o] =>
      match litVal? o with
      | none => .ok none
      | some b =>
        match m with
        | .and_ => .ok (some (bitLit (· && ·) a b))
        | .rand => .ok (some (bitLit (· && ·) b a))
        | .or_ => .ok (some (bitLit (· || ·) a b))
        | .ror => .ok (some (bitLit (· || ·) b a))
        | .xor => .ok (some (bitLit (· != ·) a b))
        | .rxor => .ok (some (bitLit (· != ·) b a))
        | .add => .ok (some (.scalar (.litI (a.2 + b.2))))
        | .radd => .ok (some (.scalar (.litI (b.2 + a.2))))
        | .sub => .ok (some (.scalar (.litI (a.2 - b.2))))
        | .rsub => .ok (some (.scalar (.litI (b.2 - a.2))))
        | .eq => .ok (some (.scalar (.litB (cmpOp .eq a.2 b.2))))
        | .ne => .ok (some (.scalar (.litB (cmpOp .ne a.2 b.2))))
        | .lt => .ok (some (.scalar (.litB (cmpOp .lt a.2 b.2))))
        | .le => .ok (some (.scalar (.litB (cmpOp .le a.2 b.2))))
        | .gt => .ok (some (.scalar (.litB (cmpOp .gt a.2 b.2))))
        | .ge => .ok (some (.scalar (.litB (cmpOp .ge a.2 b.2))))
        | _ => .error .attributeError
    | _, _ => .error .typeError

/-- `self.m(*args)` looked up on the class of `self`. -/
def callMethod (m : Meth) (self : PyV) (args : List PyV) : Py (Option PyV) :=
  let c := self.cls
  if c.arrKind?.isSome then arrayMethod c m self args
  else if c.exprKind?.isSome then exprMethod c m self args
  else if c.isBuiltinNum then builtinMethod m self args
  else .error .attributeError

/-! ### Operator dispatch (`a op b`, `~a`, `-a`) -/

inductive BinOp
  | and_ | or_ | xor | add | sub | eq | ne | lt | le | gt | ge
  deriving DecidableEq, Repr, Inhabited

def BinOp.all : List BinOp := [.and_, .or_, .xor, .add, .sub, .eq, .ne, .lt, .le, .gt, .ge]

def BinOp.sym : BinOp → String
  | .and_ => "&" | .or_ => "|" | .xor => "^" | .add => "+" | .sub => "-"
  | .eq => "==" | .ne => "!=" | .lt => "<" | .le => "<=" | .gt => ">" | .ge => ">="

def BinOp.ofSym? (s : String) : Option BinOp := BinOp.all.find? (fun o => o.sym == s)

def BinOp.isCmp : BinOp → Bool
  | .eq | .ne | .lt | .le | .gt | .ge => true
  | _ => false

/-- the method of the left operand -/
def BinOp.meth : BinOp → Meth
  | .and_ => .and_ | .or_ => .or_ | .xor => .xor | .add => .add | .sub => .sub
  | .eq => .eq | .ne => .ne | .lt => .lt | .le => .le | .gt => .gt | .ge => .ge

/-- the reflected method looked up on the right operand (`_Py_SwappedOp` for comparisons) -/
def BinOp.rmeth : BinOp → Meth
  | .and_ => .rand | .or_ => .ror | .xor => .rxor | .add => .radd | .sub => .rsub
  | .eq => .eq | .ne => .ne | .lt => .gt | .le => .ge | .gt => .lt | .ge => .le

/-- Call a special method through the operator machinery: a missing method counts as `NotImplemented`. -/
def tryMeth (m : Meth) (self oth : PyV) : Py (Option PyV) :=
  if self.cls.defines m then callMethod m self [oth] else .ok none

/-- Both operands are the same object.  Operands are distinct objects by assumption, except for the
singletons `None`, `True`, `False` (the literals are handled by their own `__eq__`). -/
def sameObject : PyV → PyV → Bool
  | .scalar .litNone, .scalar .litNone => true
  | _, _ => false

/-- `a op b` (CPython `binary_op1` / `do_richcompare`): the reflected method of the right operand runs
first when its class is a proper subclass of the left one's and — for the arithmetic / bitwise operators —
overrides the reflected method (none of the cspuz classes does; for `bool` under `int` the order is
unobservable); then the left method; then the reflected one (for arithmetic / bitwise operators only when
the classes differ); `==` / `!=` finally compare identities, everything else raises `TypeError`. -/
def binop (o : BinOp) (a b : PyV) : Py PyV :=
  let prio := o.isCmp && Cls.properSubclass b.cls a.cls
  let tail (_ : Unit) : Py PyV :=
    match tryMeth o.meth a b with
    | .error e => .error e
    | .ok (some v) => .ok v
    | .ok none =>
      let fallback : Py PyV :=
        match o with
        | .eq => .ok (.scalar (.litB (sameObject a b)))
        | .ne => .ok (.scalar (.litB (!sameObject a b)))
        | _ => .error .typeError
      if !prio && (o.isCmp || a.cls != b.cls) then
        match tryMeth o.rmeth b a with
        | .error e => .error e
        | .ok (some v) => .ok v
        | .ok none => fallback
      else fallback
  if prio then
    match tryMeth o.rmeth b a with
    | .error e => .error e
    | .ok (some v) => .ok v
    | .ok none => tail ()
  else tail ()

inductive UnOp
  | invert | neg
  deriving DecidableEq, Repr, Inhabited

def UnOp.meth : UnOp → Meth
  | .invert => .invert
  | .neg => .neg

/-- `~a`, `-a`. -/
def unop (o : UnOp) (a : PyV) : Py PyV :=
  if a.cls.defines o.meth then
    match callMethod o.meth a [] with
    | .error e => .error e
    | .ok (some v) => .ok v
    | .ok none => .error .typeError
  else .error .typeError

/-! ### The aggregate helpers over nested arguments -/

/-- Arguments of the helpers: any nesting of iterables whose leaves are Python-level values; an array
leaf is iterated element-wise, row-major (`Array2D.__iter__` is `iter(self.data)`). -/
inductive ANest
  | leaf (v : PyV)
  | items (l : List ANest)
  deriving Inhabited

/-- What `flatten_iterator` yields for one leaf.  A foreign object is not an expression and not a
literal: all four helpers treat it like `None` (`raise TypeError()`). -/
def PyV.flat : PyV → List Expr
  | .scalar e => [e]
  | .arr1 _ d => d
  | .arr2 _ _ _ d => d
  | .other => [.litNone]

mutual
/-- `flatten_iterator(arg)`. -/
def ANest.flatten : ANest → List Expr
  | .leaf v => v.flat
  | .items l => ANest.flattenList l
/-- `flatten_iterator(*args)`. -/
def ANest.flattenList : List ANest → List Expr
  | [] => []
  | x :: r => x.flatten ++ ANest.flattenList r
end

def countTrueA (args : List ANest) : Py Expr := countTrue (ANest.flattenList args)
def foldOrA (args : List ANest) : Py Expr := foldOr (ANest.flattenList args)
def foldAndA (args : List ANest) : Py Expr := foldAnd (ANest.flattenList args)
def alldifferentA (args : List ANest) : Py Expr := alldifferentE (ANest.flattenList args)

/-! ### `conv2d` -/

inductive ConvOp
  | and_ | or_ | bad      -- `bad`: any other value of the `op` argument
  deriving DecidableEq, Repr, Inhabited

def ConvOp.op? : ConvOp → Option Op
  | .and_ => some .and
  | .or_ => some .or
  | .bad => none

/-- `self[y : y + height, x : x + width]` followed by `list(component)`. -/
def convWindow (data : List Expr) (H W : Nat) (height width : Int) (y x : Nat) : Py (List Expr) :=
  match getitem2D data H W
      (.pair (.slice (some (y : Int)) (some ((y : Int) + height)) none)
             (.slice (some (x : Int)) (some ((x : Int) + width)) none)) with
  | .ok (.arr2 _ _ l) => .ok l
  | .ok _ => .error .typeError       -- unreachable: two slices give an `Array2D`
  | .error e => .error e

/-- `BoolArray2D.conv2d(height, width, op)` (the window sizes are arbitrary Python ints). -/
def conv2d (self : PyV) (height width : Int) (cop : ConvOp) : Py PyV :=
  match self with
  | .arr2 true H W data =>
    match cop.op? with
    | none => .error .valueError
    | some op =>
      let rh := ((H : Int) - height + 1).toNat
      let rw := ((W : Int) - width + 1).toNat
      match ((List.range rh).flatMap fun y => (List.range rw).map fun x => (y, x)).mapM
          (fun (yx : Nat × Nat) => (convWindow data H W height width yx.1 yx.2).map (Expr.node op)) with
      | .ok cells => .ok (.arr2 true rh rw cells)
      | .error e => .error e
  | _ => .error .attributeError

/-! ### `four_neighbors` / `four_neighbor_indices` -/

/-- The call forms `f(y, x)`, `f((y, x))`, `f(y)` with a single int, `f((y, x), x')`. -/
inductive NbArgs
  | two (y x : Int)
  | tuple (y x : Int)
  | oneInt (y : Int)
  | tupleAndInt (y x x' : Int)
  deriving Repr, Inhabited

/-- The argument normalisation shared by `_four_neighbors` and `_four_neighbor_indices`. -/
def NbArgs.cell : NbArgs → Py (Int × Int)
  | .two y x => .ok (y, x)
  | .tuple y x => .ok (y, x)
  | .oneInt _ => .error .typeError
  | .tupleAndInt _ _ _ => .error .typeError

/-- The candidate cells in the order of the four `if`s, with their guards. -/
def nbCandidates (H W : Nat) (y x : Int) : List (Int × Int) :=
  (if y > 0 then [(y - 1, x)] else []) ++
  (if y < (H : Int) - 1 then [(y + 1, x)] else []) ++
  (if x > 0 then [(y, x - 1)] else []) ++
  (if x < (W : Int) - 1 then [(y, x + 1)] else [])

/-- `_four_neighbor_indices(shape, y, x)`. -/
def fourNeighborIndices (H W : Nat) (a : NbArgs) : Py (List (Int × Int)) := do
  let (y, x) ← a.cell
  .ok (nbCandidates H W y x)

/-- `array[y', x']` with two integers. -/
def getCell (data : List Expr) (H W : Nat) (y x : Int) : Py Expr :=
  match getitem2D data H W (.pair (.idx y) (.idx x)) with
  | .ok (.scalar e) => .ok e
  | .ok _ => .error .typeError     -- unreachable: two ints give an element
  | .error e => .error e

/-- `BoolArray2D.four_neighbors` / `IntArray2D.four_neighbors`: a 1-D array of the receiver's kind. -/
def fourNeighbors (self : PyV) (a : NbArgs) : Py PyV :=
  match self with
  | .arr2 isBool H W data => do
    let (y, x) ← a.cell
    let l ← (nbCandidates H W y x).mapM fun (p : Int × Int) => getCell data H W p.1 p.2
    .ok (.arr1 isBool l)
  | _ => .error .attributeError

/-! ### Structural equality (for comparing results with the regenerated table) -/

mutual
def Expr.beq : Expr → Expr → Bool
  | .bvar a, .bvar b => a == b
  | .ivar a, .ivar b => a == b
  | .litB a, .litB b => a == b
  | .litI a, .litI b => a == b
  | .litNone, .litNone => true
  | .node o1 a1, .node o2 a2 => o1 == o2 && Expr.beqList a1 a2
  | _, _ => false
def Expr.beqList : List Expr → List Expr → Bool
  | [], [] => true
  | a :: r, b :: s => Expr.beq a b && Expr.beqList r s
  | _, _ => false
end

def PyV.beq : PyV → PyV → Bool
  | .scalar a, .scalar b => Expr.beq a b
  | .arr1 k d, .arr1 k' d' => k == k' && Expr.beqList d d'
  | .arr2 k h w d, .arr2 k' h' w' d' => k == k' && h == h' && w == w' && Expr.beqList d d'
  | .other, .other => true
  | _, _ => false

/-! ### Rows of the regenerated dunder table -/

/-- The symbolic operand kinds of the table.  Leaf names depend on the position `p` of the operand in the
form (ids `100 p + k`), so that operands of one form are distinct objects with distinct leaves. -/
inductive OKind
  | arrB1_2 | arrB1_3 | arrB2_12 | arrB2_21
  | arrI1_2 | arrI1_3 | arrI2_12 | arrI2_21
  | bvar | bnode | ivar | inode | litT | lit3 | none_
  deriving DecidableEq, Repr, Inhabited

def OKind.all : List OKind :=
  [.arrB1_2, .arrB1_3, .arrB2_12, .arrB2_21, .arrI1_2, .arrI1_3, .arrI2_12, .arrI2_21,
   .bvar, .bnode, .ivar, .inode, .litT, .lit3, .none_]

def OKind.value (p : Nat) : OKind → PyV
  | .arrB1_2 => .arr1 true [.bvar (100 * p), .bvar (100 * p + 1)]
  | .arrB1_3 => .arr1 true [.bvar (100 * p), .bvar (100 * p + 1), .bvar (100 * p + 2)]
  | .arrB2_12 => .arr2 true 1 2 [.bvar (100 * p), .bvar (100 * p + 1)]
  | .arrB2_21 => .arr2 true 2 1 [.bvar (100 * p), .bvar (100 * p + 1)]
  | .arrI1_2 => .arr1 false [.ivar (100 * p), .ivar (100 * p + 1)]
  | .arrI1_3 => .arr1 false [.ivar (100 * p), .ivar (100 * p + 1), .ivar (100 * p + 2)]
  | .arrI2_12 => .arr2 false 1 2 [.ivar (100 * p), .ivar (100 * p + 1)]
  | .arrI2_21 => .arr2 false 2 1 [.ivar (100 * p), .ivar (100 * p + 1)]
  | .bvar => .scalar (.bvar (100 * p + 10))
  | .bnode => .scalar (.node .not [.bvar (100 * p + 11)])
  | .ivar => .scalar (.ivar (100 * p + 20))
  | .inode => .scalar (.node .neg [.ivar (100 * p + 21)])
  | .litT => .scalar (.litB true)
  | .lit3 => .scalar (.litI 3)
  | .none_ => .scalar .litNone

/-- One experiment on the live classes. -/
inductive Form
  | infix (o : BinOp) (a b : OKind)            -- `a o b`
  | unary (o : UnOp) (a : OKind)               -- `~a`, `-a`
  | call1 (m : Meth) (self a : OKind)          -- `type(self).m(self, a)` when the class defines `m`
  | call0 (m : Meth) (self : OKind)            -- `self.m()`
  | condM (self t f : OKind)                   -- `self.cond(t, f)`
  | thenFn (x y : OKind)                       -- `constraints.then(x, y)`
  | condFn (c t f : OKind)                     -- `constraints.cond(c, t, f)`
  deriving DecidableEq, Repr, Inhabited

inductive Outcome
  | val (v : PyV)
  | notImpl            -- the `NotImplemented` object was RETURNED
  | err (e : PyErr)
  | absent             -- the class does not define the method
  deriving Inhabited

def Outcome.beq : Outcome → Outcome → Bool
  | .val a, .val b => PyV.beq a b
  | .notImpl, .notImpl => true
  | .err a, .err b => a == b
  | .absent, .absent => true
  | _, _ => false

def Outcome.ofRes : Py (Option PyV) → Outcome
  | .ok (some v) => .val v
  | .ok none => .notImpl
  | .error e => .err e

def Outcome.ofPy : Py PyV → Outcome
  | .ok v => .val v
  | .error e => .err e

/-- What the model predicts for a form. -/
def Form.run : Form → Outcome
  | .infix o a b => .ofPy (binop o (a.value 0) (b.value 1))
  | .unary o a => .ofPy (unop o (a.value 0))
  | .call1 m s a =>
    let self := s.value 0
    if self.cls.defines m then .ofRes (callMethod m self [a.value 1]) else .absent
  | .call0 m s =>
    let self := s.value 0
    if self.cls.defines m then .ofRes (callMethod m self []) else .absent
  | .condM s t f =>
    let self := s.value 0
    if self.cls.defines .cond then .ofRes (callMethod .cond self [t.value 1, f.value 2]) else .absent
  | .thenFn x y => .ofPy (thenF (x.value 0) (y.value 1))
  | .condFn c t f => .ofPy (condF (c.value 0) (t.value 1) (f.value 2))

structure Row where
  form : Form
  expected : Outcome
  deriving Inhabited

def Row.ok (r : Row) : Bool := Outcome.beq r.form.run r.expected

end Cspuz
