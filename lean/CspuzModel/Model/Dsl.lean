/-
  Model of the scalar DSL constructors of cspuz/expr.py and cspuz/constraints.py that the rest of the
  library is written with.  Import-free.
-/
import CspuzModel.Model.Expr
namespace Cspuz
open Expr

/-- `isinstance(x, BoolExpr)` (not a Python bool). -/
def Expr.isBoolExpr : Expr → Bool
  | .bvar _ => true
  | .node op _ => op.isBoolOp || op == .graphAVC || op == .graphDiv
  | _ => false

def Expr.isIntExpr : Expr → Bool
  | .ivar _ => true
  | .node op _ => op.isIntOp
  | _ => false

/-- `_make_bool_expr(op, operands)`: `none` is Python's `NotImplemented`. -/
def makeBoolExpr (op : Op) (xs : List Expr) : Py (Option Expr) :=
  if op.isCmp then
    .ok (if xs.length == 2 && xs.all Expr.isIntLike then some (.node op xs) else none)
  else match op with
  | .and | .or | .iff | .xor | .imp =>
    .ok (if xs.length == 2 && xs.all Expr.isBoolLike then some (.node op xs) else none)
  | .boolConst => .ok (match xs with | [.litB b] => some (.node op [.litB b]) | _ => none)
  | .not => .ok (match xs with | [x] => if x.isBoolLike then some (.node op [x]) else none | _ => none)
  | .alldiff => .ok (if xs.all Expr.isIntLike then some (.node op xs) else none)
  | _ => .error .valueError

/-- `_make_int_expr(op, operands)`. -/
def makeIntExpr (op : Op) (xs : List Expr) : Py (Option Expr) :=
  match op with
  | .add | .sub => .ok (if xs.length == 2 && xs.all Expr.isIntLike then some (.node op xs) else none)
  | .intConst => .ok (match xs with
      | [.litI n] => some (.node op [.litI n])
      | [.litB b] => some (.node op [.litB b])   -- isinstance(True, int)
      | _ => none)
  | .neg => .ok (match xs with | [x] => if x.isIntLike then some (.node op [x]) else none | _ => none)
  | .ite => .ok (match xs with
      | [c, t, f] => if c.isBoolLike && t.isIntLike && f.isIntLike then some (.node op xs) else none
      | _ => none)
  | _ => .error .valueError

/-- `BoolExpr.cond(t, f)` on scalar operands. -/
def condE (c t f : Expr) : Py Expr :=
  if t.isIntLike && f.isIntLike then .ok (.node .ite [c, t, f]) else .error .typeError

/-- `constraints.count_true(*args)` on an already flattened argument list. -/
def countTrue (xs : List Expr) : Py Expr := do
  let rec go : List Expr → Nat → List Expr → Py (Nat × List Expr)
    | [], c, acc => .ok (c, acc.reverse)
    | x :: r, c, acc =>
      match x with
      | .litB true => go r (c + 1) acc
      | .litB false => go r c acc
      | _ => if x.isBoolExpr then go r c (.node .ite [x, .litI 1, .litI 0] :: acc) else .error .typeError
  let (c, ops) ← go xs 0 []
  let ops := if c > 0 then ops ++ [.litI c] else ops
  if ops.isEmpty then .ok (.node .intConst [.litI 0]) else .ok (.node .add ops)

/-- `constraints.fold_or`. -/
def foldOr (xs : List Expr) : Py Expr :=
  let rec go : List Expr → List Expr → Py Expr
    | [], acc => if acc.isEmpty then .ok (.node .boolConst [.litB false]) else .ok (.node .or acc.reverse)
    | x :: r, acc =>
      match x with
      | .litB true => .ok (.node .boolConst [.litB true])
      | .litB false => go r acc
      | _ => if x.isBoolExpr then go r (x :: acc) else .error .typeError
  go xs []

/-- `constraints.fold_and`. -/
def foldAnd (xs : List Expr) : Py Expr :=
  let rec go : List Expr → List Expr → Py Expr
    | [], acc => if acc.isEmpty then .ok (.node .boolConst [.litB true]) else .ok (.node .and acc.reverse)
    | x :: r, acc =>
      match x with
      | .litB false => .ok (.node .boolConst [.litB false])
      | .litB true => go r acc
      | _ => if x.isBoolExpr then go r (x :: acc) else .error .typeError
  go xs []

/-- `constraints.alldifferent`: `isinstance(x, int)` also admits Python bools. -/
def alldifferentE (xs : List Expr) : Py Expr :=
  if xs.all (fun x => x.isIntExpr || (match x with | .litI _ => true | .litB _ => true | _ => false))
  then .ok (.node .alldiff xs) else .error .typeError

/-- Binary dunder on scalars, first operand a `BoolExpr`/`IntExpr`: `NotImplemented` from
`_make_*_expr` becomes `TypeError` (the other operand being a literal or an expression of the wrong
kind has no reflected method that could succeed). -/
def binB (op : Op) (a b : Expr) : Py Expr := do
  match ← makeBoolExpr op [a, b] with
  | some e => .ok e
  | none => .error .typeError

def binI (op : Op) (a b : Expr) : Py Expr := do
  match ← makeIntExpr op [a, b] with
  | some e => .ok e
  | none => .error .typeError

def notE (a : Expr) : Py Expr := do
  match ← makeBoolExpr .not [a] with
  | some e => .ok e
  | none => .error .typeError

/-- `constraints.then(x, y)` on scalars (no type check in the source). -/
def thenRaw (x y : Expr) : Expr := .node .imp [x, y]

/-- A constraint program fragment: new declarations (ids continue from the caller's count) and
posted constraints, in emission order. -/
structure Prog where
  decls : List VarDecl := []
  cs : List Expr := []
  deriving Repr, Inhabited

def Prog.append (p q : Prog) : Prog := { decls := p.decls ++ q.decls, cs := p.cs ++ q.cs }
instance : Append Prog := ⟨Prog.append⟩

/-- `solver.int_array(n, lo, hi)`: ValueError when `lo > hi`. -/
def intArrayDecls (n : Nat) (lo hi : Int) : Py (List VarDecl) :=
  if lo > hi then .error .valueError else .ok (List.replicate n (.int lo hi))

end Cspuz
