/-
  Model of the per-puzzle URL codecs (property C16): the legacy helper encoders of cspuz/puzzle/util.py
  (`_encode_int_or_str`, `encode_array`, `encode_grid_segmentation`, `blocks_to_block_id`), the hand-written codecs of
  cspuz/puzzle/compass.py (`to_puzz_link_url` / `parse_puzz_link_url`), the one-way encoders
  `star_battle.problem_to_pzv_url` and `aquarium.problem_to_url`, and the `serialize_<p>` / `deserialize_<p>` wrappers of the
  nine combinator-based modules.  Core Lean only (on top of Model/Serializer.lean and the regenerated combinator table).

  * Strings are lists of code points (`Str`), results are `Outcome`s (value / `None` / raised exception), as in
    Model/Serializer.lean.
  * The model follows the FIXED code: patch D13 (`width, height, body = url.split("/")[-3:]` in
    `compass.parse_puzz_link_url`; the unchanged code binds the two numbers the other way round) and patch D14 (the parser
    also reads the `+xxx` form that `encode_array` writes for numbers 256..4095; the unchanged code raises `ValueError`
    from `int("+", 16)`).  On the unchanged tree the correspondence run disagrees exactly there.
  * Not modelled (outside the domain the harness generates, said where it matters): `int()` on text with surrounding
    whitespace (accepted by Python, `ValueError` here); `ZeroDivisionError` (width 0 with a clue cell in
    `parse_puzz_link_url`) has no constructor in `PyErr` and is represented by `.runtimeError`; non-integer block ids;
    dictionaries / arbitrary iterables where a list is expected.
-/
import CspuzModel.Model.Serializer
import CspuzModel.Gen.PuzzleCombinators
namespace Cspuz.Codecs
open Cspuz Cspuz.Ser

/-! ### cspuz/puzzle/util.py -/

/-- `hex(v)[2:]` (`hex(-5) = "-0x5"`, so a negative value yields `"x5"`). -/
def hexTail (v : Int) : Str := if v < 0 then 120 :: toBase 16 (-v).toNat else toBase 16 v.toNat

/-- `_encode_int_or_str` -/
def encodeIntOrStr : PyVal → Outcome Str
  | .str s => .ok s
  | v =>
    match asInt? v with
    | some n =>
      if n ≤ 15 then .ok (hexTail n)
      else if n ≤ 255 then .ok (45 :: hexTail n)
      else if n ≤ 4095 then .ok (43 :: hexTail n)
      else .raised .valueError
    | Option.none => .raised .typeError      -- `v <= 15` on None / a list / a tuple

/-- `for w in v: res.append(_encode_int_or_str(w))` -/
def encodeParts : List PyVal → Outcome Str
  | [] => .ok []
  | w :: ws => (encodeIntOrStr w).bind fun t => (encodeParts ws).bind fun r => .ok (t ++ r)

/-- the text of a pending run of `run` empty cells (`_BASE36[run - 1 + idx]`), nothing when `run = 0` -/
def flushRun (idx run : Nat) : Str := if run > 0 then [digitChar (run - 1 + idx)] else []

/-- the main loop of `encode_array` over the flattened array; `run` = `contiguous_empty_cells`. -/
def encodeCells (idx : Nat) (empty : PyVal) : List PyVal → Nat → Str → Outcome Str
  | [], run, acc => .ok (acc ++ flushRun idx run)
  | v :: rest, run, acc =>
    if pyEq v empty then
      if run + 1 - 1 + idx ≥ 36 then encodeCells idx empty rest 1 (acc ++ [122])
      else encodeCells idx empty rest (run + 1) acc
    else
      let acc := acc ++ flushRun idx run
      match v with
      | .str _ | .int _ | .bool _ => (encodeIntOrStr v).bind fun t => encodeCells idx empty rest 0 (acc ++ t)
      | .list ws | .tuple ws => (encodeParts ws).bind fun t => encodeCells idx empty rest 0 (acc ++ t)
      | .none => .raised .typeError

def isListVal : PyVal → Bool
  | .list _ => true
  | _ => false

/-- `sum(array, [])` -/
def flattenLists : List PyVal → Outcome (List PyVal)
  | [] => .ok []
  | .list l :: r => (flattenLists r).bind fun t => .ok (l ++ t)
  | _ :: _ => .raised .typeError

/-- `encode_array(array, single_empty_marker, empty, dim)`; the marker is a one-character string (its code point). -/
def encodeArray (array : List PyVal) (marker : Nat) (empty : PyVal) (dim : Option Nat) : Outcome Str :=
  if !isAlnumLower marker then .raised .valueError else     -- `_BASE36.index(marker)`
  let idx := charVal marker
  let dimR : Outcome Nat :=
    match dim with
    | Option.none => .ok (if array.all isListVal then 2 else 1)
    | some d => if d = 1 || d = 2 then .ok d else .raised .valueError
  dimR.bind fun d =>
  (if d = 2 then flattenLists array else .ok array).bind fun flat =>
  encodeCells idx empty flat 0 []

/-- value of one group of (at most) five bits, first bit most significant: `v += 2 ** (4 - j)` -/
def chunkVal (chunk : List Bool) : Nat :=
  (List.range 5).foldl (fun v j => v + (if chunk.getD j false then 2 ^ (4 - j) else 0)) 0

/-- `convert_binary_seq` -/
def convertBinarySeq (s : List Bool) : Str :=
  (List.range ((s.length + 4) / 5)).map fun i => digitChar (chunkVal ((s.drop (i * 5)).take 5))

/-- `1 if block_id[y][x] != block_id[y + dy][x + dx] else 0` over the given cells -/
def segBits (bid : Grid2 Int) (dy dx : Nat) : List (Nat × Nat) → Outcome (List Bool)
  | [] => .ok []
  | (y, x) :: r =>
    (rd2 bid y x).bind fun a => (rd2 bid (y + dy) (x + dx)).bind fun b =>
      (segBits bid dy dx r).bind fun t => .ok ((a != b) :: t)

/-- `encode_grid_segmentation(height, width, block_id)` for a grid of integer block ids -/
def encodeGridSegmentation (h w : Nat) (bid : Grid2 Int) : Outcome Str :=
  (segBits bid 0 1 (cells h (w - 1))).bind fun v =>
  (segBits bid 1 0 (cells (h - 1) w)).bind fun hz =>
  .ok (convertBinarySeq v ++ convertBinarySeq hz)

/-- Python index normalisation `l[k]` for a list of length `n` -/
def pyIdx (n : Nat) (k : Int) : Outcome Nat :=
  let p := if k < 0 then k + n else k
  if 0 ≤ p && p < (n : Int) then .ok p.toNat else .raised .indexError

/-- `g[y][x] = v` with Python's negative indices -/
def pySet2 {α} (g : Grid2 α) (y x : Int) (v : α) : Outcome (Grid2 α) :=
  (pyIdx g.length y).bind fun yy =>
    match g[yy]? with
    | Option.none => .raised .indexError
    | some row => (pyIdx row.length x).bind fun xx => .ok (set2 g yy xx v)

def assignBlock (i : Int) : List (Int × Int) → Grid2 Int → Outcome (Grid2 Int)
  | [], g => .ok g
  | (y, x) :: r, g => (pySet2 g y x i).bind fun g' => assignBlock i r g'

def assignBlocks : List (List (Int × Int)) → Int → Grid2 Int → Outcome (Grid2 Int)
  | [], _, g => .ok g
  | b :: bs, i, g => (assignBlock i b g).bind fun g' => assignBlocks bs (i + 1) g'

/-- `blocks_to_block_id(height, width, blocks)` -/
def blocksToBlockId (h w : Nat) (blocks : List (List (Int × Int))) : Outcome (Grid2 Int) :=
  assignBlocks blocks 0 (List.replicate h (List.replicate w (-1)))

/-! ### aquarium.problem_to_url, star_battle.problem_to_pzv_url -/

def puzzLinkPrefix : Str := strOfString "https://puzz.link/p?"
def pzvPrefix : Str := strOfString "http://pzv.jp/p.html?"

/-- `str(n)` of a Python int -/
def intStr (n : Int) : Str := if n < 0 then 45 :: toBase 10 (-n).toNat else toBase 10 n.toNat

/-- `aquarium.problem_to_url(height, width, blocks, clue_row, clue_col)` -/
def aquariumProblemToUrl (h w : Nat) (blocks : List (List (Int × Int))) (clueRow clueCol : List PyVal) : Outcome Str :=
  (blocksToBlockId h w blocks).bind fun bid =>
  (encodeGridSegmentation h w bid).bind fun blocksStr =>
  (encodeArray (clueCol ++ clueRow) 103 (.int (-1)) Option.none).bind fun cluesStr =>
  .ok (puzzLinkPrefix ++ strOfString "aquarium" ++ [47] ++ toBase 10 w ++ [47] ++ toBase 10 h ++ [47] ++ blocksStr ++ [47] ++ cluesStr)

/-- `star_battle.problem_to_pzv_url(n, k, blocks)` (`blocks` is the n×n grid of block ids) -/
def starBattleProblemToPzvUrl (n : Nat) (k : Int) (blocks : Grid2 Int) : Outcome Str :=
  (encodeGridSegmentation n n blocks).bind fun body =>
  .ok (pzvPrefix ++ strOfString "starbattle" ++ [47] ++ toBase 10 n ++ [47] ++ toBase 10 n ++ [47] ++ intStr k ++ [47] ++ body)

/-! ### compass -/

/-- one clue of the compass problem format: `(y, x, up, left, down, right)`, `-1` = no number -/
structure CompassClue where
  y : Int
  x : Int
  up : Int
  left : Int
  down : Int
  right : Int
  deriving DecidableEq, Inhabited, Repr

/-- `"." if x == -1 else x` -/
def dotOr (v : Int) : PyVal := if v = -1 then .str [46] else .int v

def compassPlace : List CompassClue → Grid2 PyVal → Outcome (Grid2 PyVal)
  | [], g => .ok g
  | c :: cs, g =>
    (pySet2 g c.y c.x (.tuple [dotOr c.up, dotOr c.down, dotOr c.left, dotOr c.right])).bind fun g' => compassPlace cs g'

/-- `compass.to_puzz_link_url(height, width, pos)` -/
def compassToPuzzLinkUrl (h w : Nat) (pos : List CompassClue) : Outcome Str :=
  (compassPlace pos (List.replicate h (List.replicate w PyVal.none))).bind fun problem =>
  (encodeArray (problem.map PyVal.list) 103 PyVal.none Option.none).bind fun body =>
  .ok (puzzLinkPrefix ++ strOfString "compass" ++ [47] ++ toBase 10 w ++ [47] ++ toBase 10 h ++ [47] ++ body)

/-- `str.split(sep)` for a one-character separator -/
def splitOn (sep : Nat) : Str → List Str
  | [] => [[]]
  | c :: s =>
    if c = sep then [] :: splitOn sep s
    else match splitOn sep s with
      | [] => [[c]]          -- unreachable: `splitOn` never returns the empty list
      | p :: ps => (c :: p) :: ps

/-- value of one character accepted by `int(c, 16)`: a Unicode decimal digit or `a-f` / `A-F` -/
def hexDigitVal (c : Nat) : Option Nat :=
  match decimalVal c with
  | some d => some d
  | Option.none =>
    if 97 ≤ c && c ≤ 102 then some (c - 87) else if 65 ≤ c && c ≤ 70 then some (c - 55) else Option.none

def digitsVal (b : Nat) (dv : Nat → Option Nat) : Str → Nat → Option Nat
  | [], acc => some acc
  | c :: s, acc => match dv c with
    | some d => digitsVal b dv s (acc * b + d)
    | Option.none => Option.none

/-- `int(s, base)` for `base` 10 / 16 on text without whitespace (at most 4300 digits; an optional sign; no
underscores, no `0x` prefix – neither can occur in the ≤ 2-character slices `parse_puzz_link_url` converts in base 16).
Text with surrounding whitespace, which Python accepts, is outside the modelled domain. -/
def pyIntSigned (b : Nat) (dv : Nat → Option Nat) (s : Str) : Outcome Int :=
  let (neg, ds) := match s with
    | 45 :: r => (true, r)
    | 43 :: r => (false, r)
    | _ => (false, s)
  if ds.isEmpty || ds.length > 4300 then .raised .valueError else
  match digitsVal b dv ds 0 with
  | some n => .ok (if neg then -(n : Int) else (n : Int))
  | Option.none => .raised .valueError

def pyIntDec (s : Str) : Outcome Int := pyIntSigned 10 decimalVal s
def pyIntHex (s : Str) : Outcome Int := pyIntSigned 16 hexDigitVal s

/-- the `for j in range(4)` loop of `parse_puzz_link_url`: reads `k` numbers from `body` at index `i` (with patch D14:
`elif body[i] == "+": num[j] = int(body[i + 1 : i + 4], 16); i += 4`).  In a 3-character slice Python's `int(…, 16)` would
also accept `0x1` and `1_1`; such text is outside the modelled domain. -/
def compassNums (body : Str) : Nat → Nat → List Int → Outcome (Nat × List Int)
  | 0, i, acc => .ok (i, acc)
  | k + 1, i, acc =>
    match body[i]? with
    | Option.none => .raised .indexError
    | some c =>
      if c = 45 then (pyIntHex (slice body (i + 1) 2)).bind fun v => compassNums body k (i + 3) (acc ++ [v])
      else if c = 43 then (pyIntHex (slice body (i + 1) 3)).bind fun v => compassNums body k (i + 4) (acc ++ [v])
      else if c = 46 then compassNums body k (i + 1) (acc ++ [-1])
      else (pyIntHex [c]).bind fun v => compassNums body k (i + 1) (acc ++ [v])

/-- the `while i < len(body)` loop of `parse_puzz_link_url` (`ZeroDivisionError` ↦ `.runtimeError`) -/
def compassParseLoop (body : Str) (width : Int) : Nat → Nat → Int → List CompassClue → Outcome (List CompassClue)
  | 0, _, _, _ => .diverge            -- unreachable: every iteration advances `i`
  | fuel + 1, i, pos, res =>
    match body[i]? with
    | Option.none => .ok res
    | some c =>
      if c ≥ 103 then compassParseLoop body width fuel (i + 1) (pos + ((c : Int) - 102)) res
      else
        (compassNums body 4 i []).bind fun r =>
          match r.2 with
          | [a, b, c2, d] =>
            if width = 0 then .raised .runtimeError else
            compassParseLoop body width fuel r.1 (pos + 1)
              (res ++ [⟨pyDiv pos width, pyMod pos width, a, c2, b, d⟩])
          | _ => .raised .assertionError     -- unreachable: `compassNums … 4` returns four numbers

/-- `compass.parse_puzz_link_url(url)` with patches D13, D14: the last three `/`-separated parts are width, height, body.
Returns `(height, width, clues)`. -/
def compassParsePuzzLinkUrl (url : Str) : Outcome (Int × Int × List CompassClue) :=
  let parts := splitOn 47 url
  match parts.drop (parts.length - 3) with
  | [ws, hs, body] =>
    (pyIntDec hs).bind fun height => (pyIntDec ws).bind fun width =>
      (compassParseLoop body width (body.length + 1) 0 0 []).bind fun res => .ok (height, width, res)
  | _ => .raised .valueError     -- not enough values to unpack

/-! ### serialize_<p> / deserialize_<p> of the combinator-based modules -/

/-- `height = len(problem); width = len(problem[0])` -/
def gridDimsOf (problem : PyVal) : Outcome (Nat × Nat) :=
  match asSeq? problem with
  | Option.none => .raised .typeError
  | some [] => .raised .indexError
  | some (r0 :: rest) =>
    match asSeq? r0 with
    | Option.none => .raised .typeError
    | some l => .ok ((r0 :: rest).length, l.length)

/-- `serialize_<p>(problem)` of nurikabe, masyu, slitherlink, sudoku, nurimisaki, yajilin -/
def serializeGridPuzzle (pc : Gen.PuzzleCodec) (problem : PyVal) : Outcome Str :=
  (gridDimsOf problem).bind fun hw => serProblemAsUrl pc.comb pc.urlName hw.1 hw.2 problem defaultPrefix

/-- `serialize_lits(height, width, blocks)`, `serialize_norinori(height, width, blocks)` -/
def serializeRoomsPuzzle (pc : Gen.PuzzleCodec) (h w : Nat) (blocks : PyVal) : Outcome Str :=
  serProblemAsUrl pc.comb pc.urlName h w blocks defaultPrefix

/-- `serialize_heyawake(height, width, rooms, clues)` -/
def serializeHeyawake (h w : Nat) (rooms clues : PyVal) : Outcome Str :=
  serProblemAsUrl Gen.heyawakeCodec.comb Gen.heyawakeCodec.urlName h w (.tuple [rooms, clues]) defaultPrefix

/-- `range(a, b)` on Python ints -/
def intRange (a b : Int) : List Int := (List.range (b - a).toNat).map fun (i : Nat) => a + (i : Int)

/-- `convert_from_rectangular_repr`: each `(y0, x0, y1, x1, n)` becomes the room of the cells of the half-open
rectangle, row by row, with clue `n` -/
def convertFromRectangularRepr (problem : List (Int × Int × Int × Int × Int)) : PyVal × PyVal :=
  (.list (problem.map fun r =>
      .list ((intRange r.1 r.2.2.1).flatMap fun y => (intRange r.2.1 r.2.2.2.1).map fun x => .tuple [.int y, .int x])),
   .list (problem.map fun r => .int r.2.2.2.2))

/-- `serialize_heyawake(height, width, problem)` with the rectangular representation -/
def serializeHeyawakeRect (h w : Nat) (problem : List (Int × Int × Int × Int × Int)) : Outcome Str :=
  let rc := convertFromRectangularRepr problem
  serializeHeyawake h w rc.1 rc.2

/-- `deserialize_<p>(url)`: the module's combinator with the keyword arguments recorded in the regenerated table -/
def deserializePuzzle (pc : Gen.PuzzleCodec) (url : Str) : Outcome PyVal :=
  deProblemAsUrl pc.comb url pc.allowed pc.allowFailure pc.returnSize

end Cspuz.Codecs
