/-
  Model of cspuz/generator/deterministic_random.py (XorShift, seed, randint, choice, shuffle, random),
  srandom.py (the deterministic branch of the switch), builder.py (Choice, ArrayBuilder2D,
  build_neighbor_generator) and core.py (generate_problem).
  Import-free (core Lean + Model/Py).

  Deviations from the Python text, all deliberate and listed in the trusted base of C19:
  * `randint a b` returns `a + x % w` — the behaviour the docstring and the property demand.  The
    unchanged tree returns `x % w` (defect D14); the correspondence run shows the difference.
  * `seed & 0xFFFFFFFF` on an unbounded (possibly negative) Python int is written `seed % 2^32`
    (two's-complement `&` with a non-negative mask = Euclidean remainder); compared against CPython
    for negative and > 64-bit seeds by the correspondence run.
  * The rejection loop `while True` of `randint` takes `fuel`; running out is the separate outcome
    `Res.outOfFuel`, never a value (`randintLoop_terminates`: it cannot happen when an accepted output
    occurs within `fuel` draws; each draw is accepted with probability > 1/2).
  * `random()` is the integer numerator `n` of the float `n / 2^32` (exact: n < 2^32 ≤ 2^53).
  * the float comparison `random() < exp((next - cur) / temperature)` is the parameter
    `accept numerator delta step`; scores are integers; callbacks are total functions (the solver may
    depend on the number of earlier solver calls, which covers stateful / nondeterministic solvers).
  * `copy.deepcopy` + in-place writes are a pure function on immutable lists; "never mutates earlier
    problems" is decided by the harness (snapshots), not by the model.
-/
import CspuzModel.Model.Py
namespace Cspuz.Gen
open Cspuz

/-! ## XorShift128 -/

/-- `_XORSHIFT_DOMAIN_SIZE = 1 << 32`. -/
def D32 : Nat := 4294967296
/-- The mask `0xFFFFFFFF`. -/
def M32 : Nat := 0xFFFFFFFF

/-- The four words of `XorShift` (Python ints, unbounded: nothing but the explicit masks bounds them). -/
structure XS where
  x : Nat
  y : Nat
  z : Nat
  w : Nat
  deriving Repr, DecidableEq, Inhabited

/-- `XorShift.__init__(seed)`; `seed & 0xFFFFFFFF` for any Python int. -/
def XS.init (seed : Int) : XS :=
  ⟨123456789, 362436069, 521288629, 88675123 ^^^ (seed % (4294967296 : Int)).toNat⟩

/-- `XorShift.next()`: new state and the returned `self._w`.  Only `t` is masked, exactly as in Python. -/
def XS.next (s : XS) : XS × Nat :=
  let t := (s.x ^^^ (s.x <<< 11)) &&& M32
  let w' := (s.w ^^^ (s.w >>> 19)) ^^^ (t ^^^ (t >>> 8))
  (⟨s.y, s.z, s.w, w'⟩, w')

/-- The state after `n` calls of `next`. -/
def XS.iter : Nat → XS → XS
  | 0, s => s
  | n + 1, s => XS.iter n s.next.1

/-- The `n`-th output (0-based) of the stream started in `s`. -/
def XS.output (n : Nat) (s : XS) : Nat := (XS.iter n s).next.2

/-! ## A state + exception + fuel monad for code that draws from the global `_rng` -/

inductive Res (α : Type) where
  | ok (v : α) (s : XS)
  | err (e : PyErr)
  | outOfFuel
  deriving Repr

def Rand (α : Type) : Type := XS → Res α

def Rand.pure {α} (a : α) : Rand α := fun s => .ok a s
def Rand.bind {α β} (m : Rand α) (f : α → Rand β) : Rand β := fun s =>
  match m s with
  | .ok a s' => f a s'
  | .err e => .err e
  | .outOfFuel => .outOfFuel

instance : Monad Rand where
  pure := Rand.pure
  bind := Rand.bind

def throwPy {α} (e : PyErr) : Rand α := fun _ => .err e

def liftPy {α} : Py α → Rand α
  | .ok a => Rand.pure a
  | .error e => throwPy e

/-- `for x in xs: acc = f(acc, x)`. -/
def forEach {β σ : Type} : List β → σ → (σ → β → Rand σ) → Rand σ
  | [], acc, _ => Rand.pure acc
  | x :: xs, acc, f => Rand.bind (f acc x) fun acc' => forEach xs acc' f

/-- `_rng.next()`. -/
def nextR : Rand Nat := fun s => .ok s.next.2 s.next.1

/-! ## deterministic_random.randint / choice / shuffle / random -/

/-- `while True: x = _rng.next(); if x < limit: return x % w` with fuel. -/
def randintLoop (w limit : Nat) : Nat → Rand Nat
  | 0 => fun _ => .outOfFuel
  | fuel + 1 => fun s =>
    if s.next.2 < limit then .ok (s.next.2 % w) s.next.1
    else randintLoop w limit fuel s.next.1

/-- `randint(a, b)` (fixed lower bound, see the header). -/
def randint (fuel : Nat) (a b : Int) : Rand Int :=
  if a > b then throwPy .valueError
  else
    let w := (b - a + 1).toNat
    if w > D32 then throwPy .valueError
    else
      let limit := D32 - D32 % w
      Rand.bind (randintLoop w limit fuel) fun x => Rand.pure (a + (x : Int))

/-- `choice(cand)`. -/
def choice {α} (fuel : Nat) (cand : List α) : Rand α :=
  if cand.length = 0 then throwPy .valueError
  else Rand.bind (randint fuel 0 ((cand.length : Int) - 1)) fun idx => liftPy (pyIndex cand idx)

/-- `seq[k] = v` for a Python int `k`. -/
def pySetItem {α} (l : List α) (k : Int) (v : α) : Py (List α) :=
  let n : Int := l.length
  let p := if k < 0 then k + n else k
  if 0 ≤ p ∧ p < n then .ok (l.set p.toNat v) else .error .indexError

/-- `seq[i], seq[j] = seq[j], seq[i]`. -/
def pySwap {α} (seq : List α) (i j : Int) : Py (List α) := do
  let a ← pyIndex seq j
  let b ← pyIndex seq i
  let seq ← pySetItem seq i a
  pySetItem seq j b

/-- One iteration of the loop of `shuffle`. -/
def shuffleStep {α} (fuel : Nat) (seq : List α) (i : Nat) : Rand (List α) :=
  Rand.bind (randint fuel 0 i) fun j =>
    if (i : Int) ≠ j then liftPy (pySwap seq i j) else Rand.pure seq

/-- `shuffle(seq)`: `for i in range(1, len(seq))`. -/
def shuffle {α} (fuel : Nat) (seq : List α) : Rand (List α) :=
  forEach (List.range' 1 (seq.length - 1)) seq (shuffleStep fuel)

/-- `random()`: the numerator `n` of `float(n) / 2^32`. -/
def randomNum : Rand Nat := nextR

/-- `srandom.use_deterministic_prng(True, seed)`: `seed=None` means 0. -/
def useDeterministic (seed : Option Int) : XS := XS.init (seed.getD 0)

/-! ## builder.Choice -/

/-- `Choice.candidates(current)`. -/
def choiceCandidates {V} [DecidableEq V] (choice : List V) (current : V) : List V :=
  choice.filter fun c => c ≠ current

/-! ## builder.ArrayBuilder2D -/

structure ArrayCfg (V : Type) where
  height : Nat
  width : Nat
  choice : List V
  default : V
  /-- `[(-1,0),(1,0),(0,-1),(0,1)]` for `True`, `[]` for `False`, else the list given. -/
  disallow : List (Int × Int)
  symmetry : Bool
  initial : Option (List (List V))
  useMove : Bool

abbrev Grid (V : Type) := List (List V)
/-- One update: a list of `(y, x, v)`. -/
abbrev CellUpd (V : Type) := List (Int × Int × V)

def disallowOfBool (b : Bool) : List (Int × Int) :=
  if b then [(-1, 0), (1, 0), (0, -1), (0, 1)] else []

variable {V : Type} [DecidableEq V]

def ArrayCfg.nonDefault (c : ArrayCfg V) : List V := c.choice.filter fun v => v ≠ c.default

/-- `ArrayBuilder2D.initial()`. -/
def ArrayCfg.initialGrid (c : ArrayCfg V) : Grid V :=
  match c.initial with
  | some g => g
  | none => List.replicate c.height (List.replicate c.width c.default)

/-- `current[y][x]`. -/
def gridGet (g : Grid V) (y x : Int) : Py V := do
  let row ← pyIndex g y
  pyIndex row x

/-- `ret[y][x] = v` on the deep copy. -/
def gridSet (g : Grid V) (y x : Int) (v : V) : Py (Grid V) := do
  let row ← pyIndex g y
  let row' ← pySetItem row x v
  pySetItem g y row'

/-- `ArrayBuilder2D.copy_with_update(previous, update)`. -/
def applyCells : Grid V → CellUpd V → Py (Grid V)
  | g, [] => .ok g
  | g, (y, x, v) :: rest => do
    let g' ← gridSet g y x v
    applyCells g' rest

/-- One of the ten attempts for cell `(y1, x1)` in the `use_move and symmetry` loop. -/
def moveTrySym (fuel : Nat) (c : ArrayCfg V) (cur : Grid V) (y1 x1 : Nat) (ret : List (CellUpd V)) :
    Rand (List (CellUpd V)) :=
  Rand.bind (randint fuel 0 ((c.height : Int) - 1)) fun y2 =>
  Rand.bind (randint fuel 0 ((c.width : Int) - 1)) fun x2 =>
    if (y1 : Int) = y2 ∧ (x1 : Int) = x2 then Rand.pure ret
    else
      let y1b : Int := (c.height : Int) - 1 - y1
      let x1b : Int := (c.width : Int) - 1 - x1
      let y2b : Int := (c.height : Int) - 1 - y2
      let x2b : Int := (c.width : Int) - 1 - x2
      if (y1 : Int) = y1b ∧ (x1 : Int) = x1b then Rand.pure ret
      else if (y1 : Int) = y2b ∧ (x1 : Int) = x2b then Rand.pure ret
      else liftPy do
        let c1 ← gridGet cur y1 x1
        let c2 ← gridGet cur y2 x2
        if c1 ≠ c2 then
          let c2b ← gridGet cur y2b x2b
          let c1b ← gridGet cur y1b x1b
          pure (ret ++ [[((y1 : Int), (x1 : Int), c2), (y2, x2, c1), (y1b, x1b, c2b), (y2b, x2b, c1b)]])
        else pure ret

/-- One of the ten attempts for cell `(y, x)` in the `use_move and not symmetry` loop. -/
def moveTry (fuel : Nat) (c : ArrayCfg V) (cur : Grid V) (y x : Nat) (ret : List (CellUpd V)) :
    Rand (List (CellUpd V)) :=
  Rand.bind (randint fuel 0 ((c.height : Int) - 1)) fun y2 =>
  Rand.bind (randint fuel 0 ((c.width : Int) - 1)) fun x2 =>
    if (y : Int) = y2 ∧ (x : Int) = x2 then Rand.pure ret
    else liftPy do
      let c1 ← gridGet cur y x
      let c2 ← gridGet cur y2 x2
      if c1 ≠ c2 then pure (ret ++ [[((y : Int), (x : Int), c2), (y2, x2, c1)]])
      else pure ret

/-- All cells `(y, x)` in row-major order: `for y in range(h): for x in range(w)`. -/
def cellsOf (h w : Nat) : List (Nat × Nat) :=
  (List.range h).flatMap fun y => (List.range w).map fun x => (y, x)

/-- The `if self.use_move:` part of `candidates`. -/
def moveCands (fuel : Nat) (c : ArrayCfg V) (cur : Grid V) : Rand (List (CellUpd V)) :=
  if c.useMove then
    forEach (cellsOf c.height c.width) [] fun ret p =>
      forEach (List.range 10) ret fun ret _ =>
        if c.symmetry then moveTrySym fuel c cur p.1 p.2 ret else moveTry fuel c cur p.1 p.2 ret
  else Rand.pure []

/-- The loop `for dy, dx in self.disallow_adjacent` computing `default_only` for cell `(y, x)`. -/
def defaultOnlyLoop (c : ArrayCfg V) (cur : Grid V) (y x : Nat) : List (Int × Int) → Bool → Py Bool
  | [], acc => .ok acc
  | (dy, dx) :: rest, acc =>
    let y2 : Int := y + dy
    let x2 : Int := x + dx
    if 0 ≤ y2 ∧ y2 < c.height ∧ 0 ≤ x2 ∧ x2 < c.width then do
      let v ← gridGet cur y2 x2
      defaultOnlyLoop c cur y x rest (if v ≠ c.default then true else acc)
    else defaultOnlyLoop c cur y x rest acc

/-- `for v in self.non_default: v2 = srandom.choice(self.non_default); if current[y][x] != v or
current[y2][x2] != v2: ret.append([(y, x, v), (y2, x2, v2)])` (with Python's short-circuit `or`). -/
def symPairLoop (fuel : Nat) (c : ArrayCfg V) (cur : Grid V) (y x : Nat) (y2 x2 : Int) (cv : V)
    (ret : List (CellUpd V)) : Rand (List (CellUpd V)) :=
  forEach c.nonDefault ret fun ret v =>
    Rand.bind (choice fuel c.nonDefault) fun v2 =>
      if cv ≠ v then Rand.pure (ret ++ [[((y : Int), (x : Int), v), (y2, x2, v2)]])
      else Rand.bind (liftPy (gridGet cur y2 x2)) fun c2 =>
        if c2 ≠ v2 then Rand.pure (ret ++ [[((y : Int), (x : Int), v), (y2, x2, v2)]]) else Rand.pure ret

/-- The body of the value-setting loop for one cell. -/
def valueCell (fuel : Nat) (c : ArrayCfg V) (cur : Grid V) (ret : List (CellUpd V)) (p : Nat × Nat) :
    Rand (List (CellUpd V)) :=
  let y := p.1
  let x := p.2
  Rand.bind (liftPy (defaultOnlyLoop c cur y x c.disallow false)) fun dOnly =>
    if c.symmetry then
      let y2 : Int := (c.height : Int) - 1 - y
      let x2 : Int := (c.width : Int) - 1 - x
      let dOnly := if (y2 - y, x2 - x) ∈ c.disallow then true else dOnly
      Rand.bind (liftPy (gridGet cur y x)) fun cv =>
        let ret := if cv ≠ c.default then ret ++ [[((y : Int), (x : Int), c.default), (y2, x2, c.default)]] else ret
        if !dOnly then
          if cv = c.default then symPairLoop fuel c cur y x y2 x2 cv ret
          else Rand.pure (ret ++ (c.nonDefault.filter fun v => v ≠ cv).map fun v => [((y : Int), (x : Int), v)])
        else Rand.pure ret
    else
      let vs := c.choice.filter fun v => ¬ (dOnly ∧ v ≠ c.default)
      if vs.isEmpty then Rand.pure ret
      else Rand.bind (liftPy (gridGet cur y x)) fun cv =>
        Rand.pure (ret ++ (vs.filter fun v => v ≠ cv).map fun v => [((y : Int), (x : Int), v)])

/-- The value-setting part of `candidates`. -/
def valueCands (fuel : Nat) (c : ArrayCfg V) (cur : Grid V) (ret : List (CellUpd V)) :
    Rand (List (CellUpd V)) :=
  forEach (cellsOf c.height c.width) ret (valueCell fuel c cur)

/-- `ArrayBuilder2D.candidates(current)`. -/
def arrayCandidates (fuel : Nat) (c : ArrayCfg V) (cur : Grid V) : Rand (List (CellUpd V)) :=
  Rand.bind (moveCands fuel c cur) fun ret => valueCands fuel c cur ret

/-! ## build_neighbor_generator -/

inductive BuilderSpec (V : Type) where
  | choice (choice : List V) (default : V)
  | array (c : ArrayCfg V)

/-- The value a builder keeps at its position in the problem. -/
inductive BVal (V : Type) where
  | val (v : V)
  | grid (g : Grid V)
  deriving DecidableEq, Repr

/-- An update `v` as produced by `candidates` and consumed by `copy_with_update`. -/
inductive Upd (V : Type) where
  | setVal (v : V)
  | cells (l : CellUpd V)
  deriving DecidableEq, Repr

/-- A builder pattern: `Builder` instance, list, tuple, or anything else (kept as is). -/
inductive Pat (V : Type) where
  | builder (b : BuilderSpec V)
  | list (l : List (Pat V))
  | tuple (l : List (Pat V))
  | const (c : V)

/-- A problem: the pattern with every builder replaced by its current value. -/
inductive Prob (V : Type) where
  | leaf (b : BVal V)
  | list (l : List (Prob V))
  | tuple (l : List (Prob V))
  deriving Repr

def BuilderSpec.initial : BuilderSpec V → BVal V
  | .choice _ d => .val d
  | .array c => .grid c.initialGrid

/-- `pat.candidates(subproblem)`. -/
def BuilderSpec.candidates (fuel : Nat) : BuilderSpec V → Prob V → Rand (List (Upd V))
  | .choice ch _, .leaf (.val cur) => Rand.pure ((choiceCandidates ch cur).map Upd.setVal)
  | .array c, .leaf (.grid g) => Rand.bind (arrayCandidates fuel c g) fun us => Rand.pure (us.map Upd.cells)
  | _, _ => throwPy .typeError

/-- `pat.copy_with_update(problem, v)`. -/
def BuilderSpec.copyWithUpdate : BuilderSpec V → Prob V → Upd V → Py (Prob V)
  | .choice _ _, _, .setVal v => .ok (.leaf (.val v))
  | .array _, .leaf (.grid g), .cells l => do
    let g' ← applyCells g l
    .ok (.leaf (.grid g'))
  | _, _, _ => .error .typeError

mutual
/-- `enumerate_variables(pat, pos)`: the initial problem and the `(pos, builder)` list in visiting order. -/
def enumVars : Pat V → List Nat → Prob V × List (List Nat × BuilderSpec V)
  | .builder b, pos => (.leaf b.initial, [(pos, b)])
  | .list l, pos => let r := enumVarsList l pos 0; (.list r.1, r.2)
  | .tuple l, pos => let r := enumVarsList l pos 0; (.tuple r.1, r.2)
  | .const c, _ => (.leaf (.val c), [])
def enumVarsList : List (Pat V) → List Nat → Nat → List (Prob V) × List (List Nat × BuilderSpec V)
  | [], _, _ => ([], [])
  | p :: ps, pos, i =>
    let a := enumVars p (pos ++ [i])
    let b := enumVarsList ps pos (i + 1)
    (a.1 :: b.1, a.2 ++ b.2)
end

def Prob.children : Prob V → Py (List (Prob V))
  | .list l => .ok l
  | .tuple l => .ok l
  | .leaf _ => .error .typeError

def Pat.children : Pat V → Py (List (Pat V))
  | .list l => .ok l
  | .tuple l => .ok l
  | _ => .error .typeError

/-- `get(problem, pos)`. -/
def getProb : Prob V → List Nat → Py (Prob V)
  | p, [] => .ok p
  | p, i :: rest => do
    let cs ← p.children
    match cs[i]? with
    | some c => getProb c rest
    | none => .error .indexError

/-- `get(pattern, pos)`. -/
def getPat : Pat V → List Nat → Py (Pat V)
  | p, [] => .ok p
  | p, i :: rest => do
    let cs ← p.children
    match cs[i]? with
    | some c => getPat c rest
    | none => .error .indexError

/-- `with_update(problem, pat, pos, v)`. -/
def withUpdate : List Nat → Prob V → Pat V → Upd V → Py (Prob V)
  | [], prob, .builder b, u => b.copyWithUpdate prob u
  | [], _, _, _ => .error .assertionError
  | i :: rest, prob, pat, u =>
    let go (ps : List (Pat V)) (mk : List (Prob V) → Prob V) : Py (Prob V) := do
      let cs ← prob.children
      if cs.length < ps.length then .error .indexError
      else
        match ps[i]?, cs[i]? with
        | some p, some c => do
          let c' ← withUpdate rest c p u
          .ok (mk ((cs.take ps.length).set i c'))
        | _, _ => .ok (mk (cs.take ps.length))
    match pat with
    | .list ps => go ps Prob.list
    | .tuple ps => go ps Prob.tuple
    | _ => .error .typeError

/-- The eager part of `generator(problem)`: collect `(pos, v)` over all variables, then shuffle. -/
def neighbours (fuel : Nat) (pat : Pat V) (vars : List (List Nat × BuilderSpec V)) (prob : Prob V) :
    Rand (List (List Nat × Upd V)) :=
  Rand.bind
    (forEach vars [] fun cands pv =>
      Rand.bind (liftPy (getProb prob pv.1)) fun sub =>
      Rand.bind (liftPy (getPat pat pv.1)) fun sp =>
        match sp with
        | .builder b => Rand.bind (b.candidates fuel sub) fun us => Rand.pure (cands ++ us.map fun u => (pv.1, u))
        | _ => throwPy .attributeError)
    fun cands => shuffle fuel cands

/-- The lazy part: `with_update(problem, pattern, pos, val)` for one shuffled candidate. -/
def realise (pat : Pat V) (prob : Prob V) (n : List Nat × Upd V) : Py (Prob V) :=
  withUpdate n.1 prob pat n.2

/-! ## core.generate_problem -/

/-- The callbacks and options of `generate_problem`, over abstract problem / neighbour / answer types. -/
structure GenCfg (P N A : Type) where
  /-- `solver(problem)` = `(is_sat, answer)`; the first argument is the number of earlier solver calls. -/
  solver : Nat → P → Bool × A
  uniqueness : A → Bool
  score : A → Int
  cluePenalty : Option (P → Int)
  pretest : Option (P → Bool)
  /-- the draws made when the generator object is first advanced (`candidates` + `shuffle`) -/
  nbrs : P → Rand (List N)
  /-- producing one yielded problem (lazy, may raise) -/
  apply : P → N → Py P
  /-- `numerator / 2^32 < math.exp(delta / temperature_at(step))` -/
  accept : Nat → Int → Nat → Bool
  maxSteps : Option Nat
  solveInitial : Bool

/-- The argument check at the top of `generate_problem`. -/
def checkArgs (hasPattern hasInitial hasNbr : Bool) : Py Unit :=
  if hasPattern then
    if hasInitial ∨ hasNbr then .error .valueError else .ok ()
  else
    if !hasInitial ∨ !hasNbr then .error .valueError else .ok ()

inductive Outcome (P : Type) where
  | found (p : P)
  | moved (p : P) (score : Int)
  | exhausted

variable {P N A : Type}

def GenCfg.penalty (cfg : GenCfg P N A) (p : P) : Int :=
  match cfg.cluePenalty with
  | none => 0
  | some f => f p

def GenCfg.pretestOk (cfg : GenCfg P N A) (p : P) : Bool :=
  match cfg.pretest with
  | none => true
  | some f => f p

/-- `for next_problem in neighbor_generator(problem): …` after the generator's eager part; `tr` is the
list of problems passed to the solver so far. -/
def tryNbrs (cfg : GenCfg P N A) (problem : P) (cur : Option Int) (step : Nat) :
    List N → List P → Rand (Outcome P × List P)
  | [], tr => Rand.pure (.exhausted, tr)
  | n :: ns, tr =>
    Rand.bind (liftPy (cfg.apply problem n)) fun np =>
      if !cfg.pretestOk np then tryNbrs cfg problem cur step ns tr
      else
        let r := cfg.solver tr.length np
        let tr' := tr ++ [np]
        if !r.1 then tryNbrs cfg problem cur step ns tr'
        else if cfg.uniqueness r.2 then Rand.pure (.found np, tr')
        else
          let nextScore := cfg.score r.2 - cfg.penalty np
          match cur with
          | none => Rand.pure (.moved np nextScore, tr')
          | some cs =>
            if cs ≤ nextScore then Rand.pure (.moved np nextScore, tr')
            else Rand.bind randomNum fun num =>
              if cfg.accept num (nextScore - cs) step then Rand.pure (.moved np nextScore, tr')
              else tryNbrs cfg problem cur step ns tr'

/-- `for step in range(max_steps)`: `k` iterations remaining. -/
def stepLoop (cfg : GenCfg P N A) : Nat → Nat → P → Option Int → List P → Rand (Option P × List P)
  | 0, _, _, _, tr => Rand.pure (none, tr)
  | k + 1, step, problem, cur, tr =>
    Rand.bind (cfg.nbrs problem) fun ns =>
    Rand.bind (tryNbrs cfg problem cur step ns tr) fun r =>
      match r.1 with
      | .found p => Rand.pure (some p, r.2)
      | .moved p sc => stepLoop cfg k (step + 1) p (some sc) r.2
      | .exhausted => stepLoop cfg k (step + 1) problem cur r.2

/-- `generate_problem(...)` after the argument checks: the returned problem (`None` = failed) and the
sequence of problems passed to the solver. -/
def generate (cfg : GenCfg P N A) (initial : P) : Rand (Option P × List P) :=
  let maxSteps := cfg.maxSteps.getD 1000
  if cfg.solveInitial then
    let r := cfg.solver 0 initial
    if !r.1 then Rand.pure (none, [initial])
    else stepLoop cfg maxSteps 0 initial (some (cfg.score r.2 - cfg.penalty initial)) [initial]
  else stepLoop cfg maxSteps 0 initial none []

end Cspuz.Gen
