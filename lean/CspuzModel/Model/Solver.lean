/-
  Model of cspuz/solver.py: the Solver session (declare / ensure / add_answer_key / find_answer /
  solve) over an abstract backend.  Import-free.
-/
import CspuzModel.Model.Z3
namespace Cspuz

/-- Arguments of `ensure` / `add_answer_key` / the aggregate helpers: arbitrarily nested iterables
(`flatten_iterator`). -/
inductive Nest
  | leaf (e : Expr)
  | items (l : List Nest)
  deriving Repr, Inhabited

mutual
def Nest.flatten : Nest → List Expr
  | .leaf e => [e]
  | .items l => Nest.flattenList l
def Nest.flattenList : List Nest → List Expr
  | [] => []
  | x :: r => x.flatten ++ Nest.flattenList r
end

/-- A backend as the Solver sees it: given all declared variables and all constraints it either
returns a model (and `solve()` returns True) or reports unsatisfiable.  Exceptions raised by the
translation are `.error`. -/
def Backend := List VarDecl → List Expr → Py (Option Asg)

/-- On every well-typed program the backend does not raise, answers `some σ` only with a genuine
model and `none` only when there is none. -/
def Backend.Correct (B : Backend) : Prop :=
  ∀ decls cs, (∀ c ∈ cs, wtB c = true) → ∃ r, B decls cs = .ok r ∧
    (∀ σ, r = some σ → Sat decls cs σ) ∧ (r = none → ¬ Satisfiable decls cs)

/-- `Z3Backend(variables); add_constraint(constraints); solve()`. -/
def z3Backend (o : Z3Oracle) : Backend := fun decls cs => do
  let zs ← convertList cs
  .ok (o decls zs)

/-- The value a variable's `sol` field receives from a model. -/
def valOf (decls : List VarDecl) (σ : Asg) (id : Nat) : Option Val :=
  match decls[id]? with
  | some .bool => some (.b (σ.b id))
  | some (.int _ _) => some (.i (σ.i id))
  | none => none

structure SolverState where
  decls : List VarDecl := []
  isKey : List Bool := []
  cs : List Expr := []
  /-- the `sol` field of each variable -/
  sol : List (Option Val) := []
  deriving Inhabited

inductive SolverOp
  | boolVar
  | intVar (lo hi : Int)
  | ensure (arg : Nest)
  | addAnswerKey (arg : Nest)
  | findAnswer
  | solve
  deriving Inhabited

/-- Observable result of an operation. -/
inductive OpOut
  | unit
  | var (id : Nat)
  | verdict (b : Bool)
  | raised (e : PyErr)
  deriving Inhabited

def publish (decls : List VarDecl) (σ : Asg) : List (Option Val) :=
  (List.range decls.length).map (valOf decls σ)

/-- `Solver.find_answer(backend)`: a fresh backend object is built from ALL variables and constraints. -/
def findAnswer (B : Backend) (st : SolverState) : SolverState × OpOut :=
  match B st.decls st.cs with
  | .error e => (st, .raised e)
  | .ok none => (st, .verdict false)
  | .ok (some σ) => ({ st with sol := publish st.decls σ }, .verdict true)

/-- `self.variables[i] != a` for a candidate value `a`. -/
def differs (id : Nat) (a : Val) : Expr :=
  match a with
  | .b v => .node .xor [.bvar id, .litB v]
  | .i v => .node .ne [.ivar id, .litI v]

/-- The refuting clause: `OR(var != candidate)` over the still-undemoted keys, in variable order. -/
def refuting (answer : List (Option Val)) : Expr :=
  .node .or ((List.range answer.length).filterMap fun i =>
    match answer.getD i none with
    | some a => some (differs i a)
    | none => none)

/-- One pass of "demote every key whose value in the new model differs". -/
def demote (decls : List VarDecl) (answer : List (Option Val)) (σ : Asg) : List (Option Val) :=
  (List.range answer.length).map fun i =>
    match answer.getD i none with
    | some a => if valOf decls σ i = some a then some a else none
    | none => none

/-- The refute-and-re-solve loop of `Solver.solve` (`extra` = the clauses added so far). -/
def refineLoop (B : Backend) (decls : List VarDecl) (cs : List Expr) :
    Nat → List Expr → List (Option Val) → Py (List (Option Val))
  | 0, _, answer => .ok answer     -- fuel exhausted (shown unreachable for fuel > #keys)
  | fuel + 1, extra, answer => do
    let extra' := extra ++ [refuting answer]
    match ← B decls (cs ++ extra') with
    | none => .ok answer
    | some σ => refineLoop B decls cs fuel extra' (demote decls answer σ)

/-- `Solver.solve(backend)` for a backend without native deduction support. -/
def solveRefine (B : Backend) (st : SolverState) : SolverState × OpOut :=
  match B st.decls st.cs with
  | .error e => (st, .raised e)
  | .ok none => (st, .verdict false)
  | .ok (some σ) =>
    let first := publish st.decls σ
    let answer := (List.range st.decls.length).map fun i =>
      if st.isKey.getD i false then first.getD i none else none
    match refineLoop B st.decls st.cs (st.decls.length + 1) [] answer with
    | .error e => ({ st with sol := first }, .raised e)
    | .ok final =>
      -- keys get the refined answer; the other variables keep the sol of the LAST model found
      -- (only the keys' sol fields are specified)
      ({ st with sol := (List.range st.decls.length).map fun i =>
          if st.isKey.getD i false then final.getD i none else first.getD i none }, .verdict true)

def isVarExpr : Expr → Option Nat
  | .bvar id => some id
  | .ivar id => some id
  | _ => none

/-- `ensure`: items are appended one by one; a non-Boolean item raises TypeError after the earlier
ones were kept. -/
def ensureItems (st : SolverState) : List Expr → SolverState × OpOut
  | [] => (st, .unit)
  | x :: r => if x.isBoolLike then ensureItems { st with cs := st.cs ++ [x] } r else (st, .raised .typeError)

/-- `add_answer_key`. -/
def addKeys (st : SolverState) : List Expr → SolverState × OpOut
  | [] => (st, .unit)
  | x :: r =>
    match isVarExpr x with
    | none => (st, .raised .typeError)
    | some id =>
      if st.isKey.getD id false then (st, .raised .valueError)
      else addKeys { st with isKey := st.isKey.set id true } r

/-- One Solver operation. -/
def SolverState.step (B : Backend) (st : SolverState) : SolverOp → SolverState × OpOut
  | .boolVar =>
    ({ st with decls := st.decls ++ [.bool], isKey := st.isKey ++ [false], sol := st.sol ++ [none] },
     .var st.decls.length)
  | .intVar lo hi =>
    ({ st with decls := st.decls ++ [.int lo hi], isKey := st.isKey ++ [false], sol := st.sol ++ [none] },
     .var st.decls.length)
  | .ensure arg => ensureItems st arg.flatten
  | .addAnswerKey arg => addKeys st arg.flatten
  | .findAnswer => findAnswer B st
  | .solve => solveRefine B st

/-- Run a whole session; returns the final state and the outputs in order. -/
def runSession (B : Backend) : SolverState → List SolverOp → SolverState × List OpOut
  | st, [] => (st, [])
  | st, op :: r =>
    let (st', o) := st.step B op
    let (st'', os) := runSession B st' r
    (st'', o :: os)

end Cspuz
