/-
  Additions to the model of cspuz/grid_frame.py needed by C14 (kept apart from Model/GridFrame.lean, which other
  slices use): how a client reads a `BoolInnerGridFrame`, and `BoolInnerGridFrame.__iter__`.  Import-free.
-/
import CspuzModel.Model.GridFrame
namespace Cspuz

/-- `inner.horizontal[y, x]`: by the convention of every puzzle module the border between the board cells
`(y, x)` and `(y+1, x)`. -/
def InnerFrame.hborder (f : InnerFrame) (y x : Int) : Py Expr := f.horizontal.get y x

/-- `inner.vertical[y, x]`: the border between the board cells `(y, x)` and `(y, x+1)`. -/
def InnerFrame.vborder (f : InnerFrame) (y x : Int) : Py Expr := f.vertical.get y x

/-- `BoolInnerGridFrame.__iter__` is `iter(self.dual())`. -/
def InnerFrame.iter (f : InnerFrame) : List Expr := f.dual.allEdges

end Cspuz
