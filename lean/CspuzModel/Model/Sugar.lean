/-
  Model of cspuz/backend/sugar_like.py (the five text-protocol backends), of the dispatch in
  cspuz/solver.py that reaches them, and of the reply formats printed by the reference wrapper
  sugar_extension/CspuzSugarInterface.java.  Import-free (core Lean only).

  Python `str` values are modelled as `List Char` (`Str`); the String-level API at the end of the file
  only wraps them with `String.ofList` / `String.toList`.

  Out of the model (documented deviations):
  * `str(n)` / `int(s)` of integers with more than 4300 digits raise ValueError in CPython >= 3.11
    (`sys.set_int_max_str_digits`); here decimal printing / parsing is unbounded;
  * `int()` also accepts non-ASCII Unicode decimal digits; here only ASCII digits (a non-ASCII digit is a
    ValueError in the model);
  * `str(operands[0])` of an `INT_CONSTANT` node whose operand is an `Expr` OBJECT is the default
    `object.__repr__` (contains a memory address): modelled by the marker `<object>`.
-/
import CspuzModel.Model.Solver
import CspuzModel.Gen.SugarOpNames
namespace Cspuz.Sugar
open Cspuz

abbrev Str := List Char

/-! ### Python string primitives -/

/-- `sep.join(parts)`. -/
def joinWith (sep : Str) : List Str → Str
  | [] => []
  | [x] => x
  | x :: y :: r => x ++ sep ++ joinWith sep (y :: r)

/-- `s.split(c)` for a one-character separator `c` (never returns the empty list). -/
def splitOn (c : Char) : Str → List Str
  | [] => [[]]
  | x :: r =>
    let rest := splitOn c r
    if x = c then [] :: rest else (x :: rest.headD []) :: rest.tail

/-- `needle in hay`. -/
def isInfix (needle : Str) : Str → Bool
  | [] => needle.isEmpty
  | c :: r => needle.isPrefixOf (c :: r) || isInfix needle r

/-- `str.isspace()` for one character (the set `str.strip()` and `int()` strip). -/
def isPySpace (c : Char) : Bool :=
  let n := c.toNat
  (9 ≤ n && n ≤ 13) || (28 ≤ n && n ≤ 32) || n == 0x85 || n == 0xA0 || n == 0x1680 ||
  (0x2000 ≤ n && n ≤ 0x200A) || n == 0x2028 || n == 0x2029 || n == 0x202F || n == 0x205F || n == 0x3000

/-- `s.strip()`. -/
def strip (s : Str) : Str := ((s.dropWhile isPySpace).reverse.dropWhile isPySpace).reverse

def digitChar (d : Nat) : Char := Char.ofNat (48 + d)

/-- Decimal digits, most significant first (`fuel` only makes the recursion structural; any `fuel > n` gives
the same result). -/
def natDigitsAux : Nat → Nat → Str
  | 0, _ => []
  | fuel + 1, n => if n < 10 then [digitChar n] else natDigitsAux fuel (n / 10) ++ [digitChar (n % 10)]

/-- `str(n)` for a natural number. -/
def natDigits (n : Nat) : Str := natDigitsAux (n + 1) n

/-- `str(n)` for an integer (also Java's `Integer.toString`). -/
def intStr : Int → Str
  | .ofNat m => natDigits m
  | .negSucc m => '-' :: natDigits (m + 1)

/-- One step of the digit scanner of `int()`: state = (previous character was a digit, value so far).
An underscore is allowed only between two digits. -/
def pyDigStep (st : Option (Bool × Nat)) (c : Char) : Option (Bool × Nat) :=
  match st with
  | none => none
  | some (prev, acc) =>
    if c.isDigit then some (true, acc * 10 + (c.toNat - 48))
    else if c = '_' && prev then some (false, acc)
    else none

def pyNat? (s : Str) : Option Nat :=
  match s.foldl pyDigStep (some (false, 0)) with
  | some (true, n) => some n
  | _ => none

/-- The sign and digits of `int(s)` after stripping. -/
def pyIntCore : Str → Option Int
  | '-' :: d => (pyNat? d).map fun n => -(n : Int)
  | '+' :: d => (pyNat? d).map fun n => (n : Int)
  | d => (pyNat? d).map fun n => (n : Int)

/-- `int(s)` for a `str` argument (base 10). -/
def pyInt (s : Str) : Py Int :=
  match pyIntCore (strip s) with
  | some n => .ok n
  | none => .error .valueError

/-- `l[k] = x` (negative indices count from the end; IndexError when out of range). -/
def pySetItem {α} (l : List α) (k : Int) (x : α) : Py (List α) :=
  let n : Int := l.length
  let p := if k < 0 then k + n else k
  if 0 ≤ p ∧ p < n then .ok (l.set p.toNat x) else .error .indexError

/-! ### `OP_TO_OPNAME`, `_convert_variable`, `_convert_expr` -/

/-- `OP_TO_OPNAME.get(op)` — REGENERATED table (`Gen/SugarOpNames.lean`). -/
def opName (op : Op) : Option String :=
  (Gen.Sugar.opNameTable.find? fun r => r.1 == op).map (·.2)

def opNameL (op : Op) : Option Str := (opName op).map String.toList

/-- A `BoolVar(id)` / `IntVar(id, lo, hi)` object of the `variables` list handed to the backend (the ids are
whatever the caller chose; through `Solver` they are the positions). -/
structure SVar where
  id : Nat
  decl : VarDecl
  deriving DecidableEq, Repr, Inhabited

def SVar.isInt (v : SVar) : Bool := match v.decl with | .int _ _ => true | .bool => false

/-- `"b{}".format(v.id)` / `"i{}".format(v.id)`. -/
def SVar.name (v : SVar) : Str :=
  match v.decl with
  | .bool => 'b' :: natDigits v.id
  | .int _ _ => 'i' :: natDigits v.id

/-- `_convert_variable(v)`. -/
def convertVariable (v : SVar) : Str :=
  match v.decl with
  | .bool => ['(', 'b', 'o', 'o', 'l', ' ', 'b'] ++ natDigits v.id ++ [')']
  | .int lo hi =>
    ['(', 'i', 'n', 't', ' ', 'i'] ++ natDigits v.id ++ ' ' :: intStr lo ++ ' ' :: intStr hi ++ [')']

def trueS : Str := ['t', 'r', 'u', 'e']
def falseS : Str := ['f', 'a', 'l', 's', 'e']
def boolS (b : Bool) : Str := if b then trueS else falseS

/-- `"true" if e.operands[0] else "false"` for a `BOOL_CONSTANT` node: Python truthiness of the operand
(`Expr.__bool__` raises ValueError). -/
def truthy : Expr → Py Bool
  | .litB b => .ok b
  | .litI n => .ok (n != 0)
  | .litNone => .ok false
  | _ => .error .valueError

/-- `str(e.operands[0])` for an `INT_CONSTANT` node. -/
def pyStr : Expr → Str
  | .litB true => ['T', 'r', 'u', 'e']
  | .litB false => ['F', 'a', 'l', 's', 'e']
  | .litI n => intStr n
  | .litNone => ['N', 'o', 'n', 'e']
  | _ => ['<', 'o', 'b', 'j', 'e', 'c', 't', '>']

mutual
/-- `_convert_expr(e)`. -/
def convertExpr : Expr → Py Str
  | .litNone => .ok ['*']
  | .litB b => .ok (boolS b)
  | .litI n => .ok (intStr n)
  | .bvar id => .ok ('b' :: natDigits id)
  | .ivar id => .ok ('i' :: natDigits id)
  | .node op args =>
    match op with
    | .boolConst =>
      (match args with
       | [] => .error .indexError
       | a :: _ => do .ok (boolS (← truthy a)))
    | .intConst =>
      (match args with
       | [] => .error .indexError
       | a :: _ => .ok (pyStr a))
    | op =>
      -- `"({} {})".format(OP_TO_OPNAME[e.op], " ".join(map(_convert_expr, e.operands)))`
      match opNameL op with
      | none => .error .keyError
      | some nm => do
        let parts ← convertList args
        .ok ('(' :: (nm ++ ' ' :: (joinWith [' '] parts ++ [')'])))
def convertList : List Expr → Py (List Str)
  | [] => .ok []
  | e :: r => do
    let x ← convertExpr e
    let xs ← convertList r
    .ok (x :: xs)
end

/-! ### `SugarLikeBackend` -/

structure SugarLike where
  variables : List SVar
  maxVarId : Int
  convVars : List Str
  convCs : List Str
  deriving Inhabited

/-- `SugarLikeBackend.__init__(variables)` (the `TypeError` branch is unreachable: every element is a
`BoolVar` or an `IntVar` by construction of `SVar`). -/
def SugarLike.init (variables : List SVar) : SugarLike :=
  { variables := variables
    maxVarId := variables.foldl (fun m v => max m (v.id : Int)) (-1)
    convVars := variables.map convertVariable
    convCs := [] }

/-- `add_constraint(constraint)` with a list argument (what `Solver` passes). -/
def SugarLike.addConstraints (be : SugarLike) (cs : List Expr) : Py SugarLike := do
  let l ← convertList cs
  .ok { be with convCs := be.convCs ++ l }

/-- `add_constraint(constraint)` with a single expression. -/
def SugarLike.addConstraint (be : SugarLike) (c : Expr) : Py SugarLike := do
  let x ← convertExpr c
  .ok { be with convCs := be.convCs ++ [x] }

/-- The text handed to `_call_solver` by `solve()`. -/
def SugarLike.description (be : SugarLike) : Str := joinWith ['\n'] (be.convVars ++ be.convCs)

/-- The `answer_keys` list of `solve_irrefutably` (`is_answer_key[i]` raises IndexError when the flag list
is too short). -/
def keyNamesFrom : List SVar → Nat → List Bool → Py (List Str)
  | [], _, _ => .ok []
  | v :: r, i, isKey =>
    match isKey[i]? with
    | none => .error .indexError
    | some k => do
      let rest ← keyNamesFrom r (i + 1) isKey
      .ok (if k then v.name :: rest else rest)

def keyNames (vars : List SVar) (isKey : List Bool) : Py (List Str) := keyNamesFrom vars 0 isKey

/-- The text handed to `_call_solver` by `solve_irrefutably(is_answer_key)`. -/
def SugarLike.descriptionKeys (be : SugarLike) (isKey : List Bool) : Py Str := do
  let names ← keyNames be.variables isKey
  .ok (joinWith ['\n'] (be.convVars ++ be.convCs ++ [('#' :: joinWith [' '] names)]))

/-- `true` / `false` / `int(val)`. -/
def parseVal (val : Str) : Py Val :=
  if val = trueS then .ok (.b true)
  else if val = falseS then .ok (.b false)
  else do .ok (.i (← pyInt val))

/-- The loop over `out[1:]` of `solve()` (answer-finder reply). -/
def parseSatLines : List Str → List (Option Val) → Py (List (Option Val))
  | [], asg => .ok asg
  | line :: rest, asg =>
    if line.length ≤ 2 then .ok asg
    else
      match splitOn '\t' (strip (line.drop 2)) with
      | [var, val] => do
        let cv ← parseVal val
        let k ← pyInt (var.drop 1)
        let asg' ← pySetItem asg k (some cv)
        parseSatLines rest asg'
      | _ => .error .valueError      -- tuple unpacking of a split with ≠ 2 parts

/-- The loop over `out[1:]` of `solve_irrefutably()` (deduction reply). -/
def parseFactLines : List Str → List (Option Val) → Py (List (Option Val))
  | [], asg => .ok asg
  | line :: rest, asg =>
    if line.length ≤ 2 then .ok asg
    else
      match splitOn ' ' line with
      | [var, val] => do
        let cv ← parseVal val
        let k ← pyInt (var.drop 1)
        let asg' ← pySetItem asg k (some cv)
        parseFactLines rest asg'
      | _ => .error .valueError

def unsatWordSat : Str := ['U', 'N', 'S', 'A', 'T', 'I', 'S', 'F', 'I', 'A', 'B', 'L', 'E']
def unsatWordFacts : Str := ['u', 'n', 's', 'a', 't']

/-- `[None] * (self.max_var_id + 1)`. -/
def SugarLike.freshAssignment (be : SugarLike) : List (Option Val) :=
  List.replicate (be.maxVarId + 1).toNat none

/-- `v.sol = assignment[v.id]` for every variable. -/
def SugarLike.readSols (be : SugarLike) (asg : List (Option Val)) : Py (List (Option Val)) :=
  be.variables.mapM fun v => pyIndex asg (v.id : Int)

/-- The reply-parsing half of `solve()`: the return value and the `sol` field of every variable (in
`variables` order).  When an exception is raised no `sol` field has been touched. -/
def SugarLike.parseSat (be : SugarLike) (reply : Str) : Py (Bool × List (Option Val)) :=
  match splitOn '\n' reply with
  | [] => .error .indexError       -- unreachable: `split` never returns an empty list
  | first :: rest =>
    if isInfix unsatWordSat first then .ok (false, be.variables.map fun _ => none)
    else do
      let asg ← parseSatLines rest be.freshAssignment
      let sols ← be.readSols asg
      .ok (true, sols)

/-- The reply-parsing half of `solve_irrefutably()`.  (All `sol` fields are reset to `None` before the reply
is inspected; when an exception is raised they stay `None`.) -/
def SugarLike.parseFacts (be : SugarLike) (reply : Str) : Py (Bool × List (Option Val)) :=
  match splitOn '\n' reply with
  | [] => .error .indexError
  | first :: rest =>
    if isInfix unsatWordFacts first then .ok (false, be.variables.map fun _ => none)
    else do
      let asg ← parseFactLines rest be.freshAssignment
      let sols ← be.readSols asg
      .ok (true, sols)

/-- The external solver as the backend sees it: description text in, reply text out (`_call_solver`). -/
abbrev Call := Str → Str

/-- `SugarLikeBackend.solve()`. -/
def SugarLike.solve (be : SugarLike) (call : Call) : Py (Bool × List (Option Val)) :=
  be.parseSat (call be.description)

/-- `SugarLikeBackend.solve_irrefutably(is_answer_key)` (the shared one). -/
def SugarLike.solveIrrefutably (be : SugarLike) (call : Call) (isKey : List Bool) :
    Py (Bool × List (Option Val)) := do
  let desc ← be.descriptionKeys isKey
  be.parseFacts (call desc)

/-! ### The five backend classes (REGENERATED dispatch table) -/

inductive Kind
  | sugar | sugarExtended | csugar | enigmaCsp | cspuzCore
  deriving DecidableEq, Repr, Inhabited

def Kind.all : List Kind := [.sugar, .sugarExtended, .csugar, .enigmaCsp, .cspuzCore]

/-- The backend name accepted by `_get_backend_by_name`. -/
def Kind.backendName : Kind → String
  | .sugar => "sugar" | .sugarExtended => "sugar_extended" | .csugar => "csugar"
  | .enigmaCsp => "enigma_csp" | .cspuzCore => "cspuz_core"

def Kind.ofName? (s : String) : Option Kind := Kind.all.find? fun k => k.backendName == s

def Kind.row (k : Kind) : Option Gen.Sugar.BackendRow :=
  Gen.Sugar.backendTable.find? fun r => r.name == k.backendName

/-- Does the class inherit the shared `solve_irrefutably` (native deduction mode)? -/
def Kind.native (k : Kind) : Bool :=
  match k.row with
  | some r => r.nativeDeduction
  | none => false

/-- `cls.solve_irrefutably(is_answer_key)` for the class of backend `k`. -/
def solveIrrefutablyOf (k : Kind) (be : SugarLike) (call : Call) (isKey : List Bool) :
    Py (Bool × List (Option Val)) :=
  if k.native then be.solveIrrefutably call isKey else .error .notImplementedError

/-! ### `Solver.find_answer` / `Solver.solve` through these backends -/

/-- `Solver.variables`: the id of a variable is its position. -/
def enumFrom : Nat → List VarDecl → List SVar
  | _, [] => []
  | i, d :: r => ⟨i, d⟩ :: enumFrom (i + 1) r

def enumVars (decls : List VarDecl) : List SVar := enumFrom 0 decls

/-- `backend_type(self.variables); add_constraint(self.constraints); solve()`. -/
def sugarFind (call : Call) (decls : List VarDecl) (cs : List Expr) : Py (Bool × List (Option Val)) := do
  let be ← (SugarLike.init (enumVars decls)).addConstraints cs
  be.solve call

/-- `Solver.find_answer(backend)` for a Sugar-family backend: the `sol` fields are written by the parser. -/
def sugarFindAnswer (call : Call) (st : SolverState) : SolverState × OpOut :=
  match sugarFind call st.decls st.cs with
  | .error e => (st, .raised e)
  | .ok (false, sols) => ({ st with sol := sols }, .verdict false)
  | .ok (true, sols) => ({ st with sol := sols }, .verdict true)

/-- The assignment read off the `sol` fields (ill-typed / `None` entries read as `False` / `0`; this glue is
only used to present the backend through the abstract `Backend` interface of Model/Solver.lean, whose
`publish` writes the same `sol` fields back when they are all of the right type). -/
def asgOfSols (sols : List (Option Val)) : Asg :=
  { b := fun id => match sols.getD id none with | some (.b v) => v | _ => false
    i := fun id => match sols.getD id none with | some (.i v) => v | _ => 0 }

/-- The backend as the refinement loop of `Solver.solve` sees it. -/
def sugarBackend (call : Call) : Backend := fun decls cs => do
  let (ok, sols) ← sugarFind call decls cs
  .ok (if ok then some (asgOfSols sols) else none)

/-- `csp_solver.solve_irrefutably(self.is_answer_key)` on a fresh backend of kind `k`. -/
def sugarDeduce (k : Kind) (call : Call) (st : SolverState) : Py (Bool × List (Option Val)) := do
  let be ← (SugarLike.init (enumVars st.decls)).addConstraints st.cs
  solveIrrefutablyOf k be call st.isKey

/-- `Solver.solve(backend)` for backend `k`: native deduction when the class has it, otherwise
(`NotImplementedError`) cspuz's own refute-and-re-solve loop over `solve()`. -/
def sugarSolve (k : Kind) (call : Call) (st : SolverState) : SolverState × OpOut :=
  match sugarDeduce k call st with
  | .error .notImplementedError => solveRefine (sugarBackend call) st
  | .error e => (st, .raised e)
  | .ok (r, sols) => ({ st with sol := sols }, .verdict r)

/-! ### The wire formats printed by `CspuzSugarInterface.run()` (reference formatters) -/

/-- `System.out.println` of each line. -/
def unlines : List Str → Str
  | [] => []
  | l :: r => l ++ '\n' :: unlines r

def intVarsOf (vars : List SVar) : List SVar := vars.filter SVar.isInt
def boolVarsOf (vars : List SVar) : List SVar := vars.filter fun v => !v.isInt

/-- `"a " + name + "\t" + value`. -/
def satLine (name value : Str) : Str := 'a' :: ' ' :: (name ++ '\t' :: value)

/-- Answer-finder mode, satisfiable: `s SATISFIABLE`, every int variable, every bool variable, `a`. -/
def formatSat (vars : List SVar) (σ : Asg) : Str :=
  unlines ([['s', ' ', 'S', 'A', 'T', 'I', 'S', 'F', 'I', 'A', 'B', 'L', 'E']] ++
    (intVarsOf vars).map (fun v => satLine v.name (intStr (σ.i v.id))) ++
    (boolVarsOf vars).map (fun v => satLine v.name (boolS (σ.b v.id))) ++ [['a']])

/-- Answer-finder mode, unsatisfiable. -/
def formatUnsat : Str := unlines [['s', ' ', 'U', 'N', 'S', 'A', 'T', 'I', 'S', 'F', 'I', 'A', 'B', 'L', 'E']]

/-- `name + " " + value` for a decided key of the right type. -/
def factLine (keys : List Str) (F : SVar → Option Val) (v : SVar) : Option Str :=
  if keys.contains v.name then
    match v.decl, F v with
    | .int _ _, some (.i x) => some (v.name ++ ' ' :: intStr x)
    | .bool, some (.b x) => some (v.name ++ ' ' :: boolS x)
    | _, _ => none
  else none

/-- Deduction mode, satisfiable: `sat`, then the decided int keys, then the decided bool keys. -/
def formatFacts (vars : List SVar) (keys : List Str) (F : SVar → Option Val) : Str :=
  unlines ([['s', 'a', 't']] ++ (intVarsOf vars).filterMap (factLine keys F) ++
    (boolVarsOf vars).filterMap (factLine keys F))

/-- Deduction mode, unsatisfiable. -/
def formatUnsatFacts : Str := unlines [unsatWordFacts]

/-! ### String-level API (what the driver exposes and the theorems are stated about) -/

def convertExprS (e : Expr) : Py String := (convertExpr e).map String.ofList
def convertVariableS (v : SVar) : String := String.ofList (convertVariable v)

/-- `csp_description` of `solve()` (`keys = none`) or of `solve_irrefutably(keys)`. -/
def cspDescriptionL (vars : List SVar) (cs : List Expr) (keys : Option (List Bool)) : Py Str := do
  let be ← (SugarLike.init vars).addConstraints cs
  match keys with
  | none => .ok be.description
  | some ks => be.descriptionKeys ks

def cspDescription (vars : List SVar) (cs : List Expr) (keys : Option (List Bool)) : Py String :=
  (cspDescriptionL vars cs keys).map String.ofList

def parseSat (vars : List SVar) (reply : String) : Py (Bool × List (Option Val)) :=
  (SugarLike.init vars).parseSat reply.toList

def parseFacts (vars : List SVar) (reply : String) : Py (Bool × List (Option Val)) :=
  (SugarLike.init vars).parseFacts reply.toList

def formatSatS (vars : List SVar) (σ : Asg) : String := String.ofList (formatSat vars σ)
def formatUnsatS : String := String.ofList formatUnsat
def formatFactsS (vars : List SVar) (keys : List Str) (F : SVar → Option Val) : String :=
  String.ofList (formatFacts vars keys F)
def formatUnsatFactsS : String := String.ofList formatUnsatFacts

end Cspuz.Sugar
