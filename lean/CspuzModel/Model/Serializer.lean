/-
  Model of cspuz/problem_serializer.py (every combinator, serialize_problem / deserialize_problem and the URL
  layer) and of the custom combinator `YajilinClue` of cspuz/puzzle/yajilin.py.  Core Lean only (plus the regenerated
  Unicode digit table).

  * Python `str` = `List Nat` of code points (`Str`).  `List Char` would exclude lone surrogates, which a Python str
    can hold and which C17 ("arbitrary Unicode") quantifies over; nothing in the model depends on a code point
    being a scalar value, so the theorems hold for every list of naturals.
  * Every combinator method is a function `data → idx → Outcome (consumed × produced)`; `Outcome` distinguishes a
    returned tuple, a returned `None`, a raised exception (with its Python class) and non-termination
    (`diverge`: the two `while` loops of `Seq` spin forever when the base combinator makes no progress).
  * The model follows the FIXED code (patches D6, D7, D8, D9a, D9b, D10, D11, D12 and the zero-size guard of
    `Rooms`, listed in harness/sercommon.py::PATCH_NOTES); on the unchanged tree the correspondence run disagrees
    exactly there, and the failing-input search then exhibits each defect on the real code.
  * Composite combinators are written once, generically over the methods of their components (`seqSer f n`,
    `tuplDe fs`, …) so that `Rooms`, which in Python builds `Tupl(Grid(MultiDigit(2,5),h,w-1), Grid(…,h-1,w))` at run
    time, goes through literally the same code paths as a user-built term.
  * Preconditions not modelled: `serialize` called with `idx > len(data)` (never happens from `serialize_problem`;
    the model answers `IndexError`, which is what `data[idx]` gives in every combinator but FixStr/MultiDigit/
    YajilinClue), floats, and rooms whose cells are not pairs of ints inside `ValuedRooms` (`min()` of arbitrary objects).
-/
import CspuzModel.Model.Py
import CspuzModel.Gen.UnicodeDigits
namespace Cspuz.Ser
open Cspuz

abbrev Str := List Nat

/-- What a Python call can do. -/
inductive Outcome (α : Type) where
  | ok (a : α)
  | none
  | raised (e : PyErr)
  | diverge
  deriving Inhabited

namespace Outcome
@[inline] def bind {α β} (x : Outcome α) (f : α → Outcome β) : Outcome β :=
  match x with
  | ok a => f a
  | none => none
  | raised e => raised e
  | diverge => diverge
instance : Monad Outcome where
  pure := ok
  bind := bind
def map' {α β} (f : α → β) (x : Outcome α) : Outcome β := x.bind (fun a => ok (f a))
end Outcome

/-- Python data handled by the codecs. -/
inductive PyVal where
  | int (n : Int)
  | str (s : Str)
  | none
  | bool (b : Bool)
  | tuple (l : List PyVal)
  | list (l : List PyVal)
  deriving Inhabited

mutual
/-- Python `==` on these values (`True == 1`; a list never equals a tuple). -/
def pyEq : PyVal → PyVal → Bool
  | .int a, .int b => a == b
  | .int a, .bool b => a == (if b then 1 else 0)
  | .bool a, .int b => (if a then (1 : Int) else 0) == b
  | .bool a, .bool b => a == b
  | .str a, .str b => a == b
  | .none, .none => true
  | .tuple a, .tuple b => pyEqL a b
  | .list a, .list b => pyEqL a b
  | _, _ => false
def pyEqL : List PyVal → List PyVal → Bool
  | [], [] => true
  | x :: xs, y :: ys => pyEq x y && pyEqL xs ys
  | _, _ => false
end

/-- `isinstance(x, int)` together with the integer value (`bool` is a subclass of `int`). -/
def asInt? : PyVal → Option Int
  | .int n => some n
  | .bool b => some (if b then 1 else 0)
  | _ => Option.none

/-- a list, a tuple or a string used as a sequence of items (a `str` iterates over its one-character strings) -/
def asSeq? : PyVal → Option (List PyVal)
  | .list l => some l
  | .tuple l => some l
  | .str s => some (s.map fun c => .str [c])
  | _ => Option.none

/-- Python truthiness. -/
def truthy : PyVal → Bool
  | .int n => n != 0
  | .bool b => b
  | .none => false
  | .str s => !s.isEmpty
  | .tuple l => !l.isEmpty
  | .list l => !l.isEmpty

/-! ### characters and numerals -/

/-- `str.isdigit()` of a one-character string. -/
def isDigit (c : Nat) : Bool := Gen.digitRanges.any fun r => r.1 ≤ c && c ≤ r.2
/-- value of a Unicode decimal digit (category Nd), the characters `int()` and the regex `\d` accept. -/
def decimalVal (c : Nat) : Option Nat :=
  Gen.decimalZeros.findSome? fun z => if z ≤ c && c < z + 10 then some (c - z) else Option.none
def isDecimal (c : Nat) : Bool := (decimalVal c).isSome

/-- `_is_alnum_lower` on one character -/
def isAlnumLower (c : Nat) : Bool := (48 ≤ c && c ≤ 57) || (97 ≤ c && c ≤ 122)
/-- `_is_hex` on one character -/
def isHex (c : Nat) : Bool := (48 ≤ c && c ≤ 57) || (97 ≤ c && c ≤ 102)
/-- value of a character `0-9a-z` as a base-36 digit (`int(c, 36)` / `int(c, 16)` on validated input) -/
def charVal (c : Nat) : Nat := if c ≤ 57 then c - 48 else c - 87
/-- the character of a digit value `< 36` -/
def digitChar (d : Nat) : Nat := if d < 10 then 48 + d else 87 + d

def digitsAux (b : Nat) : Nat → Nat → List Nat → List Nat
  | 0, _, acc => acc
  | fuel + 1, n, acc => if n < b then n :: acc else digitsAux b fuel (n / b) (n % b :: acc)
/-- digit values of `n` in base `b ≥ 2`, most significant first (`[0]` for 0). -/
def digits (b n : Nat) : List Nat := digitsAux b (n + 1) n []
/-- `str(n)`, `hex(n)[2:]`, `_to_base36(n)` for `b` = 10, 16, 36. -/
def toBase (b n : Nat) : Str := (digits b n).map digitChar
/-- positional value of validated digit characters -/
def fromBase (b : Nat) (s : Str) : Nat := s.foldl (fun a c => a * b + charVal c) 0

/-- `_to_base36` (raises ValueError on a negative argument) -/
def toBase36 (n : Int) : Outcome Str :=
  if n < 0 then .raised .valueError else .ok (toBase 36 n.toNat)

/-- `int(s)` for a string of `isdigit`/`\d` characters: every character must be a decimal digit, and CPython
refuses more than 4300 digits. -/
def pyInt (s : Str) : Outcome Nat :=
  if s.length > 4300 then .raised .valueError
  else if s.all isDecimal then .ok (s.foldl (fun a c => a * 10 + (decimalVal c).getD 0) 0)
  else .raised .valueError

def strOfString (s : String) : Str := s.toList.map Char.toNat

/-- `data[idx : idx + n]` -/
def slice (data : Str) (idx n : Nat) : Str := (data.drop idx).take n

structure Env where
  height : Nat
  width : Nat

abbrev SerF := List PyVal → Nat → Outcome (Nat × Str)
abbrev DeF := Str → Nat → Outcome (Nat × List PyVal)

/-- `if idx == len(data): return None` followed by `data[idx]`. -/
@[inline] def withItem {β} (d : List PyVal) (i : Nat) (k : PyVal → Outcome β) : Outcome β :=
  if i = d.length then .none else
  match d[i]? with
  | Option.none => .raised .indexError
  | some v => k v

@[inline] def withChar {β} (data : Str) (i : Nat) (k : Nat → Outcome β) : Outcome β :=
  if i = data.length then .none else
  match data[i]? with
  | Option.none => .raised .indexError
  | some c => k c

/-! ### leaves -/

def fixStrSer (s : Str) : SerF := fun _ _ => .ok (0, s)
def fixStrDe (s : Str) : DeF := fun data idx =>
  if idx + s.length > data.length then .none
  else if slice data idx s.length = s then .ok (s.length, []) else .none

def dictSerFind (v : PyVal) : List PyVal → List Str → Outcome (Nat × Str)
  | b :: bs, a :: as => if pyEq v b then .ok (1, a) else dictSerFind v bs as
  | [], _ => .none
  | _ :: _, [] => .raised .indexError
def dictSer (before : List PyVal) (after : List Str) : SerF := fun d i =>
  withItem d i fun v => dictSerFind v before after

def dictDeFind (data : Str) (idx : Nat) : List PyVal → List Str → Outcome (Nat × List PyVal)
  | b :: bs, a :: as =>
    if idx + a.length ≤ data.length && slice data idx a.length == a then .ok (a.length, [b])
    else dictDeFind data idx bs as
  | [], _ => .none
  | _ :: _, [] => .raised .indexError
def dictDe (before : List PyVal) (after : List Str) : DeF := fun data idx =>
  if idx = data.length then .none else dictDeFind data idx before after

/-- number of leading items equal to `space`, at most `lim` -/
def countRun (space : PyVal) : List PyVal → Nat → Nat
  | _, 0 => 0
  | [], _ => 0
  | v :: r, lim + 1 => if pyEq v space then 1 + countRun space r lim else 0

/-- `Spaces(space, smallest)`: `offset = int(smallest, 36) - 1`, `_max_consecutive = 35 - offset`. -/
def spacesSer (space : PyVal) (offset : Int) : SerF := fun d i =>
  withItem d i fun v =>
    if !pyEq v space then .none else
    let n := 1 + countRun space (d.drop (i + 1)) ((35 - offset) - 1).toNat
    (toBase36 (offset + n)).bind fun t => .ok (n, t)
def spacesDe (space : PyVal) (offset : Int) : DeF := fun data idx =>
  withChar data idx fun c =>
    if !isAlnumLower c then .none else
    let n : Int := charVal c
    if n > offset then .ok (1, List.replicate (n - offset).toNat space) else .none

def boolStr (b : Bool) : Str := if b then [84, 114, 117, 101] else [70, 97, 108, 115, 101]
def decIntSer : SerF := fun d i =>
  withItem d i fun v =>
    match v with
    | .int n =>
      if n < 0 then .none
      else if (toBase 10 n.toNat).length > 4300 then .raised .valueError   -- CPython's limit on `str(int)`
      else .ok (1, toBase 10 n.toNat)
    | .bool b => .ok (1, boolStr b)
    | _ => .none
def decIntDe : DeF := fun data idx =>
  if idx = data.length then .none else
  let run := (data.drop idx).takeWhile isDigit
  if run.length = 0 then .none else
  (pyInt run).bind fun n => .ok (run.length, [.int n])

def hexIntSer : SerF := fun d i =>
  withItem d i fun v =>
    match asInt? v with
    | Option.none => .none
    | some n =>
      if !(0 ≤ n && n ≤ 4095) then .none else
      let pre : Str := if 16 ≤ n && n < 256 then [45] else if 256 ≤ n then [43] else []
      .ok (1, pre ++ toBase 16 n.toNat)
/-- (with patch D11: the digits after `-` / `+` are validated with `_is_hex`) -/
def hexIntDe : DeF := fun data idx =>
  withChar data idx fun c =>
    if c = 45 then
      if idx + 3 > data.length || !(slice data (idx + 1) 2).all isHex then .none
      else .ok (3, [.int (fromBase 16 (slice data (idx + 1) 2))])
    else if c = 43 then
      if idx + 4 > data.length || !(slice data (idx + 1) 3).all isHex then .none
      else .ok (4, [.int (fromBase 16 (slice data (idx + 1) 3))])
    else if isHex c then .ok (1, [.int (charVal c)])
    else .none

def intSpacesSer (space : PyVal) (maxInt maxSp : Nat) : SerF := fun d i =>
  withItem d i fun v =>
    match asInt? v with
    | Option.none => .none
    | some n =>
      if !(0 ≤ n && n ≤ (maxInt : Int)) then .none else
      let ns := countRun (space) (d.drop (i + 1)) maxSp
      .ok (1 + ns, toBase 36 (ns * (maxInt + 1) + n.toNat))
def intSpacesDe (space : PyVal) (maxInt maxSp : Nat) : DeF := fun data idx =>
  withChar data idx fun c =>
    if !isAlnumLower c then .none else
    let n := charVal c
    if !(n < (maxInt + 1) * (maxSp + 1)) then .none
    else .ok (1, .int ((n % (maxInt + 1) : Nat) : Int) :: List.replicate (n / (maxInt + 1)) space)

/-- the `for i in range(digits)` loop of `MultiDigit.serialize` over `data[idx:]` -/
def mdPack (base : Nat) : Nat → List PyVal → Nat → Outcome Nat
  | 0, _, acc => .ok acc
  | k + 1, [], acc => mdPack base k [] (acc * base)
  | k + 1, v :: r, acc =>
    match asInt? v with
    | Option.none => .raised .typeError
    | some n => if 0 ≤ n && n < (base : Int) then mdPack base k r (acc * base + n.toNat) else .none
def multiDigitSer (base ndig : Nat) : SerF := fun d i =>
  if i = d.length then .none
  else if i > d.length then .raised .indexError
  else (mdPack base ndig (d.drop i) 0).bind fun v => .ok (min (d.length - i) ndig, toBase 36 v)

def mdUnpack (base : Nat) : Nat → Nat → List PyVal → List PyVal
  | 0, _, acc => acc
  | k + 1, v, acc => mdUnpack base k (v / base) (.int ((v % base : Nat) : Int) :: acc)
def multiDigitDe (base ndig : Nat) : DeF := fun data idx =>
  withChar data idx fun c =>
    if !isAlnumLower c then .none else
    let v := charVal c
    if !(v < base ^ ndig) then .none else .ok (1, mdUnpack base ndig v [])

/-! ### YajilinClue (cspuz/puzzle/yajilin.py, with patch D12) -/

def qq : Str := [63, 63]
def dirOfChar (c : Nat) : Option Nat :=
  if c = 94 then some 1 else if c = 118 then some 2 else if c = 60 then some 3 else if c = 62 then some 4 else Option.none
def charOfDir (d : Nat) : Nat := if d = 1 then 94 else if d = 2 then 118 else if d = 3 then 60 else 62
def isAsciiDigit (c : Nat) : Bool := 48 ≤ c && c ≤ 57

def yajilinSer : SerF := fun d i =>
  if i ≥ d.length then .none else
  match d[i]? with
  | Option.none => .none
  | some v =>
    if pyEq v (.str [46, 46]) then .none
    else if pyEq v (.str qq) then .ok (1, [48, 46])
    else match v with
      | .str (c :: rest) =>
        match dirOfChar c with
        | Option.none => .none
        | some dir =>
          if rest.isEmpty || !rest.all isAsciiDigit then .none else
          (pyInt rest).bind fun n =>
            if n < 16 then .ok (1, (48 + dir) :: toBase 16 n)
            else if n < 256 then .ok (1, (48 + dir + 5) :: toBase 16 n)
            else .none
      | _ => .none
def yajilinDe : DeF := fun data idx =>
  if idx + 1 ≥ data.length then .none else
  match data[idx]?, data[idx + 1]? with
  | some dir, some n =>
    if dir = 48 then .ok (2, [.str qq])
    else if 49 ≤ dir && dir ≤ 52 then
      if n = 46 then .ok (2, [.str qq])
      else if !isHex n then .none
      else .ok (2, [.str (charOfDir (dir - 48) :: toBase 10 (charVal n))])
    else if 53 ≤ dir && dir ≤ 57 then
      if idx + 2 ≥ data.length then .none
      else if !(slice data (idx + 1) 2).all isHex then .none
      else if dir = 53 then .ok (3, [.str qq])
      else .ok (3, [.str (charOfDir (dir - 53) :: toBase 10 (fromBase 16 (slice data (idx + 1) 2)))])
    else .none
  | _, _ => .raised .indexError

/-! ### generic composites -/

/-- `OneOf`: the first alternative that does not return `None` (exceptions propagate). -/
def oneOfF {A B : Type} : List (A → Nat → Outcome B) → A → Nat → Outcome B
  | [], _, _ => .none
  | f :: r, a, i =>
    match f a i with
    | .none => oneOfF r a i
    | x => x

/-- the `for i in range(len(self._elements))` loop of `Tupl.serialize`; each component is serialised from
its own index 0 and the number of items it consumed is ignored. -/
def tuplSerParts : List SerF → List PyVal → Outcome Str
  | [], _ => .ok []
  | _ :: _, [] => .raised .indexError
  | f :: fs, c :: cs =>
    match asSeq? c with
    | Option.none => .raised .typeError
    | some l => (f l 0).bind fun r => (tuplSerParts fs cs).bind fun t => .ok (r.2 ++ t)
def tuplSer (fs : List SerF) : SerF := fun d i =>
  withItem d i fun v =>
    match v with
    | .tuple comps => if comps.length ≠ fs.length then .none else (tuplSerParts fs comps).bind fun t => .ok (1, t)
    | _ => .none

def tuplDeLoop : List DeF → Str → Nat → Nat → List PyVal → Outcome (Nat × List PyVal)
  | [], _, _, ofs, parts => .ok (ofs, [.tuple parts])
  | f :: fs, data, idx, ofs, parts =>
    (f data (idx + ofs)).bind fun r => tuplDeLoop fs data idx (ofs + r.1) (parts ++ [.list r.2])
/-- (with patch D7: no `idx == len(data)` guard) -/
def tuplDe (fs : List DeF) : DeF := fun data idx => tuplDeLoop fs data idx 0 []

/-- `while n_read < self._n` of `Seq.serialize`.  A base that consumes no item leaves the loop state unchanged:
the Python spins forever. -/
def seqSerLoop (f : SerF) (l : List PyVal) (n : Nat) : Nat → Nat → Str → Outcome Str
  | 0, _, _ => .diverge
  | fuel + 1, nread, acc =>
    if nread < n then
      match f l nread with
      | .ok (k, t) => if k = 0 then .diverge else seqSerLoop f l n fuel (nread + k) (acc ++ t)
      | .none => .none
      | .raised e => .raised e
      | .diverge => .diverge
    else if nread = n then .ok acc else .raised .assertionError
def seqSer (f : SerF) (n : Nat) : SerF := fun d i =>
  withItem d i fun v =>
    match v with
    | .list l => (seqSerLoop f l n (n + 1) 0 []).bind fun t => .ok (1, t)
    | _ => .none

/-- `while len(ret) < self._n` of `Seq.deserialize`. -/
def seqDeLoop (f : DeF) (data : Str) (idx n : Nat) : Nat → Nat → List PyVal → Outcome (Nat × List PyVal)
  | 0, _, _ => .diverge
  | fuel + 1, nread, ret =>
    if ret.length < n then
      match f data (idx + nread) with
      | .ok (ofs, d) =>
        if ofs = 0 && d.isEmpty then .diverge else seqDeLoop f data idx n fuel (nread + ofs) (ret ++ d)
      | .none => .none
      | .raised e => .raised e
      | .diverge => .diverge
    else .ok (nread, [.list (ret.take n)])
def seqDe (f : DeF) (n : Nat) : DeF := fun data idx => seqDeLoop f data idx n (n + data.length + 2) 0 []

/-- `for y in range(height): d_flat += d[y]` -/
def gridFlatten : Nat → List PyVal → Outcome (List PyVal)
  | 0, _ => .ok []
  | _ + 1, [] => .raised .indexError
  | h + 1, r :: rows =>
    match asSeq? r with
    | Option.none => .raised .typeError
    | some l => (gridFlatten h rows).bind fun t => .ok (l ++ t)
/-- `Grid.serialize` (with patch D6 the explicit dimensions are used whenever given).  The flattened rows are
wrapped in a fresh one-element list and the inner `Seq` is asked for its item 0:
`seq_combinator.serialize(env, [d_flat], 0)`, whatever the caller's `idx` is (so a `Grid` at position `≥ 1` of a
`Seq`/`Grid`/`ValuedRooms` serializes like one at position 0). -/
def gridSer (f : SerF) (h w : Nat) : SerF := fun d i =>
  withItem d i fun v =>
    match v with
    | .list rows => (gridFlatten h rows).bind fun flat => seqSer f (h * w) [.list flat] 0
    | _ => .none

def gridRows (w : Nat) (d2 : List PyVal) : Nat → Nat → List PyVal
  | 0, _ => []
  | h + 1, i => .list ((d2.drop (i * w)).take w) :: gridRows w d2 h (i + 1)
def gridDe (f : DeF) (h w : Nat) : DeF := fun data idx =>
  (seqDe f (h * w) data idx).bind fun r =>
    match r.2 with
    | [.list d2] => if d2.length ≠ h * w then .raised .assertionError else .ok (r.1, [.list (gridRows w d2 h 0)])
    | [_] => .raised .typeError
    | _ => .raised .assertionError

/-! ### Rooms -/

abbrev Grid2 (α : Type) := List (List α)

def rd2 {α} (g : Grid2 α) (y x : Nat) : Outcome α :=
  match g[y]? with
  | Option.none => .raised .indexError
  | some r => match r[x]? with
    | Option.none => .raised .indexError
    | some v => .ok v
def set2 {α} (g : Grid2 α) (y x : Nat) (v : α) : Grid2 α := g.modify y (fun r => r.set x v)

/-- all cells in row-major order: `for y in range(height): for x in range(width)` -/
def cells (h w : Nat) : List (Nat × Nat) := (List.range h).flatMap fun y => (List.range w).map fun x => (y, x)

/-- the `for p in room` loop of `Rooms._serialize` (with patch D9a: the bounds test is parenthesised) -/
def assignCells (h w : Nat) (i : Int) : List PyVal → Grid2 Int → Outcome (Grid2 Int)
  | [], rid => .ok rid
  | p :: ps, rid =>
    match p with
    | .tuple [a, b] =>
      match asInt? a with
      | Option.none => .raised .typeError
      | some y =>
        if !(0 ≤ y && y < (h : Int)) then .raised .valueError else
        match asInt? b with
        | Option.none => .raised .typeError
        | some x =>
          if !(0 ≤ x && x < (w : Int)) then .raised .valueError else
          (rd2 rid y.toNat x.toNat).bind fun cur =>
            if cur != -1 then .raised .valueError else assignCells h w i ps (set2 rid y.toNat x.toNat i)
    | _ => .raised .valueError

def assignRooms (h w : Nat) : List PyVal → Int → Grid2 Int → Outcome (Grid2 Int)
  | [], _, rid => .ok rid
  | room :: rest, i, rid =>
    match room with
    | .list ps => (assignCells h w i ps rid).bind fun rid' => assignRooms h w rest (i + 1) rid'
    | _ => .raised .valueError

def allAssigned (rid : Grid2 Int) : List (Nat × Nat) → Outcome Unit
  | [] => .ok ()
  | (y, x) :: r => (rd2 rid y x).bind fun c => if c == -1 then .raised .valueError else allAssigned rid r

def bitVal (a b : Int) : PyVal := .int (if a != b then 1 else 0)
def vertRow (rid : Grid2 Int) (y : Nat) : List Nat → Outcome (List PyVal)
  | [] => .ok []
  | x :: xs => (rd2 rid y x).bind fun a => (rd2 rid y (x + 1)).bind fun b =>
      (vertRow rid y xs).bind fun t => .ok (bitVal a b :: t)
def horRow (rid : Grid2 Int) (y : Nat) : List Nat → Outcome (List PyVal)
  | [] => .ok []
  | x :: xs => (rd2 rid y x).bind fun a => (rd2 rid (y + 1) x).bind fun b =>
      (horRow rid y xs).bind fun t => .ok (bitVal a b :: t)
def mapRows (row : Nat → Outcome (List PyVal)) : List Nat → Outcome (List PyVal)
  | [] => .ok []
  | y :: ys => (row y).bind fun r => (mapRows row ys).bind fun t => .ok (.list r :: t)

def bordersSer (h w : Nat) : SerF :=
  tuplSer [gridSer (multiDigitSer 2 5) h (w - 1), gridSer (multiDigitSer 2 5) (h - 1) w]
def bordersDe (h w : Nat) : DeF :=
  tuplDe [gridDe (multiDigitDe 2 5) h (w - 1), gridDe (multiDigitDe 2 5) (h - 1) w]

/-- `Rooms._serialize` (with the guard against boards without cells) -/
def roomsSerCore (env : Env) : SerF := fun d i =>
  if i = d.length then .raised .valueError else
  match d[i]? with
  | Option.none => .raised .indexError
  | some (.list rooms) =>
    let h := env.height
    let w := env.width
    if h = 0 || w = 0 then .raised .valueError else
    (assignRooms h w rooms 0 (List.replicate h (List.replicate w (-1)))).bind fun rid =>
    (allAssigned rid (cells h w)).bind fun _ =>
    (mapRows (fun y => vertRow rid y (List.range (w - 1))) (List.range h)).bind fun vertical =>
    (mapRows (fun y => horRow rid y (List.range w)) (List.range (h - 1))).bind fun horizontal =>
    bordersSer h w [.tuple [.list [.list vertical], .list [.list horizontal]]] 0
  | some _ => .raised .valueError

/-- `try: … except ValueError: return None` -/
def catchValueError {α} (skip : Bool) (x : Outcome α) : Outcome α :=
  if skip then (match x with | .raised .valueError => .none | y => y) else x

def roomsSer (env : Env) (skip : Bool) : SerF := fun d i => catchValueError skip (roomsSerCore env d i)

def toBoolGrid : PyVal → Outcome (Grid2 Bool)
  | .list rows => rows.foldr (fun r acc => acc.bind fun t =>
      match r with
      | .list bits => .ok (bits.map truthy :: t)
      | _ => .raised .typeError) (.ok [])
  | _ => .raised .typeError

/-- one step of the (patch D9b: iterative) flood fill: pop a cell, mark it, push the neighbours that are not
separated by a border.  `stack` has its top at the head. -/
def fillLoop (hz vt : Grid2 Bool) (h w : Nat) (id : Int) :
    Nat → List (Nat × Nat) → Grid2 Int → Outcome (Grid2 Int)
  | 0, _, _ => .diverge
  | _ + 1, [], rid => .ok rid
  | fuel + 1, (y, x) :: st, rid =>
    (rd2 rid y x).bind fun cur =>
    if cur != -1 then fillLoop hz vt h w id fuel st rid else
    let rid := set2 rid y x id
    (if y > 0 then (rd2 hz (y - 1) x).bind fun b => .ok (if !b then (y - 1, x) :: st else st) else .ok st).bind fun st =>
    (if y + 1 < h then (rd2 hz y x).bind fun b => .ok (if !b then (y + 1, x) :: st else st) else .ok st).bind fun st =>
    (if x > 0 then (rd2 vt y (x - 1)).bind fun b => .ok (if !b then (y, x - 1) :: st else st) else .ok st).bind fun st =>
    (if x + 1 < w then (rd2 vt y x).bind fun b => .ok (if !b then (y, x + 1) :: st else st) else .ok st).bind fun st =>
    fillLoop hz vt h w id fuel st rid

/-- the scan `for y … for x …: if room_id[y][x] == -1: dfs(y, x, last_id); last_id += 1` -/
def scanFill (hz vt : Grid2 Bool) (h w : Nat) : List (Nat × Nat) → Grid2 Int → Int → Outcome (Grid2 Int × Int)
  | [], rid, last => .ok (rid, last)
  | (y, x) :: r, rid, last =>
    (rd2 rid y x).bind fun cur =>
    if cur == -1 then
      (fillLoop hz vt h w last (4 * h * w + 2) [(y, x)] rid).bind fun rid' => scanFill hz vt h w r rid' (last + 1)
    else scanFill hz vt h w r rid last

def redundantCheck (hz vt : Grid2 Bool) (rid : Grid2 Int) (h w : Nat) : List (Nat × Nat) → Outcome Unit
  | [] => .ok ()
  | (y, x) :: r =>
    (if y + 1 < h then (rd2 hz y x).bind fun b =>
        if b then (rd2 rid y x).bind fun a => (rd2 rid (y + 1) x).bind fun c =>
          if a == c then .raised .valueError else .ok ()
        else .ok ()
      else .ok ()).bind fun _ =>
    (if x + 1 < w then (rd2 vt y x).bind fun b =>
        if b then (rd2 rid y x).bind fun a => (rd2 rid y (x + 1)).bind fun c =>
          if a == c then .raised .valueError else .ok ()
        else .ok ()
      else .ok ()).bind fun _ =>
    redundantCheck hz vt rid h w r

def collectRooms (rid : Grid2 Int) : List (Nat × Nat) → List (List (Nat × Nat)) → Outcome (List (List (Nat × Nat)))
  | [], rooms => .ok rooms
  | (y, x) :: r, rooms =>
    (rd2 rid y x).bind fun id =>
    if id == -1 then .raised .assertionError
    else if id < 0 then .raised .indexError   -- unreachable (ids are -1 or ≥ 0); Python would wrap around
    else match rooms[id.toNat]? with
      | Option.none => .raised .indexError
      | some room => collectRooms rid r (rooms.set id.toNat (room ++ [(y, x)]))

def cellVal (p : Nat × Nat) : PyVal := .tuple [.int p.1, .int p.2]
def roomsVal (rooms : List (List (Nat × Nat))) : PyVal := .list (rooms.map fun r => .list (r.map cellVal))

/-- `Rooms._deserialize` (patches D7: no end-of-text guard; D9b; guard against boards without cells) -/
def roomsDeCore (env : Env) (allowRedundant : Bool) : DeF := fun data idx =>
  let h := env.height
  let w := env.width
  if h = 0 || w = 0 then .raised .valueError else
  match bordersDe h w data idx with
  | .none => .raised .valueError
  | .raised e => .raised e
  | .diverge => .diverge
  | .ok (nread, [.tuple [.list [vertical], .list [horizontal]]]) =>
    (toBoolGrid vertical).bind fun vt =>
    (toBoolGrid horizontal).bind fun hz =>
    (scanFill hz vt h w (cells h w) (List.replicate h (List.replicate w (-1))) 0).bind fun (rid, last) =>
    (if allowRedundant then .ok () else redundantCheck hz vt rid h w (cells h w)).bind fun _ =>
    (collectRooms rid (cells h w) (List.replicate last.toNat [])).bind fun rooms =>
    .ok (nread, [roomsVal rooms])
  | .ok _ => .raised .valueError

def roomsDe (env : Env) (skip allowRedundant : Bool) : DeF := fun data idx =>
  catchValueError skip (roomsDeCore env allowRedundant data idx)

/-! ### ValuedRooms -/

/-- `min(room)` for a room given as a list/tuple of `(int, int)` tuples (lexicographic order); `ValueError` on an
empty room.  Rooms of any other shape are outside the modelled domain (`TypeError`). -/
def minCell : List PyVal → Option (Int × Int) → Outcome (Int × Int)
  | [], Option.none => .raised .valueError
  | [], some m => .ok m
  | .tuple [a, b] :: r, m =>
    match asInt? a, asInt? b with
    | some y, some x =>
      match m with
      | Option.none => minCell r (some (y, x))
      | some (my, mx) => minCell r (some (if y < my || (y == my && x < mx) then (y, x) else (my, mx)))
    | _, _ => .raised .typeError
  | _ :: _, _ => .raised .typeError

def keyLt (a b : Int × Int) : Bool := a.1 < b.1 || (a.1 == b.1 && a.2 < b.2)

/-- stable insertion (after every element whose key is not greater) -/
def insertByKey (e : (Int × Int) × PyVal × PyVal) : List ((Int × Int) × PyVal × PyVal) → List ((Int × Int) × PyVal × PyVal)
  | [] => [e]
  | x :: r => if keyLt e.1 x.1 then e :: x :: r else x :: insertByKey e r
def sortByKey (l : List ((Int × Int) × PyVal × PyVal)) : List ((Int × Int) × PyVal × PyVal) :=
  l.foldl (fun acc e => insertByKey e acc) []

def keyedPairs : List PyVal → List PyVal → Outcome (List ((Int × Int) × PyVal × PyVal))
  | room :: rs, v :: vs =>
    match asSeq? room with
    | Option.none => .raised .typeError
    | some cellsOfRoom => (minCell cellsOfRoom Option.none).bind fun k =>
        (keyedPairs rs vs).bind fun t => .ok ((k, room, v) :: t)
  | _, _ => .ok []

/-- `ValuedRooms.serialize` (patch D8: rooms are sorted by their least cell) -/
def valuedRoomsSer (fv : SerF) (env : Env) (skip : Bool) : SerF := fun d i =>
  withItem d i fun v =>
    match v with
    | .tuple [rs, vs] =>
      match asSeq? rs, asSeq? vs with
      | some rooms, some values =>
        (keyedPairs rooms values).bind fun pairs =>
        let sorted := sortByKey pairs
        if sorted.isEmpty then .raised .valueError else
        let rooms' := sorted.map fun e => e.2.1
        let values' := sorted.map fun e => e.2.2
        (tuplSer [roomsSer env skip, seqSer fv rooms'.length]
            [.tuple [.list [.list rooms'], .list [.list values']]] 0).bind fun r => .ok (1, r.2)
      | _, _ => .raised .typeError
    | _ => .none

def valuedRoomsDe (fv : DeF) (env : Env) (skip allowRedundant : Bool) : DeF := fun data idx =>
  (roomsDe env skip allowRedundant data idx).bind fun r =>
    match r.2 with
    | (.list rooms0) :: _ =>
      (seqDe fv rooms0.length data (idx + r.1)).bind fun r2 =>
        match r2.2 with
        | v0 :: _ => .ok (r.1 + r2.1, [.tuple [.list rooms0, v0]])
        | [] => .raised .indexError
    | _ :: _ => .raised .typeError
    | [] => .raised .indexError

/-! ### combinator terms -/

inductive Comb where
  | fixStr (s : Str)
  | dict (before : List PyVal) (after : List Str)
  | spaces (space : PyVal) (offset : Int)
  | decInt
  | hexInt
  | intSpaces (space : PyVal) (maxInt maxSp : Nat)
  | multiDigit (base ndig : Nat)
  | oneOf (cs : List Comb)
  | tupl (es : List Comb)
  | seq (base : Comb) (n : Nat)
  | grid (base : Comb) (dims : Option (Nat × Nat))
  | rooms (skip allowRedundant : Bool)
  | valuedRooms (value : Comb) (skip allowRedundant : Bool)
  | yajilinClue
  deriving Inhabited

/-- The parameter checks the Python constructors make themselves (`ValueError` otherwise): `Dict` wants tables of
equal length, `IntSpaces` `(max_int + 1) * (max_num_spaces + 1) <= 36`, `MultiDigit` `base ** digits <= 36`
(one node; sub-terms are constructed before their parent). -/
def ctorOk : Comb → Bool
  | .dict b a => b.length == a.length
  | .intSpaces _ mi ms => decide ((mi + 1) * (ms + 1) ≤ 36)
  | .multiDigit b k => decide (b ^ k ≤ 36)
  | _ => true

def gridDims (env : Env) (dims : Option (Nat × Nat)) : Nat × Nat :=
  match dims with
  | some d => d
  | Option.none => (env.height, env.width)

mutual
def ser : Comb → Env → SerF
  | .fixStr s, _ => fixStrSer s
  | .dict b a, _ => dictSer b a
  | .spaces sp o, _ => spacesSer sp o
  | .decInt, _ => decIntSer
  | .hexInt, _ => hexIntSer
  | .intSpaces sp mi ms, _ => intSpacesSer sp mi ms
  | .multiDigit b k, _ => multiDigitSer b k
  | .oneOf cs, env => oneOfF (serL cs env)
  | .tupl es, env => tuplSer (serL es env)
  | .seq b n, env => seqSer (ser b env) n
  | .grid b dims, env => gridSer (ser b env) (gridDims env dims).1 (gridDims env dims).2
  | .rooms skip _, env => roomsSer env skip
  | .valuedRooms v skip _, env => valuedRoomsSer (ser v env) env skip
  | .yajilinClue, _ => yajilinSer
def serL : List Comb → Env → List SerF
  | [], _ => []
  | c :: cs, env => ser c env :: serL cs env
end

mutual
def de : Comb → Env → DeF
  | .fixStr s, _ => fixStrDe s
  | .dict b a, _ => dictDe b a
  | .spaces sp o, _ => spacesDe sp o
  | .decInt, _ => decIntDe
  | .hexInt, _ => hexIntDe
  | .intSpaces sp mi ms, _ => intSpacesDe sp mi ms
  | .multiDigit b k, _ => multiDigitDe b k
  | .oneOf cs, env => oneOfF (deL cs env)
  | .tupl es, env => tuplDe (deL es env)
  | .seq b n, env => seqDe (de b env) n
  | .grid b dims, env => gridDe (de b env) (gridDims env dims).1 (gridDims env dims).2
  | .rooms skip allow, env => roomsDe env skip allow
  | .valuedRooms v skip allow, env => valuedRoomsDe (de v env) env skip allow
  | .yajilinClue, _ => yajilinDe
def deL : List Comb → Env → List DeF
  | [], _ => []
  | c :: cs, env => de c env :: deL cs env
end

/-! ### problem and URL layer -/

/-- `serialize_problem`: `assert tmp is not None`. -/
def serProblem (c : Comb) (problem : PyVal) (h w : Nat) : Outcome Str :=
  match ser c ⟨h, w⟩ [problem] 0 with
  | .ok r => .ok r.2
  | .none => .raised .assertionError
  | .raised e => .raised e
  | .diverge => .diverge

/-- `deserialize_problem`: `assert len(problem) == 1`. -/
def deProblem (c : Comb) (s : Str) (h w : Nat) : Outcome PyVal :=
  (de c ⟨h, w⟩ s 0).bind fun r =>
    match r.2 with
    | [p] => .ok p
    | _ => .raised .assertionError

def defaultPrefix : Str := strOfString "https://puzz.link/p?"

/-- `serialize_problem_as_url` -/
def serProblemAsUrl (c : Comb) (puzzle : Str) (h w : Nat) (problem : PyVal) (pre : Str) : Outcome Str :=
  (serProblem c problem h w).bind fun body =>
    .ok (pre ++ puzzle ++ [47] ++ toBase 10 w ++ [47] ++ toBase 10 h ++ [47] ++ body)

def stripPrefix : Str → Str → Option Str
  | [], s => some s
  | _ :: _, [] => Option.none
  | a :: p, b :: s => if a = b then stripPrefix p s else Option.none

/-- `re.match` of `https?://[^/]+/p(?:\.html)?\?([^/]+)/(\d+)/(\d+)/(.*)` (anchored at the start only; `.` stops at a
newline; `\d` is any Unicode decimal digit).  The pattern is deterministic: every `+` run is followed by a
character outside its class, so no backtracking alternative can succeed where the greedy one fails.
Returns the four groups. -/
def matchUrl (url : Str) : Option (Str × Str × Str × Str) := do
  let s ← stripPrefix (strOfString "http") url
  let s := match s with
    | 115 :: r => r
    | _ => s
  let s ← stripPrefix (strOfString "://") s
  let (host, s) := s.span (· != 47)
  if host.isEmpty then Option.none
  let s ← stripPrefix (strOfString "/p") s
  let s := match stripPrefix (strOfString ".html") s with
    | some r => r
    | Option.none => s
  let s ← stripPrefix [63] s
  let (name, s) := s.span (· != 47)
  if name.isEmpty then Option.none
  let s ← stripPrefix [47] s
  let (wd, s) := s.span isDecimal
  if wd.isEmpty then Option.none
  let s ← stripPrefix [47] s
  let (hd, s) := s.span isDecimal
  if hd.isEmpty then Option.none
  let s ← stripPrefix [47] s
  some (name, wd, hd, s.takeWhile (· != 10))

/-- `get_puzzle_info_from_url`: `(name, height, width)` -/
def getPuzzleInfo (url : Str) : Outcome (Str × Nat × Nat) :=
  match matchUrl url with
  | Option.none => .none
  | some (name, wd, hd, _) => (pyInt hd).bind fun h => (pyInt wd).bind fun w => .ok (name, h, w)

/-- `deserialize_problem_as_url` (with patch D10: a non-matching URL raises `ValueError` unless `allow_failure`).
`allowed = none` is `allowed_puzzles=None`; a single string is the one-element list. -/
def deProblemAsUrl (c : Comb) (url : Str) (allowed : Option (List Str)) (allowFailure returnSize : Bool) :
    Outcome PyVal :=
  match matchUrl url with
  | Option.none => if allowFailure then .none else .raised .valueError
  | some (name, wd, hd, body) =>
    (pyInt wd).bind fun w => (pyInt hd).bind fun h =>
    (match allowed with
      | some names => if names.contains name then Outcome.ok () else Outcome.raised .valueError
      | Option.none => Outcome.ok ()).bind fun _ =>
    (deProblem c body h w).bind fun p =>
      .ok (if returnSize then .tuple [.int h, .int w, p] else p)

end Cspuz.Ser
