/-
  Model of `cspuz/puzzle/nurimisaki.py::solve_nurimisaki(height, width, problem)`: the program posted
  before `solver.solve()`.  Import-free (core Lean + model files only).

  Problem format: `problem[y][x]` = -1 (no circle), 0 (circle without number), n (circle with number n).
-/
import CspuzModel.Model.Puzzles.CLUtil
namespace Cspuz.Puzzles.Nurimisaki
open Cspuz Cspuz.Spec Cspuz.Puzzles

structure Problem where
  height : Nat
  width : Nat
  problem : List (List Int)
  deriving Repr, Inhabited

def sl (a b : Option Int) : AxisKey := .slice a b none

/-- `A op B op C op D` (left-associated). -/
def chain (o : BinOp) (a b c d : PyV) : Py PyV := do
  let ab ← binop o a b
  let abc ← binop o ab c
  binop o abc d

/-- The two 2×2 constraints. -/
def blockCs (isWhite : PyV) : Py (List Expr) := do
  let a00 ← getitemV isWhite (.pair (sl none (some (-1))) (sl none (some (-1))))    -- [:-1, :-1]
  let a10 ← getitemV isWhite (.pair (sl (some 1) none) (sl none (some (-1))))       -- [1:, :-1]
  let a01 ← getitemV isWhite (.pair (sl none (some (-1))) (sl (some 1) none))       -- [:-1, 1:]
  let a11 ← getitemV isWhite (.pair (sl (some 1) none) (sl (some 1) none))          -- [1:, 1:]
  let o ← chain .or_ a00 a10 a01 a11
  let c1 ← ensureV o
  let a ← chain .and_ a00 a10 a01 a11
  let na ← unop .invert a
  let c2 ← ensureV na
  .ok (c1 ++ c2)

/-- One direction of the candidate list.  `atEdge`: the run ends at the border (`fold_and(run)`);
`inside`: the run ends at the cell `stop`, which must be shaded (`fold_and(run, ~is_white[stop])`). -/
def candDir (isWhite : PyV) (atEdge inside : Bool) (run : Key2) (stop : Key2) : Py (List ANest) :=
  if atEdge then do
    let r ← getitemV isWhite run
    let e ← foldAndA [.leaf r]
    .ok [.leaf (.scalar e)]
  else if inside then do
    let r ← getitemV isWhite run
    let s ← getitemV isWhite stop
    let ns ← unop .invert s
    let e ← foldAndA [.leaf r, .leaf ns]
    .ok [.leaf (.scalar e)]
  else .ok []

/-- Body of the double loop for the cell `(y, x)`. -/
def cellCs (pb : Problem) (isWhite : PyV) (p : Nat × Nat) : Py (List Expr) := do
  let y : Int := p.1
  let x : Int := p.2
  let h : Int := pb.height
  let w : Int := pb.width
  let v ← tableGet pb.problem y x
  let c ← getitemV isWhite (.pair (.idx y) (.idx x))
  let nb ← fourNeighbors isWhite (.two y x)
  let ct ← countTrueA [.leaf nb]
  if v == -1 then do
    let ne ← binop .ne (.scalar ct) (.scalar (.litI 1))
    let r ← callM .then_ c [ne]
    ensureV r
  else do
    let c1 ← ensureV c
    let eq ← binop .eq (.scalar ct) (.scalar (.litI 1))
    let c2 ← ensureV eq
    if v != 0 then do
      let n := v
      let up ← candDir isWhite (y == n - 1) (y > n - 1)
        (.pair (sl (some (y - n + 1)) (some y)) (.idx x)) (.pair (.idx (y - n)) (.idx x))
      let dn ← candDir isWhite (y == h - n) (y < h - n)
        (.pair (sl (some (y + 1)) (some (y + n))) (.idx x)) (.pair (.idx (y + n)) (.idx x))
      let lf ← candDir isWhite (x == n - 1) (x > n - 1)
        (.pair (.idx y) (sl (some (x - n + 1)) (some x))) (.pair (.idx y) (.idx (x - n)))
      let rt ← candDir isWhite (x == w - n) (x < w - n)
        (.pair (.idx y) (sl (some (x + 1)) (some (x + n)))) (.pair (.idx y) (.idx (x + n)))
      let e ← foldOrA [.items (up ++ dn ++ lf ++ rt)]
      let c3 ← ensureV (.scalar e)
      .ok (c1 ++ c2 ++ c3)
    else .ok (c1 ++ c2)

/-- The program posted by `solve_nurimisaki`; `prim` = `config.use_graph_primitive`. -/
def programWith (prim : Bool) (pb : Problem) : Py PuzzleProg := do
  let h := pb.height
  let w := pb.width
  let isWhite : PyV := .arr2 true h w (bvars 0 (h * w))
  let keys ← addKeysV isWhite []
  let avc ← activeVerticesConnected (Graph.grid h w) (bvars 0 (h * w)) (h * w) false prim
  let bl ← blockCs isWhite
  let cl ← (cellsOf h w).mapM (cellCs pb isWhite)
  .ok { decls := List.replicate (h * w) .bool ++ avc.decls, cs := avc.cs ++ bl ++ cl.flatten, keys := keys }

def program (pb : Problem) : Py PuzzleProg := programWith false pb

end Cspuz.Puzzles.Nurimisaki
