/-
  Model of `cspuz/puzzle/lits.py::solve_lits(height, width, blocks)`: the program posted before
  `solver.solve()`.  Import-free (core Lean + model files only).

  Problem format: `blocks` = list of regions, each a list of cells `(y, x)`.
-/
import CspuzModel.Model.Puzzles.CLUtil
namespace Cspuz.Puzzles.Lits
open Cspuz Cspuz.Spec Cspuz.Puzzles

structure Problem where
  height : Nat
  width : Nat
  blocks : List (List (Int × Int))
  deriving Repr, Inhabited

def sl (a b : Option Int) : AxisKey := .slice a b none

/-- `block_id = [[-1] * width for _ in range(height)]; for i, block in enumerate(blocks): for y, x in block: block_id[y][x] = i`. -/
def blockId (pb : Problem) : Py (List (List Int)) :=
  pb.blocks.zipIdx.foldlM (fun (t : List (List Int)) (bi : List (Int × Int) × Nat) =>
    bi.1.foldlM (fun (t : List (List Int)) (yx : Int × Int) => tableSet t yx.1 yx.2 (bi.2 : Int)) t)
    (List.replicate pb.height (List.replicate pb.width (-1)))

/-- Python tuple comparison `(y, x) < (y2, x2)`. -/
def tupleLt (a b : Int × Int) : Bool := a.1 < b.1 || (a.1 == b.1 && a.2 < b.2)

/-- What the body of `for y, x in blocks[i]` contributes. -/
structure CellOut where
  cs : List Expr            -- constraints posted
  pairs : List Expr         -- appended to `adjacent_pairs`
  straight : List Expr      -- appended to `is_straight`
  ts : List Expr            -- appended to `is_t`

def cellBody (pb : Problem) (isBlack : PyV) (bid : List (List Int)) (i : Int) (yx : Int × Int) : Py CellOut := do
  let y := yx.1
  let x := yx.2
  let h : Int := pb.height
  let w : Int := pb.width
  let nbs ← fourNeighborIndices pb.height pb.width (.two y x)
  -- the inner loop over the neighbours
  let (same, pairs) ← nbs.foldlM (fun (acc : List (Int × Int) × List Expr) (q : Int × Int) => do
      let b ← tableGet bid q.1 q.2
      if b == i then do
        let pairs ← if tupleLt (y, x) q then do
            let a ← getitemV isBlack (.pair (.idx y) (.idx x))
            let c ← getitemV isBlack (.pair (.idx q.1) (.idx q.2))
            let e ← binop .and_ a c
            .ok (acc.2 ++ e.flat)
          else .ok acc.2
        .ok (acc.1 ++ [q], pairs)
      else .ok acc) (([] : List (Int × Int)), ([] : List Expr))
  -- solver.ensure(is_black[y, x].then(fold_or(is_black[neighbor_same_block])))
  let c ← getitemV isBlack (.pair (.idx y) (.idx x))
  let sel ← getitemV isBlack (.coords same)
  let fo ← foldOrA [.leaf sel]
  let r ← callM .then_ c [.scalar fo]
  let c1 ← ensureV r
  -- tmp
  let vert ← if 0 < y ∧ y < h - 1 then do
      let u ← tableGet bid (y - 1) x
      let d ← tableGet bid (y + 1) x
      .ok (u == i && d == i)
    else .ok false
  let t1 ← if vert then do
      let s ← getitemV isBlack (.pair (sl (some (y - 1)) (some (y + 2))) (.idx x))
      let e ← foldAndA [.leaf s]
      .ok [ANest.leaf (.scalar e)]
    else .ok []
  let horiz ← if 0 < x ∧ x < w - 1 then do
      let l ← tableGet bid y (x - 1)
      let r ← tableGet bid y (x + 1)
      .ok (l == i && r == i)
    else .ok false
  let t2 ← if horiz then do
      let s ← getitemV isBlack (.pair (.idx y) (sl (some (x - 1)) (some (x + 2))))
      let e ← foldAndA [.leaf s]
      .ok [ANest.leaf (.scalar e)]
    else .ok []
  let tmp := t1 ++ t2
  let straight ← if tmp.length ≥ 1 then do
      let e ← foldOrA [.items tmp]
      .ok [e]
    else .ok []
  -- is_t
  let ts ← if same.length ≥ 3 then do
      let ct ← countTrueA [.items [.leaf sel]]
      let e ← binop .ge (.scalar ct) (.scalar (.litI 3))
      .ok e.flat
    else .ok []
  .ok { cs := c1, pairs := pairs, straight := straight, ts := ts }

/-- Body of `for i in range(len(blocks))`. -/
def blockCs (pb : Problem) (isBlack : PyV) (bid : List (List Int)) (numStraight hasT : List Expr)
    (bi : List (Int × Int) × Nat) : Py (List Expr) := do
  let i : Int := bi.2
  let sel ← getitemV isBlack (.coords bi.1)
  let ct ← countTrueA [.leaf sel]
  let c ← binop .eq (.scalar ct) (.scalar (.litI 4))
  let c0 ← ensureV c
  let outs ← bi.1.mapM (cellBody pb isBlack bid i)
  let ctp ← countTrueA [.items ((outs.flatMap (·.pairs)).map fun e => .leaf (.scalar e))]
  let cp ← binop .eq (.scalar ctp) (.scalar (.litI 3))
  let c1 ← ensureV cp
  let ns ← pyIndex numStraight i
  let cts ← countTrueA [.items ((outs.flatMap (·.straight)).map fun e => .leaf (.scalar e))]
  let cs_ ← binop .eq (.scalar ns) (.scalar cts)
  let c2 ← ensureV cs_
  let ht ← pyIndex hasT i
  let fo ← foldOrA [.items ((outs.flatMap (·.ts)).map fun e => .leaf (.scalar e))]
  let ct_ ← binop .eq (.scalar ht) (.scalar fo)
  let c3 ← ensureV ct_
  .ok (c0 ++ outs.flatMap (·.cs) ++ c1 ++ c2 ++ c3)

/-- `(is_black[p] & is_black[q]).then((num_straight[i] != num_straight[j]) | (has_t[i] != has_t[j]))`. -/
def borderC (isBlack : PyV) (numStraight hasT : List Expr) (p q : Int × Int) (i j : Int) : Py (List Expr) := do
  let a ← getitemV isBlack (.pair (.idx p.1) (.idx p.2))
  let b ← getitemV isBlack (.pair (.idx q.1) (.idx q.2))
  let ab ← binop .and_ a b
  let ni ← pyIndex numStraight i
  let nj ← pyIndex numStraight j
  let n ← binop .ne (.scalar ni) (.scalar nj)
  let ti ← pyIndex hasT i
  let tj ← pyIndex hasT j
  let t ← binop .ne (.scalar ti) (.scalar tj)
  let d ← binop .or_ n t
  let r ← callM .then_ ab [d]
  ensureV r

/-- Body of the final double loop for the cell `(y, x)`. -/
def adjCs (pb : Problem) (isBlack : PyV) (bid : List (List Int)) (numStraight hasT : List Expr)
    (p : Nat × Nat) : Py (List Expr) := do
  let y : Int := p.1
  let x : Int := p.2
  let h : Int := pb.height
  let w : Int := pb.width
  let c1 ← if y < h - 1 then do
      let i ← tableGet bid y x
      let j ← tableGet bid (y + 1) x
      if i != j then borderC isBlack numStraight hasT (y, x) (y + 1, x) i j else .ok []
    else .ok []
  let c2 ← if x < w - 1 then do
      let i ← tableGet bid y x
      let j ← tableGet bid y (x + 1)
      if i != j then borderC isBlack numStraight hasT (y, x) (y, x + 1) i j else .ok []
    else .ok []
  .ok (c1 ++ c2)

/-- The program posted by `solve_lits`; `prim` = `config.use_graph_primitive`. -/
def programWith (prim : Bool) (pb : Problem) : Py PuzzleProg := do
  let h := pb.height
  let w := pb.width
  let k := pb.blocks.length
  let isBlack : PyV := .arr2 true h w (bvars 0 (h * w))
  let keys ← addKeysV isBlack []
  -- graph.active_vertices_connected(solver, is_black)
  let avc ← activeVerticesConnected (Graph.grid h w) (bvars 0 (h * w)) (h * w) false prim
  -- no 2x2: ~(is_black[1:, 1:] & is_black[1:, :-1] & is_black[:-1, 1:] & is_black[:-1, :-1])
  let a11 ← getitemV isBlack (.pair (sl (some 1) none) (sl (some 1) none))
  let a10 ← getitemV isBlack (.pair (sl (some 1) none) (sl none (some (-1))))
  let a01 ← getitemV isBlack (.pair (sl none (some (-1))) (sl (some 1) none))
  let a00 ← getitemV isBlack (.pair (sl none (some (-1))) (sl none (some (-1))))
  let ab ← binop .and_ a11 a10
  let abc ← binop .and_ ab a01
  let abcd ← binop .and_ abc a00
  let nb ← unop .invert abcd
  let c22 ← ensureV nb
  let bid ← blockId pb
  -- num_straight = solver.int_array(len(blocks), 0, 2); has_t = solver.bool_array(len(blocks))
  let base := h * w + avc.decls.length
  let nsDecl ← intArrayDecls k 0 2
  let numStraight := ivars base k
  let hasT := bvars (base + k) k
  let bl ← pb.blocks.zipIdx.mapM (blockCs pb isBlack bid numStraight hasT)
  let adj ← (cellsOf h w).mapM (adjCs pb isBlack bid numStraight hasT)
  .ok { decls := List.replicate (h * w) .bool ++ avc.decls ++ nsDecl ++ List.replicate k .bool,
        cs := avc.cs ++ c22 ++ bl.flatten ++ adj.flatten, keys := keys }

def program (pb : Problem) : Py PuzzleProg := programWith false pb

end Cspuz.Puzzles.Lits
