/-
  Model of `cspuz/puzzle/norinori.py::solve_norinori(height, width, blocks)`: the program posted
  before `solver.solve()`.  Import-free.
-/
import CspuzModel.Model.Puzzles.CLUtil
namespace Cspuz.Puzzles.Norinori
open Cspuz Cspuz.Spec Cspuz.Puzzles

/-- `solve_norinori(height, width, blocks)`: `blocks` is the list of regions, each a list of cells `(y, x)`. -/
structure Problem where
  height : Nat
  width : Nat
  blocks : List (List (Int × Int))
  deriving Repr, Inhabited

def program (pb : Problem) : Py PuzzleProg := do
  let h := pb.height
  let w := pb.width
  -- is_black = solver.bool_array((height, width)); solver.add_answer_key(is_black)
  let decls : List VarDecl := List.replicate (h * w) .bool
  let ib : PyV := .arr2 true h w (bvars 0 (h * w))
  let keys ← addKeysV ib []
  -- for y, x: ensure(is_black[y, x].then(count_true(is_black.four_neighbors(y, x)) == 1))
  let local_ ← (cellsOf h w).mapM fun (yx : Nat × Nat) => do
    let c ← getitemV ib (.pair (.idx yx.1) (.idx yx.2))
    let nb ← fourNeighbors ib (.two yx.1 yx.2)
    let ct ← countTrueA [.leaf nb]
    let one ← binop .eq (.scalar ct) (.scalar (.litI 1))
    let r ← callM .then_ c [one]
    ensureV r
  -- for block in blocks: ensure(count_true(is_black[block]) == 2)
  let rooms ← pb.blocks.mapM fun (block : List (Int × Int)) => do
    let sel ← getitemV ib (.coords block)
    let ct ← countTrueA [.leaf sel]
    let c ← binop .eq (.scalar ct) (.scalar (.litI 2))
    ensureV c
  .ok { decls := decls, cs := local_.flatten ++ rooms.flatten, keys := keys }

end Cspuz.Puzzles.Norinori
