/-
  Model of `cspuz/puzzle/view.py::solve_view(height, width, problem)`: the program posted before
  `solver.solve()`.  Import-free (core Lean + model files only).

  Problem format: `problem[y][x]` negative = empty, otherwise the given number.
  Answer keys: `nums` (row-major), then `has_number` (row-major).
-/
import CspuzModel.Model.Puzzles.CLUtil
namespace Cspuz.Puzzles.View
open Cspuz Cspuz.Spec Cspuz.Puzzles

structure Problem where
  height : Nat
  width : Nat
  problem : List (List Int)
  deriving Repr, Inhabited

def sl (a b : Option Int) : AxisKey := .slice a b none

/-- One of the four sight arrays `t` (already allocated):
`ensure(t[edge] == 0)`; `ensure(t[inner] == has_number[prev].cond(0, t[prev] + 1))`. -/
def sightCs (t hasNumber : PyV) (edge inner prev : Key2) : Py (List Expr) := do
  let e ← getitemV t edge
  let c ← binop .eq e (.scalar (.litI 0))
  let c1 ← ensureV c
  let lhs ← getitemV t inner
  let hp ← getitemV hasNumber prev
  let tp ← getitemV t prev
  let tp1 ← binop .add tp (.scalar (.litI 1))
  let rhs ← callM .cond hp [.scalar (.litI 0), tp1]
  let c ← binop .eq lhs rhs
  let c2 ← ensureV c
  .ok (c1 ++ c2)

/-- Body of the clue loop. -/
def clueCs (pb : Problem) (nums hasNumber : PyV) (p : Nat × Nat) : Py (List Expr) := do
  let y : Int := p.1
  let x : Int := p.2
  let v ← tableGet pb.problem y x
  if v ≥ 0 then do
    let n ← getitemV nums (.pair (.idx y) (.idx x))
    let c ← binop .eq n (.scalar (.litI v))
    let c1 ← ensureV c
    let hn ← getitemV hasNumber (.pair (.idx y) (.idx x))
    let c2 ← ensureV hn
    .ok (c1 ++ c2)
  else .ok []

/-- The program posted by `solve_view`; `prim` = `config.use_graph_primitive`. -/
def programWith (prim : Bool) (pb : Problem) : Py PuzzleProg := do
  let h := pb.height
  let w := pb.width
  let n := h * w
  -- has_number = solver.bool_array((height, width)); graph.active_vertices_connected(solver, has_number)
  let hasNumber : PyV := .arr2 true h w (bvars 0 n)
  let avc ← activeVerticesConnected (Graph.grid h w) (bvars 0 n) n false prim
  let b1 := n + avc.decls.length
  -- nums = solver.int_array((height, width), 0, height + width)
  let dNums ← intArrayDecls n 0 ((h : Int) + (w : Int))
  let nums : PyV := .arr2 false h w (ivars b1 n)
  let keys ← addKeysV nums []
  let keys ← addKeysV hasNumber keys
  -- to_up
  let dUp ← intArrayDecls n 0 ((h : Int) - 1)
  let toUp : PyV := .arr2 false h w (ivars (b1 + n) n)
  let cUp ← sightCs toUp hasNumber (.pair (.idx 0) fullSlice)
    (.pair (sl (some 1) none) fullSlice) (.pair (sl none (some (-1))) fullSlice)
  -- to_down
  let dDown ← intArrayDecls n 0 ((h : Int) - 1)
  let toDown : PyV := .arr2 false h w (ivars (b1 + 2 * n) n)
  let cDown ← sightCs toDown hasNumber (.pair (.idx (-1)) fullSlice)
    (.pair (sl none (some (-1))) fullSlice) (.pair (sl (some 1) none) fullSlice)
  -- to_left
  let dLeft ← intArrayDecls n 0 ((w : Int) - 1)
  let toLeft : PyV := .arr2 false h w (ivars (b1 + 3 * n) n)
  let cLeft ← sightCs toLeft hasNumber (.pair fullSlice (.idx 0))
    (.pair fullSlice (sl (some 1) none)) (.pair fullSlice (sl none (some (-1))))
  -- to_right
  let dRight ← intArrayDecls n 0 ((w : Int) - 1)
  let toRight : PyV := .arr2 false h w (ivars (b1 + 4 * n) n)
  let cRight ← sightCs toRight hasNumber (.pair fullSlice (.idx (-1)))
    (.pair fullSlice (sl none (some (-1)))) (.pair fullSlice (sl (some 1) none))
  -- ensure(has_number.then(nums == to_up + to_left + to_down + to_right))
  let s1 ← binop .add toUp toLeft
  let s2 ← binop .add s1 toDown
  let s3 ← binop .add s2 toRight
  let eqs ← binop .eq nums s3
  let t ← callM .then_ hasNumber [eqs]
  let cSum ← ensureV t
  -- ensure((has_number[:-1, :] & has_number[1:, :]).then(nums[:-1, :] != nums[1:, :]))
  let hU ← getitemV hasNumber (.pair (sl none (some (-1))) fullSlice)
  let hD ← getitemV hasNumber (.pair (sl (some 1) none) fullSlice)
  let nU ← getitemV nums (.pair (sl none (some (-1))) fullSlice)
  let nD ← getitemV nums (.pair (sl (some 1) none) fullSlice)
  let both ← binop .and_ hU hD
  let ne ← binop .ne nU nD
  let t ← callM .then_ both [ne]
  let cV ← ensureV t
  -- ensure((has_number[:, :-1] & has_number[:, 1:]).then(nums[:, :-1] != nums[:, 1:]))
  let hL ← getitemV hasNumber (.pair fullSlice (sl none (some (-1))))
  let hR ← getitemV hasNumber (.pair fullSlice (sl (some 1) none))
  let nL ← getitemV nums (.pair fullSlice (sl none (some (-1))))
  let nR ← getitemV nums (.pair fullSlice (sl (some 1) none))
  let both ← binop .and_ hL hR
  let ne ← binop .ne nL nR
  let t ← callM .then_ both [ne]
  let cH ← ensureV t
  -- ensure((~has_number).then(nums == 0))
  let nh ← unop .invert hasNumber
  let z ← binop .eq nums (.scalar (.litI 0))
  let t ← callM .then_ nh [z]
  let cZ ← ensureV t
  let cl ← (cellsOf h w).mapM (clueCs pb nums hasNumber)
  .ok { decls := List.replicate n .bool ++ avc.decls ++ dNums ++ dUp ++ dDown ++ dLeft ++ dRight,
        cs := avc.cs ++ cUp ++ cDown ++ cLeft ++ cRight ++ cSum ++ cV ++ cH ++ cZ ++ cl.flatten,
        keys := keys }

def program (pb : Problem) : Py PuzzleProg := programWith false pb

end Cspuz.Puzzles.View
