/-
  Model of `cspuz/puzzle/nurimaze.py::solve_nurimaze(height, width, wall_vertical, wall_horizontal,
  mark, start, goal)`: the program posted before `solver.solve()`.  Import-free (core Lean + model
  files only).

  Problem format: `wall_vertical[y][x]` (falsy = no wall between `(y, x)` and `(y, x+1)`),
  `wall_horizontal[y][x]` (falsy = no wall between `(y, x)` and `(y+1, x)`), `mark[y][x]` (0 nothing,
  1 circle, 2 triangle, anything else: just unshaded), `start`, `goal`: tuples `(y, x)`.
-/
import CspuzModel.Model.Puzzles.CLUtil
namespace Cspuz.Puzzles.Nurimaze
open Cspuz Cspuz.Spec Cspuz.Puzzles

structure Problem where
  height : Nat
  width : Nat
  wallVertical : List (List Int)
  wallHorizontal : List (List Int)
  mark : List (List Int)
  start : Int × Int
  goal : Int × Int
  deriving Repr, Inhabited

def sl (a b : Option Int) : AxisKey := .slice a b none

/-- `A op B op C op D` (left-associated). -/
def chain (o : BinOp) (a b c d : PyV) : Py PyV := do
  let ab ← binop o a b
  let abc ← binop o ab c
  binop o abc d

/-- The two 2×2 constraints:
`ensure(w[:-1, :-1] | w[:-1, 1:] | w[1:, :-1] | w[1:, 1:])`, `ensure(~(w[:-1, :-1] & w[:-1, 1:] & w[1:, :-1] & w[1:, 1:]))`. -/
def blockCs (isWhite : PyV) : Py (List Expr) := do
  let a00 ← getitemV isWhite (.pair (sl none (some (-1))) (sl none (some (-1))))    -- [:-1, :-1]
  let a01 ← getitemV isWhite (.pair (sl none (some (-1))) (sl (some 1) none))       -- [:-1, 1:]
  let a10 ← getitemV isWhite (.pair (sl (some 1) none) (sl none (some (-1))))       -- [1:, :-1]
  let a11 ← getitemV isWhite (.pair (sl (some 1) none) (sl (some 1) none))          -- [1:, 1:]
  let o ← chain .or_ a00 a01 a10 a11
  let c1 ← ensureV o
  let a ← chain .and_ a00 a01 a10 a11      -- (the same four slices, evaluated again by Python)
  let na ← unop .invert a
  let c2 ← ensureV na
  .ok (c1 ++ c2)

/-- `if <inside> and not table[y][x]: ensure(is_white[y, x] == is_white[y2, x2])`. -/
def roomCs (isWhite : PyV) (inside : Bool) (table : List (List Int)) (y x y2 x2 : Int) : Py (List Expr) :=
  if inside then do
    let v ← tableGet table y x
    if v == 0 then do
      let a ← getitemV isWhite (.pair (.idx y) (.idx x))
      let b ← getitemV isWhite (.pair (.idx y2) (.idx x2))
      let e ← binop .eq a b
      ensureV e
    else .ok []
  else .ok []

/-- `count_true(path.four_neighbors(y, x)) == k`. -/
def degEq (path : PyV) (y x : Int) (k : Int) : Py PyV := do
  let nb ← fourNeighbors path (.two y x)
  let ct ← countTrueA [.leaf nb]
  binop .eq (.scalar ct) (.scalar (.litI k))

/-- `if (y, x) == start or (y, x) == goal: ensure(path[y, x]); ensure(count_true(path.four_neighbors(y, x)) == 1)`
`else: ensure(path[y, x].then(count_true(path.four_neighbors(y, x)) == 2))`. -/
def degCs (pb : Problem) (path : PyV) (y x : Int) : Py (List Expr) :=
  if (y, x) == pb.start || (y, x) == pb.goal then do
    let pc ← getitemV path (.pair (.idx y) (.idx x))
    let e1 ← ensureV pc
    let d ← degEq path y x 1
    let e2 ← ensureV d
    .ok (e1 ++ e2)
  else do
    let pc ← getitemV path (.pair (.idx y) (.idx x))
    let d ← degEq path y x 2
    let r ← callM .then_ pc [d]
    ensureV r

/-- `if m != 0: ensure(is_white[y, x])` for `m = mark[y][x]`. -/
def markWhiteCs (m : Int) (isWhite : PyV) (y x : Int) : Py (List Expr) :=
  if m != 0 then do
    let wc ← getitemV isWhite (.pair (.idx y) (.idx x))
    ensureV wc
  else .ok []

/-- `if m == 1: ensure(path[y, x])`; `elif m == 2: ensure(~path[y, x])` for `m = mark[y][x]`. -/
def markPathCs (m : Int) (path : PyV) (y x : Int) : Py (List Expr) :=
  if m == 1 then do
    let pc ← getitemV path (.pair (.idx y) (.idx x))
    ensureV pc
  else if m == 2 then do
    let pc ← getitemV path (.pair (.idx y) (.idx x))
    let np ← unop .invert pc
    ensureV np
  else .ok []

/-- Body of the double loop for the cell `(y, x)`. -/
def cellCs (pb : Problem) (isWhite path : PyV) (p : Nat × Nat) : Py (List Expr) := do
  let y : Int := p.1
  let x : Int := p.2
  let h : Int := pb.height
  let w : Int := pb.width
  let c1 ← roomCs isWhite (x < w - 1) pb.wallVertical y x y (x + 1)
  let c2 ← roomCs isWhite (y < h - 1) pb.wallHorizontal y x (y + 1) x
  let c3 ← degCs pb path y x
  let m ← tableGet pb.mark y x
  -- (Python re-reads `mark[y][x]` for every test: same value, same exception)
  let c4 ← markWhiteCs m isWhite y x
  let c5 ← markPathCs m path y x
  .ok (c1 ++ c2 ++ c3 ++ c4 ++ c5)

/-- The program posted by `solve_nurimaze`; `prim` = `config.use_graph_primitive` (irrelevant here:
`acyclic=True` always takes the rank encoding). -/
def programWith (prim : Bool) (pb : Problem) : Py PuzzleProg := do
  let h := pb.height
  let w := pb.width
  -- is_white = solver.bool_array((height, width))
  let isWhite : PyV := .arr2 true h w (bvars 0 (h * w))
  -- graph.active_vertices_connected(solver, is_white, acyclic=True)
  let avc ← activeVerticesConnected (Graph.grid h w) (bvars 0 (h * w)) (h * w) true prim
  -- solver.add_answer_key(is_white)
  let keys ← addKeysV isWhite []
  let bl ← blockCs isWhite
  -- path = solver.bool_array((height, width))
  let pbase := h * w + avc.decls.length
  let path : PyV := .arr2 true h w (bvars pbase (h * w))
  -- solver.ensure(path.then(is_white))
  let pw ← callM .then_ path [isWhite]
  let pwc ← ensureV pw
  let cl ← (cellsOf h w).mapM (cellCs pb isWhite path)
  .ok { decls := List.replicate (h * w) .bool ++ avc.decls ++ List.replicate (h * w) .bool,
        cs := avc.cs ++ bl ++ pwc ++ cl.flatten, keys := keys }

/-- The sandbox configuration: no native graph operators (z3 backend). -/
def program (pb : Problem) : Py PuzzleProg := programWith false pb

end Cspuz.Puzzles.Nurimaze
