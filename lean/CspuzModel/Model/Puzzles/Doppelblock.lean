/-
  Model of `cspuz/puzzle/doppelblock.py::solve_doppelblock(n, clue_row, clue_column)` up to the call of
  `solver.solve()`: the posted program.  Import-free (core Lean + model files only).

  Problem format: two lists of length `n`; a negative clue means "no clue".  Cell value 0 = black cell.
-/
import CspuzModel.Model.Puzzles.CLUtil
namespace Cspuz.Puzzles.Doppelblock
open Cspuz Cspuz.Spec Cspuz.Puzzles

structure Problem where
  n : Nat
  clueRow : List Int
  clueCol : List Int
  deriving Repr, Inhabited

def answer (pb : Problem) : PyV := .arr2 false pb.n pb.n (ivars 0 (pb.n * pb.n))

/-- `answer[key]` for a key that selects a 1-D array (the data of the `IntArray1D`). -/
def line (pb : Problem) (key : Key2) : Py (List Expr) := do
  match ← getitemV (answer pb) key with
  | .arr1 _ l => .ok l
  | _ => .error .typeError

def rowKey (i : Nat) : Key2 := .pair (.idx i) fullSlice
def colKey (i : Nat) : Key2 := .pair fullSlice (.idx i)

/-- `cells == v` for an `IntArray1D` and a Python int: a `BoolArray1D`. -/
def eqArr (cells : List Expr) (v : Int) : Py PyV := binop .eq (.arr1 false cells) (.scalar (.litI v))

/-- `solver.ensure(count_true(cells == v) == k)`. -/
def countCs (cells : List Expr) (v k : Int) : Py Expr := do
  let a ← eqArr cells v
  let ct ← countTrueA [.leaf a]
  let e ← cmpPy .eq ct (.litI k)
  ensure1 e

/-- `occurrence_constraint(cells)`. -/
def occurrence (n : Nat) (cells : List Expr) : Py (List Expr) := do
  let c0 ← countCs cells 0 2
  let cs ← (List.range' 1 (n - 2)).mapM fun (i : Nat) => countCs cells i 1
  .ok (c0 :: cs)

/-- `(fold_or(cells[:i] == 0) & fold_or(cells[i + 1:] == 0)).cond(cells[i], 0)`; the 1-D slices are Python
list slices of `cells.data` (`0 ≤ i < len`: `take` / `drop`). -/
def seqTerm (cells : List Expr) (i : Nat) : Py Expr := do
  let before ← eqArr (cells.take i) 0
  let fo1 ← foldOrA [.leaf before]
  let after ← eqArr (cells.drop (i + 1)) 0
  let fo2 ← foldOrA [.leaf after]
  let a ← andPy fo1 fo2
  let ci ← getE cells i
  condE a ci (.litI 0)

/-- `sequence_constraint(cells, v)`: `s = 0; for i in range(n): s += …; return s == v`. -/
def seqConstraint (n : Nat) (cells : List Expr) (v : Int) : Py PyV := do
  let s ← (List.range n).foldlM (fun (s : PyV) (i : Nat) => do
    let t ← seqTerm cells i
    binop .add s (.scalar t)) (.scalar (.litI 0))
  binop .eq s (.scalar (.litI v))

/-- `if clue[i] >= 0: solver.ensure(sequence_constraint(cells, clue[i]))`. -/
def clueCs (n : Nat) (clue : List Int) (i : Nat) (cells : List Expr) : Py (List Expr) := do
  let c ← pyIndex clue i
  if c ≥ 0 then do
    let e ← seqConstraint n cells c
    ensureV e
  else .ok []

/-- The program posted by `solve_doppelblock`. -/
def program (pb : Problem) : Py PuzzleProg := do
  let n := pb.n
  let decls ← intArrayDecls (n * n) 0 ((n : Int) - 2)
  let keys ← addKeysV (answer pb) []
  let cs ← (List.range n).mapM fun (i : Nat) => do
    let row ← line pb (rowKey i)
    let o1 ← occurrence n row
    let col ← line pb (colKey i)
    let o2 ← occurrence n col
    let c1 ← clueCs n pb.clueRow i row
    let c2 ← clueCs n pb.clueCol i col
    .ok (o1 ++ o2 ++ c1 ++ c2)
  .ok { decls := decls, cs := cs.flatten, keys := keys }

end Cspuz.Puzzles.Doppelblock
