/-
  Model of `cspuz/puzzle/aquarium.py::solve_aquarium` up to the call of `solver.solve()`: the posted program.
  Import-free (core Lean + model files only).

  REPAIR (DESIGN §6 D17): the source builds its `block_id` table with `width` rows
  (`[[-1 for _ in range(width)] for _ in range(width)]`) and therefore raises `IndexError` for every board with
  `height > width`.  `programWith rows` has the number of table rows as a parameter: `program` (= the repaired
  code, `rows = height`) is what the theorems are about; `programAsIs` (`rows = width`) is the unrepaired code.
-/
import CspuzModel.Model.Puzzles.CLUtil
namespace Cspuz.Puzzles.Aquarium
open Cspuz Cspuz.Spec Cspuz.Puzzles

structure Problem where
  height : Nat
  width : Nat
  /-- the tanks: lists of `(y, x)` cells -/
  blocks : List (List (Int × Int))
  clueRow : List Int
  clueCol : List Int
  deriving Repr, Inhabited

def isWater (pb : Problem) : PyV := .arr2 true pb.height pb.width (bvars 0 (pb.height * pb.width))

/-- `if clue[k] >= 0: solver.ensure(count_true(is_water[key]) == clue[k])`. -/
def clueCs (pb : Problem) (clue : List Int) (k : Nat) (key : Key2) : Py (List Expr) := do
  let c ← pyIndex clue k
  if c ≥ 0 then do
    let line ← getitemV (isWater pb) key
    let ct ← countTrueA [.leaf line]
    let e ← cmpPy .eq ct (.litI c)
    let e ← ensure1 e
    .ok [e]
  else .ok []

/-- `for i, block in enumerate(blocks): for y, x in block: block_id[y][x] = i`. -/
def fillTable (blocks : List (List (Int × Int))) (t : List (List Int)) : Py (List (List Int)) :=
  ((List.range blocks.length).zip blocks).foldlM (fun t (ib : Nat × List (Int × Int)) =>
    ib.2.foldlM (fun t (c : Int × Int) => tableSet t c.1 c.2 (ib.1 : Int)) t) t

/-- `is_water[y, x]`. -/
def waterAt (pb : Problem) (y x : Nat) : Py Expr :=
  getCell (bvars 0 (pb.height * pb.width)) pb.height pb.width y x

/-- `if x < width - 1 and block_id[y][x] == block_id[y][x + 1]: solver.ensure(is_water[y, x] == is_water[y, x + 1])`. -/
def rightCs (pb : Problem) (bid : List (List Int)) (y x : Nat) : Py (List Expr) :=
  if (x : Int) < (pb.width : Int) - 1 then do
    let a ← tableGet bid y x
    let b ← tableGet bid y ((x : Int) + 1)
    if a == b then do
      let l ← waterAt pb y x
      let r ← waterAt pb y (x + 1)
      let e ← iffPy l r
      let e ← ensure1 e
      .ok [e]
    else .ok []
  else .ok []

/-- `if y < height - 1 and block_id[y][x] == block_id[y + 1][x]: solver.ensure(is_water[y, x].then(is_water[y + 1, x]))`. -/
def belowCs (pb : Problem) (bid : List (List Int)) (y x : Nat) : Py (List Expr) :=
  if (y : Int) < (pb.height : Int) - 1 then do
    let a ← tableGet bid y x
    let b ← tableGet bid ((y : Int) + 1) x
    if a == b then do
      let u ← waterAt pb y x
      let d ← waterAt pb (y + 1) x
      let e ← ensure1 (thenRaw u d)
      .ok [e]
    else .ok []
  else .ok []

/-- Body of the final double loop for the cell `(y, x)`. -/
def cellCs (pb : Problem) (bid : List (List Int)) (p : Nat × Nat) : Py (List Expr) := do
  let c1 ← rightCs pb bid p.1 p.2
  let c2 ← belowCs pb bid p.1 p.2
  .ok (c1 ++ c2)

/-- The program posted by `solve_aquarium`, with the number of rows of the `block_id` table as a parameter. -/
def programWith (rows : Nat) (pb : Problem) : Py PuzzleProg := do
  let h := pb.height
  let w := pb.width
  let keys ← addKeysV (isWater pb) []
  let csR ← (List.range h).mapM fun y => clueCs pb pb.clueRow y (.pair (.idx y) fullSlice)
  let csC ← (List.range w).mapM fun x => clueCs pb pb.clueCol x (.pair fullSlice (.idx x))
  let bid ← fillTable pb.blocks (List.replicate rows (List.replicate w (-1)))
  let cs ← (cellsOf h w).mapM (cellCs pb bid)
  .ok { decls := List.replicate (h * w) .bool, cs := csR.flatten ++ csC.flatten ++ cs.flatten, keys := keys }

/-- The repaired `solve_aquarium` (table of `height` rows). -/
def program (pb : Problem) : Py PuzzleProg := programWith pb.height pb

/-- The source as it is (table of `width` rows): `IndexError` whenever a tank has a cell in a row `≥ width`. -/
def programAsIs (pb : Problem) : Py PuzzleProg := programWith pb.width pb

end Cspuz.Puzzles.Aquarium
