/-
  Model of `cspuz/puzzle/nanro.py::solve_nanro(height, width, blocks, num)`: the program posted before
  `solver.solve()`.  Import-free (core Lean + model files only).

  Problem format: `blocks` = list of regions, each a list of cells `(y, x)`; `num[y][x] > 0` is a given
  number, anything else means "no given".

  Allocation order (ids are consecutive): `has_num` (`h * w` Booleans, row-major), then one `IntVar` per
  cell (row-major; `answer[y][x]` has id `h * w + y * w + x`, domain `0 .. len(region of the cell)`), then
  the auxiliary variables of `graph.active_vertices_connected`, then one `IntVar` `nonempty` per region
  (domain `1 .. len(region)`).

  The `block_id` table loop is literally the one of `solve_aquarium` (`Aquarium.fillTable`): a cell
  listed by no region keeps the entry `-1`, so that `blocks[-1]` (the LAST region) is used silently.
-/
import CspuzModel.Model.Puzzles.Aquarium
namespace Cspuz.Puzzles.Nanro
open Cspuz Cspuz.Spec Cspuz.Puzzles

structure Problem where
  height : Nat
  width : Nat
  /-- the regions: lists of `(y, x)` cells -/
  blocks : List (List (Int × Int))
  num : List (List Int)
  deriving Repr, Inhabited

/-- The `IntVar` of the cell `(y, x)`. -/
def ansVar (pb : Problem) (y x : Nat) : Expr := .ivar (pb.height * pb.width + (y * pb.width + x))

/-- The Python list of lists `answer`. -/
def answer (pb : Problem) : List (List Expr) :=
  (List.range pb.height).map fun y => (List.range pb.width).map fun x => ansVar pb y x

/-- `answer[y][x]` (Python list indexing: negative indices wrap). -/
def ansAt (pb : Problem) (y x : Int) : Py Expr := do
  let row ← pyIndex (answer pb) y
  pyIndex row x

/-- `has_num[y, x]`. -/
def hasNumAt (pb : Problem) (y x : Nat) : Py Expr :=
  getCell (bvars 0 (pb.height * pb.width)) pb.height pb.width y x

/-- Body of the first double loop for the cell `(y, x)`:
`v = solver.int_var(0, len(blocks[block_id[y][x]])); solver.add_answer_key(v);
 solver.ensure(has_num[y, x] == (v != 0))` — the declaration of `v` and the constraint. -/
def firstCell (pb : Problem) (bid : List (List Int)) (p : Nat × Nat) : Py (VarDecl × Expr) := do
  let b ← tableGet bid p.1 p.2
  let blk ← pyIndex pb.blocks b
  let ne ← cmpPy .ne (ansVar pb p.1 p.2) (.litI 0)
  let hn ← hasNumAt pb p.1 p.2
  let e ← iffPy hn ne
  let e ← ensure1 e
  .ok (.int 0 blk.length, e)

/-- `a | b` on two `BoolExpr`s. -/
def orE (a b : Expr) : Py Expr := binB .or a b

/-- Body of the loop over the regions: `nonempty` is the `IntVar` with id `base + i`. -/
def blockCs (pb : Problem) (base : Nat) (bi : List (Int × Int) × Nat) : Py (List Expr) := do
  let nonempty : Expr := .ivar (base + bi.2)
  -- count_true(answer[y][x] != 0 for y, x in block)
  let ts ← bi.1.mapM fun (c : Int × Int) => do
    let a ← ansAt pb c.1 c.2
    cmpPy .ne a (.litI 0)
  let ct ← countTrue ts
  let e ← cmpPy .eq nonempty ct
  let e ← ensure1 e
  let per ← bi.1.mapM fun (c : Int × Int) => do
    let a ← ansAt pb c.1 c.2
    let e0 ← cmpPy .eq a (.litI 0)
    let a' ← ansAt pb c.1 c.2
    let e1 ← cmpPy .eq a' nonempty
    let o ← orE e0 e1
    ensure1 o
  .ok (e :: per)

/-- `(answer[y][x] == 0)`. -/
def isZero (pb : Problem) (y x : Int) : Py Expr := do
  let a ← ansAt pb y x
  cmpPy .eq a (.litI 0)

/-- `(a == 0) | (b == 0) | (a != b)` for two neighbouring cells of different regions. -/
def differCs (pb : Problem) (y x y' x' : Int) : Py (List Expr) := do
  let z1 ← isZero pb y x
  let z2 ← isZero pb y' x'
  let o1 ← orE z1 z2
  let a ← ansAt pb y x
  let b ← ansAt pb y' x'
  let ne ← cmpPy .ne a b
  let o2 ← orE o1 ne
  let e ← ensure1 o2
  .ok [e]

/-- `if num[y][x] > 0: solver.ensure(answer[y][x] == num[y][x])`. -/
def givenCs (pb : Problem) (y x : Nat) : Py (List Expr) := do
  let n ← tableGet pb.num y x
  if n > 0 then do
    let a ← ansAt pb y x
    let e ← cmpPy .eq a (.litI n)
    let e ← ensure1 e
    .ok [e]
  else .ok []

/-- `if y < height - 1 and x < width - 1: solver.ensure((a[y][x] == 0) | (a[y][x+1] == 0) | (a[y+1][x] == 0) | (a[y+1][x+1] == 0))`. -/
def squareCs (pb : Problem) (y x : Nat) : Py (List Expr) :=
  if (y : Int) < (pb.height : Int) - 1 ∧ (x : Int) < (pb.width : Int) - 1 then do
    let z1 ← isZero pb y x
    let z2 ← isZero pb y ((x : Int) + 1)
    let o1 ← orE z1 z2
    let z3 ← isZero pb ((y : Int) + 1) x
    let o2 ← orE o1 z3
    let z4 ← isZero pb ((y : Int) + 1) ((x : Int) + 1)
    let o3 ← orE o2 z4
    let e ← ensure1 o3
    .ok [e]
  else .ok []

/-- `if y < height - 1 and block_id[y][x] != block_id[y + 1][x]: …`. -/
def downCs (pb : Problem) (bid : List (List Int)) (y x : Nat) : Py (List Expr) :=
  if (y : Int) < (pb.height : Int) - 1 then do
    let r ← tableGet bid y x
    let r' ← tableGet bid ((y : Int) + 1) x
    if r != r' then differCs pb y x ((y : Int) + 1) x else .ok []
  else .ok []

/-- `if x < width - 1 and block_id[y][x] != block_id[y][x + 1]: …`. -/
def rightCs (pb : Problem) (bid : List (List Int)) (y x : Nat) : Py (List Expr) :=
  if (x : Int) < (pb.width : Int) - 1 then do
    let r ← tableGet bid y x
    let r' ← tableGet bid y ((x : Int) + 1)
    if r != r' then differCs pb y x y ((x : Int) + 1) else .ok []
  else .ok []

/-- Body of the final double loop for the cell `(y, x)`. -/
def cellCs (pb : Problem) (bid : List (List Int)) (p : Nat × Nat) : Py (List Expr) := do
  let c1 ← givenCs pb p.1 p.2
  let c2 ← squareCs pb p.1 p.2
  let c3 ← downCs pb bid p.1 p.2
  let c4 ← rightCs pb bid p.1 p.2
  .ok (c1 ++ c2 ++ c3 ++ c4)

/-- The program posted by `solve_nanro`; `prim` = `config.use_graph_primitive`. -/
def programWith (prim : Bool) (pb : Problem) : Py PuzzleProg := do
  let h := pb.height
  let w := pb.width
  let bid ← Aquarium.fillTable pb.blocks (List.replicate h (List.replicate w (-1)))
  let first ← (cellsOf h w).mapM (firstCell pb bid)
  -- graph.active_vertices_connected(solver, has_num)
  let avc ← activeVerticesConnected (Graph.grid h w) (bvars 0 (h * w)) (h * w + h * w) false prim
  let base2 := h * w + h * w + avc.decls.length
  let bl ← pb.blocks.zipIdx.mapM (blockCs pb base2)
  let cl ← (cellsOf h w).mapM (cellCs pb bid)
  .ok { decls := List.replicate (h * w) .bool ++ first.map (·.1) ++ avc.decls
                  ++ pb.blocks.map (fun b => VarDecl.int 1 b.length),
        cs := first.map (·.2) ++ avc.cs ++ bl.flatten ++ cl.flatten,
        keys := (cellsOf h w).map fun p => h * w + (p.1 * w + p.2) }

def program (pb : Problem) : Py PuzzleProg := programWith false pb

end Cspuz.Puzzles.Nanro
