/-
  Model of `cspuz/puzzle/putteria.py::solve_putteria(height, width, blocks)`: the program posted
  before `solver.solve()`.  Import-free.
-/
import CspuzModel.Model.Puzzles.CLUtil
namespace Cspuz.Puzzles.Putteria
open Cspuz Cspuz.Spec Cspuz.Puzzles

/-- `solve_putteria(height, width, blocks)`: `blocks` is the list of rooms, each a list of cells `(y, x)`. -/
structure Problem where
  height : Nat
  width : Nat
  blocks : List (List (Int × Int))
  deriving Repr, Inhabited

/-- `ensure((~has_number[ky1, kx1]) | (~has_number[ky2, kx2]))`. -/
def notBoth (hn : PyV) (ky1 kx1 ky2 kx2 : AxisKey) : Py (List Expr) := do
  let a ← getitemV hn (.pair ky1 kx1)
  let na ← unop .invert a
  let b ← getitemV hn (.pair ky2 kx2)
  let nb ← unop .invert b
  let r ← binop .or_ na nb
  ensureV r

/-- `ensure(~(has_number[y1, x1] & has_number[y2, x2]))`. -/
def notPair (hn : PyV) (y1 x1 y2 x2 : Nat) : Py (List Expr) := do
  let a ← getitemV hn (.pair (.idx y1) (.idx x1))
  let b ← getitemV hn (.pair (.idx y2) (.idx x2))
  let ab ← binop .and_ a b
  let nab ← unop .invert ab
  ensureV nab

/-- `for block in blocks: for y, x in block: block_size[y][x] = len(block)`. -/
def blockSizes (h w : Nat) (blocks : List (List (Int × Int))) : Py (List (List Int)) :=
  blocks.foldlM (fun (t : List (List Int)) (block : List (Int × Int)) =>
    block.foldlM (fun (t : List (List Int)) (yx : Int × Int) => tableSet t yx.1 yx.2 block.length) t)
    (List.replicate h (List.replicate w 0))

/-- `(a, b)` pairs of `for a in range(n): for b in range(a + 1, n)`. -/
def pairsOf (n : Nat) : List (Nat × Nat) :=
  (List.range n).flatMap fun a => (List.range (n - (a + 1))).map fun d => (a, a + 1 + d)

def program (pb : Problem) : Py PuzzleProg := do
  let h := pb.height
  let w := pb.width
  -- has_number = solver.bool_array((height, width)); solver.add_answer_key(has_number)
  let decls : List VarDecl := List.replicate (h * w) .bool
  let hn : PyV := .arr2 true h w (bvars 0 (h * w))
  let keys ← addKeysV hn []
  let upto : AxisKey := .slice none (some (-1)) none     -- `:-1`
  let from1 : AxisKey := .slice (some 1) none none       -- `1:`
  let a1 ← notBoth hn fullSlice upto fullSlice from1
  let a2 ← notBoth hn upto fullSlice from1 fullSlice
  -- for block in blocks: ensure(count_true(has_number[block]) == 1)
  let rooms ← pb.blocks.mapM fun (block : List (Int × Int)) => do
    let sel ← getitemV hn (.coords block)
    let ct ← countTrueA [.leaf sel]
    let c ← binop .eq (.scalar ct) (.scalar (.litI 1))
    ensureV c
  let bs ← blockSizes h w pb.blocks
  -- same size in a row
  let rows ← (List.range h).mapM fun (y : Nat) =>
    (pairsOf w).mapM fun (xx : Nat × Nat) => do
      let s1 ← tableGet bs y xx.1
      let s2 ← tableGet bs y xx.2
      if s1 = s2 then notPair hn y xx.1 y xx.2 else .ok []
  -- same size in a column
  let cols ← (List.range w).mapM fun (x : Nat) =>
    (pairsOf h).mapM fun (yy : Nat × Nat) => do
      let s1 ← tableGet bs yy.1 x
      let s2 ← tableGet bs yy.2 x
      if s1 = s2 then notPair hn yy.1 x yy.2 x else .ok []
  .ok { decls := decls,
        cs := a1 ++ a2 ++ rooms.flatten ++ (rows.map List.flatten).flatten ++ (cols.map List.flatten).flatten,
        keys := keys }

end Cspuz.Puzzles.Putteria
