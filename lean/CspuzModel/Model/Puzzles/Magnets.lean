/-
  Model of `cspuz/puzzle/magnets.py::solve_magnets(height, width, to_right, to_down, cond_row, cond_col)`:
  the program posted before `solver.solve()`.  Import-free (core Lean + model files only).

  Problem format: `to_right[y][x]` true = cells `(y, x)` and `(y, x+1)` form a plate, `to_down[y][x]` true =
  cells `(y, x)` and `(y+1, x)` form a plate; `cond_row[y] = [n_plus, n_minus]`, `cond_col[x] = [n_plus, n_minus]`,
  a negative entry means "no clue" (the code only tests `>= 0`).
-/
import CspuzModel.Model.Puzzles.CLUtil
namespace Cspuz.Puzzles.Magnets
open Cspuz Cspuz.Spec Cspuz.Puzzles

structure Problem where
  height : Nat
  width : Nat
  toRight : List (List Bool)
  toDown : List (List Bool)
  condRow : List (List Int)
  condCol : List (List Int)
  deriving Repr, Inhabited

/-- `table[y][x]` on a Python list of lists of truth values. -/
def flagGet (t : List (List Bool)) (y x : Int) : Py Bool := do
  let row ← pyIndex t y
  pyIndex row x

/-- `ensure((plus[y, x] == minus[y2, x2]) & (minus[y, x] == plus[y2, x2]))` (operands evaluated left to right). -/
def plateCs (plus minus : PyV) (y x y2 x2 : Int) : Py (List Expr) := do
  let a ← getitemV plus (.pair (.idx y) (.idx x))
  let b ← getitemV minus (.pair (.idx y2) (.idx x2))
  let e1 ← binop .eq a b
  let c ← getitemV minus (.pair (.idx y) (.idx x))
  let d ← getitemV plus (.pair (.idx y2) (.idx x2))
  let e2 ← binop .eq c d
  let e ← binop .and_ e1 e2
  ensureV e

/-- Body of the double loop for the cell `(y, x)`:
`if to_right[y][x]: ensure(…(y, x+1)…)`; `if to_down[y][x]: ensure(…(y+1, x)…)`. -/
def cellCs (pb : Problem) (plus minus : PyV) (p : Nat × Nat) : Py (List Expr) := do
  let r ← flagGet pb.toRight p.1 p.2
  let c1 ← (if r then plateCs plus minus p.1 p.2 p.1 ((p.2 : Int) + 1) else .ok [])
  let d ← flagGet pb.toDown p.1 p.2
  let c2 ← (if d then plateCs plus minus p.1 p.2 ((p.1 : Int) + 1) p.2 else .ok [])
  .ok (c1 ++ c2)

/-- `ensure(~(arr[ky1, kx1] & arr[ky2, kx2]))`. -/
def noPair (arr : PyV) (ky1 kx1 ky2 kx2 : AxisKey) : Py (List Expr) := do
  let a ← getitemV arr (.pair ky1 kx1)
  let b ← getitemV arr (.pair ky2 kx2)
  let ab ← binop .and_ a b
  let nab ← unop .invert ab
  ensureV nab

/-- `if cond[i][k] >= 0: ensure(count_true(arr[key]) == cond[i][k])`. -/
def clueCs (cond : List (List Int)) (i : Int) (k : Int) (arr : PyV) (key : Key2) : Py (List Expr) := do
  let v ← tableGet cond i k
  if v ≥ 0 then do
    let line ← getitemV arr key
    let ct ← countTrueA [.leaf line]
    let v' ← tableGet cond i k
    let c ← binop .eq (.scalar ct) (.scalar (.litI v'))
    ensureV c
  else .ok []

def program (pb : Problem) : Py PuzzleProg := do
  let h := pb.height
  let w := pb.width
  -- plus = solver.bool_array((height, width)); minus = solver.bool_array((height, width))
  let decls : List VarDecl := List.replicate (h * w) .bool ++ List.replicate (h * w) .bool
  let plus : PyV := .arr2 true h w (bvars 0 (h * w))
  let minus : PyV := .arr2 true h w (bvars (h * w) (h * w))
  -- solver.add_answer_key(plus); solver.add_answer_key(minus)
  let keys ← addKeysV plus []
  let keys ← addKeysV minus keys
  -- solver.ensure(~(plus & minus))
  let pm ← binop .and_ plus minus
  let npm ← unop .invert pm
  let c0 ← ensureV npm
  -- the plates
  let plates ← (cellsOf h w).mapM (cellCs pb plus minus)
  -- equal poles are not adjacent
  let upto : AxisKey := .slice none (some (-1)) none     -- `:-1`
  let from1 : AxisKey := .slice (some 1) none none       -- `1:`
  let a1 ← noPair plus upto fullSlice from1 fullSlice
  let a2 ← noPair minus upto fullSlice from1 fullSlice
  let a3 ← noPair plus fullSlice upto fullSlice from1
  let a4 ← noPair minus fullSlice upto fullSlice from1
  -- row clues
  let rows ← (List.range h).mapM fun (y : Nat) => do
    let e1 ← clueCs pb.condRow y 0 plus (.pair (.idx y) fullSlice)
    let e2 ← clueCs pb.condRow y 1 minus (.pair (.idx y) fullSlice)
    .ok (e1 ++ e2)
  -- column clues
  let cols ← (List.range w).mapM fun (x : Nat) => do
    let e1 ← clueCs pb.condCol x 0 plus (.pair fullSlice (.idx x))
    let e2 ← clueCs pb.condCol x 1 minus (.pair fullSlice (.idx x))
    .ok (e1 ++ e2)
  .ok { decls := decls,
        cs := c0 ++ plates.flatten ++ a1 ++ a2 ++ a3 ++ a4 ++ rows.flatten ++ cols.flatten,
        keys := keys }

end Cspuz.Puzzles.Magnets
