/-
  Helpers shared by the models of the "counting / locality" puzzle solvers (sudoku, star_battle,
  putteria, norinori): thin Python-level glue between `Solver`, `Array2D.__getitem__`, the operator
  dispatch of Model/ArrayOps.lean and builtin `sum`.  Import-free (core Lean + model files only).
-/
import CspuzModel.Model.ArrayOps
import CspuzModel.Spec.C11Spec
namespace Cspuz.Puzzles
open Cspuz Cspuz.Spec

/-- The object an index expression on a Boolean (`isBool`) / integer 2-D array returns:
an element, a `…Array1D` or a `…Array2D` of the same kind. -/
def idxToPyV (isBool : Bool) : IdxResult Expr → PyV
  | .scalar e => .scalar e
  | .arr1 l => .arr1 isBool l
  | .arr2 h w l => .arr2 isBool h w l

/-- `A[key]` on a `BoolArray2D` / `IntArray2D` (`__getitem__` is `_getitem_impl` + re-wrapping). -/
def getitemV (self : PyV) (key : Key2) : Py PyV :=
  match self with
  | .arr2 k h w d => (getitem2D d h w key).map (idxToPyV k)
  | _ => .error .typeError

/-- `:` -/
def fullSlice : AxisKey := .slice none none none

/-- `solver.ensure(v)` for one argument: the items of the flattened argument, each checked with
`isinstance(x, (BoolExpr, bool))`; returns the constraints appended (an exception aborts `solve_…`). -/
def ensureV (v : PyV) : Py (List Expr) := v.flat.mapM ensure1

/-- `solver.add_answer_key(v)` given the ids that are keys already: every item must be a `BoolVar` /
`IntVar` (else `TypeError`) that is not yet a key (else `ValueError`). -/
def addKeysV (v : PyV) (already : List Nat) : Py (List Nat) :=
  v.flat.foldlM (fun (acc : List Nat) (x : Expr) =>
    match isVarExpr x with
    | none => .error .typeError
    | some id => if acc.contains id then .error .valueError else .ok (acc ++ [id])) already

/-- A method call whose result is used as a value (`NotImplemented` cannot be used further; the
methods called this way raise `TypeError` themselves instead of returning it). -/
def callM (m : Meth) (self : PyV) (args : List PyV) : Py PyV :=
  match callMethod m self args with
  | .ok (some v) => .ok v
  | .ok none => .error .typeError
  | .error e => .error e

/-- builtin `sum(iterable)`: `0 + x₀ + x₁ + …` through the `+` dispatch. -/
def pySum (v : PyV) : Py PyV :=
  v.flat.foldlM (fun (acc : PyV) (x : Expr) => binop .add acc (.scalar x)) (.scalar (.litI 0))

/-- `table[y][x]` on a Python list of lists of ints. -/
def tableGet (t : List (List Int)) (y x : Int) : Py Int := do
  let row ← pyIndex t y
  pyIndex row x

/-- `l[k] = v` on a Python list. -/
def pySet {α} (l : List α) (k : Int) (v : α) : Py (List α) :=
  let n : Int := l.length
  let p := if k < 0 then k + n else k
  if 0 ≤ p ∧ p < n then .ok (l.set p.toNat v) else .error .indexError

/-- `table[y][x] = v`. -/
def tableSet (t : List (List Int)) (y x : Int) (v : Int) : Py (List (List Int)) := do
  let row ← pyIndex t y
  let row' ← pySet row x v
  pySet t y row'

/-- `(y, x)` pairs of `for y in range(h): for x in range(w)`. -/
def cellsOf (h w : Nat) : List (Nat × Nat) :=
  (List.range h).flatMap fun y => (List.range w).map fun x => (y, x)

end Cspuz.Puzzles
