/-
  Model of `cspuz/puzzle/fillomino.py::solve_fillomino(height, width, problem, checkered=False)`: the program
  posted before `solver.solve()`.  Import-free (core Lean + model files only).

  Problem format: `problem[y][x] >= 1` number, anything else empty.
-/
import CspuzModel.Model.Puzzles.CLUtil
namespace Cspuz.Puzzles.Fillomino
open Cspuz Cspuz.Spec Cspuz.Puzzles

structure Problem where
  height : Nat
  width : Nat
  problem : List (List Int)
  checkered : Bool := false
  deriving Repr, Inhabited

def sl (a b : Option Int) : AxisKey := .slice a b none

def arrOf (isBool : Bool) (a : Arr2) : PyV := .arr2 isBool a.h a.w a.data

/-- `solver.ensure(border_part == (arr[ka] != arr[kb]))`. -/
def borderDef (borderPart arr : PyV) (ka kb : Key2) : Py (List Expr) := do
  let a ← getitemV arr ka
  let b ← getitemV arr kb
  let ne ← binop .ne a b
  let e ← binop .eq borderPart ne
  ensureV e

/-- `border.vertical == (arr[:, :-1] != arr[:, 1:])` then `border.horizontal == (arr[:-1, :] != arr[1:, :])`. -/
def bordersOf (border : InnerFrame) (arr : PyV) : Py (List Expr) := do
  let c1 ← borderDef (arrOf true border.vertical) arr (.pair fullSlice (sl none (some (-1)))) (.pair fullSlice (sl (some 1) none))
  let c2 ← borderDef (arrOf true border.horizontal) arr (.pair (sl none (some (-1))) fullSlice) (.pair (sl (some 1) none) fullSlice)
  .ok (c1 ++ c2)

/-- Body of the clue loop. -/
def cellCs (pb : Problem) (size : PyV) (p : Nat × Nat) : Py (List Expr) := do
  let v ← tableGet pb.problem p.1 p.2
  if v ≥ 1 then do
    let c ← getitemV size (.pair (.idx p.1) (.idx p.2))
    let e ← binop .eq c (.scalar (.litI v))
    ensureV e
  else .ok []

/-- The program posted by `solve_fillomino`; `prim` = `config.use_graph_division_primitive`. -/
def programWith (prim : Bool) (pb : Problem) : Py PuzzleProg := do
  let h := pb.height
  let w := pb.width
  let n := h * w
  let d0 ← intArrayDecls n 1 (n : Int)
  let size : PyV := .arr2 false h w (ivars 0 n)
  let keys ← addKeysV size []
  let border := InnerFrame.fresh n h w
  let nb := (h - 1) * w + h * (w - 1)
  let (edges, g) ← fromGridFrame border.dual
  let vg ← variableGroupsWithBorders g ((ivars 0 n).map some) edges prim (n + nb)
  let c1 ← bordersOf border size
  let c2 ← (cellsOf h w).mapM (cellCs pb size)
  let base2 := n + nb + vg.decls.length
  let (d3, c3) ← if pb.checkered then do
        let color : PyV := .arr2 true h w (bvars base2 n)
        let c ← bordersOf border color
        pure (List.replicate n VarDecl.bool, c)
      else pure ([], [])
  .ok { decls := d0 ++ List.replicate nb .bool ++ vg.decls ++ d3,
        cs := vg.cs ++ c1 ++ c2.flatten ++ c3, keys := keys }

def program (pb : Problem) : Py PuzzleProg := programWith false pb

end Cspuz.Puzzles.Fillomino
