/-
  Model of `cspuz/puzzle/gokigen.py::solve_gokigen(height, width, problem)`: the program posted before
  `solver.solve()`.  Import-free (core Lean + model files only).

  Problem format: `problem[y][x]` for `0 ≤ y ≤ height`, `0 ≤ x ≤ width` (lattice points); a negative
  entry means "no clue" (the code only tests `>= 0`).  `edge_type[y, x]` true = `\`, false = `/`.
-/
import CspuzModel.Model.Puzzles.CLUtil
namespace Cspuz.Puzzles.Gokigen
open Cspuz Cspuz.Spec Cspuz.Puzzles

structure Problem where
  height : Nat
  width : Nat
  problem : List (List Int)
  deriving Repr, Inhabited

/-- The graph built by the double loop: lattice points `y * (width + 1) + x`; per cell first the
`\` edge, then the `/` edge. -/
def diagGraph (h w : Nat) : Graph :=
  { n := (h + 1) * (w + 1),
    edges := (cellsOf h w).flatMap fun (yx : Nat × Nat) =>
      [(yx.1 * (w + 1) + yx.2, (yx.1 + 1) * (w + 1) + (yx.2 + 1)),
       (yx.1 * (w + 1) + (yx.2 + 1), (yx.1 + 1) * (w + 1) + yx.2)] }

/-- `edge_list`: per cell `edge_type[y, x]`, then `~edge_type[y, x]`. -/
def edgeList (edgeType : PyV) (h w : Nat) : Py (List Expr) := do
  let l ← (cellsOf h w).mapM fun (yx : Nat × Nat) => do
    let e ← getitemV edgeType (.pair (.idx yx.1) (.idx yx.2))
    let ne ← unop .invert e
    .ok (e.flat ++ ne.flat)
  .ok l.flatten

/-- One guarded `related.append(…)`; `neg` = the entry is `~edge_type[cy, cx]`. -/
def relatedIf (edgeType : PyV) (guard : Bool) (cy cx : Int) (neg : Bool) : Py (List ANest) :=
  if guard then do
    let e ← getitemV edgeType (.pair (.idx cy) (.idx cx))
    let e ← if neg then unop .invert e else .ok e
    .ok [.leaf e]
  else .ok []

/-- Body of the clue loop for the lattice point `(y, x)`. -/
def clueCs (pb : Problem) (edgeType : PyV) (p : Nat × Nat) : Py (List Expr) := do
  let y : Int := p.1
  let x : Int := p.2
  let h : Int := pb.height
  let w : Int := pb.width
  let v ← tableGet pb.problem y x
  if v ≥ 0 then do
    let r1 ← relatedIf edgeType (decide (0 < y ∧ 0 < x)) (y - 1) (x - 1) false
    let r2 ← relatedIf edgeType (decide (0 < y ∧ x < w)) (y - 1) x true
    let r3 ← relatedIf edgeType (decide (y < h ∧ 0 < x)) y (x - 1) true
    let r4 ← relatedIf edgeType (decide (y < h ∧ x < w)) y x false
    let ct ← countTrueA [.items (r1 ++ r2 ++ r3 ++ r4)]
    let c ← binop .eq (.scalar ct) (.scalar (.litI v))
    ensureV c
  else .ok []

/-- The program posted by `solve_gokigen`. -/
def program (pb : Problem) : Py PuzzleProg := do
  let h := pb.height
  let w := pb.width
  -- edge_type = solver.bool_array((height, width)); solver.add_answer_key(edge_type)
  let edgeType : PyV := .arr2 true h w (bvars 0 (h * w))
  let keys ← addKeysV edgeType []
  let el ← edgeList edgeType h w
  -- graph.active_edges_acyclic(solver, edge_list, g)
  let ac ← activeEdgesAcyclic (diagGraph h w) el (h * w)
  let cl ← (cellsOf (h + 1) (w + 1)).mapM (clueCs pb edgeType)
  .ok { decls := List.replicate (h * w) .bool ++ ac.decls, cs := ac.cs ++ cl.flatten, keys := keys }

end Cspuz.Puzzles.Gokigen
