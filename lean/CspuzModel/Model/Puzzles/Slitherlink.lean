/-
  Model of `cspuz/puzzle/slitherlink.py::solve_slitherlink` up to the call of `solver.solve()`: the posted
  program.  Import-free (core Lean + model files only).

  Problem format: `problem[y][x] >= 0` is a number clue, a negative entry means "no clue".
-/
import CspuzModel.Model.Puzzles.LoopUtil
namespace Cspuz.Puzzles.Slitherlink
open Cspuz Cspuz.Spec Cspuz.Puzzles Cspuz.Puzzles.Loop

structure Problem where
  height : Nat
  width : Nat
  problem : List (List Int)
  deriving Repr, Inhabited

/-- Body of the double loop for the cell `(y, x)`:
`if problem[y][x] >= 0: solver.ensure(count_true(grid_frame.cell_neighbors(y, x)) == problem[y][x])`. -/
def cellCs (pb : Problem) (f : Frame) (p : Nat × Nat) : Py (List Expr) := do
  let v ← tableGet pb.problem p.1 p.2
  if v ≥ 0 then do
    let nb ← f.cellNeighbors p.1 p.2
    let ct ← countTrue nb
    let c ← cmpPy .eq ct (.litI v)
    let c ← ensure1 c
    .ok [c]
  else .ok []

/-- The program posted by `solve_slitherlink(height, width, problem)`. -/
def program (pb : Problem) (prim : Bool := false) : Py PuzzleProg := do
  let f := Frame.fresh 0 pb.height pb.width
  let keys ← frameKeys f []
  let s ← setup pb.height pb.width prim
  let cs ← (cellsOf pb.height pb.width).mapM (cellCs pb s.frame)
  .ok { decls := s.decls, cs := s.cs ++ cs.flatten, keys := keys }

end Cspuz.Puzzles.Slitherlink
