/-
  Model of `cspuz/puzzle/geradeweg.py::solve_geradeweg` up to the call of `solver.solve()`: the posted
  program.  Import-free (core Lean + model files only).

  Problem format: `problem[y][x] >= 1` is a number, anything else an empty cell.
-/
import CspuzModel.Model.Puzzles.LoopUtil
namespace Cspuz.Puzzles.Geradeweg
open Cspuz Cspuz.Spec Cspuz.Puzzles Cspuz.Puzzles.Loop

structure Problem where
  height : Nat
  width : Nat
  problem : List (List Int)
  deriving Repr, Inhabited

/-- The inner function `line_length(edges)`: the Python int 0 for an empty list, otherwise
`e₀.cond(1 + e₁.cond(1 + … eₙ.cond(1, 0) …, 0), 0)` (built from the last edge backwards). -/
def lineLength : List Expr → Py Expr
  | [] => .ok (.litI 0)
  | [e] => condE e (.litI 1) (.litI 0)
  | e :: r => do
    let ret ← lineLength r
    let t ← addPy (.litI 1) ret
    condE e t (.litI 0)

/-- `arr[ky, kx]` where the result is an `Array1D` (an int and a slice), as a Python list. -/
def sliceList (a : Arr2) (ky kx : AxisKey) : Py (List Expr) := do
  match ← getitem2D a.data a.h a.w (.pair ky kx) with
  | .arr1 l => .ok l
  | .arr2 _ _ l => .ok l
  | .scalar _ => .error .typeError

/-- `([arr[i, j]] if cond else [])` -/
def optItem (cond : Bool) (g : Py Expr) : Py (List Expr) := if cond then g.map ([·]) else .ok []

/-- One of the two `solver.ensure(fold_or(ends).then(line_length(back) + line_length(forth) == n))`. -/
def armCs (ends back forth : List Expr) (n : Int) : Py Expr := do
  let fo ← foldOr ends
  let a ← lineLength back
  let b ← lineLength forth
  let s ← addPy a b
  let eq ← cmpPy .eq s (.litI n)
  let c ← binB .imp fo eq
  ensure1 c

/-- Body of the double loop for the cell `(y, x)`. -/
def cellCs (pb : Problem) (f : Frame) (isPassed : Arr2) (p : Nat × Nat) : Py (List Expr) := do
  let y : Int := p.1
  let x : Int := p.2
  let v ← tableGet pb.problem y x
  if v ≥ 1 then do
    let c0 ← ensure1 (← isPassed.get y x)
    let e1 ← optItem (decide (x > 0)) (f.horizontal.get y (x - 1))
    let e2 ← optItem (decide (x < (pb.width : Int) - 1)) (f.horizontal.get y x)
    let back ← sliceList f.horizontal (.idx y) (.slice none (some x) none)
    let forth ← sliceList f.horizontal (.idx y) (.slice (some x) none none)
    let c1 ← armCs (e1 ++ e2) back.reverse forth v
    let e3 ← optItem (decide (y > 0)) (f.vertical.get (y - 1) x)
    let e4 ← optItem (decide (y < (pb.height : Int) - 1)) (f.vertical.get y x)
    let up ← sliceList f.vertical (.slice none (some y) none) (.idx x)
    let down ← sliceList f.vertical (.slice (some y) none none) (.idx x)
    let c2 ← armCs (e3 ++ e4) up.reverse down v
    .ok [c0, c1, c2]
  else .ok []

/-- The program posted by `solve_geradeweg(height, width, problem)`. -/
def program (pb : Problem) (prim : Bool := false) : Py PuzzleProg := do
  if pb.height = 0 ∨ pb.width = 0 then .error .valueError else
  let f := Frame.fresh 0 (pb.height - 1) (pb.width - 1)
  let keys ← frameKeys f []
  let s ← setup (pb.height - 1) (pb.width - 1) prim
  let cs ← (cellsOf pb.height pb.width).mapM (cellCs pb s.frame s.isPassed)
  .ok { decls := s.decls, cs := s.cs ++ cs.flatten, keys := keys }

end Cspuz.Puzzles.Geradeweg
