/-
  Model of `cspuz/puzzle/yajilin.py::solve_yajilin` up to the call of `solver.solve()`: the posted program.
  Import-free (core Lean + model files only).

  Problem format: `problem[y][x]` is the string ".." (empty cell), "??" (clue cell without information) or an
  arrow `^`, `v`, `<`, `>` followed by a decimal number.
-/
import CspuzModel.Model.Puzzles.LoopUtil
namespace Cspuz.Puzzles.Yajilin
open Cspuz Cspuz.Spec Cspuz.Puzzles Cspuz.Puzzles.Loop

inductive Dir
  | up | down | left | right
  deriving DecidableEq, Repr, Inhabited

/-- One entry of the problem table. -/
inductive Clue
  | empty                      -- ".."
  | unknown                    -- "??"
  | arrow (d : Dir) (n : Int)  -- "^3" …; `n = int(problem[y][x][1:])`
  deriving DecidableEq, Repr, Inhabited

structure Problem where
  height : Nat
  width : Nat
  problem : List (List Clue)
  deriving Repr, Inhabited

/-- `problem[y][x]` (Python list-of-lists indexing). -/
def clueAt (pb : Problem) (y x : Nat) : Py Clue := do
  let row ← pyIndex pb.problem y
  pyIndex row x

/-- `arr[ky, kx]` where the result is an `Array1D`, as a Python list. -/
def sliceList (data : List Expr) (h w : Nat) (ky kx : AxisKey) : Py (List Expr) := do
  match ← getitem2D data h w (.pair ky kx) with
  | .arr1 l => .ok l
  | .arr2 _ _ l => .ok l
  | .scalar _ => .error .typeError

/-- The slice of `black_cell` an arrow at `(y, x)` looks at. -/
def ray (pb : Problem) (black : List Expr) (d : Dir) (y x : Nat) : Py (List Expr) :=
  let h := pb.height
  let w := pb.width
  match d with
  | .up => sliceList black h w (.slice (some 0) (some y) none) (.idx x)
  | .down => sliceList black h w (.slice (some ((y : Int) + 1)) (some h) none) (.idx x)
  | .left => sliceList black h w (.idx y) (.slice (some 0) (some x) none)
  | .right => sliceList black h w (.idx y) (.slice (some ((x : Int) + 1)) (some w) none)

/-- Body of the double loop for the cell `(y, x)`. -/
def cellCs (pb : Problem) (isPassed : Arr2) (black : Arr2) (p : Nat × Nat) : Py (List Expr) := do
  let y := p.1
  let x := p.2
  let c ← clueAt pb y x
  let ip ← isPassed.get y x
  let bc ← black.get y x
  match c with
  | .empty => do
    let e ← ensure1 (← xorE ip bc)
    .ok [e]
  | .unknown => do
    let c0 ← ensure1 (← notE ip)
    let c1 ← ensure1 (← notE bc)
    .ok [c0, c1]
  | .arrow d n => do
    let c0 ← ensure1 (← notE ip)
    let c1 ← ensure1 (← notE bc)
    let cells ← ray pb black.data d y x
    let ct ← countTrue cells
    let c2 ← ensure1 (← cmpPy .eq ct (.litI n))
    .ok [c0, c1, c2]

/-- The program posted by `solve_yajilin(height, width, problem)`. -/
def program (pb : Problem) (prim : Bool := false) : Py PuzzleProg := do
  if pb.height = 0 ∨ pb.width = 0 then .error .valueError else
  let h := pb.height
  let w := pb.width
  let s ← setup (h - 1) (w - 1) prim
  let black : Arr2 := ⟨h, w, bvars s.nvars (h * w)⟩
  let na ← notAdjacentGrid h w black.data
  let keys ← frameKeys s.frame []
  let keys ← addKeysV (.arr2 true h w black.data) keys
  let cs ← (cellsOf h w).mapM (cellCs pb s.isPassed black)
  .ok { decls := s.decls ++ List.replicate (h * w) .bool, cs := s.cs ++ na.cs ++ cs.flatten, keys := keys }

end Cspuz.Puzzles.Yajilin
