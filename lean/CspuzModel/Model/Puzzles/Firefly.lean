/-
  Model of `cspuz/puzzle/firefly.py::solve_firefly(height, width, problem)` up to the call of `solver.solve()`:
  the posted program.  Import-free (core Lean + model files only).

  Problem format: `problem[y][x]` is a string.  First character "." : empty cell.  Otherwise the first character
  is the side of the firefly's dot (`^ v < >`; any other character makes the module raise `ValueError` when the
  main loop reaches the cell) and the rest is "?…" (no number) or the text of the number of turns
  (`int(problem[y][x][1:])`, `ValueError` if that is not an integer literal).

  The STRING PARSING is done by the harness (`harness/puzzles/firefly.py::_clue_sx`); the model receives the
  parsed table: `Clue.empty` (first character "."), `Clue.short` (a string shorter than 2 characters whose first
  character is not ".": `problem[y][x][0]` resp. `problem[y][x][1]` raises `IndexError` in the first loop),
  `Clue.fly d n` with `d = none` for a character outside `^v<>` and `n` = `unknown` ("?" as second character) /
  `num k` / `bad` (`int()` raises).
-/
import CspuzModel.Model.Puzzles.LoopUtil
namespace Cspuz.Puzzles.Firefly
open Cspuz Cspuz.Spec Cspuz.Puzzles Cspuz.Puzzles.Loop

inductive Dir
  | up | down | left | right
  deriving DecidableEq, Repr, Inhabited

/-- `out_idx` (order of `adj`: up, down, left, right). -/
def Dir.idx : Dir → Nat
  | .up => 0 | .down => 1 | .left => 2 | .right => 3

inductive Num
  | unknown
  | num (n : Int)
  | bad
  deriving DecidableEq, Repr, Inhabited

inductive Clue
  | empty
  | short
  | fly (d : Option Dir) (n : Num)
  deriving DecidableEq, Repr, Inhabited

structure Problem where
  height : Nat
  width : Nat
  problem : List (List Clue)
  deriving Repr, Inhabited

/-- `problem[y][x]`. -/
def clueAt (pb : Problem) (y x : Nat) : Py Clue := do
  let row ← pyIndex pb.problem y
  pyIndex row x

/-- One step of the first double loop (`max_n_turn = max(max_n_turn, int(problem[y][x][1:]))`). -/
def maxStep (pb : Problem) (m : Int) (p : Nat × Nat) : Py Int := do
  match ← clueAt pb p.1 p.2 with
  | .empty => .ok m
  | .short => .error .indexError
  | .fly _ .unknown => .ok m
  | .fly _ (.num n) => .ok (if m < n then n else m)
  | .fly _ .bad => .error .valueError

/-- `max_n_turn`. -/
def maxNTurn (pb : Problem) : Py Int := (cellsOf pb.height pb.width).foldlM (maxStep pb) 0

/-- An entry of `adj`: `(line_in, line_out, # turn)`. -/
structure Adj where
  inE : Expr
  outE : Expr
  nt : Expr
  deriving Repr, Inhabited

/-- The variables of the module, in allocation order. -/
structure Vars where
  hasLine : Frame
  ul : Frame
  dr : Frame
  ignored : Frame
  rank : Arr2
  ntH : Arr2
  ntV : Arr2
  deriving Repr, Inhabited

/-- Number of edges of the lattice of cell centres (= variables of one `BoolGridFrame(solver, h-1, w-1)`). -/
def nEdges (h w : Nat) : Nat := Frame.numVars (h - 1) (w - 1)

def mkVars (h w : Nat) : Vars :=
  let N := nEdges h w
  { hasLine := Frame.fresh 0 (h - 1) (w - 1),
    ul := Frame.fresh N (h - 1) (w - 1),
    dr := Frame.fresh (2 * N) (h - 1) (w - 1),
    ignored := Frame.fresh (3 * N) (h - 1) (w - 1),
    rank := ⟨h, w, ivars (4 * N) (h * w)⟩,
    ntH := ⟨h, w - 1, ivars (4 * N + h * w) (h * (w - 1))⟩,
    ntV := ⟨h - 1, w, ivars (4 * N + h * w + h * (w - 1)) ((h - 1) * w)⟩ }

/-- `adj` of the cell `(y, x)`: up, down, left, right (`None` at the board edge). -/
def adjOf (h w : Nat) (v : Vars) (y x : Nat) : Py (List (Option Adj)) := do
  let yi : Int := y
  let xi : Int := x
  let u ← if y > 0 then do
      let a ← v.dr.vertical.get (yi - 1) xi
      let b ← v.ul.vertical.get (yi - 1) xi
      let c ← v.ntV.get (yi - 1) xi
      pure (some (Adj.mk a b c))
    else pure none
  let d ← if y + 1 < h then do
      let a ← v.ul.vertical.get yi xi
      let b ← v.dr.vertical.get yi xi
      let c ← v.ntV.get yi xi
      pure (some (Adj.mk a b c))
    else pure none
  let l ← if x > 0 then do
      let a ← v.dr.horizontal.get yi (xi - 1)
      let b ← v.ul.horizontal.get yi (xi - 1)
      let c ← v.ntH.get yi (xi - 1)
      pure (some (Adj.mk a b c))
    else pure none
  let r ← if x + 1 < w then do
      let a ← v.ul.horizontal.get yi xi
      let b ← v.dr.horizontal.get yi xi
      let c ← v.ntH.get yi xi
      pure (some (Adj.mk a b c))
    else pure none
  .ok [u, d, l, r]

/-- `x.then(y)` for a scalar `BoolExpr` `x` and a scalar `y`. -/
def thenE (x y : Expr) : Py Expr := binB .imp x y

/-- Constraints a firefly posts for a side `i ≠ out_idx` that exists. -/
def flySide (unk : Int) (a : Adj) : Py (List Expr) := do
  let c0 ← ensure1 (← notE a.outE)
  let z ← cmpPy .eq a.nt (.litI 0)
  let u ← cmpPy .eq a.nt (.litI unk)
  let c1 ← ensure1 (← thenE a.inE (← orPy z u))
  .ok [c0, c1]

/-- Body of `for i in range(4): if adj[i] is not None and i != out_idx: …` for the entry `(adj[i], i)`. -/
def flyRestStep (outIdx : Nat) (unk : Int) (ai : Option Adj × Nat) : Py (List Expr) :=
  match ai.1 with
  | some b => if ai.2 != outIdx then flySide unk b else .ok []
  | none => .ok []

/-- The branch `problem[y][x][0] != "."` once `out_idx` is known; the Boolean says whether the `break` was taken. -/
def flyCs (adj : List (Option Adj)) (outIdx : Nat) (target unk : Int) : Py (List Expr × Bool) :=
  match adj[outIdx]? with
  | none => .error .indexError            -- unreachable: `adj` has four entries
  | some none => do
    let c ← ensure1 (.litB false)
    .ok ([c], true)
  | some (some a) => do
    let c0 ← ensure1 a.outE
    let c1 ← ensure1 (← cmpPy .eq a.nt (.litI target))
    let rest ← adj.zipIdx.mapM (flyRestStep outIdx unk)
    .ok (c0 :: c1 :: rest.flatten, false)

/-- The constraint of the pair `(i, j)` of sides of an empty cell. -/
def pairC (unk : Int) (i j : Nat) (a b : Adj) : Py Expr := do
  let g ← andPy a.inE b.outE
  if i / 2 == j / 2 then do
    ensure1 (← thenE g (← cmpPy .eq a.nt b.nt))
  else do
    let p ← cmpPy .eq a.nt (.litI unk)
    let q ← cmpPy .eq b.nt (.litI unk)
    let pq ← andPy p q
    let s ← addPy b.nt (.litI 1)
    let e ← cmpPy .eq a.nt s
    ensure1 (← thenE g (← orPy pq e))

/-- Body of `for i in range(4): for j in range(4): if adj[i] is not None and adj[j] is not None and i != j: …`
for the entries `(adj[i], i)`, `(adj[j], j)`. -/
def pairStep (unk : Int) (ai bj : Option Adj × Nat) : Py (List Expr) :=
  match ai.1, bj.1 with
  | some a, some b => if ai.2 != bj.2 then (pairC unk ai.2 bj.2 a b).map ([·]) else .ok []
  | _, _ => .ok []

/-- The `else` branch (empty cell). -/
def emptyCs (adj : List (Option Adj)) (unk : Int) : Py (List Expr) := do
  let present := adj.filterMap id
  let cin ← countTrue (present.map Adj.inE)
  let c0 ← ensure1 (← cmpPy .le cin (.litI 1))
  let cin' ← countTrue (present.map Adj.inE)
  let cout ← countTrue (present.map Adj.outE)
  let c1 ← ensure1 (← cmpPy .eq cin' cout)
  let pairs ← adj.zipIdx.mapM fun (ai : Option Adj × Nat) => adj.zipIdx.mapM (pairStep unk ai)
  .ok (c0 :: c1 :: (pairs.map List.flatten).flatten)

/-- Body of the main double loop for the cell `(y, x)`; the Boolean says whether the `break` was taken. -/
def cellCs (pb : Problem) (v : Vars) (maxN : Int) (y x : Nat) : Py (List Expr × Bool) := do
  let adj ← adjOf pb.height pb.width v y x
  let unk := maxN + 1
  match ← clueAt pb y x with
  | .empty => do
    let cs ← emptyCs adj unk
    .ok (cs, false)
  | .short => .error .indexError          -- unreachable: the first loop raised already
  | .fly none _ => .error .valueError
  | .fly (some d) n =>
    match n with
    | .unknown => flyCs adj d.idx unk unk
    | .num k => flyCs adj d.idx k unk
    | .bad => .error .valueError           -- unreachable: the first loop raised already

/-- `for x in range(width): …` with the `break`. -/
def rowCs (f : Nat → Py (List Expr × Bool)) : List Nat → Py (List Expr)
  | [] => .ok []
  | x :: xs => do
    let (cs, brk) ← f x
    if brk then .ok cs
    else do
      let r ← rowCs f xs
      .ok (cs ++ r)

def arrB (a : Arr2) : PyV := .arr2 true a.h a.w a.data
def arrI (a : Arr2) : PyV := .arr2 false a.h a.w a.data

/-- `BoolArray1D(list(frame))`. -/
def frame1D (f : Frame) : PyV := .arr1 true f.allEdges

def sl (a b : Option Int) : AxisKey := .slice a b none

/-- `solver.ensure((line.X & ~ignored_edge.X).then(lhs <o> rhs))`. -/
def rankCs (o : BinOp) (line ign : Arr2) (rank : Arr2) (k1 k2 : Key2) : Py (List Expr) := do
  let g ← binop .and_ (arrB line) (← unop .invert (arrB ign))
  let a ← getitemV (arrI rank) k1
  let b ← getitemV (arrI rank) k2
  let c ← binop o a b
  ensureV (← callM .then_ g [c])

/-- `solver.ensure(BoolArray1D(list(has_line)) == (BoolArray1D(list(line_ul)) | BoolArray1D(list(line_dr))))`
and `solver.ensure(~(BoolArray1D(list(line_ul)) & BoolArray1D(list(line_dr))))`. -/
def orientCs (hl ul dr : Frame) : Py (List Expr) := do
  let c1 ← ensureV (← binop .eq (frame1D hl) (← binop .or_ (frame1D ul) (frame1D dr)))
  let c2 ← ensureV (← unop .invert (← binop .and_ (frame1D ul) (frame1D dr)))
  .ok (c1 ++ c2)

/-- `solver.ensure(count_true(ignored_edge) == 1)`. -/
def ignoredCs (ig : Frame) : Py (List Expr) := do
  let ct ← countTrueA [.leaf (frame1D ig)]
  ensureV (← binop .eq (.scalar ct) (.scalar (.litI 1)))

/-- The program posted by `solve_firefly(height, width, problem)`. -/
def program (pb : Problem) : Py PuzzleProg := do
  -- `bool_array` with a negative size / `int_array(…, 0, -1)`: ValueError on every board with a zero dimension
  if pb.height = 0 ∨ pb.width = 0 then .error .valueError else
  let h := pb.height
  let w := pb.width
  let N := nEdges h w
  let v := mkVars h w
  let keys ← frameKeys v.hasLine []
  let c12 ← orientCs v.hasLine v.ul v.dr
  let c3 ← ignoredCs v.ignored
  let rankDecls ← intArrayDecls (h * w) 0 ((h : Int) * w - 1)
  let colL : Key2 := .pair fullSlice (sl none (some (-1)))
  let colR : Key2 := .pair fullSlice (sl (some 1) none)
  let rowU : Key2 := .pair (sl none (some (-1))) fullSlice
  let rowD : Key2 := .pair (sl (some 1) none) fullSlice
  let c4 ← rankCs .lt v.ul.horizontal v.ignored.horizontal v.rank colL colR
  let c5 ← rankCs .lt v.ul.vertical v.ignored.vertical v.rank rowU rowD
  let c6 ← rankCs .gt v.dr.horizontal v.ignored.horizontal v.rank colL colR
  let c7 ← rankCs .gt v.dr.vertical v.ignored.vertical v.rank rowU rowD
  let maxN ← maxNTurn pb
  let dH ← intArrayDecls (h * (w - 1)) 0 (maxN + 1)
  let dV ← intArrayDecls ((h - 1) * w) 0 (maxN + 1)
  let rows ← (List.range h).mapM fun y => rowCs (cellCs pb v maxN y) (List.range w)
  .ok { decls := List.replicate (4 * N) .bool ++ rankDecls ++ dH ++ dV,
        cs := c12 ++ c3 ++ c4 ++ c5 ++ c6 ++ c7 ++ rows.flatten,
        keys := keys }

end Cspuz.Puzzles.Firefly
