/-
  Model of `cspuz/puzzle/simpleloop.py::solve_simpleloop` up to the call of `solver.solve()`: the posted
  program.  Import-free (core Lean + model files only).

  Problem format: `blocked[y][x] == 0` white cell, anything else blocked; `pivot = (py, px)` a pair of ints.
  `BoolGridFrame(solver, height - 1, width - 1)` raises `ValueError` when `height` or `width` is 0 (a negative
  array size).
-/
import CspuzModel.Model.Puzzles.LoopUtil
namespace Cspuz.Puzzles.Simpleloop
open Cspuz Cspuz.Spec Cspuz.Puzzles Cspuz.Puzzles.Loop

structure Problem where
  height : Nat
  width : Nat
  blocked : List (List Int)
  pivot : Int × Int
  deriving Repr, Inhabited

/-- `(y, x) != pivot` (tuple comparison). -/
def notPivot (pb : Problem) (p : Nat × Nat) : Bool := !(((p.1 : Int), (p.2 : Int)) == pb.pivot)

/-- First double loop: `if (y, x) != pivot: solver.ensure(is_passed[y, x] == (blocked[y][x] == 0))`. -/
def cellCs (pb : Problem) (isPassed : Arr2) (p : Nat × Nat) : Py (List Expr) :=
  if notPivot pb p then do
    let ip ← isPassed.get p.1 p.2
    let b ← tableGet pb.blocked p.1 p.2
    let c ← iffPy ip (.litB (b == 0))
    let c ← ensure1 c
    .ok [c]
  else .ok []

/-- Second double loop: `n_pass` = number of cells other than the pivot with `blocked[y][x] == 0`. -/
def nPass (pb : Problem) : Py Nat := do
  let l ← (cellsOf pb.height pb.width).mapM fun p =>
    if notPivot pb p then do
      let b ← tableGet pb.blocked p.1 p.2
      .ok (if b == 0 then 1 else 0)
    else .ok 0
  .ok l.sum

/-- The program posted by `solve_simpleloop(height, width, blocked, pivot)`. -/
def program (pb : Problem) (prim : Bool := false) : Py PuzzleProg := do
  if pb.height = 0 ∨ pb.width = 0 then .error .valueError else
  let f := Frame.fresh 0 (pb.height - 1) (pb.width - 1)
  let keys ← frameKeys f []
  let s ← setup (pb.height - 1) (pb.width - 1) prim
  let cs ← (cellsOf pb.height pb.width).mapM (cellCs pb s.isPassed)
  let n ← nPass pb
  let ip ← s.isPassed.get pb.pivot.1 pb.pivot.2
  let c ← iffPy ip (.litB (n % 2 == 1))
  let c ← ensure1 c
  .ok { decls := s.decls, cs := s.cs ++ cs.flatten ++ [c], keys := keys }

end Cspuz.Puzzles.Simpleloop
