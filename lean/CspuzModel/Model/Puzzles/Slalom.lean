/-
  Model of `cspuz/puzzle/slalom.py::solve_slalom(height, width, origin, is_black, gates)` on its default path
  (`reference_sol_loop=None`) up to the call of `solver.solve()`: the posted program.
  Import-free (core Lean + model files only).

  Problem format: `origin = (y, x)`; `is_black[y][x]` a bool; `gates` a list of `(y, x, d, l, n)`: top / left cell,
  `d = 0` horizontal run `(y, x + i)`, `d = 1` vertical run `(y + i, x)`, `0 ≤ i < l`; `n = -1` unnumbered, else the number.
  Only `d ∈ {0, 1}` is modelled (any other value leaves `gate_cells` unassigned in the source: `UnboundLocalError`
  for the first gate, the previous gate's cells afterwards).  With `reference_sol_loop` the module adds one more
  constraint and calls `find_answer`; that path (used by the module's own generator only) is not modelled.
-/
import CspuzModel.Model.Puzzles.LoopUtil
namespace Cspuz.Puzzles.Slalom
open Cspuz Cspuz.Spec Cspuz.Puzzles Cspuz.Puzzles.Loop

/-- `d` of a gate: `0` horizontal, `1` vertical. -/
inductive GDir
  | hor | ver
  deriving DecidableEq, Repr, Inhabited

structure Gate where
  y : Int
  x : Int
  d : GDir
  l : Int
  n : Int
  deriving DecidableEq, Repr, Inhabited

structure Problem where
  height : Nat
  width : Nat
  origin : Int × Int
  isBlack : List (List Bool)
  gates : List Gate
  deriving Repr, Inhabited

/-- `table[y][x]` on a Python list of lists. -/
def tget {α} (t : List (List α)) (y x : Int) : Py α := do
  let row ← pyIndex t y
  pyIndex row x

/-- `table[y][x] = v` on a Python list of lists (rows are distinct objects). -/
def tset {α} (t : List (List α)) (y x : Int) (v : α) : Py (List (List α)) := do
  let row ← pyIndex t y
  let row' ← pySet row x v
  pySet t y row'

/-- `gate_cells`: `[(y, x + i) for i in range(l)]` / `[(y + i, x) for i in range(l)]`. -/
def gateCells (g : Gate) : List (Int × Int) :=
  (List.range g.l.toNat).map fun (i : Nat) =>
    match g.d with
    | .hor => (g.y, g.x + (i : Int))
    | .ver => (g.y + (i : Int), g.x)

abbrev GateIds := List (List (Option Int))

/-- Body of `for y, x, d, l, n in gates`: the updates of `gate_id`, then `ensure(count_true([...]) == 1)`. -/
def gateStep (passed : Arr2) (st : GateIds × List Expr) (g : Gate) : Py (GateIds × List Expr) := do
  let cells := gateCells g
  let gid ← cells.foldlM (fun (t : GateIds) (c : Int × Int) => tset t c.1 c.2 (some g.n)) st.1
  let ps ← cells.mapM fun (c : Int × Int) => passed.get c.1 c.2
  let ct ← countTrue ps
  let e ← ensure1 (← cmpPy .eq ct (.litI 1))
  .ok (gid, st.2 ++ [e])

/-- `neighbors` of the cell `(y, x)`: up, down, left, right (those on the board). -/
def neighbors (h w y x : Nat) : List (Int × Int) :=
  (if y > 0 then [((y : Int) - 1, (x : Int))] else [])
  ++ (if (y : Int) < (h : Int) - 1 then [((y : Int) + 1, (x : Int))] else [])
  ++ (if x > 0 then [((y : Int), (x : Int) - 1)] else [])
  ++ (if (x : Int) < (w : Int) - 1 then [((y : Int), (x : Int) + 1)] else [])

/-- Python tuple comparison `(y2, x2) < (y, x)`. -/
def lexLt (a b : Int × Int) : Bool := decide (a.1 < b.1) || (decide (a.1 = b.1) && decide (a.2 < b.2))

/-- `loop[y + y2, x + x2] & (loop_dir[y + y2, x + x2] != ((y2, x2) < (y, x)))` (`incoming = true`: the segment is
directed from the neighbour `(y2, x2)` into `(y, x)`) resp. `… == …` (`incoming = false`). -/
def dirTerm (loop loopDir : Frame) (y x : Int) (incoming : Bool) (nb : Int × Int) : Py Expr := do
  let e ← loop.getitem (y + nb.1) (x + nb.2)
  let d ← loopDir.getitem (y + nb.1) (x + nb.2)
  let c : Expr := .litB (lexLt nb (y, x))
  let t ← if incoming then xorE d c else iffPy d c
  andPy e t

/-- Body of the double loop over the cells. -/
def cellCs (pb : Problem) (loop loopDir : Frame) (gateOrd passed : Arr2) (gid : GateIds) (p : Nat × Nat) :
    Py (List Expr) := do
  let y : Int := p.1
  let x : Int := p.2
  let nbs := neighbors pb.height pb.width p.1 p.2
  let ins ← nbs.mapM (dirTerm loop loopDir y x true)
  let ci ← countTrue ins
  let ps ← passed.get y x
  let c0 ← ensure1 (← cmpPy .eq ci (← condE ps (.litI 1) (.litI 0)))
  let outs ← nbs.mapM (dirTerm loop loopDir y x false)
  let co ← countTrue outs
  let c1 ← ensure1 (← cmpPy .eq co (← condE ps (.litI 1) (.litI 0)))
  if ← tget pb.isBlack y x then do
    let c ← ensure1 (← notE ps)
    .ok [c0, c1, c]
  else if (y, x) = pb.origin then .ok [c0, c1]
  else do
    match ← tget gid y x with
    | none => do
      let cs ← nbs.mapM fun (nb : Int × Int) => do
        let t ← dirTerm loop loopDir y x true nb
        let eq ← cmpPy .eq (← gateOrd.get nb.1 nb.2) (← gateOrd.get y x)
        ensure1 (← binB .imp t eq)
      .ok ([c0, c1] ++ cs)
    | some n => do
      let cs ← nbs.mapM fun (nb : Int × Int) => do
        let t ← dirTerm loop loopDir y x true nb
        let eq ← cmpPy .eq (← gateOrd.get nb.1 nb.2) (← binI .sub (← gateOrd.get y x) (.litI 1))
        ensure1 (← binB .imp t eq)
      if n ≥ 1 then do
        let c ← ensure1 (← binB .imp ps (← cmpPy .eq (← gateOrd.get y x) (.litI n)))
        .ok ([c0, c1] ++ cs ++ [c])
      else .ok ([c0, c1] ++ cs)

/-- The "auxiliary constraint": passed gate cells have pairwise different `gate_ord`. -/
def auxCs (h w : Nat) (gateOrd passed : Arr2) (gid : GateIds) : Py (List Expr) := do
  let cells := cellsOf h w
  let r ← (cells.flatMap fun c0 => cells.map fun c1 => (c0, c1)).mapM fun (pr : (Nat × Nat) × (Nat × Nat)) => do
    let y0 : Int := pr.1.1
    let x0 : Int := pr.1.2
    let y1 : Int := pr.2.1
    let x1 : Int := pr.2.2
    if lexLt (y0, x0) (y1, x1) then
      if (← tget gid y0 x0).isSome then
        if (← tget gid y1 x1).isSome then do
          let both ← andPy (← passed.get y0 x0) (← passed.get y1 x1)
          let ne ← cmpPy .ne (← gateOrd.get y0 x0) (← gateOrd.get y1 x1)
          let e ← ensure1 (← binB .imp both ne)
          .ok [e]
        else .ok []
      else .ok []
    else .ok []
  .ok r.flatten

/-- The program posted by `solve_slalom(height, width, origin, is_black, gates)`;
`prim` = `config.use_graph_primitive`.  `height = 0` or `width = 0`: `BoolGridFrame(solver, -1, …)` builds an array
whose data does not fit its (negative) shape, or `int_array(0, 0, -1)` inside the cycle constraint: `ValueError`. -/
def program (pb : Problem) (prim : Bool := false) : Py PuzzleProg := do
  if pb.height = 0 ∨ pb.width = 0 then .error .valueError else
  let h := pb.height
  let w := pb.width
  let nv := Frame.numVars (h - 1) (w - 1)
  let loop := Frame.fresh 0 (h - 1) (w - 1)
  let loopDir := Frame.fresh nv (h - 1) (w - 1)
  let keys ← frameKeys loop []
  let (es, g) ← fromGridFrame loop
  let (sc, _) ← singleCycle g es prim (2 * nv)
  let b1 := 2 * nv + sc.decls.length
  let odecl ← intArrayDecls (h * w) 0 (pb.gates.length : Int)
  let gateOrd : Arr2 := ⟨h, w, ivars b1 (h * w)⟩
  let passed : Arr2 := ⟨h, w, bvars (b1 + h * w) (h * w)⟩
  let (gid, gcs) ← pb.gates.foldlM (gateStep passed) (List.replicate h (List.replicate w none), [])
  let oc ← ensure1 (← passed.get pb.origin.1 pb.origin.2)
  let ccs ← (cellsOf h w).mapM (cellCs pb loop loopDir gateOrd passed gid)
  let aux ← auxCs h w gateOrd passed gid
  .ok { decls := List.replicate (2 * nv) .bool ++ sc.decls ++ odecl ++ List.replicate (h * w) .bool,
        cs := sc.cs ++ gcs ++ [oc] ++ ccs.flatten ++ aux, keys := keys }

end Cspuz.Puzzles.Slalom
