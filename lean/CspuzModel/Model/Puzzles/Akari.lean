/-
  Model of `cspuz/puzzle/akari.py::solve_akari` up to the call of `solver.solve()`: the posted program.
  Import-free (core Lean + model files only).

  Problem format: `problem[y][x]` is -2 for a white cell, -1 for a black cell without a number, 0..4 for
  a numbered black cell (the code only tests `>= -1`, `< -1`, `>= 0`).
-/
import CspuzModel.Model.Puzzles.CLUtil
namespace Cspuz.Puzzles.Akari
open Cspuz Cspuz.Spec Cspuz.Puzzles

structure Problem where
  height : Nat
  width : Nat
  problem : List (List Int)
  deriving Repr, Inhabited

/-- `problem[y][x]` (Python list-of-lists indexing: `IndexError` on a ragged / short table). -/
def cell (pb : Problem) (y x : Nat) : Py Int := tableGet pb.problem y x

/-- The `for …: if problem[…] < -1: group.append(…) else: break` loops over a list of candidate cells. -/
def takeWhite (pb : Problem) : List (Nat × Nat) → Py (List (Nat × Nat))
  | [] => .ok []
  | p :: r => do
    let v ← cell pb p.1 p.2
    if v < -1 then do
      let t ← takeWhite pb r
      .ok (p :: t)
    else .ok []

/-- `has_light[p]` for a coordinate pair. -/
def lightAt (pb : Problem) (p : Nat × Nat) : Py Expr :=
  getCell (bvars 0 (pb.height * pb.width)) pb.height pb.width p.1 p.2

/-- `range(y, height)` / `range(x, width)` from a cell on, as cells. -/
def downFrom (pb : Problem) (y x : Nat) : List (Nat × Nat) := (List.range' y (pb.height - y)).map fun y2 => (y2, x)
def rightFrom (pb : Problem) (y x : Nat) : List (Nat × Nat) := (List.range' x (pb.width - x)).map fun x2 => (y, x2)
/-- `range(y - 1, -1, -1)` / `range(y + 1, height)` / `range(x - 1, -1, -1)` / `range(x + 1, width)`. -/
def upOf (y x : Nat) : List (Nat × Nat) := (List.range y).reverse.map fun y2 => (y2, x)
def downOf (pb : Problem) (y x : Nat) : List (Nat × Nat) := (List.range' (y + 1) (pb.height - (y + 1))).map fun y2 => (y2, x)
def leftOf (y x : Nat) : List (Nat × Nat) := (List.range x).reverse.map fun x2 => (y, x2)
def rightOf (pb : Problem) (y x : Nat) : List (Nat × Nat) := (List.range' (x + 1) (pb.width - (x + 1))).map fun x2 => (y, x2)

/-- `solver.ensure(count_true([has_light[p] for p in group]) <= 1)`. -/
def atMostOne (pb : Problem) (group : List (Nat × Nat)) : Py (List Expr) := do
  let es ← group.mapM (lightAt pb)
  let ct ← countTrue es
  let c ← cmpPy .le ct (.litI 1)
  let c ← ensure1 c
  .ok [c]

/-- Body of the first double loop for the cell `(y, x)`. -/
def runCs (pb : Problem) (p : Nat × Nat) : Py (List Expr) := do
  let y := p.1
  let x := p.2
  let v ← cell pb y x
  if v ≥ -1 then .ok [] else do
    let startV ← if y == 0 then .ok true else do
      let u ← cell pb (y - 1) x
      .ok (decide (u ≥ -1))
    let c1 ← if startV then do
        let group ← takeWhite pb (downFrom pb y x)
        atMostOne pb group
      else .ok []
    let startH ← if x == 0 then .ok true else do
      let u ← cell pb y (x - 1)
      .ok (decide (u ≥ -1))
    let c2 ← if startH then do
        let group ← takeWhite pb (rightFrom pb y x)
        atMostOne pb group
      else .ok []
    .ok (c1 ++ c2)

/-- One of the four guarded `neighbors.append(…)`: `guard and problem[q] < -1`. -/
def nbIf (pb : Problem) (guard : Bool) (q : Nat × Nat) : Py (List (Nat × Nat)) :=
  if guard then do
    let u ← cell pb q.1 q.2
    .ok (if u < -1 then [q] else [])
  else .ok []

/-- Body of the second double loop for the cell `(y, x)`. -/
def cellCs (pb : Problem) (p : Nat × Nat) : Py (List Expr) := do
  let y := p.1
  let x := p.2
  let v ← cell pb y x
  if v < -1 then do
    let s1 ← takeWhite pb (upOf y x)
    let s2 ← takeWhite pb (downOf pb y x)
    let s3 ← takeWhite pb (leftOf y x)
    let s4 ← takeWhite pb (rightOf pb y x)
    let es ← ((y, x) :: (s1 ++ s2 ++ s3 ++ s4)).mapM (lightAt pb)
    let c ← foldOr es
    let c ← ensure1 c
    .ok [c]
  else do
    let l ← lightAt pb (y, x)
    let c0 ← notE l
    let c0 ← ensure1 c0
    if v ≥ 0 then do
      let n1 ← nbIf pb (decide (y > 0)) (y - 1, x)
      let n2 ← nbIf pb (decide ((y : Int) < (pb.height : Int) - 1)) (y + 1, x)
      let n3 ← nbIf pb (decide (x > 0)) (y, x - 1)
      let n4 ← nbIf pb (decide ((x : Int) < (pb.width : Int) - 1)) (y, x + 1)
      let es ← (n1 ++ n2 ++ n3 ++ n4).mapM (lightAt pb)
      let ct ← countTrue es
      let c ← cmpPy .eq ct (.litI v)
      let c ← ensure1 c
      .ok [c0, c]
    else .ok [c0]

/-- The program posted by `solve_akari(height, width, problem)`. -/
def program (pb : Problem) : Py PuzzleProg := do
  let h := pb.height
  let w := pb.width
  let hasLight : PyV := .arr2 true h w (bvars 0 (h * w))
  let keys ← addKeysV hasLight []
  let cs1 ← (cellsOf h w).mapM (runCs pb)
  let cs2 ← (cellsOf h w).mapM (cellCs pb)
  .ok { decls := List.replicate (h * w) .bool, cs := cs1.flatten ++ cs2.flatten, keys := keys }

end Cspuz.Puzzles.Akari
