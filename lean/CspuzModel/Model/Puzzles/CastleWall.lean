/-
  Model of `cspuz/puzzle/castle_wall.py::solve_castle_wall(height, width, arrow, inside)`: the program posted
  before `solver.solve()`.  Import-free (core Lean + model files only).

  Problem format: `arrow[y][x]` is `".."` (no clue), a direction character `^ v < >` followed by a number, or a
  string starting with any other character (clue cell without arrow); `inside[y][x]` is `True` / `False` / `None`.
-/
import CspuzModel.Model.Puzzles.LoopUtil
namespace Cspuz.Puzzles.CastleWall
open Cspuz Cspuz.Spec Cspuz.Puzzles Cspuz.Puzzles.Loop

inductive Dir
  | up | down | left | right
  deriving DecidableEq, Repr, Inhabited

/-- One entry of `arrow`.  `num = none`: the text after the direction is not an integer literal
(`int(...)` raises `ValueError`). -/
inductive Arrow
  | none
  | dir (d : Dir) (num : Option Int)
  | other
  deriving DecidableEq, Repr, Inhabited

structure Problem where
  height : Nat
  width : Nat
  arrow : List (List Arrow)
  inside : List (List (Option Bool))
  deriving Repr, Inhabited

def sl (a b : Option Int) : AxisKey := .slice a b none

def arrOf (a : Arr2) : PyV := .arr2 true a.h a.w a.data

def tableGet' {α} (t : List (List α)) (y x : Int) : Py α := do
  let row ← pyIndex t y
  pyIndex row x

/-- Body of the arrow loop for the cell `(y, x)`. -/
def arrowCs (pb : Problem) (s : Setup) (p : Nat × Nat) : Py (List Expr) := do
  let y : Int := p.1
  let x : Int := p.2
  match ← tableGet' pb.arrow y x with
  | .none => .ok []
  | .other => do
    let ps ← s.isPassed.get y x
    ensureV (← unop .invert (.scalar ps))
  | .dir d num => do
    let ps ← s.isPassed.get y x
    let c0 ← ensureV (← unop .invert (.scalar ps))
    let related ← match d with
      | .up => getitemV (arrOf s.frame.vertical) (.pair (sl none (some y)) (.idx x))
      | .down => getitemV (arrOf s.frame.vertical) (.pair (sl (some y) none) (.idx x))
      | .left => getitemV (arrOf s.frame.horizontal) (.pair (.idx y) (sl none (some x)))
      | .right => getitemV (arrOf s.frame.horizontal) (.pair (.idx y) (sl (some x) none))
    let ct ← countTrueA [.leaf related]
    match num with
    | none => .error .valueError
    | some n => do
      let c1 ← ensureV (← binop .eq (.scalar ct) (.scalar (.litI n)))
      .ok (c0 ++ c1)

/-- `is_inside[y, x]` with two ints. -/
def cellAt (a : PyV) (y x : Int) : Py PyV := getitemV a (.pair (.idx y) (.idx x))

/-- The crossing-parity recurrence defining `is_inside`. -/
def parityCs (s : Setup) (isInside : PyV) (p : Nat × Nat) : Py (List Expr) := do
  let y : Int := p.1
  let x : Int := p.2
  let me ← cellAt isInside y x
  if p.1 == 0 then do
    let e ← s.frame.getitem 0 (x * 2 + 1)
    ensureV (← binop .eq me (.scalar e))
  else do
    let above ← cellAt isInside (y - 1) x
    let e ← s.frame.getitem (y * 2) (x * 2 + 1)
    let ne ← binop .ne above (.scalar e)
    ensureV (← binop .eq me ne)

/-- Body of the inside / outside loop. -/
def insideCs (pb : Problem) (isInside : PyV) (p : Nat × Nat) : Py (List Expr) := do
  let y : Int := p.1
  let x : Int := p.2
  match ← tableGet' pb.inside y x with
  | some true => do
    ensureV (← cellAt isInside (max 0 (y - 1)) (max 0 (x - 1)))
  | some false => do
    ensureV (← unop .invert (← cellAt isInside (max 0 (y - 1)) (max 0 (x - 1))))
  | none => .ok []

/-- Body of the inside / outside loop AFTER the proposed repair of the line-board defect (boards with one row
or one column have no `is_inside` cell: every clue cell is outside, `inside = True` is unsatisfiable):
```
if height == 1 or width == 1:
    if inside[y][x] is True: solver.ensure(False)
elif inside[y][x] is True: ...
```
`fixed = false` is the code before the repair (IndexError on such boards; kept for replays). -/
def insideCs' (fixed : Bool) (pb : Problem) (isInside : PyV) (p : Nat × Nat) : Py (List Expr) :=
  if fixed && (pb.height == 1 || pb.width == 1) then do
    let y : Int := p.1
    let x : Int := p.2
    match ← tableGet' pb.inside y x with
    | some true => ensureV (.scalar (.litB false))
    | _ => .ok []
  else insideCs pb isInside p

/-- The program posted by `solve_castle_wall`; `prim` = `config.use_graph_primitive`; `fixed`: see `insideCs'`. -/
def programWith (prim : Bool) (pb : Problem) (fixed : Bool := false) : Py PuzzleProg := do
  let h := pb.height
  let w := pb.width
  let keys ← frameKeys (Frame.fresh 0 (h - 1) (w - 1)) []
  let s ← setup (h - 1) (w - 1) prim
  let c1 ← (cellsOf h w).mapM (arrowCs pb s)
  let isInside : PyV := .arr2 true (h - 1) (w - 1) (bvars s.nvars ((h - 1) * (w - 1)))
  let c2 ← (cellsOf (h - 1) (w - 1)).mapM (parityCs s isInside)
  let c3 ← (cellsOf h w).mapM (insideCs' fixed pb isInside)
  .ok { decls := s.decls ++ List.replicate ((h - 1) * (w - 1)) .bool,
        cs := s.cs ++ c1.flatten ++ c2.flatten ++ c3.flatten, keys := keys }

/-- The module as it stands (line-board repair 074ebe4 included). -/
def program (pb : Problem) : Py PuzzleProg := programWith false pb true

end Cspuz.Puzzles.CastleWall
