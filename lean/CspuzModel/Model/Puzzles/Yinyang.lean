/-
  Model of `cspuz/puzzle/yinyang.py::solve_yinyang(height, width, problem)`: the program posted before
  `solver.solve()`.  Import-free (core Lean + model files only).

  Problem format: `problem[y][x]` = 1 white stone, 2 black stone, anything else empty.
-/
import CspuzModel.Model.Puzzles.CLUtil
namespace Cspuz.Puzzles.Yinyang
open Cspuz Cspuz.Spec Cspuz.Puzzles

structure Problem where
  height : Nat
  width : Nat
  problem : List (List Int)
  deriving Repr, Inhabited

def sl (a b : Option Int) : AxisKey := .slice a b none

/-- `A op B op C op D` (left-associated). -/
def chain (o : BinOp) (a b c d : PyV) : Py PyV := do
  let ab ← binop o a b
  let abc ← binop o ab c
  binop o abc d

/-- The four 2×2 constraints (two rules, two "auxiliary"). -/
def blockCs (a : PyV) : Py (List Expr) := do
  let a00 ← getitemV a (.pair (sl none (some (-1))) (sl none (some (-1))))    -- [:-1, :-1]
  let a01 ← getitemV a (.pair (sl none (some (-1))) (sl (some 1) none))       -- [:-1, 1:]
  let a10 ← getitemV a (.pair (sl (some 1) none) (sl none (some (-1))))       -- [1:, :-1]
  let a11 ← getitemV a (.pair (sl (some 1) none) (sl (some 1) none))          -- [1:, 1:]
  let c1 ← ensureV (← chain .or_ a00 a01 a10 a11)
  let c2 ← ensureV (← unop .invert (← chain .and_ a00 a01 a10 a11))
  let n10 ← unop .invert a10
  let n01 ← unop .invert a01
  let c3 ← ensureV (← unop .invert (← chain .and_ a00 a11 n10 n01))
  let n00 ← unop .invert a00
  let n11 ← unop .invert a11
  let c4 ← ensureV (← unop .invert (← chain .and_ n00 n11 a10 a01))
  .ok (c1 ++ c2 ++ c3 ++ c4)

/-- `is_black[y, x]` with two ints. -/
def cellAt (a : PyV) (y x : Int) : Py Expr := do
  match ← getitemV a (.pair (.idx y) (.idx x)) with
  | .scalar e => .ok e
  | _ => .error .typeError

/-- `reversed(range(a, b))` -/
def revRange (a b : Nat) : List Nat := ((List.range b).filter (fun i => a ≤ i)).reverse

/-- The cells around the outer ring, in the order of the four loops. -/
def circ (a : PyV) (h w : Nat) : Py (List Expr) := do
  let l1 ← (List.range h).mapM fun (y : Nat) => cellAt a y 0
  let l2 ← ((List.range w).filter (fun x => 1 ≤ x)).mapM fun (x : Nat) => cellAt a (-1) x
  let l3 ← (revRange 0 (h - 1)).mapM fun (y : Nat) => cellAt a y (-1)
  let l4 ← (revRange 1 (w - 1)).mapM fun (x : Nat) => cellAt a 0 x
  .ok (l1 ++ l2 ++ l3 ++ l4)

/-- `count_true([circ[i] != circ[(i + 1) % len(circ)] …]) <= 2`. -/
def circCs (c : List Expr) : Py (List Expr) := do
  let n := c.length
  let sw ← (List.range n).mapM fun i => do
    let a ← getE c i
    let b ← getE c ((i + 1) % n)
    let e ← binop .ne (.scalar a) (.scalar b)
    .ok (ANest.leaf e)
  let ct ← countTrueA [.items sw]
  let e ← binop .le (.scalar ct) (.scalar (.litI 2))
  ensureV e

/-- Body of the stone loop. -/
def cellCs (pb : Problem) (a : PyV) (p : Nat × Nat) : Py (List Expr) := do
  let v ← tableGet pb.problem p.1 p.2
  if v == 1 then do
    let c ← getitemV a (.pair (.idx p.1) (.idx p.2))
    ensureV (← unop .invert c)
  else if v == 2 then do
    let c ← getitemV a (.pair (.idx p.1) (.idx p.2))
    ensureV c
  else .ok []

/-- The program posted by `solve_yinyang`; `prim` = `config.use_graph_primitive`. -/
def programWith (prim : Bool) (pb : Problem) : Py PuzzleProg := do
  let h := pb.height
  let w := pb.width
  let n := h * w
  let isBlack : PyV := .arr2 true h w (bvars 0 n)
  let keys ← addKeysV isBlack []
  let p1 ← activeVerticesConnected (Graph.grid h w) (bvars 0 n) n false prim
  let notBlack ← unop .invert isBlack
  let p2 ← activeVerticesConnected (Graph.grid h w) notBlack.flat (n + p1.decls.length) false prim
  let c1 ← blockCs isBlack
  let c2 ← circCs (← circ isBlack h w)
  let c3 ← (cellsOf h w).mapM (cellCs pb isBlack)
  .ok { decls := List.replicate n .bool ++ p1.decls ++ p2.decls,
        cs := p1.cs ++ p2.cs ++ c1 ++ c2 ++ c3.flatten, keys := keys }

def program (pb : Problem) : Py PuzzleProg := programWith false pb

end Cspuz.Puzzles.Yinyang
