/-
  Model of `cspuz/puzzle/nurikabe.py::solve_nurikabe(height, width, problem, unknown_low=None)`: the program
  posted before `solver.solve()`.  Import-free (core Lean + model files only).

  Problem format: `problem[y][x] >= 1` number clue, `-1` clue of unknown size ("?"), anything else no clue.
-/
import CspuzModel.Model.Puzzles.CLUtil
namespace Cspuz.Puzzles.Nurikabe
open Cspuz Cspuz.Spec Cspuz.Puzzles

structure Problem where
  height : Nat
  width : Nat
  problem : List (List Int)
  unknownLow : Option Int := none
  deriving Repr, Inhabited

def sl (a b : Option Int) : AxisKey := .slice a b none

/-- `clues`: `(y, x, problem[y][x])` for the clue cells, row-major. -/
def clues (pb : Problem) : Py (List (Nat × Nat × Int)) := do
  let l ← (cellsOf pb.height pb.width).mapM fun (p : Nat × Nat) => do
    let v ← tableGet pb.problem p.1 p.2
    .ok (if v ≥ 1 ∨ v = -1 then [(p.1, p.2, v)] else [])
  .ok l.flatten

/-- `is_white.conv2d(kh, kw, "and").then(division[ka] == division[kb])` flattened by `ensure`. -/
def sameIsland (isWhite division : PyV) (kh kw : Int) (ka kb : Key2) : Py (List Expr) := do
  let c ← conv2d isWhite kh kw .and_
  let a ← getitemV division ka
  let b ← getitemV division kb
  let e ← binop .eq a b
  let r ← callM .then_ c [e]
  ensureV r

/-- The size constraint of clue number `i` (0-based; its region is `i + 1`). -/
def clueCs (pb : Problem) (division : PyV) (ic : (Nat × Nat × Int) × Nat) : Py (List Expr) := do
  let n := ic.1.2.2
  let i : Int := ic.2
  if n > 0 then do
    let m ← binop .eq division (.scalar (.litI (i + 1)))
    let ct ← countTrueA [.leaf m]
    let c ← binop .eq (.scalar ct) (.scalar (.litI n))
    ensureV c
  else if n == -1 then
    match pb.unknownLow with
    | some low => do
      let m ← binop .eq division (.scalar (.litI (i + 1)))
      let ct ← countTrueA [.leaf m]
      let c ← binop .ge (.scalar ct) (.scalar (.litI low))
      ensureV c
    | none => .ok []
  else .ok []

/-- The program posted by `solve_nurikabe`; `prim` = `config.use_graph_primitive`. -/
def programWith (prim : Bool) (pb : Problem) : Py PuzzleProg := do
  let h := pb.height
  let w := pb.width
  let n := h * w
  let cl ← clues pb
  let k := cl.length
  let d0 ← intArrayDecls n 0 (k : Int)
  let division : PyV := .arr2 false h w (ivars 0 n)
  let roots : List (Option Nat) := none :: cl.map fun c => some (c.1 * w + c.2.1)
  let dc ← divisionConnected (Graph.grid h w) (ivars 0 n) (k + 1) (some roots) false prim n
  let wb := n + dc.decls.length
  let isWhite : PyV := .arr2 true h w (bvars wb n)
  let ne0 ← binop .ne division (.scalar (.litI 0))
  let def_ ← binop .eq isWhite ne0
  let c1 ← ensureV def_
  let keys ← addKeysV isWhite []
  let c2 ← sameIsland isWhite division 2 1 (.pair (sl none (some (-1))) fullSlice) (.pair (sl (some 1) none) fullSlice)
  let c3 ← sameIsland isWhite division 1 2 (.pair fullSlice (sl none (some (-1)))) (.pair fullSlice (sl (some 1) none))
  let blk ← conv2d isWhite 2 2 .or_
  let c4 ← ensureV blk
  let c5 ← cl.zipIdx.mapM (clueCs pb division)
  .ok { decls := d0 ++ dc.decls ++ List.replicate n .bool,
        cs := dc.cs ++ c1 ++ c2 ++ c3 ++ c4 ++ c5.flatten, keys := keys }

def program (pb : Problem) : Py PuzzleProg := programWith false pb

end Cspuz.Puzzles.Nurikabe
