/-
  Model of `cspuz/puzzle/masyu.py::solve_masyu` up to the call of `solver.solve()`: the posted program.
  Import-free (core Lean + model files only).

  Problem format: `problem[y][x] == 1` white circle, `== 2` black circle, anything else: empty.
-/
import CspuzModel.Model.Puzzles.LoopUtil
namespace Cspuz.Puzzles.Masyu
open Cspuz Cspuz.Spec Cspuz.Puzzles Cspuz.Puzzles.Loop

structure Problem where
  height : Nat
  width : Nat
  problem : List (List Int)
  deriving Repr, Inhabited

/-- The inner function `get_edge(y, x, neg=False)` (doubled coordinates; outside the board the Python bool `neg`). -/
def getEdge (pb : Problem) (f : Frame) (y x : Int) (neg : Bool) : Py Expr :=
  if 0 ≤ y ∧ y ≤ 2 * ((pb.height : Int) - 1) ∧ 0 ≤ x ∧ x ≤ 2 * ((pb.width : Int) - 1) then do
    let r ← if pyMod y 2 = 0 then rowCol f.horizontal (pyDiv y 2) (pyDiv x 2)
            else rowCol f.vertical (pyDiv y 2) (pyDiv x 2)
    if neg then notE r else .ok r
  else .ok (.litB neg)

/-- Body of the double loop for the cell `(y, x)`. -/
def cellCs (pb : Problem) (f : Frame) (p : Nat × Nat) : Py (List Expr) := do
  let y : Int := p.1
  let x : Int := p.2
  let v ← tableGet pb.problem y x
  let ge := getEdge pb f
  if v = 1 then do
    let a1 ← andPy (← ge (y * 2) (x * 2 - 1) false) (← ge (y * 2) (x * 2 + 1) false)
    let a2 ← orPy (← ge (y * 2) (x * 2 - 3) true) (← ge (y * 2) (x * 2 + 3) true)
    let a ← andPy a1 a2
    let b1 ← andPy (← ge (y * 2 - 1) (x * 2) false) (← ge (y * 2 + 1) (x * 2) false)
    let b2 ← orPy (← ge (y * 2 - 3) (x * 2) true) (← ge (y * 2 + 3) (x * 2) true)
    let b ← andPy b1 b2
    let c ← orPy a b
    let c ← ensure1 c
    .ok [c]
  else if v = 2 then do
    let d0 ← andPy (← ge (y * 2) (x * 2 - 1) false) (← ge (y * 2) (x * 2 - 3) false)
    let d1 ← andPy (← ge (y * 2 - 1) (x * 2) false) (← ge (y * 2 - 3) (x * 2) false)
    let d2 ← andPy (← ge (y * 2) (x * 2 + 1) false) (← ge (y * 2) (x * 2 + 3) false)
    let d3 ← andPy (← ge (y * 2 + 1) (x * 2) false) (← ge (y * 2 + 3) (x * 2) false)
    let c ← andPy (← orPy d0 d2) (← orPy d1 d3)
    let c ← ensure1 c
    .ok [c]
  else .ok []

/-- The program posted by `solve_masyu(height, width, problem)`. -/
def program (pb : Problem) (prim : Bool := false) : Py PuzzleProg := do
  if pb.height = 0 ∨ pb.width = 0 then .error .valueError else
  let f := Frame.fresh 0 (pb.height - 1) (pb.width - 1)
  let keys ← frameKeys f []
  let s ← setup (pb.height - 1) (pb.width - 1) prim
  let cs ← (cellsOf pb.height pb.width).mapM (cellCs pb s.frame)
  .ok { decls := s.decls, cs := s.cs ++ cs.flatten, keys := keys }

end Cspuz.Puzzles.Masyu
