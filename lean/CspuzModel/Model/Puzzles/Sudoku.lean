/-
  Model of `cspuz/puzzle/sudoku.py::solve_sudoku(problem, n)`: the program posted before
  `solver.solve()`.  Import-free.
-/
import CspuzModel.Model.Puzzles.CLUtil
namespace Cspuz.Puzzles.Sudoku
open Cspuz Cspuz.Spec Cspuz.Puzzles

/-- `solve_sudoku(problem, n)`: `cells[y][x]` is the given digit, anything `< 1` is a blank. -/
structure Problem where
  n : Nat
  cells : List (List Int)
  deriving Repr, Inhabited

def program (pb : Problem) : Py PuzzleProg := do
  let n := pb.n
  let size := n * n
  -- answer = solver.int_array((size, size), 1, size)
  let decls ← intArrayDecls (size * size) 1 size
  let answer : PyV := .arr2 false size size (ivars 0 (size * size))
  -- solver.add_answer_key(answer)
  let keys ← addKeysV answer []
  -- for i in range(size): ensure(alldifferent(answer[i, :])); ensure(alldifferent(answer[:, i]))
  let lines ← (List.range size).mapM fun (i : Nat) => do
    let row ← getitemV answer (.pair (.idx i) fullSlice)
    let c1 ← alldifferentA [.leaf row]
    let e1 ← ensureV (.scalar c1)
    let col ← getitemV answer (.pair fullSlice (.idx i))
    let c2 ← alldifferentA [.leaf col]
    let e2 ← ensureV (.scalar c2)
    .ok (e1 ++ e2)
  -- for y in range(n): for x in range(n): ensure(alldifferent(answer[y*n:(y+1)*n, x*n:(x+1)*n]))
  let boxes ← (cellsOf n n).mapM fun (yx : Nat × Nat) => do
    let y : Int := yx.1
    let x : Int := yx.2
    let box ← getitemV answer (.pair (.slice (some (y * n)) (some ((y + 1) * n)) none)
                                      (.slice (some (x * n)) (some ((x + 1) * n)) none))
    let c ← alldifferentA [.leaf box]
    ensureV (.scalar c)
  -- for y in range(size): for x in range(size): if problem[y][x] >= 1: ensure(answer[y, x] == problem[y][x])
  let clues ← (cellsOf size size).mapM fun (yx : Nat × Nat) => do
    let v ← tableGet pb.cells yx.1 yx.2
    if v ≥ 1 then
      let a ← getitemV answer (.pair (.idx yx.1) (.idx yx.2))
      let v' ← tableGet pb.cells yx.1 yx.2
      let c ← binop .eq a (.scalar (.litI v'))
      ensureV c
    else .ok []
  .ok { decls := decls, cs := lines.flatten ++ boxes.flatten ++ clues.flatten, keys := keys }

end Cspuz.Puzzles.Sudoku
