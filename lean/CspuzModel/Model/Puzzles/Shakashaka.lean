/-
  Model of `cspuz/puzzle/shakashaka.py::solve_shakashaka(height, width, problem)`: the program posted before
  `solver.solve()`.  Import-free (core Lean + model files only).

  Problem format: `problem[y][x]` is `None` (white cell), `-1` (any negative: black cell without number) or the
  number of a black cell.
-/
import CspuzModel.Model.Puzzles.CLUtil
namespace Cspuz.Puzzles.Shakashaka
open Cspuz Cspuz.Spec Cspuz.Puzzles

structure Problem where
  height : Nat
  width : Nat
  problem : List (List (Option Int))
  deriving Repr, Inhabited

def tableGet' {α} (t : List (List α)) (y x : Int) : Py α := do
  let row ← pyIndex t y
  pyIndex row x

/-- Body of the first double loop (black cells). -/
def blackCs (pb : Problem) (answer : PyV) (p : Nat × Nat) : Py (List Expr) := do
  let y : Int := p.1
  let x : Int := p.2
  match ← tableGet' pb.problem y x with
  | none => .ok []
  | some v => do
    let c ← getitemV answer (.pair (.idx y) (.idx x))
    let c0 ← ensureV (← binop .eq c (.scalar (.litI 0)))
    if v ≥ 0 then do
      let nb ← fourNeighbors answer (.two y x)
      let tri ← binop .ne nb (.scalar (.litI 0))
      let ct ← countTrueA [.leaf tri]
      let c1 ← ensureV (← binop .eq (.scalar ct) (.scalar (.litI v)))
      .ok (c0 ++ c1)
    else .ok c0

/-- `answer[cy, cx] == v`. -/
def isVal (answer : PyV) (cy cx : Int) (v : Int) : Py PyV := do
  let c ← getitemV answer (.pair (.idx cy) (.idx cx))
  binop .eq c (.scalar (.litI v))

def pyFalse : PyV := .scalar (.litB false)

/-- What one of the four cells around the grid point contributes: two entries of `diagonals`, one of
`is_empty`, at most one of `is_white_angle`.  `present` is the `if` guard; `d1, d2` the two triangle
orientations whose hypotenuse ends in the point; `wv` the orientation whose white corner is at the point. -/
def quadrant (pb : Problem) (answer : PyV) (present : Bool) (cy cx : Int) (d1 d2 wv : Int) :
    Py (List PyV × PyV × List ANest) :=
  if present then do
    let e1 ← isVal answer cy cx d1
    let e2 ← isVal answer cy cx d2
    let pv ← tableGet' pb.problem cy cx
    let emp ← if pv.isNone then isVal answer cy cx 0 else pure pyFalse
    let wa ← if pv.isNone then do
          let a ← isVal answer cy cx 0
          let b ← isVal answer cy cx wv
          let o ← binop .or_ a b
          pure [ANest.leaf o]
        else pure []
    .ok ([e1, e2], emp, wa)
  else .ok ([pyFalse, pyFalse], pyFalse, [])

def getV (l : List PyV) (i : Nat) : Py PyV :=
  match l[i]? with
  | some v => .ok v
  | none => .error .indexError

/-- Body of the second double loop (grid point `(y, x)`, `0 ≤ y ≤ height`, `0 ≤ x ≤ width`). -/
def pointCs (pb : Problem) (answer : PyV) (p : Nat × Nat) : Py (List Expr) := do
  let y : Int := p.1
  let x : Int := p.2
  let h : Int := pb.height
  let w : Int := pb.width
  let q1 ← quadrant pb answer (y > 0 && x > 0) (y - 1) (x - 1) 4 2 1
  let q2 ← quadrant pb answer (y < h && x > 0) y (x - 1) 1 3 2
  let q3 ← quadrant pb answer (y < h && x < w) y x 2 4 3
  let q4 ← quadrant pb answer (y > 0 && x < w) (y - 1) x 3 1 4
  let diagonals := q1.1 ++ q2.1 ++ q3.1 ++ q4.1
  let isEmpty := [q1.2.1, q2.2.1, q3.2.1, q4.2.1]
  let whiteAngle := q1.2.2 ++ q2.2.2 ++ q3.2.2 ++ q4.2.2
  let per ← (List.range 8).mapM fun (i : Nat) => do
    let di ← getV diagonals i
    match di with
    | .scalar (.litB false) => .ok []
    | _ =>
      let (j, k) := if i % 2 == 0 then ((i + 3) % 8, (i + 5) % 8) else ((i + 5) % 8, (i + 3) % 8)
      let dj ← getV diagonals j
      let ej ← getV isEmpty (j / 2)
      let dk ← getV diagonals k
      let both ← binop .and_ ej dk
      let alt ← binop .or_ dj both
      let r ← callM .then_ di [alt]
      ensureV r
  let ct ← countTrueA [.items whiteAngle]
  let c ← ensureV (← binop .ne (.scalar ct) (.scalar (.litI 3)))
  .ok (per.flatten ++ c)

/-- The program posted by `solve_shakashaka`. -/
def program (pb : Problem) : Py PuzzleProg := do
  let h := pb.height
  let w := pb.width
  let n := h * w
  let d0 ← intArrayDecls n 0 4
  let answer : PyV := .arr2 false h w (ivars 0 n)
  let keys ← addKeysV answer []
  let c1 ← (cellsOf h w).mapM (blackCs pb answer)
  let c2 ← (cellsOf (h + 1) (w + 1)).mapM (pointCs pb answer)
  .ok { decls := d0, cs := c1.flatten ++ c2.flatten, keys := keys }

end Cspuz.Puzzles.Shakashaka
