/-
  Model of `cspuz/puzzle/heyawake.py::solve_heyawake(height, width, *problem)`: the program posted
  before `solver.solve()`.  Import-free (core Lean + model files only).

  Problem formats: `(rooms, clues)` — `rooms[i]` a list of cells `(y, x)`, `clues[i]` negative for
  "no number" — or one list of rectangles `(y0, x0, y1, x1, n)` (half-open), converted by
  `convert_from_rectangular_repr`.
-/
import CspuzModel.Model.Puzzles.CLUtil
namespace Cspuz.Puzzles.Heyawake
open Cspuz Cspuz.Spec Cspuz.Puzzles

structure Problem where
  height : Nat
  width : Nat
  rooms : List (List (Int × Int))
  clues : List Int
  deriving Repr, Inhabited

/-- A rectangle `(y0, x0, y1, x1, n)`. -/
structure Rect where
  y0 : Int
  x0 : Int
  y1 : Int
  x1 : Int
  n : Int
  deriving Repr, Inhabited

/-- Python `range(a, b)`. -/
def pyRange (a b : Int) : List Int := (List.range (b - a).toNat).map fun (k : Nat) => a + (k : Int)

/-- `convert_from_rectangular_repr`. -/
def convertFromRectangularRepr (rs : List Rect) : List (List (Int × Int)) × List Int :=
  (rs.map fun r => (pyRange r.y0 r.y1).flatMap fun y => (pyRange r.x0 r.x1).map fun x => (y, x),
   rs.map (·.n))

def sl (a b : Option Int) : AxisKey := .slice a b none

/-- First loop: builds `room_id` (ValueError when a cell is claimed twice) and posts the room clues. -/
def roomLoop (pb : Problem) (isBlack : PyV) : Py (List (List Int) × List Expr) :=
  pb.rooms.zipIdx.foldlM (fun (acc : List (List Int) × List Expr) (ri : List (Int × Int) × Nat) => do
    let t ← ri.1.foldlM (fun (t : List (List Int)) (yx : Int × Int) => do
        let cur ← tableGet t yx.1 yx.2
        if cur != -1 then .error .valueError
        else tableSet t yx.1 yx.2 (ri.2 : Int)) acc.1
    let n ← pyIndex pb.clues (ri.2 : Int)
    if n ≥ 0 then do
      let sel ← getitemV isBlack (.coords ri.1)
      let ct ← countTrueA [.leaf sel]
      let c ← binop .eq (.scalar ct) (.scalar (.litI n))
      let cs ← ensureV c
      .ok (t, acc.2 ++ cs)
    else .ok (t, acc.2))
    (List.replicate pb.height (List.replicate pb.width (-1)), [])

/-- `while k2 < limit: if differs(k2): return k2 …; k2 += 1`: the first `k2` in `[start, limit)` at which
the room changes between `k2` and `k2 + 1` (`differs` may raise). -/
def firstBorder (differs : Int → Py Bool) (start limit : Int) : Py (Option Int) :=
  let rec go : Nat → Int → Py (Option Int)
    | 0, _ => .ok none
    | fuel + 1, k => do
      if ← differs k then .ok (some k) else go fuel (k + 1)
  go (limit - start).toNat start

/-- Body of the second double loop for the cell `(y, x)`. -/
def cellCs (pb : Problem) (isBlack : PyV) (rid : List (List Int)) (p : Nat × Nat) : Py (List Expr) := do
  let y : Int := p.1
  let x : Int := p.2
  let h : Int := pb.height
  let w : Int := pb.width
  let r ← tableGet rid y x
  if r == -1 then .error .valueError else do
  let c1 ← if y < h - 1 then do
      let r' ← tableGet rid (y + 1) x
      if r != r' then do
        match ← firstBorder (fun y2 => do
            let a ← tableGet rid y2 x
            let b ← tableGet rid (y2 + 1) x
            .ok (a != b)) (y + 1) (h - 1) with
        | some y2 => do
          let s ← getitemV isBlack (.pair (sl (some y) (some (y2 + 2))) (.idx x))
          let e ← foldOrA [.leaf s]
          ensureV (.scalar e)
        | none => .ok []
      else .ok []
    else .ok []
  let c2 ← if x < w - 1 then do
      let r' ← tableGet rid y (x + 1)
      if r != r' then do
        match ← firstBorder (fun x2 => do
            let a ← tableGet rid y x2
            let b ← tableGet rid y (x2 + 1)
            .ok (a != b)) (x + 1) (w - 1) with
        | some x2 => do
          let s ← getitemV isBlack (.pair (.idx y) (sl (some x) (some (x2 + 2))))
          let e ← foldOrA [.leaf s]
          ensureV (.scalar e)
        | none => .ok []
      else .ok []
    else .ok []
  .ok (c1 ++ c2)

/-- The program posted by `solve_heyawake(height, width, rooms, clues)`; `prim` = `config.use_graph_primitive`. -/
def programWith (prim : Bool) (pb : Problem) : Py PuzzleProg := do
  let h := pb.height
  let w := pb.width
  let isBlack : PyV := .arr2 true h w (bvars 0 (h * w))
  let keys ← addKeysV isBlack []
  -- graph.active_vertices_not_adjacent(solver, is_black)
  let na ← notAdjacentGrid h w (bvars 0 (h * w))
  -- graph.active_vertices_connected(solver, ~is_black)
  let nb ← unop .invert isBlack
  let avc ← activeVerticesConnected (Graph.grid h w) nb.flat (h * w) false prim
  let (rid, roomCs) ← roomLoop pb isBlack
  let cl ← (cellsOf h w).mapM (cellCs pb isBlack rid)
  .ok { decls := List.replicate (h * w) .bool ++ avc.decls,
        cs := na.cs ++ avc.cs ++ roomCs ++ cl.flatten, keys := keys }

def program (pb : Problem) : Py PuzzleProg := programWith false pb

/-- `solve_heyawake(height, width, rectangles)`. -/
def programRect (height width : Nat) (rs : List Rect) : Py PuzzleProg :=
  let rc := convertFromRectangularRepr rs
  program { height := height, width := width, rooms := rc.1, clues := rc.2 }

end Cspuz.Puzzles.Heyawake
