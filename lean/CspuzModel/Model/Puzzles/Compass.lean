/-
  Model of `cspuz/puzzle/compass.py::solve_compass(height, width, problem)`: the program posted before
  `solver.solve()`.  Import-free (core Lean + model files only).

  Problem format: a list of compasses `(y, x, up, left, down, right)`; a negative number means "no number".
-/
import CspuzModel.Model.Puzzles.CLUtil
namespace Cspuz.Puzzles.Compass
open Cspuz Cspuz.Spec Cspuz.Puzzles

structure Clue where
  y : Int
  x : Int
  up : Int
  lf : Int
  dw : Int
  rg : Int
  deriving Repr, Inhabited

structure Problem where
  height : Nat
  width : Nat
  problem : List Clue
  deriving Repr, Inhabited

def sl (a b : Option Int) : AxisKey := .slice a b none

/-- `roots_conv.append(y * width + x)`, used afterwards as an index into 1-D arrays of length `n`
(`division[r]`, `is_root[r]`: Python list indexing, a negative index counts from the end). -/
def rootOf (n w : Nat) (c : Clue) : Py (Option Nat) :=
  let r : Int := c.y * w + c.x
  let p := if r < 0 then r + n else r
  if 0 ≤ p ∧ p < n then .ok (some p.toNat) else .error .indexError

/-- `solver.ensure(count_true(division[key] == i) == v)`. -/
def countCs (division : PyV) (key : Key2) (i v : Int) : Py (List Expr) := do
  let part ← getitemV division key
  let m ← binop .eq part (.scalar (.litI i))
  let ct ← countTrueA [.leaf m]
  let c ← binop .eq (.scalar ct) (.scalar (.litI v))
  ensureV c

/-- Body of the loop `for i, (y, x, up, lf, dw, rg) in enumerate(problem)`. -/
def clueCs (division : PyV) (ci : Clue × Nat) : Py (List Expr) := do
  let c := ci.1
  let i : Int := ci.2
  let cell ← getitemV division (.pair (.idx c.y) (.idx c.x))
  let e ← binop .eq cell (.scalar (.litI i))
  let c0 ← ensureV e
  let c1 ← if c.up ≥ 0 then countCs division (.pair (sl none (some c.y)) fullSlice) i c.up else .ok []
  let c2 ← if c.dw ≥ 0 then countCs division (.pair (sl (some (c.y + 1)) none) fullSlice) i c.dw else .ok []
  let c3 ← if c.lf ≥ 0 then countCs division (.pair fullSlice (sl none (some c.x))) i c.lf else .ok []
  let c4 ← if c.rg ≥ 0 then countCs division (.pair fullSlice (sl (some (c.x + 1)) none)) i c.rg else .ok []
  .ok (c0 ++ c1 ++ c2 ++ c3 ++ c4)

/-- The program posted by `solve_compass`; `prim` = `config.use_graph_primitive`. -/
def programWith (prim : Bool) (pb : Problem) : Py PuzzleProg := do
  let h := pb.height
  let w := pb.width
  let n := h * w
  let k := pb.problem.length
  let d0 ← intArrayDecls n 0 ((k : Int) - 1)
  let division : PyV := .arr2 false h w (ivars 0 n)
  let roots ← pb.problem.mapM (rootOf n w)
  let dc ← divisionConnected (Graph.grid h w) (ivars 0 n) k (some roots) false prim n
  let keys ← addKeysV division []
  let cs ← pb.problem.zipIdx.mapM (clueCs division)
  .ok { decls := d0 ++ dc.decls, cs := dc.cs ++ cs.flatten, keys := keys }

def program (pb : Problem) : Py PuzzleProg := programWith false pb

end Cspuz.Puzzles.Compass
