/-
  Model of `cspuz/puzzle/creek.py::solve_creek(height, width, problem)`: the program posted before
  `solver.solve()`.  Import-free (core Lean + model files only).

  Problem format: `problem[y][x]` for `0 ≤ y ≤ height`, `0 ≤ x ≤ width` (lattice points); a negative
  entry means "no clue" (the code only tests `>= 0`).
-/
import CspuzModel.Model.Puzzles.CLUtil
namespace Cspuz.Puzzles.Creek
open Cspuz Cspuz.Spec Cspuz.Puzzles

structure Problem where
  height : Nat
  width : Nat
  problem : List (List Int)
  deriving Repr, Inhabited

/-- Body of the double loop for the lattice point `(y, x)`:
`if problem[y][x] >= 0: ensure(count_true(~is_white[max(y-1,0):min(y+1,height), max(x-1,0):min(x+1,width)]) == problem[y][x])`. -/
def clueCs (pb : Problem) (isWhite : PyV) (p : Nat × Nat) : Py (List Expr) := do
  let y : Int := p.1
  let x : Int := p.2
  let v ← tableGet pb.problem y x
  if v ≥ 0 then do
    let sub ← getitemV isWhite
      (.pair (.slice (some (max (y - 1) 0)) (some (min (y + 1) pb.height)) none)
             (.slice (some (max (x - 1) 0)) (some (min (x + 1) pb.width)) none))
    let neg ← unop .invert sub
    let ct ← countTrueA [.leaf neg]
    let c ← binop .eq (.scalar ct) (.scalar (.litI v))
    ensureV c
  else .ok []

/-- The program posted by `solve_creek`; `prim` = `config.use_graph_primitive`. -/
def programWith (prim : Bool) (pb : Problem) : Py PuzzleProg := do
  let h := pb.height
  let w := pb.width
  -- is_white = solver.bool_array((height, width)); solver.add_answer_key(is_white)
  let isWhite : PyV := .arr2 true h w (bvars 0 (h * w))
  let keys ← addKeysV isWhite []
  -- graph.active_vertices_connected(solver, is_white)
  let avc ← activeVerticesConnected (Graph.grid h w) (bvars 0 (h * w)) (h * w) false prim
  let cl ← (cellsOf (h + 1) (w + 1)).mapM (clueCs pb isWhite)
  .ok { decls := List.replicate (h * w) .bool ++ avc.decls, cs := avc.cs ++ cl.flatten, keys := keys }

/-- The sandbox configuration: no native graph operators (z3 backend). -/
def program (pb : Problem) : Py PuzzleProg := programWith false pb

end Cspuz.Puzzles.Creek
