/-
  Model of `cspuz/puzzle/star_battle.py::solve_star_battle(n, blocks, k)`: the program posted before
  `solver.solve()`.  Import-free.
-/
import CspuzModel.Model.Puzzles.CLUtil
namespace Cspuz.Puzzles.StarBattle
open Cspuz Cspuz.Spec Cspuz.Puzzles

/-- `solve_star_battle(n, blocks, k)`: `blocks[y][x]` is the id of the region of cell `(y, x)`. -/
structure Problem where
  n : Nat
  blocks : List (List Int)
  k : Int
  deriving Repr, Inhabited

/-- `ensure(~(has_star[ky1, kx1] & has_star[ky2, kx2]))`. -/
def noPair (hs : PyV) (ky1 kx1 ky2 kx2 : AxisKey) : Py (List Expr) := do
  let a ← getitemV hs (.pair ky1 kx1)
  let b ← getitemV hs (.pair ky2 kx2)
  let ab ← binop .and_ a b
  let nab ← unop .invert ab
  ensureV nab

/-- `ensure(sum(line.cond(1, 0)) == k)`. -/
def lineCount (line : PyV) (k : Int) : Py (List Expr) := do
  let ones ← callM .cond line [.scalar (.litI 1), .scalar (.litI 0)]
  let s ← pySum ones
  let c ← binop .eq s (.scalar (.litI k))
  ensureV c

def program (pb : Problem) : Py PuzzleProg := do
  let n := pb.n
  -- has_star = solver.bool_array((n, n)); solver.add_answer_key(has_star)
  let decls : List VarDecl := List.replicate (n * n) .bool
  let hs : PyV := .arr2 true n n (bvars 0 (n * n))
  let keys ← addKeysV hs []
  -- rows and columns
  let lines ← (List.range n).mapM fun (i : Nat) => do
    let row ← getitemV hs (.pair (.idx i) fullSlice)
    let e1 ← lineCount row pb.k
    let col ← getitemV hs (.pair fullSlice (.idx i))
    let e2 ← lineCount col pb.k
    .ok (e1 ++ e2)
  -- the four adjacency groups
  let upto : AxisKey := .slice none (some (-1)) none     -- `:-1`
  let from1 : AxisKey := .slice (some 1) none none       -- `1:`
  let a1 ← noPair hs upto fullSlice from1 fullSlice
  let a2 ← noPair hs fullSlice upto fullSlice from1
  let a3 ← noPair hs upto upto from1 from1
  let a4 ← noPair hs upto from1 from1 upto
  -- regions
  let regions ← (List.range n).mapM fun (i : Nat) => do
    let cells ← (cellsOf n n).mapM fun (yx : Nat × Nat) => do
      let b ← tableGet pb.blocks yx.1 yx.2
      if b = (i : Int) then
        let c ← getitemV hs (.pair (.idx yx.1) (.idx yx.2))
        .ok [ANest.leaf c]
      else .ok []
    let ct ← countTrueA [.items cells.flatten]
    let c ← binop .eq (.scalar ct) (.scalar (.litI pb.k))
    ensureV c
  .ok { decls := decls, cs := lines.flatten ++ a1 ++ a2 ++ a3 ++ a4 ++ regions.flatten, keys := keys }

end Cspuz.Puzzles.StarBattle
