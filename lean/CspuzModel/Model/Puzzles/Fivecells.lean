/-
  Model of `cspuz/puzzle/fivecells.py::solve_fivecells(height, width, problem)`: the program posted before
  `solver.solve()`, and the flag `is_invalid` (when it is set, `solve()` is not called and the function returns
  `False`).  Import-free (core Lean + model files only).

  Problem format: `problem[y][x] >= -1` board cell (`-1` empty, `>= 0` number), anything smaller: blocked out.
-/
import CspuzModel.Model.Puzzles.CLUtil
namespace Cspuz.Puzzles.Fivecells
open Cspuz Cspuz.Spec Cspuz.Puzzles

structure Problem where
  height : Nat
  width : Nat
  problem : List (List Int)
  deriving Repr, Inhabited

/-- The first double loop: `vertex_id` as a table (`-1` for blocked-out cells) and `id_last`. -/
def vertexIds (pb : Problem) : Py (List (List Int) × Nat) := do
  let init : List (List Int) := List.replicate pb.height (List.replicate pb.width (-1))
  (cellsOf pb.height pb.width).foldlM (fun (st : List (List Int) × Nat) (p : Nat × Nat) => do
    let v ← tableGet pb.problem p.1 p.2
    if v ≥ -1 then do
      let t ← tableSet st.1 p.1 p.2 st.2
      .ok (t, st.2 + 1)
    else .ok st) (init, 0)

/-- `g.add_edge(i, j)`: `IndexError` unless both are vertices. -/
def addEdge (g : Graph) (i j : Int) : Py Graph :=
  if 0 ≤ i ∧ i < g.n ∧ 0 ≤ j ∧ j < g.n then .ok { g with edges := g.edges ++ [(i.toNat, j.toNat)] }
  else .error .indexError

/-- The second double loop: the graph of edge-adjacent board cells. -/
def buildGraph (pb : Problem) (vid : List (List Int)) (n : Nat) : Py Graph :=
  (cellsOf pb.height pb.width).foldlM (fun (g : Graph) (p : Nat × Nat) => do
    let y : Int := p.1
    let x : Int := p.2
    let v ← tableGet pb.problem y x
    if v ≥ -1 then do
      let g ← if y < (pb.height : Int) - 1 then do
            let v2 ← tableGet pb.problem (y + 1) x
            if v2 ≥ -1 then addEdge g (← tableGet vid y x) (← tableGet vid (y + 1) x) else pure g
          else pure g
      if x < (pb.width : Int) - 1 then do
        let v2 ← tableGet pb.problem y (x + 1)
        if v2 ≥ -1 then addEdge g (← tableGet vid y x) (← tableGet vid y (x + 1)) else pure g
      else pure g
    else .ok g) { n := n, edges := [] }

/-- `group_id[vertex_id[y][x]]` (`IntArray1D.__getitem__` with an int is Python list indexing). -/
def gidAt (gid : List Expr) (vid : List (List Int)) (y x : Int) : Py Expr := do
  pyIndex gid (← tableGet vid y x)

/-- `group_id[vertex_id[y][x]] != group_id[vertex_id[y2][x2]]` if the guard holds and the neighbour is a board cell. -/
def borderTo (pb : Problem) (gid : List Expr) (vid : List (List Int)) (y x : Int) (guard : Bool) (y2 x2 : Int) :
    Py (List ANest) :=
  if guard then do
    let v2 ← tableGet pb.problem y2 x2
    if v2 ≥ -1 then do
      let a ← gidAt gid vid y x
      let b ← gidAt gid vid y2 x2
      let ne ← binop .ne (.scalar a) (.scalar b)
      .ok [.leaf ne]
    else .ok []
  else .ok []

/-- Body of the clue loop for the cell `(y, x)`: the posted constraint (if any) and whether `is_invalid` gets set. -/
def cellCs (pb : Problem) (gid : List Expr) (vid : List (List Int)) (p : Nat × Nat) : Py (List Expr × Bool) := do
  let y : Int := p.1
  let x : Int := p.2
  let h : Int := pb.height
  let w : Int := pb.width
  let v ← tableGet pb.problem y x
  if v ≥ 0 then do
    let b1 ← borderTo pb gid vid y x (y > 0) (y - 1) x
    let b2 ← borderTo pb gid vid y x (y < h - 1) (y + 1) x
    let b3 ← borderTo pb gid vid y x (x > 0) y (x - 1)
    let b4 ← borderTo pb gid vid y x (x < w - 1) y (x + 1)
    let borders := b1 ++ b2 ++ b3 ++ b4
    let always : Int := 4 - (borders.length : Int)
    let ct ← countTrueA [.items borders]
    let c ← binop .eq (.scalar ct) (.scalar (.litI (v - always)))
    let cs ← ensureV c
    .ok (cs, v - always < 0)
  else .ok ([], false)

structure Result where
  prog : PuzzleProg
  /-- `is_invalid`: `solve()` is skipped and `is_sat = False` is returned -/
  isInvalid : Bool
  deriving Inhabited

/-- Everything `solve_fivecells` does before the final `if is_invalid`. -/
def run (pb : Problem) : Py Result := do
  let (vid, n) ← vertexIds pb
  let g ← buildGraph pb vid n
  let (vg, gid) ← variableGroups g (.scalar (.litI 5)) 0
  let cells ← (cellsOf pb.height pb.width).mapM (cellCs pb gid vid)
  let m := g.edges.length
  let bb := vg.decls.length
  let isBorder := bvars bb m
  let defs ← g.edges.zipIdx.mapM fun (uv : (Nat × Nat) × Nat) => do
    let a ← pyIndex gid (uv.1.1 : Int)
    let b ← pyIndex gid (uv.1.2 : Int)
    let ne ← binop .ne (.scalar a) (.scalar b)
    let e ← binop .eq (.scalar (.bvar (bb + uv.2))) ne
    ensureV e
  let keys ← addKeysV (.arr1 true isBorder) []
  .ok { prog := { decls := vg.decls ++ List.replicate m .bool,
                  cs := vg.cs ++ (cells.map (·.1)).flatten ++ defs.flatten, keys := keys },
        isInvalid := cells.any (·.2) }

/-- The program posted by `solve_fivecells`. -/
def program (pb : Problem) : Py PuzzleProg := (run pb).map (·.prog)

end Cspuz.Puzzles.Fivecells
