/-
  Helpers shared by the models of the loop puzzle solvers (slitherlink, simpleloop, masyu, geradeweg,
  yajilin): the common prologue `BoolGridFrame(...)` + `graph.active_edges_single_cycle(solver, frame)`,
  the scalar Python operators `|`, `!=` (on Booleans) and `+` that Model/Graph.lean does not have yet, and
  Python's double indexing `a[i][j]`.  Import-free (core Lean + model files only).
-/
import CspuzModel.Model.Puzzles.CLUtil
namespace Cspuz.Puzzles.Loop
open Cspuz Cspuz.Spec Cspuz.Puzzles

/-- Python `a | b` where each side is a `BoolExpr` or a Python bool (`bool | bool` is a bool; otherwise
`BoolExpr.__or__` / `__ror__` build `OR [a, b]`, operands in source order). -/
def orPy (a b : Expr) : Py Expr :=
  match a, b with
  | .litB x, .litB y => .ok (.litB (x || y))
  | _, _ => if a.isBoolLike && b.isBoolLike then .ok (.node .or [a, b]) else .error .typeError

/-- Python `a != b` with `a` a `BoolExpr` (`BoolExpr.__ne__`: `XOR [a, b]`). -/
def xorE (a b : Expr) : Py Expr :=
  if a.isBoolExpr && b.isBoolLike then .ok (.node .xor [a, b]) else .error .typeError

/-- Python `a + b` where each side is an `IntExpr` or a Python int (`int + int` is an int; otherwise
`IntExpr.__add__` / `__radd__` build `ADD [a, b]`, operands in source order). -/
def addPy (a b : Expr) : Py Expr :=
  match a, b with
  | .litI x, .litI y => .ok (.litI (x + y))
  | _, _ => if a.isIntLike && b.isIntLike then .ok (.node .add [a, b]) else .error .typeError

/-- `a[i][j]` on an `Array2D`: `a[i]` is the row as an `Array1D` (`_getitem_impl` with an int key), then
`Array1D.__getitem__(j)` is `self.data[j]` (Python list indexing). -/
def rowCol (a : Arr2) (i j : Int) : Py Expr := do
  match ← getitem2D a.data a.h a.w (.one (.idx i)) with
  | .arr1 row => pyIndex row j
  | _ => .error .typeError

/-- What the common prologue of the loop puzzles produces. -/
structure Setup where
  frame : Frame
  /-- number of variables declared so far (frame + auxiliary variables of the cycle constraint) -/
  nvars : Nat
  decls : List VarDecl
  cs : List Expr
  /-- `is_passed`, the `(H+1) × (W+1)` array returned by `active_edges_single_cycle` -/
  isPassed : Arr2
  deriving Inhabited

/-- `grid_frame = BoolGridFrame(solver, H, W); is_passed = graph.active_edges_single_cycle(solver, grid_frame)`
on a fresh solver. -/
def setup (H W : Nat) (prim : Bool) : Py Setup := do
  let f := Frame.fresh 0 H W
  let nv := Frame.numVars H W
  let (es, g) ← fromGridFrame f
  let (p, ids) ← singleCycle g es prim nv
  match ← reshape ids (H + 1) (W + 1) with
  | .arr2 h w d =>
    .ok { frame := f, nvars := nv + p.decls.length, decls := List.replicate nv .bool ++ p.decls, cs := p.cs,
          isPassed := ⟨h, w, d⟩ }
  | _ => .error .typeError

/-- `solver.add_answer_key(grid_frame)`: `flatten_iterator` walks `BoolGridFrame.__iter__`
(horizontal array, then vertical array). -/
def frameKeys (f : Frame) (already : List Nat) : Py (List Nat) := addKeysV (.arr1 true f.allEdges) already

end Cspuz.Puzzles.Loop
