/-
  Model of `cspuz/puzzle/building.py::solve_building(n, up, dw, lf, rg)` up to the call of `solver.solve()`:
  the posted program.  Import-free (core Lean + model files only).

  Problem format: four lists of length `n`; a clue `< 1` means "no clue".
-/
import CspuzModel.Model.Puzzles.CLUtil
namespace Cspuz.Puzzles.Building
open Cspuz Cspuz.Spec Cspuz.Puzzles

structure Problem where
  n : Nat
  up : List Int
  dw : List Int
  lf : List Int
  rg : List Int
  deriving Repr, Inhabited

def answer (pb : Problem) : PyV := .arr2 false pb.n pb.n (ivars 0 (pb.n * pb.n))

/-- `list(answer[key])` for a key that selects a 1-D array. -/
def line (pb : Problem) (key : Key2) : Py (List Expr) := do
  match ← getitemV (answer pb) key with
  | .arr1 _ l => .ok l
  | _ => .error .typeError

def rowKey (i : Nat) : Key2 := .pair (.idx i) fullSlice
def colKey (i : Nat) : Key2 := .pair fullSlice (.idx i)

/-- `fold_and([cells[j] < cells[i] for j in range(i)]).cond(1, 0)`. -/
def visibleTerm (cells : List Expr) (i : Nat) : Py Expr := do
  let ci ← getE cells i
  let conds ← (List.range i).mapM fun j => do
    let cj ← getE cells j
    cmpPy .lt cj ci
  let fa ← foldAnd conds
  condE fa (.litI 1) (.litI 0)

/-- `num_visible_buildings(cells)`: `res = 1; for i in range(1, len(cells)): res += …`. -/
def numVisible (cells : List Expr) : Py PyV :=
  (List.range' 1 (cells.length - 1)).foldlM (fun (res : PyV) (i : Nat) => do
    let t ← visibleTerm cells i
    binop .add res (.scalar t)) (.scalar (.litI 1))

/-- `if clue[i] >= 1: solver.ensure(num_visible_buildings(cells) == clue[i])`. -/
def clueCs (clue : List Int) (i : Nat) (cells : List Expr) : Py (List Expr) := do
  let c ← pyIndex clue i
  if c ≥ 1 then do
    let nv ← numVisible cells
    let e ← binop .eq nv (.scalar (.litI c))
    ensureV e
  else .ok []

/-- The program posted by `solve_building`. -/
def program (pb : Problem) : Py PuzzleProg := do
  let n := pb.n
  let decls ← intArrayDecls (n * n) 1 n
  let keys ← addKeysV (answer pb) []
  let lat ← (List.range n).mapM fun (i : Nat) => do
    let row ← line pb (rowKey i)
    let c1 ← alldifferentE row
    let e1 ← ensure1 c1
    let col ← line pb (colKey i)
    let c2 ← alldifferentE col
    let e2 ← ensure1 c2
    .ok [e1, e2]
  let clues ← (List.range n).mapM fun (i : Nat) => do
    let col ← line pb (colKey i)
    let c1 ← clueCs pb.up i col
    let c2 ← clueCs pb.dw i col.reverse
    let row ← line pb (rowKey i)
    let c3 ← clueCs pb.lf i row
    let c4 ← clueCs pb.rg i row.reverse
    .ok (c1 ++ c2 ++ c3 ++ c4)
  .ok { decls := decls, cs := lat.flatten ++ clues.flatten, keys := keys }

end Cspuz.Puzzles.Building
