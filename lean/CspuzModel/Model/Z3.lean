/-
  Model of cspuz/backend/z3.py: `_convert_expr` (operator-by-operator translation into z3py terms,
  with z3py's coercion of Python literals) and `Z3Backend.solve`.  Import-free.

  z3 itself is an external decision procedure: it is a parameter (`Z3Oracle`) whose assumed behaviour
  (`Z3Oracle.Correct`) is an explicit hypothesis of the C01/C02 theorems.
-/
import CspuzModel.Model.Dsl
namespace Cspuz

/-- z3 terms as built through z3py (after its coercion of Python literals to `BoolVal`/`IntVal`). -/
inductive ZT
  | bconst (id : Nat)
  | iconst (id : Nat)
  | bval (b : Bool)
  | ival (n : Int)
  | neg (a : ZT)
  | add (a b : ZT)
  | sub (a b : ZT)
  | cmp (op : Op) (a b : ZT)        -- integer comparison (`==`, `!=`, `<=`, `<`, `>=`, `>`)
  | beq (a b : ZT)                  -- `==` on Booleans
  | not (a : ZT)
  | and (l : List ZT)
  | or (l : List ZT)
  | xor (a b : ZT)
  | ite (c a b : ZT)
  | distinct (l : List ZT)
  deriving Repr, Inhabited

/-- What `_convert_expr` returns: a Python bool / int (constant sub-expressions are folded by Python
itself) or a z3 term. -/
inductive ZV
  | pyB (b : Bool)
  | pyI (n : Int)
  | t (x : ZT)
  deriving Repr, Inhabited

mutual
/-- Meaning of a z3 term (`none` = sort error, which z3py would reject with an exception). -/
def zeval (σ : Asg) : ZT → Option Val
  | .bconst id => some (.b (σ.b id))
  | .iconst id => some (.i (σ.i id))
  | .bval b => some (.b b)
  | .ival n => some (.i n)
  | .neg a => match zeval σ a with | some (.i v) => some (.i (-v)) | _ => none
  | .add a b => match zeval σ a, zeval σ b with | some (.i x), some (.i y) => some (.i (x + y)) | _, _ => none
  | .sub a b => match zeval σ a, zeval σ b with | some (.i x), some (.i y) => some (.i (x - y)) | _, _ => none
  | .cmp op a b => match zeval σ a, zeval σ b with
      | some (.i x), some (.i y) => some (.b (cmpOp op x y)) | _, _ => none
  | .beq a b => match zeval σ a, zeval σ b with | some (.b x), some (.b y) => some (.b (x == y)) | _, _ => none
  | .not a => match zeval σ a with | some (.b v) => some (.b (!v)) | _ => none
  | .and l => match allBools (zevalList σ l) with | some bs => some (.b (bs.all id)) | none => none
  | .or l => match allBools (zevalList σ l) with | some bs => some (.b (bs.any id)) | none => none
  | .xor a b => match zeval σ a, zeval σ b with | some (.b x), some (.b y) => some (.b (x != y)) | _, _ => none
  | .ite c a b => match zeval σ c, zeval σ a, zeval σ b with
      | some (.b x), some (.i y), some (.i z) => some (.i (if x then y else z)) | _, _, _ => none
  | .distinct l => match allInts (zevalList σ l) with | some xs => some (.b (allDistinct xs)) | none => none
def zevalList (σ : Asg) : List ZT → List (Option Val)
  | [] => []
  | a :: r => zeval σ a :: zevalList σ r
end

def ZV.val (σ : Asg) : ZV → Option Val
  | .pyB b => some (.b b)
  | .pyI n => some (.i n)
  | .t x => zeval σ x

/-- z3py coerces a Python literal that meets a z3 term. -/
def ZV.term : ZV → ZT
  | .pyB b => .bval b
  | .pyI n => .ival n
  | .t x => x

def ZV.isTerm : ZV → Bool
  | .t _ => true
  | _ => false

/-- Python `a + b` / `a - b` on converted operands. -/
def zArith (sub : Bool) (a b : ZV) : Py ZV :=
  match a, b with
  | .pyI x, .pyI y => .ok (.pyI (if sub then x - y else x + y))
  | .pyB _, _ => .error .z3Exception
  | _, .pyB _ => .error .z3Exception
  | _, _ => .ok (.t (if sub then .sub a.term b.term else .add a.term b.term))

def zFold (sub : Bool) : ZV → List ZV → Py ZV
  | acc, [] => .ok acc
  | acc, x :: r => do zFold sub (← zArith sub acc x) r

/-- Python comparison on converted integer operands. -/
def zCmp (op : Op) (a b : ZV) : Py ZV :=
  match a, b with
  | .pyI x, .pyI y => .ok (.pyB (cmpOp op x y))
  | .pyB _, _ => .error .z3Exception
  | _, .pyB _ => .error .z3Exception
  | _, _ => .ok (.t (.cmp op a.term b.term))

def pyDistinct : List ZV → Option (List Int)
  | [] => some []
  | .pyI n :: r => (pyDistinct r).map (n :: ·)
  | _ :: _ => none

/-- The operator dispatch of `_convert_expr` on already converted operands. -/
def convertOp (op : Op) (xs : List ZV) : Py ZV :=
  match op, xs with
  | .boolConst, x :: _ => .ok x
  | .intConst, x :: _ => .ok x
  | .neg, x :: _ => (match x with
      | .pyI n => .ok (.pyI (-n))
      | .pyB _ => .error .z3Exception
      | .t a => .ok (.t (.neg a)))
  | .add, x :: r => zFold false x r
  | .sub, x :: r => zFold true x r
  | .eq, [a, b] => zCmp .eq a b
  | .ne, [a, b] => zCmp .ne a b
  | .le, [a, b] => zCmp .le a b
  | .lt, [a, b] => zCmp .lt a b
  | .ge, [a, b] => zCmp .ge a b
  | .gt, [a, b] => zCmp .gt a b
  | .not, x :: _ => .ok (.t (.not x.term))
  | .and, l => .ok (.t (.and (l.map ZV.term)))
  | .or, l => .ok (.t (.or (l.map ZV.term)))
  | .xor, a :: b :: _ => .ok (.t (.xor a.term b.term))
  | .iff, a :: b :: _ => (match a, b with
      | .pyB x, .pyB y => .ok (.pyB (x == y))
      | _, _ => .ok (.t (.beq a.term b.term)))
  | .imp, a :: b :: _ => .ok (.t (.or [.not a.term, b.term]))
  | .ite, c :: a :: b :: _ => .ok (.t (.ite c.term a.term b.term))
  | .alldiff, l =>
    if l.any ZV.isTerm then .ok (.t (.distinct (l.map ZV.term)))
    else (match pyDistinct l with
      | some ns => .ok (.pyB (allDistinct ns))
      | none => .error .typeError)
  | .graphAVC, _ => .error .valueError
  | .graphDiv, _ => .error .valueError
  | .var, _ => .error .valueError
  | _, _ => .error .indexError        -- `operands[k]` on a too short operand list

mutual
/-- `_convert_expr(e, variables_dict)`. -/
def convertExpr : Expr → Py ZV
  | .bvar id => .ok (.t (.bconst id))
  | .ivar id => .ok (.t (.iconst id))
  | .litB b => .ok (.pyB b)
  | .litI n => .ok (.pyI n)
  | .litNone => .error .typeError
  | .node op args => do
    let xs ← convertList args
    convertOp op xs
def convertList : List Expr → Py (List ZV)
  | [] => .ok []
  | e :: r => do
    let x ← convertExpr e
    let xs ← convertList r
    .ok (x :: xs)
end

/-- A z3 query: the declared variables (bounds are asserted per integer variable) and the converted
constraints.  `σ` is a z3 model of it. -/
def Z3Sat (decls : List VarDecl) (zs : List ZV) (σ : Asg) : Prop :=
  σ.respects decls ∧ ∀ z ∈ zs, z.val σ = some (.b true)

/-- The external solver: `check()` + `model()`. -/
def Z3Oracle := List VarDecl → List ZV → Option Asg

/-- z3 is a correct decision procedure for these queries. -/
def Z3Oracle.Correct (o : Z3Oracle) : Prop :=
  ∀ decls zs, (∀ σ, o decls zs = some σ → Z3Sat decls zs σ) ∧ (o decls zs = none → ∀ σ, ¬ Z3Sat decls zs σ)

end Cspuz
