/-
  Model of cspuz/grid_frame.py and `graph._from_grid_frame`.  Import-free.
-/
import CspuzModel.Model.Index
import CspuzModel.Model.GraphBase
namespace Cspuz

/-- A 2-D array of expressions (shape + row-major data). -/
structure Arr2 where
  h : Nat
  w : Nat
  data : List Expr
  deriving Repr, Inhabited

/-- `arr[y, x]` with two integers (goes through `Array2D._getitem_impl`). -/
def Arr2.get (a : Arr2) (y x : Int) : Py Expr :=
  match getitemPair a.data a.h a.w (.idx y) (.idx x) with
  | .ok (.scalar v) => .ok v
  | .ok _ => .error .typeError
  | .error e => .error e

def bvars (base n : Nat) : List Expr := (List.range n).map fun i => .bvar (base + i)

/-- `BoolGridFrame` (edges of a `height × width` grid). -/
structure Frame where
  height : Nat
  width : Nat
  horizontal : Arr2
  vertical : Arr2
  deriving Repr, Inhabited

/-- `BoolGridFrame(solver, height, width)`: horizontal `(h+1)×w` is allocated first, then vertical `h×(w+1)`. -/
def Frame.fresh (base height width : Nat) : Frame :=
  { height, width,
    horizontal := ⟨height + 1, width, bvars base ((height + 1) * width)⟩,
    vertical := ⟨height, width + 1, bvars (base + (height + 1) * width) (height * (width + 1))⟩ }

def Frame.numVars (height width : Nat) : Nat := (height + 1) * width + height * (width + 1)

/-- `BoolGridFrame.__getitem__((y, x))` in doubled coordinates. -/
def Frame.getitem (f : Frame) (y x : Int) : Py Expr :=
  if ¬ (0 ≤ y ∧ y ≤ (f.height : Int) * 2 ∧ 0 ≤ x ∧ x ≤ (f.width : Int) * 2) then .error .indexError
  else if pyMod y 2 = 0 ∧ pyMod x 2 = 1 then f.horizontal.get (pyDiv y 2) (pyDiv x 2)
  else if pyMod y 2 = 1 ∧ pyMod x 2 = 0 then f.vertical.get (pyDiv y 2) (pyDiv x 2)
  else .error .indexError

/-- `all_edges()` / `__iter__`: horizontal then vertical, each row-major. -/
def Frame.allEdges (f : Frame) : List Expr := f.horizontal.data ++ f.vertical.data

/-- `cell_neighbors(y, x)`. -/
def Frame.cellNeighbors (f : Frame) (y x : Int) : Py (List Expr) :=
  if ¬ (0 ≤ y ∧ y < f.height ∧ 0 ≤ x ∧ x < f.width) then .error .indexError
  else do
    let a ← f.horizontal.get y x
    let b ← f.horizontal.get (y + 1) x
    let c ← f.vertical.get y x
    let d ← f.vertical.get y (x + 1)
    .ok [a, b, c, d]

/-- `vertex_neighbors(y, x)`. -/
def Frame.vertexNeighbors (f : Frame) (y x : Int) : Py (List Expr) :=
  if ¬ (0 ≤ y ∧ y ≤ f.height ∧ 0 ≤ x ∧ x ≤ f.width) then .error .indexError
  else do
    let a ← if y > 0 then (f.vertical.get (y - 1) x).map ([·]) else .ok []
    let b ← if y < f.height then (f.vertical.get y x).map ([·]) else .ok []
    let c ← if x > 0 then (f.horizontal.get y (x - 1)).map ([·]) else .ok []
    let d ← if x < f.width then (f.horizontal.get y x).map ([·]) else .ok []
    .ok (a ++ b ++ c ++ d)

/-- `BoolInnerGridFrame` (inner borders of a `height × width` board). -/
structure InnerFrame where
  height : Nat
  width : Nat
  horizontal : Arr2
  vertical : Arr2
  deriving Repr, Inhabited

def InnerFrame.fresh (base height width : Nat) : InnerFrame :=
  { height, width,
    horizontal := ⟨height - 1, width, bvars base ((height - 1) * width)⟩,
    vertical := ⟨height, width - 1, bvars (base + (height - 1) * width) (height * (width - 1))⟩ }

/-- `BoolGridFrame.dual()`. -/
def Frame.dual (f : Frame) : InnerFrame :=
  { height := f.height + 1, width := f.width + 1, horizontal := f.vertical, vertical := f.horizontal }

/-- `BoolInnerGridFrame.dual()` (`height - 1`, `width - 1`; the model needs `height, width ≥ 1`). -/
def InnerFrame.dual (f : InnerFrame) : Frame :=
  { height := f.height - 1, width := f.width - 1, horizontal := f.vertical, vertical := f.horizontal }

/-- `graph._from_grid_frame(frame)`: the edge expressions and the lattice graph, in the loop's order. -/
def fromGridFrame (f : Frame) : Py (List Expr × Graph) := do
  let H := f.height
  let W := f.width
  let items ← ((List.range (H + 1)).flatMap fun y => (List.range (W + 1)).map fun x => (y, x)).mapM
    fun (yx : Nat × Nat) => do
      let y := yx.1
      let x := yx.2
      let a ← if y ≠ H then do
            let e ← f.getitem ((y : Int) * 2 + 1) ((x : Int) * 2)
            pure [(e, (y * (W + 1) + x, (y + 1) * (W + 1) + x))]
          else pure []
      let b ← if x ≠ W then do
            let e ← f.getitem ((y : Int) * 2) ((x : Int) * 2 + 1)
            pure [(e, (y * (W + 1) + x, y * (W + 1) + (x + 1)))]
          else pure []
      pure (a ++ b)
  let flat := items.flatten
  .ok (flat.map (·.1), { n := (H + 1) * (W + 1), edges := flat.map (·.2) })

end Cspuz
