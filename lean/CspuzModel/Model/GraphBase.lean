/-
  Model of cspuz.graph.Graph, `_grid_graph`, `Graph.line_graph`.  Import-free.
-/
import CspuzModel.Model.Dsl
namespace Cspuz

/-- `cspuz.graph.Graph`: vertex count and the edge list in insertion order. -/
structure Graph where
  n : Nat
  edges : List (Nat × Nat)
  deriving Repr, Inhabited, DecidableEq

namespace Graph

/-- `incident_edges[v]`: `(neighbour, edge id)` in insertion order (`add_edge(i, j)` appends
`(j, e)` to `i`'s list and then `(i, e)` to `j`'s list). -/
def incident (g : Graph) (v : Nat) : List (Nat × Nat) :=
  (g.edges.zipIdx).flatMap fun (ab, e) =>
    (if ab.1 = v then [(ab.2, e)] else []) ++ (if ab.2 = v then [(ab.1, e)] else [])

/-- Every endpoint is a vertex (otherwise `add_edge` raises `IndexError`). -/
def wf (g : Graph) : Bool := g.edges.all fun ab => ab.1 < g.n && ab.2 < g.n

/-- `_grid_graph(height, width)`. -/
def grid (h w : Nat) : Graph :=
  { n := h * w,
    edges := (List.range h).flatMap fun y => (List.range w).flatMap fun x =>
      (if x + 1 < w then [(y * w + x, y * w + (x + 1))] else []) ++
      (if y + 1 < h then [(y * w + x, (y + 1) * w + x)] else []) }

/-- `Graph.line_graph()`; the Python builds the edge list from a `set`, so its order is
unspecified: the model lists the pairs in sorted order and the harness compares edge *sets*. -/
def lineGraphPairs (g : Graph) : List (Nat × Nat) :=
  let m := g.edges.length
  (List.range m).flatMap fun x => (List.range m).filterMap fun y =>
    if x < y ∧ (List.range g.n).any (fun v =>
        (g.incident v).any (fun p => p.2 = x) && (g.incident v).any (fun p => p.2 = y))
    then some (x, y) else none

def lineGraph (g : Graph) : Graph := { n := g.edges.length, edges := g.lineGraphPairs }

end Graph
end Cspuz
