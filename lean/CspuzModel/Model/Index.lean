/-
  Model of cspuz/array.py indexing: `_parse_range`, `_range_size`, `Array2D._getitem_impl`,
  1-D `__getitem__`, `flatten`, `_reshape`.  Import-free.

  Python `slice.indices(size)` (CPython `PySlice_Unpack` + `PySlice_AdjustIndices`) is a call
  into CPython; it is modelled by `sliceIndices` (validated against CPython by the
  correspondence run of C13, not verified).
-/
import CspuzModel.Model.Py
namespace Cspuz

/-- A key for one axis: an integer or a slice whose three fields may be `None`. -/
inductive AxisKey
  | idx (k : Int)
  | slice (start stop step : Option Int)
  deriving Repr, DecidableEq

/-- `slice(start, stop, step).indices(size)`; `ValueError` for step 0. -/
def sliceIndices (size : Nat) (start stop step : Option Int) : Py (Int × Int × Int) :=
  let n : Int := size
  let st : Int := step.getD 1
  if st = 0 then .error .valueError
  else
    let s : Int :=
      match start with
      | none => if st < 0 then n - 1 else 0
      | some a =>
        let a := if a < 0 then a + n else a
        if a < 0 then (if st < 0 then -1 else 0)
        else if a ≥ n then (if st < 0 then n - 1 else n)
        else a
    let e : Int :=
      match stop with
      | none => if st < 0 then -1 else n
      | some b =>
        let b := if b < 0 then b + n else b
        if b < 0 then (if st < 0 then -1 else 0)
        else if b ≥ n then (if st < 0 then n - 1 else n)
        else b
    .ok (s, e, st)

/-- `_parse_range(size, key)`: `(fixed, start, stop, step)`. -/
def parseRange (size : Nat) : AxisKey → Py (Bool × Int × Int × Int)
  | .idx k =>
    let n : Int := size
    let p := if k < 0 then k + n else k
    if 0 ≤ p ∧ p < n then .ok (true, p, p + 1, 1) else .error .indexError
  | .slice a b c => do
    let (s, e, st) ← sliceIndices size a b c
    .ok (false, s, e, st)

/-- `_range_size(start, stop, step)`. -/
def rangeSize (start stop step : Int) : Py Int :=
  if step = 0 then .error .valueError
  else if step > 0 then
    if start ≥ stop then .ok 0 else .ok (pyDiv (stop - start + step - 1) step)
  else
    if start ≤ stop then .ok 0 else .ok (pyDiv (start - stop - step - 1) (-step))

inductive Key2
  | one (k : AxisKey)
  | pair (ky kx : AxisKey)
  | coords (l : List (Int × Int))
  deriving Repr

inductive IdxResult (α : Type)
  | scalar (x : α)
  | arr1 (l : List α)
  | arr2 (h w : Nat) (l : List α)
  deriving Repr, DecidableEq

/-- The gather loop of `_getitem_impl`: `for i in range(ysz * xsz)`. -/
def gather {α} (data : List α) (w : Nat) (ys yst xs xst : Int) (ysz xsz : Int) : Py (List α) :=
  (List.range (ysz * xsz).toNat).mapM fun (k : Nat) =>
    let i : Int := Int.ofNat k
    let y := ys + yst * pyDiv i xsz
    let x := xs + xst * pyMod i xsz
    pyIndex data (y * w + x)

def getitemPair {α} (data : List α) (h w : Nat) (ky kx : AxisKey) : Py (IdxResult α) := do
  let (yf, ys, ye, yst) ← parseRange h ky
  let (xf, xs, xe, xst) ← parseRange w kx
  let ysz ← rangeSize ys ye yst
  let xsz ← rangeSize xs xe xst
  if yf ∧ xf then
    let x ← pyIndex data (ys * w + xs)
    .ok (.scalar x)
  else
    let l ← gather data w ys yst xs xst ysz xsz
    if ¬ (yf ∨ xf) then .ok (.arr2 ysz.toNat xsz.toNat l) else .ok (.arr1 l)

/-- `Array2D._getitem_impl` (keys: int, slice, pair, list of coordinate pairs). -/
def getitem2D {α} (data : List α) (h w : Nat) : Key2 → Py (IdxResult α)
  | .one k => getitemPair data h w k (.slice none none none)
  | .pair ky kx => getitemPair data h w ky kx
  | .coords l => do
    let xs ← l.mapM fun (y, x) => do
      match ← getitemPair data h w (.idx y) (.idx x) with
      | .scalar v => .ok v
      | _ => .error .typeError
    .ok (.arr1 xs)

/-- `_reshape`: `ValueError` unless the sizes agree; data order unchanged. -/
def reshape {α} (data : List α) (h w : Nat) : Py (IdxResult α) :=
  if data.length ≠ h * w then .error .valueError else .ok (.arr2 h w data)

/-- `_infer_shape(data)`: `ValueError` when there is no row ("shape cannot be inferred for empty
lists"); `height = len(data)`, `width = len(data[0])`; `ValueError` when some later row has another
length ("jugged arrays"); else `(height, width)`. -/
def inferShape {α} (rows : List (List α)) : Py (Nat × Nat) :=
  match rows with
  | [] => .error .valueError
  | r0 :: rest =>
    let height := rows.length
    let width := r0.length
    if rest.all (fun r => r.length == width) then .ok (height, width) else .error .valueError

/-- `_flatten(data)`: `ret = []; for row in data: ret += row`. -/
def flattenRows {α} (rows : List (List α)) : List α :=
  rows.foldl (fun ret row => ret ++ row) []

/-- `Array2D.__init__(data, shape=None)`: the nested form.  `data` is first turned into a list of
lists (`list(map(list, data))`, so rows may be any iterables), the shape is inferred
(`_infer_shape`, which runs first, so its `ValueError` wins) and the rows are concatenated
(`_flatten`).  Result: `(shape[0], shape[1], data)`.
Out of scope: an element of `data` that is not iterable (Python raises `TypeError` from `list(e)`);
here every row is a list by typing. -/
def ofNested {α} (rows : List (List α)) : Py (Nat × Nat × List α) := do
  let (h, w) ← inferShape rows
  let data := flattenRows rows
  .ok (h, w, data)

end Cspuz
