/-
  Wire format of expression trees and programs (shared by the driver and the Python printer
  harness/exprio.py).  Import-free.
-/
import CspuzModel.Model.Sexp
import CspuzModel.Model.Dsl
namespace Cspuz

mutual
def Expr.toSexp : Expr → Sexp
  | .bvar id => .atom ("b" ++ toString id)
  | .ivar id => .atom ("i" ++ toString id)
  | .litB b => Sexp.ofBool b
  | .litI n => Sexp.ofInt n
  | .litNone => .atom "N"
  | .node op args => .list (.atom op.name :: Expr.toSexps args)
def Expr.toSexps : List Expr → List Sexp
  | [] => []
  | e :: r => e.toSexp :: Expr.toSexps r
end

def atomExpr? (s : String) : Option Expr :=
  if s == "T" then some (.litB true)
  else if s == "F" then some (.litB false)
  else if s == "N" then some .litNone
  else match s.toInt? with
    | some n => some (.litI n)
    | none =>
      if s.startsWith "b" then ((s.drop 1).toNat?).map .bvar
      else if s.startsWith "i" then ((s.drop 1).toNat?).map .ivar
      else none

mutual
def Expr.ofSexp? : Sexp → Option Expr
  | .atom s => atomExpr? s
  | .list (.atom nm :: args) =>
    match Op.ofName? nm, Expr.ofSexps? args with
    | some op, some as => some (.node op as)
    | _, _ => none
  | .list _ => none
def Expr.ofSexps? : List Sexp → Option (List Expr)
  | [] => some []
  | s :: r =>
    match Expr.ofSexp? s, Expr.ofSexps? r with
    | some e, some es => some (e :: es)
    | _, _ => none
end

def VarDecl.toSexp : VarDecl → Sexp
  | .bool => .atom "b"
  | .int lo hi => .list [.atom "i", .ofInt lo, .ofInt hi]

def VarDecl.ofSexp? : Sexp → Option VarDecl
  | .atom "b" => some .bool
  | .list [.atom "i", lo, hi] => do some (.int (← lo.toInt?) (← hi.toInt?))
  | _ => none

def Prog.toSexp (p : Prog) : Sexp :=
  .list (.atom "prog" :: .list (p.decls.map VarDecl.toSexp) :: p.cs.map Expr.toSexp)

def pyResult {α} (f : α → Sexp) : Py α → Sexp
  | .ok a => f a
  | .error e => .list [.atom "err", .atom e.name]

end Cspuz
