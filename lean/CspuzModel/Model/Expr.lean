/-
  Model of cspuz/expr.py expression trees and their reference ("ordinary arithmetic / logical")
  meaning.  Import-free.
-/
import CspuzModel.Model.Py
namespace Cspuz

/-- `cspuz.expr.Op` (same order as the Python enum). -/
inductive Op
  | var | boolConst | intConst | neg | add | sub | eq | ne | le | lt | ge | gt
  | not | and | or | iff | xor | imp | ite | alldiff | graphAVC | graphDiv
  deriving DecidableEq, Repr, Inhabited

/-- lower-cased Python enum member names (the wire names of the protocol). -/
def Op.name : Op → String
  | .var => "var" | .boolConst => "bool_constant" | .intConst => "int_constant" | .neg => "neg"
  | .add => "add" | .sub => "sub" | .eq => "eq" | .ne => "ne" | .le => "le" | .lt => "lt"
  | .ge => "ge" | .gt => "gt" | .not => "not" | .and => "and" | .or => "or" | .iff => "iff"
  | .xor => "xor" | .imp => "imp" | .ite => "if" | .alldiff => "alldiff"
  | .graphAVC => "graph_active_vertices_connected" | .graphDiv => "graph_division"

def Op.all : List Op :=
  [.var, .boolConst, .intConst, .neg, .add, .sub, .eq, .ne, .le, .lt, .ge, .gt,
   .not, .and, .or, .iff, .xor, .imp, .ite, .alldiff, .graphAVC, .graphDiv]

def Op.ofName? (s : String) : Option Op := Op.all.find? (fun o => o.name == s)

/-- `is_bool_op` of expr.py (note: the two graph operators are in neither list). -/
def Op.isBoolOp : Op → Bool
  | .boolConst | .eq | .ne | .le | .lt | .ge | .gt | .not | .and | .or | .iff | .xor | .imp | .alldiff => true
  | _ => false

def Op.isIntOp : Op → Bool
  | .intConst | .neg | .add | .sub | .ite => true
  | _ => false

def Op.isCmp : Op → Bool
  | .eq | .ne | .le | .lt | .ge | .gt => true
  | _ => false

/-- Expression trees.  Operands may be Python literals (`litB`, `litI`, `litNone`); these are kept
distinct from the `BOOL_CONSTANT` / `INT_CONSTANT` operator nodes because backends treat them
differently.  `bvar`/`ivar` are `BoolVar`/`IntVar` (integer bounds live in the declaration list). -/
inductive Expr
  | bvar (id : Nat)
  | ivar (id : Nat)
  | litB (b : Bool)
  | litI (n : Int)
  | litNone
  | node (op : Op) (args : List Expr)
  deriving Repr, Inhabited

/-- Python class of an operand: `isinstance(x, (BoolExpr, bool))`. -/
def Expr.isBoolLike : Expr → Bool
  | .bvar _ => true
  | .litB _ => true
  | .node op _ => op.isBoolOp || op == .graphAVC || op == .graphDiv
  | _ => false

/-- `isinstance(x, (IntExpr, int)) and not isinstance(x, bool)`. -/
def Expr.isIntLike : Expr → Bool
  | .ivar _ => true
  | .litI _ => true
  | .node op _ => op.isIntOp
  | _ => false

structure Asg where
  b : Nat → Bool
  i : Nat → Int

inductive Val
  | b (v : Bool)
  | i (v : Int)
  deriving DecidableEq, Repr, Inhabited

def allInts : List (Option Val) → Option (List Int)
  | [] => some []
  | some (.i v) :: r => (allInts r).map (v :: ·)
  | _ :: _ => none

def allBools : List (Option Val) → Option (List Bool)
  | [] => some []
  | some (.b v) :: r => (allBools r).map (v :: ·)
  | _ :: _ => none

/-- Pairwise distinctness, computably. -/
def allDistinct : List Int → Bool
  | [] => true
  | x :: r => !(r.contains x) && allDistinct r

def cmpOp (op : Op) (a b : Int) : Bool :=
  match op with
  | .eq => a == b | .ne => a != b | .le => decide (a ≤ b) | .lt => decide (a < b)
  | .ge => decide (a ≥ b) | .gt => decide (a > b) | _ => false

/-! ### Meaning of the two native graph operators (as documented for csugar / cspuz_core) -/

/-- One sweep of label propagation over the usable edges. -/
def sweep (edges : List (Nat × Nat)) (lab : List Nat) : List Nat :=
  edges.foldl (fun lab (e : Nat × Nat) =>
    let a := lab.getD e.1 0
    let b := lab.getD e.2 0
    let m := min a b
    (lab.set e.1 m).set e.2 m) lab

/-- Component labels (minimum vertex index of the component) of the graph `(n, edges)`. -/
def components (n : Nat) (edges : List (Nat × Nat)) : List Nat :=
  (List.range n).foldl (fun lab _ => sweep edges lab) (List.range n)

/-- `graph-active-vertices-connected`: the active vertices induce a connected subgraph
(vacuously true when there is none). -/
def avcSem (n : Nat) (act : List Bool) (edges : List (Nat × Nat)) : Bool :=
  let usable := edges.filter fun e => act.getD e.1 false && act.getD e.2 false && e.1 < n && e.2 < n
  let lab := components n usable
  let labs := (List.range n).filterMap fun v => if act.getD v false then some (lab.getD v 0) else none
  match labs with
  | [] => true
  | l :: r => r.all (· == l)

/-- `graph-division`: regions are the connected components after cutting the border edges; a border
edge must separate two different regions; a vertex with a given size lies in a region of that size. -/
def divSem (n : Nat) (sizes : List (Option Int)) (edges : List (Nat × Nat)) (border : List Bool) : Bool :=
  let idx := List.range edges.length
  let usable := idx.filterMap fun k =>
    if border.getD k true then none else edges[k]?
  let lab := components n usable
  let okBorder := idx.all fun k =>
    match edges[k]? with
    | some e => !(border.getD k false) || (lab.getD e.1 0 != lab.getD e.2 0)
    | none => true
  let okSize := (List.range n).all fun v =>
    match sizes.getD v none with
    | none => true
    | some s => ((List.range n).filter fun u => lab.getD u 0 == lab.getD v 0).length == s
  okBorder && okSize

def pairUp : List Int → List (Nat × Nat)
  | a :: b :: r => (a.toNat, b.toNat) :: pairUp r
  | _ => []

def evalAVC (vs : List (Option Val)) : Option Val :=
  match vs with
  | some (.i n) :: some (.i m) :: rest =>
    let n' := n.toNat
    let m' := m.toNat
    if n < 0 ∨ m < 0 ∨ rest.length ≠ n' + 2 * m' then none else
    match allBools (rest.take n'), allInts (rest.drop n') with
    | some act, some es => some (.b (avcSem n' act (pairUp es)))
    | _, _ => none
  | _ => none

def optInts : List (Option Val) → Option (List (Option Int))
  | [] => some []
  | some (.i v) :: r => (optInts r).map (some v :: ·)
  | none :: r => (optInts r).map (none :: ·)
  | _ :: _ => none

def evalDiv (vs : List (Option Val)) : Option Val :=
  match vs with
  | some (.i n) :: some (.i m) :: rest =>
    let n' := n.toNat
    let m' := m.toNat
    if n < 0 ∨ m < 0 ∨ rest.length ≠ n' + 3 * m' then none else
    match optInts (rest.take n'), allInts ((rest.drop n').take (2 * m')), allBools (rest.drop (n' + 2 * m')) with
    | some sz, some es, some bd => some (.b (divSem n' sz (pairUp es) bd))
    | _, _, _ => none
  | _ => none

/-- The meaning of an operator applied to already evaluated operands (`none` = ill-typed / `None`). -/
def evalOp (op : Op) (vs : List (Option Val)) : Option Val :=
  match op with
  | .var => none
  | .boolConst => match vs with | [some (.b v)] => some (.b v) | _ => none
  | .intConst => match vs with | [some (.i v)] => some (.i v) | _ => none
  | .neg => match vs with | [some (.i v)] => some (.i (-v)) | _ => none
  | .add => match allInts vs with | some (a :: r) => some (.i (r.foldl (· + ·) a)) | _ => none
  | .sub => match allInts vs with | some (a :: r) => some (.i (r.foldl (· - ·) a)) | _ => none
  | .eq | .ne | .le | .lt | .ge | .gt =>
    match allInts vs with | some [a, b] => some (.b (cmpOp op a b)) | _ => none
  | .not => match vs with | [some (.b v)] => some (.b (!v)) | _ => none
  | .and => match allBools vs with | some l => some (.b (l.all id)) | none => none
  | .or => match allBools vs with | some l => some (.b (l.any id)) | none => none
  | .iff => match allBools vs with | some [a, b] => some (.b (a == b)) | _ => none
  | .xor => match allBools vs with | some [a, b] => some (.b (a != b)) | _ => none
  | .imp => match allBools vs with | some [a, b] => some (.b (!a || b)) | _ => none
  | .ite => match vs with | [some (.b c), some (.i t), some (.i f)] => some (.i (if c then t else f)) | _ => none
  | .alldiff => match allInts vs with | some l => some (.b (allDistinct l)) | none => none
  | .graphAVC => evalAVC vs
  | .graphDiv => evalDiv vs

mutual
/-- Reference semantics of an expression tree under an assignment. -/
def eval (σ : Asg) : Expr → Option Val
  | .bvar id => some (.b (σ.b id))
  | .ivar id => some (.i (σ.i id))
  | .litB b => some (.b b)
  | .litI n => some (.i n)
  | .litNone => none
  | .node op args => evalOp op (evalList σ args)
def evalList (σ : Asg) : List Expr → List (Option Val)
  | [] => []
  | e :: r => eval σ e :: evalList σ r
end

/-- A declared variable: `BoolVar` or `IntVar(lo, hi)`; the id is the position in the list. -/
inductive VarDecl
  | bool
  | int (lo hi : Int)
  deriving DecidableEq, Repr, Inhabited

/-- An assignment respects the declared integer bounds. -/
def Asg.respects (σ : Asg) (decls : List VarDecl) : Prop :=
  ∀ id lo hi, decls[id]? = some (.int lo hi) → lo ≤ σ.i id ∧ σ.i id ≤ hi

/-- `σ` is a model of the program. -/
def Sat (decls : List VarDecl) (cs : List Expr) (σ : Asg) : Prop :=
  σ.respects decls ∧ ∀ c ∈ cs, eval σ c = some (.b true)

def Satisfiable (decls : List VarDecl) (cs : List Expr) : Prop := ∃ σ, Sat decls cs σ

mutual
/-- Well-typed Boolean-valued trees (the closure of what the DSL builds). -/
def wtB : Expr → Bool
  | .bvar _ => true
  | .litB _ => true
  | .node op args =>
    match op with
    | .boolConst => match args with | [.litB _] => true | _ => false
    | .eq | .ne | .le | .lt | .ge | .gt => args.length == 2 && wtIs args
    | .not => args.length == 1 && wtBs args
    | .and | .or => wtBs args
    | .iff | .xor | .imp => args.length == 2 && wtBs args
    | .alldiff => wtIs args
    | _ => false
  | _ => false
/-- Well-typed integer-valued trees. -/
def wtI : Expr → Bool
  | .ivar _ => true
  | .litI _ => true
  | .node op args =>
    match op with
    | .intConst => match args with | [.litI _] => true | _ => false
    | .neg => args.length == 1 && wtIs args
    | .add | .sub => args.length != 0 && wtIs args
    | .ite => match args with | [c, t, f] => wtB c && wtI t && wtI f | _ => false
    | _ => false
  | _ => false
def wtBs : List Expr → Bool
  | [] => true
  | e :: r => wtB e && wtBs r
def wtIs : List Expr → Bool
  | [] => true
  | e :: r => wtI e && wtIs r
end

/-- All variables mentioned by a tree are below `n`. -/
def Expr.varsBelow (n : Nat) : Expr → Bool
  | .bvar id => id < n
  | .ivar id => id < n
  | .node _ args => varsBelowList n args
  | _ => true
where varsBelowList (n : Nat) : List Expr → Bool
  | [] => true
  | e :: r => Expr.varsBelow n e && varsBelowList n r

end Cspuz
