/-
  C11 / View — the program posted by `solve_view` encodes the published rules of View
  (Spec/PuzzleRules/View.lean), for every board shape and clue layout.  Together with
  `Cspuz.C11.C11_compose` this yields the property for `solve_view`.
-/
import CspuzModel.Proofs.C11View
namespace Cspuz.C11.View
open Cspuz Cspuz.Spec Cspuz.Puzzles.View Cspuz.Spec.View

/-- For every well-formed instance (any height, width ≥ 1, any table of given numbers), whenever the model of
`solve_view` returns the posted program `P`: a pair of answer grids (`nums`, then `has_number`) extends to a model
of `P` (hidden rank/root variables of the connectivity encoding and the four hidden sight-count arrays included)
iff it obeys the rules of View; the answer keys are distinct declared variables; every posted constraint is a
well-typed Boolean tree. -/
def statement : Prop :=
  ∀ pb : Problem, WellFormed pb → ∀ P : PuzzleProg, program pb = .ok P →
    EncodesRules P (Rules pb) ∧ P.KeysOk ∧ (∀ c ∈ P.cs, wtB c = true)

theorem program_iff_rules : statement := Cspuz.Proofs.C11View.main

/-- `solve_view` does not raise on a well-formed instance. -/
theorem total : ∀ pb : Problem, WellFormed pb → ∃ P, program pb = .ok P := Cspuz.Proofs.C11View.total

/-! ### non-vacuity -/

/-- A 2×3 board (height < width) with a given `2` in a corner and a given `0`. -/
def exPb : Problem :=
  { height := 2, width := 3, problem := [[2, -1, -1], [-1, 0, -1]] }

theorem exPb_wf : WellFormed exPb := by
  refine ⟨by decide, by decide, rfl, ?_⟩
  intro row hrow
  simp only [exPb, List.mem_cons, List.not_mem_nil, or_false] at hrow
  rcases hrow with rfl | rfl <;> rfl

example : WellFormed exPb ∧ ∃ P, program exPb = .ok P ∧ P.decls.length = 8 * 6 ∧
    P.keys = [18, 19, 20, 21, 22, 23, 0, 1, 2, 3, 4, 5] :=
  ⟨exPb_wf, _, rfl, by decide, by decide⟩

end Cspuz.C11.View
