/-
  C13 — Array indexing and slicing follow Python nested-list semantics.
  Property theorems only; lemmas live in Proofs/C13.lean.
-/
import CspuzModel.Proofs.C13
namespace Cspuz.C13
open Cspuz Cspuz.Spec

/-- Full-strength statement: for every element type, every shape, every key (integers, slices with any
start/stop/step incl. negative and out of range, pairs, coordinate lists), `Array2D._getitem_impl`
returns exactly what per-axis Python list indexing selects from the equivalent list of lists — same
elements, same order, same result kind and shape — and raises exactly the same exception
(`IndexError`, or `ValueError` for a zero step) when the list indexing does. -/
def statement : Prop :=
  ∀ (α : Type) (data : List α) (h w : Nat) (key : Key2), data.length = h * w →
    getitem2D data h w key = specGetitem (toRows data h w) h w key

theorem C13_getitem : statement := Cspuz.Proofs.C13.getitem2D_eq_spec

/-- flatten / reshape preserve row-major order: the rows of the reshaped array concatenate back to
the data, and reshape fails with `ValueError` exactly on a size mismatch. -/
def statement_reshape : Prop :=
  ∀ (α : Type) (data : List α) (h w : Nat),
    (data.length = h * w → reshape data h w = .ok (.arr2 h w data) ∧ (toRows data h w).flatten = data
        ∧ (toRows data h w).length = h ∧ ∀ r ∈ toRows data h w, r.length = w) ∧
    (data.length ≠ h * w → reshape data h w = .error .valueError)

theorem C13_reshape : statement_reshape := Cspuz.Proofs.C13.reshape_spec

/-- Non-vacuity: a 3×4 array, a negative step with an out-of-range bound (the case that used to read
into the neighbouring row). -/
example :
    getitem2D [0,1,2,3,4,5,6,7,8,9,10,11] 3 4 (.pair (.idx 0) (.slice (some 10) none (some (-1))))
      = .ok (.arr1 [3,2,1,0]) := by decide

example : specGetitem (toRows [0,1,2,3,4,5,6,7,8,9,10,11] 3 4) 3 4
      (.pair (.idx 0) (.slice (some 10) none (some (-1)))) = .ok (.arr1 [3,2,1,0]) := by decide

end Cspuz.C13
