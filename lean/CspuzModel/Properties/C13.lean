/-
  C13 — Array indexing and slicing follow Python nested-list semantics.
  Property theorems only; lemmas live in Proofs/C13.lean.
-/
import CspuzModel.Proofs.C13
import CspuzModel.Proofs.C13Nested
namespace Cspuz.C13
open Cspuz Cspuz.Spec

/-- Full-strength statement: for every element type, every shape, every key (integers, slices with any
start/stop/step incl. negative and out of range, pairs, coordinate lists), `Array2D._getitem_impl`
returns exactly what per-axis Python list indexing selects from the equivalent list of lists — same
elements, same order, same result kind and shape — and raises exactly the same exception
(`IndexError`, or `ValueError` for a zero step) when the list indexing does. -/
def statement : Prop :=
  ∀ (α : Type) (data : List α) (h w : Nat) (key : Key2), data.length = h * w →
    getitem2D data h w key = specGetitem (toRows data h w) h w key

theorem C13_getitem : statement := Cspuz.Proofs.C13.getitem2D_eq_spec

/-- flatten / reshape preserve row-major order: the rows of the reshaped array concatenate back to
the data, and reshape fails with `ValueError` exactly on a size mismatch. -/
def statement_reshape : Prop :=
  ∀ (α : Type) (data : List α) (h w : Nat),
    (data.length = h * w → reshape data h w = .ok (.arr2 h w data) ∧ (toRows data h w).flatten = data
        ∧ (toRows data h w).length = h ∧ ∀ r ∈ toRows data h w, r.length = w) ∧
    (data.length ≠ h * w → reshape data h w = .error .valueError)

theorem C13_reshape : statement_reshape := Cspuz.Proofs.C13.reshape_spec

/-- Non-vacuity: a 3×4 array, a negative step with an out-of-range bound (the case that used to read
into the neighbouring row). -/
example :
    getitem2D [0,1,2,3,4,5,6,7,8,9,10,11] 3 4 (.pair (.idx 0) (.slice (some 10) none (some (-1))))
      = .ok (.arr1 [3,2,1,0]) := by decide

example : specGetitem (toRows [0,1,2,3,4,5,6,7,8,9,10,11] 3 4) 3 4
      (.pair (.idx 0) (.slice (some 10) none (some (-1)))) = .ok (.arr1 [3,2,1,0]) := by decide

/-- The nested-list constructor `Array2D(rows)` (`shape=None`: `_infer_shape` + `_flatten`): for a
non-empty rectangular list of rows the constructed array has shape `(len(rows), len(rows[0]))`, its
buffer is the row-major concatenation of the rows, and its equivalent list of lists (`toRows`) IS
`rows` — so `C13_getitem` applies to it; the constructor raises `ValueError` exactly when there is no
row or some row's length differs from the first row's.  (Rows that are not iterable raise
`TypeError` in Python; out of scope, rows are lists by typing.) -/
def statement_nested : Prop :=
  ∀ (α : Type) (rows : List (List α)),
    (rows ≠ [] → (∀ r ∈ rows, r.length = (rows.headD []).length) →
        ∃ data, ofNested rows = .ok (rows.length, (rows.headD []).length, data) ∧
          data = rows.flatten ∧
          data.length = rows.length * (rows.headD []).length ∧
          toRows data rows.length (rows.headD []).length = rows) ∧
    (rows = [] ∨ (∃ r ∈ rows, r.length ≠ (rows.headD []).length) →
        ofNested rows = .error .valueError)

theorem C13_nested : statement_nested := Cspuz.Proofs.C13Nested.ofNested_spec

/-- Corollary: indexing the array constructed from a non-empty rectangular nested list `rows` with
any key returns exactly what per-axis Python list indexing selects from `rows` itself (same
elements, order, kind, shape, exception). -/
def statement_nested_getitem : Prop :=
  ∀ (α : Type) (rows : List (List α)) (key : Key2),
    rows ≠ [] → (∀ r ∈ rows, r.length = (rows.headD []).length) →
    ∃ h w data, ofNested rows = .ok (h, w, data) ∧ h = rows.length ∧ w = (rows.headD []).length ∧
      getitem2D data h w key = specGetitem rows h w key

theorem C13_nested_getitem : statement_nested_getitem := Cspuz.Proofs.C13Nested.ofNested_getitem

/-- Non-vacuity of the nested constructor: a 2×3 nested list, no rows, jagged (short / long row),
two empty rows (2×0), and indexing the constructed 2×3 array with a reversed column slice. -/
example : ofNested [[10, 11, 12], [20, 21, 22]] = .ok (2, 3, [10, 11, 12, 20, 21, 22]) := by decide
example : ofNested ([] : List (List Nat)) = .error .valueError := by decide
example : ofNested [[1, 2], [3]] = .error .valueError := by decide
example : ofNested [[1, 2], [3, 4, 5]] = .error .valueError := by decide
example : ofNested ([[], []] : List (List Nat)) = .ok (2, 0, []) := by decide
example : toRows [10, 11, 12, 20, 21, 22] 2 3 = [[10, 11, 12], [20, 21, 22]] := by decide
example : specGetitem [[10, 11, 12], [20, 21, 22]] 2 3 (.pair (.idx (-1)) (.slice none none (some (-1))))
      = .ok (.arr1 [22, 21, 20]) := by decide
example : getitem2D [10, 11, 12, 20, 21, 22] 2 3 (.pair (.idx (-1)) (.slice none none (some (-1))))
      = .ok (.arr1 [22, 21, 20]) := by decide

end Cspuz.C13
