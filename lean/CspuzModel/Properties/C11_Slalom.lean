/-
  C11 for `solve_slalom` (Suraromu / Slalom), default path `reference_sol_loop=None` - the posted program encodes the
  published rules (Spec/PuzzleRules/Slalom.lean) for every board size (1 × N included: no loop fits, no solution) and
  every well-formed layout of black cells, gates (horizontal / vertical, any length, touching the border or closed by
  black cells, numbered or not) and circle.
  Together with `Cspuz.C11.C11_compose` this yields the property for this puzzle.

  What the proof has to bridge: the module never states "the loop crosses a gate at a right angle" and never walks
  along the loop.  It posts one hidden direction bit per step with in-degree = out-degree = `passed` for every cell, a
  counter `gate_ord` that stays constant along a directed step into an ordinary cell and grows by one along a directed
  step into a gate cell (the circle being exempt), "exactly one passed cell per gate", and `gate_ord = n` on the passed
  cell of the gate numbered `n`.
  SOUNDNESS (`Cspuz.Proofs.C11SlalomA.sound`): the loop is a cyclic sequence of pairwise different cells
  (`loop_cycle`); the degree constraints make the direction bits consistent all the way round (`fwd_succ`), so the cells
  can be listed from the circle in the direction of the bits; the counter then equals its value at the circle plus the
  number of gate cells met (`ord_cnt`); every gate contributes a gate cell of its own (`gates_le_cnt`), and the declared
  range `0 … number of gates` forces the counter to start at 0 (`ord_origin`); a gate closed at both ends by a black cell
  or the border can only be left at a right angle when exactly one of its cells is passed (`perp`).
  COMPLETENESS (`Cspuz.Proofs.C11SlalomB.local_of_rules`): from a round trip obeying the rules, direct every step along
  the round trip, let `passed` = "on the round trip" and `gate_ord` = number of gate cells met so far; a loop has at
  least three cells (`len_ge3`), so the directed steps are exactly the steps of the round trip (`goes_iff`).
-/
import CspuzModel.Proofs.C11Slalom
import CspuzModel.Proofs.C11SlalomEx
namespace Cspuz.C11.Slalom
open Cspuz Cspuz.Spec Cspuz.Puzzles.Slalom Cspuz.Spec.Slalom

/-- For every well-formed problem instance, the program `solve_slalom` posts (model: `program`, auxiliary-variable
route of the cycle constraint) encodes the rules: an answer list extends to a model of the whole program - the hidden
direction bits `loop_dir`, the cycle auxiliaries, `gate_ord` and `passed` included - iff it is the list of a set of
cell-to-cell steps forming one loop that avoids the black cells, passes through the circle and, followed from the
circle in one of its two directions, crosses every gate exactly once at a right angle, the gate numbered `n` being the
`n`-th gate crossed; the answer keys are distinct declared variables; every constraint is a well-typed Boolean
tree. -/
def statement : Prop :=
  ∀ pb : Problem, WellFormed pb → ∀ P, program pb = .ok P →
    EncodesRules P (Rules pb) ∧ P.KeysOk ∧ (∀ c ∈ P.cs, wtB c = true)

theorem program_iff_rules : statement := Cspuz.Proofs.C11Slalom.main

/-- `solve_slalom` raises nothing on a well-formed instance. -/
theorem total : ∀ pb : Problem, WellFormed pb → ∃ P, program pb = .ok P := Cspuz.Proofs.C11SlalomP.total

/-! ### non-vacuity: a 3 × 3 board, black centre, two gates of length 1 between the centre and the border (the left one
numbered 2), circle in the top-left corner -/

open Cspuz.Proofs.C11SlalomEx (exPb ringOn exPb_rules)

theorem exPb_wf : WellFormed exPb := by
  refine ⟨by decide, by decide, rfl, ?_, by decide, rfl, rfl, ?_, by decide⟩
  · intro row hr
    simp only [exPb, List.mem_cons, List.not_mem_nil, or_false] at hr
    rcases hr with rfl | rfl | rfl <;> rfl
  · intro g hg
    simp only [exPb, List.mem_cons, List.not_mem_nil, or_false] at hg
    rcases hg with rfl | rfl
    · refine ⟨by decide, by decide, by decide, ⟨by decide, by decide, ?_, ?_⟩, by decide, by decide⟩
      · right; right; left; decide
      · right; right; right; right; rfl
    · refine ⟨by decide, by decide, by decide, ⟨by decide, by decide, ?_, ?_⟩, by decide, by decide⟩
      · right; right; right; right; rfl
      · right; right; right; left; decide

example : ∃ P, program exPb = .ok P ∧ P.keys = List.range 12 ∧ P.decls.length = 2 * 12 + 3 * 9 + 9 + 9 :=
  ⟨_, Cspuz.Proofs.C11SlalomP.program_eq exPb exPb_wf, rfl, rfl⟩

/-! ### non-vacuity of the rules: the ring around the black centre, run through clockwise from the circle, crosses the
right gate first and the left gate (numbered 2) second; hence the posted program has a model with exactly these key
values -/

open Cspuz.Spec.Loop in
example : Rules exPb (segAnswer 2 2 ringOn) := exPb_rules

open Cspuz.Spec.Loop in
example : ∃ P σ, program exPb = .ok P ∧ Sat P.decls P.cs σ ∧ P.keyVals σ = (segAnswer 2 2 ringOn).map some := by
  obtain ⟨P, hP⟩ := total exPb exPb_wf
  obtain ⟨σ, hσ, hk⟩ := ((program_iff_rules exPb exPb_wf P hP).1 _).mpr exPb_rules
  exact ⟨P, σ, hP, hσ, hk⟩

end Cspuz.C11.Slalom
