/-
  C11 for `solve_slalom` (Suraromu / Slalom), default path `reference_sol_loop=None`.

  `statement` is the full property: for every well-formed instance the posted program encodes the published rules
  (Spec/PuzzleRules/Slalom.lean).  What is PROVED so far is `statement_partial`: on every well-formed instance (all board
  sizes, 1 × N included; any number of gates, numbered or not) `solve_slalom` raises nothing, its answer keys are
  exactly the segment variables of the first frame (distinct, declared), and every posted constraint is a
  well-typed Boolean tree - via the closed form of the program (`Cspuz.Proofs.C11SlalomP.program_eq`: two frames, the
  cycle fragment with its auxiliary variables after BOTH frames, `gate_ord`, `passed`, the gate / origin / in- and
  out-degree / counter / number / auxiliary constraints in emission order).
  MISSING: `EncodesRules P (Rules pb)` (both directions: orientation consistency of the direction bits along the cycle,
  the running gate counter, and the right-angle crossing from "one cell per gate" + closed ends).  The tie for that
  part is the program correspondence + the rule differential of harness/puzzles/slalom.py.
-/
import CspuzModel.Proofs.C11SlalomW
namespace Cspuz.C11.Slalom
open Cspuz Cspuz.Spec Cspuz.Puzzles.Slalom Cspuz.Spec.Slalom

/-- For every well-formed problem instance, the program `solve_slalom` posts (model: `program`, auxiliary-variable
route of the cycle constraint) encodes the rules: an answer list extends to a model of the whole program - the hidden
direction bits `loop_dir`, the cycle auxiliaries, `gate_ord` and `passed` included - iff it is the list of a set of
cell-to-cell steps forming one loop that avoids the black cells, passes through the circle and, followed from the
circle in one of its two directions, crosses every gate exactly once at a right angle, the gate numbered `n` being the
`n`-th gate crossed; the answer keys are distinct declared variables; every constraint is a well-typed Boolean
tree. -/
def statement : Prop :=
  ∀ pb : Problem, WellFormed pb → ∀ P, program pb = .ok P →
    EncodesRules P (Rules pb) ∧ P.KeysOk ∧ (∀ c ∈ P.cs, wtB c = true)

/-- The proved part: keys and well-typedness. -/
def statement_partial : Prop :=
  ∀ pb : Problem, WellFormed pb → ∀ P, program pb = .ok P →
    P.KeysOk ∧ (∀ c ∈ P.cs, wtB c = true)

theorem program_shape : statement_partial := Cspuz.Proofs.C11SlalomW.shape

/-- `solve_slalom` raises nothing on a well-formed instance. -/
theorem total : ∀ pb : Problem, WellFormed pb → ∃ P, program pb = .ok P := Cspuz.Proofs.C11SlalomP.total

/-! ### non-vacuity: a 3 × 3 board, black centre, two gates of length 1 between the centre and the border (one numbered),
circle in the top-left corner -/

def exPb : Problem :=
  { height := 3, width := 3, origin := (0, 0),
    isBlack := [[false, false, false], [false, true, false], [false, false, false]],
    gates := [{ y := 1, x := 0, d := .hor, l := 1, n := 2 }, { y := 1, x := 2, d := .hor, l := 1, n := -1 }] }

theorem exPb_wf : WellFormed exPb := by
  refine ⟨by decide, by decide, rfl, ?_, by decide, rfl, rfl, ?_, by decide⟩
  · intro row hr
    simp only [exPb, List.mem_cons, List.not_mem_nil, or_false] at hr
    rcases hr with rfl | rfl | rfl <;> rfl
  · intro g hg
    simp only [exPb, List.mem_cons, List.not_mem_nil, or_false] at hg
    rcases hg with rfl | rfl
    · refine ⟨by decide, by decide, by decide, ⟨by decide, by decide, ?_, ?_⟩, by decide, by decide⟩
      · right; right; left; decide
      · right; right; right; right; rfl
    · refine ⟨by decide, by decide, by decide, ⟨by decide, by decide, ?_, ?_⟩, by decide, by decide⟩
      · right; right; right; right; rfl
      · right; right; right; left; decide

example : ∃ P, program exPb = .ok P ∧ P.keys = List.range 12 ∧ P.decls.length = 2 * 12 + 3 * 9 + 9 + 9 :=
  ⟨_, Cspuz.Proofs.C11SlalomP.program_eq exPb exPb_wf, rfl, rfl⟩

end Cspuz.C11.Slalom
