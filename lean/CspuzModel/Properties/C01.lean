/-
  C01 — find_answer decides satisfiability and leaves a genuine model in .sol (z3 backend).
-/
import CspuzModel.Proofs.C01
namespace Cspuz.C01
open Cspuz Cspuz.Spec

/-- The operator-by-operator translation to z3py terms is faithful: for every well-typed tree (all
operators, any arity of the n-ary ones including 0 and 1, Python literals mixed in, constant-only
forms, arbitrary nesting) the translation succeeds and the z3 term — or the Python constant that
z3py's operators fold to — means exactly what the tree means, under every assignment. -/
def statement_translation : Prop :=
  ∀ (e : Expr) (σ : Asg), (wtB e = true ∨ wtI e = true) →
    ∃ r, convertExpr e = .ok r ∧ r.val σ = eval σ e

theorem C01_translation_faithful : statement_translation := Cspuz.Proofs.C01.translation_faithful

/-- Hence the z3 backend, for any correct z3, is a correct backend: on every well-typed program it
answers with a genuine model (integers inside their declared bounds) or, only when none exists, UNSAT. -/
def statement_backend : Prop :=
  ∀ (o : Z3Oracle), o.Correct → (z3Backend o).Correct

theorem C01_z3_backend_correct : statement_backend := Cspuz.Proofs.C01.backend_correct

/-- `find_answer()` on any state: True exactly when the accumulated program is satisfiable, and then
the published `sol` fields are a model of it; never an exception on well-typed programs. -/
def statement_find_answer : Prop :=
  ∀ (B : Backend), B.Correct → ∀ (st : SolverState), (∀ c ∈ st.cs, wtB c = true) →
    ((findAnswer B st).2 = .verdict true ∨ (findAnswer B st).2 = .verdict false) ∧
    ((findAnswer B st).2 = .verdict true ↔ Satisfiable st.decls st.cs) ∧
    ((findAnswer B st).2 = .verdict true →
      ∃ σ, Sat st.decls st.cs σ ∧ (findAnswer B st).1.sol = publish st.decls σ)

theorem C01_find_answer_exact : statement_find_answer := Cspuz.Proofs.C01.find_answer_exact

/-- The same after every prefix of an incremental session (any interleaving of declarations, `ensure`
with arbitrarily nested arguments, answer-key registration and solves): the `k`-th operation, when it
is a `find_answer`, reports exactly the satisfiability of the program accumulated by the first `k`
operations — `declsOf`/`csOf` are defined from the history alone — and leaves a model of it. -/
def statement_session : Prop :=
  ∀ (B : Backend), B.Correct → ∀ (ops : List SolverOp), WellTyped ops →
    ∀ k, ops[k]? = some .findAnswer →
      let pre := ops.take k
      let st := (runSession B {} pre).1
      st.decls = declsOf pre ∧ st.cs = csOf pre ∧
      ((runSession B {} ops).2[k]? = some (.verdict true) ∨ (runSession B {} ops).2[k]? = some (.verdict false)) ∧
      ((runSession B {} ops).2[k]? = some (.verdict true) ↔ Satisfiable (declsOf pre) (csOf pre)) ∧
      ((runSession B {} ops).2[k]? = some (.verdict true) →
        ∃ σ, Sat (declsOf pre) (csOf pre) σ ∧ (runSession B {} (ops.take (k + 1))).1.sol = publish (declsOf pre) σ)

theorem C01_session : statement_session := Cspuz.Proofs.C01.session

/-! ### non-vacuity -/

/-- `(b0 & ~True).cond(i1 + 2 + (-3), 5 - i2) <= 4`, `alldiff(1, 2, 3) == (b3 ^ False)`: nested,
literals mixed in, a unary `sub`, a constant-only `alldiff`, an `iff` and an `imp`. -/
def exTree : Expr :=
  .node .imp [
    .node .le [
      .node .ite [.node .and [.bvar 0, .node .not [.litB true]],
                  .node .add [.ivar 1, .litI 2, .node .neg [.litI 3]],
                  .node .sub [.node .sub [.litI 5], .ivar 2]],
      .node .intConst [.litI 4]],
    .node .iff [.node .alldiff [.litI 1, .litI 2, .litI 3], .node .xor [.bvar 3, .litB false]]]

example : wtB exTree = true := by decide

example : convertExpr exTree = .ok (.t (.or [
    .not (.cmp .le
      (.ite (.and [.bconst 0, .not (.bval true)])
            (.add (.add (.iconst 1) (.ival 2)) (.ival (-3)))
            (.sub (.ival 5) (.iconst 2)))
      (.ival 4)),
    .beq (.bval true) (.xor (.bconst 3) (.bval false))])) := by
  rfl

example (σ : Asg) : ∃ r, convertExpr exTree = .ok r ∧ r.val σ = eval σ exTree :=
  C01_translation_faithful exTree σ (.inl (by decide))

/-- The hypothesis `Backend.Correct` is satisfiable (a classical decision procedure). -/
example : ∃ B : Backend, B.Correct := by
  classical
  refine ⟨fun decls cs => if h : Satisfiable decls cs then .ok (some (Classical.choose h)) else .ok none, ?_⟩
  intro decls cs _
  by_cases h : Satisfiable decls cs
  · refine ⟨some (Classical.choose h), by simp [h], ?_, by simp⟩
    intro σ hσ
    cases hσ
    exact Classical.choose_spec h
  · exact ⟨none, by simp [h], by simp, fun _ => h⟩

/-- `b = BoolVar(); x = IntVar(0, 3); ensure([b, [x >= 2]]); find_answer(); ensure(x < 2 & b);
find_answer()`: the first solve is SAT, the second UNSAT, for every correct backend. -/
def exOps : List SolverOp :=
  [.boolVar, .intVar 0 3,
   .ensure (.items [.leaf (.bvar 0), .items [.leaf (.node .ge [.ivar 1, .litI 2])]]),
   .findAnswer,
   .ensure (.leaf (.node .and [.node .lt [.ivar 1, .litI 2], .bvar 0])),
   .findAnswer]

theorem exOps_cs : csOf exOps =
    [.bvar 0, .node .ge [.ivar 1, .litI 2], .node .and [.node .lt [.ivar 1, .litI 2], .bvar 0]] := rfl

theorem exOps_wt : WellTyped exOps := by
  intro c hc
  rw [exOps_cs] at hc
  simp only [List.mem_cons, List.not_mem_nil, or_false] at hc
  rcases hc with rfl | rfl | rfl <;> decide

example (B : Backend) (hB : B.Correct) :
    (runSession B {} exOps).2[3]? = some (.verdict true) := by
  have h := C01_session B hB exOps exOps_wt 3 rfl
  have hd : declsOf (exOps.take 3) = [.bool, .int 0 3] := rfl
  have hc : csOf (exOps.take 3) = [.bvar 0, .node .ge [.ivar 1, .litI 2]] := rfl
  refine h.2.2.2.1.2 ⟨⟨fun _ => true, fun _ => 2⟩, ?_, ?_⟩
  · intro id lo hi hd'
    rw [hd] at hd'
    match id, hd' with
    | 1, hd' =>
      simp only [List.getElem?_cons_succ, List.getElem?_cons_zero, Option.some.injEq, VarDecl.int.injEq] at hd'
      obtain ⟨rfl, rfl⟩ := hd'
      exact ⟨by decide, by decide⟩
    | 0, hd' => simp at hd'
    | n + 2, hd' => simp at hd'
  · intro c hc'
    rw [hc] at hc'
    simp only [List.mem_cons, List.not_mem_nil, or_false] at hc'
    rcases hc' with rfl | rfl <;> simp [Cspuz.Proofs.eval_node, evalOp, allInts, cmpOp]

example (B : Backend) (hB : B.Correct) :
    (runSession B {} exOps).2[5]? = some (.verdict false) := by
  have h := C01_session B hB exOps exOps_wt 5 rfl
  have hcs : csOf (exOps.take 5) = csOf exOps := rfl
  rcases h.2.2.1 with h1 | h1
  · exfalso
    obtain ⟨σ, hσ, hc⟩ := h.2.2.2.1.1 h1
    rw [hcs, exOps_cs] at hc
    have h2 := hc (.node .ge [.ivar 1, .litI 2]) (by simp)
    have h3 := hc (.node .and [.node .lt [.ivar 1, .litI 2], .bvar 0]) (by simp)
    simp [Cspuz.Proofs.eval_node, evalOp, allInts, allBools, cmpOp] at h2 h3
    omega
  · exact h1

end Cspuz.C01
