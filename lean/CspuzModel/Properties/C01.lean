/-
  C01 — find_answer decides satisfiability and leaves a genuine model in .sol (z3 backend).
-/
import CspuzModel.Proofs.C01
namespace Cspuz.C01
open Cspuz Cspuz.Spec

/-- The operator-by-operator translation to z3py terms is faithful: for every well-typed tree (all
operators, any arity of the n-ary ones including 0 and 1, Python literals mixed in, constant-only
forms, arbitrary nesting) the translation succeeds and the z3 term — or the Python constant that
z3py's operators fold to — means exactly what the tree means, under every assignment. -/
def statement_translation : Prop :=
  ∀ (e : Expr) (σ : Asg), (wtB e = true ∨ wtI e = true) →
    ∃ r, convertExpr e = .ok r ∧ r.val σ = eval σ e

theorem C01_translation_faithful : statement_translation := Cspuz.Proofs.C01.translation_faithful

/-- Hence the z3 backend, for any correct z3, is a correct backend: on every well-typed program it
answers with a genuine model (integers inside their declared bounds) or, only when none exists, UNSAT. -/
def statement_backend : Prop :=
  ∀ (o : Z3Oracle), o.Correct → (z3Backend o).Correct

theorem C01_z3_backend_correct : statement_backend := Cspuz.Proofs.C01.backend_correct

/-- `find_answer()` on any state: True exactly when the accumulated program is satisfiable, and then
the published `sol` fields are a model of it; never an exception on well-typed programs. -/
def statement_find_answer : Prop :=
  ∀ (B : Backend), B.Correct → ∀ (st : SolverState), (∀ c ∈ st.cs, wtB c = true) →
    ((findAnswer B st).2 = .verdict true ∨ (findAnswer B st).2 = .verdict false) ∧
    ((findAnswer B st).2 = .verdict true ↔ Satisfiable st.decls st.cs) ∧
    ((findAnswer B st).2 = .verdict true →
      ∃ σ, Sat st.decls st.cs σ ∧ (findAnswer B st).1.sol = publish st.decls σ)

theorem C01_find_answer_exact : statement_find_answer := Cspuz.Proofs.C01.find_answer_exact

/-- The same after every prefix of an incremental session (any interleaving of declarations, `ensure`
with arbitrarily nested arguments, answer-key registration and solves): the `k`-th operation, when it
is a `find_answer`, reports exactly the satisfiability of the program accumulated by the first `k`
operations — `declsOf`/`csOf` are defined from the history alone — and leaves a model of it. -/
def statement_session : Prop :=
  ∀ (B : Backend), B.Correct → ∀ (ops : List SolverOp), WellTyped ops →
    ∀ k, ops[k]? = some .findAnswer →
      let pre := ops.take k
      let st := (runSession B {} pre).1
      st.decls = declsOf pre ∧ st.cs = csOf pre ∧
      ((runSession B {} ops).2[k]? = some (.verdict true) ∨ (runSession B {} ops).2[k]? = some (.verdict false)) ∧
      ((runSession B {} ops).2[k]? = some (.verdict true) ↔ Satisfiable (declsOf pre) (csOf pre)) ∧
      ((runSession B {} ops).2[k]? = some (.verdict true) →
        ∃ σ, Sat (declsOf pre) (csOf pre) σ ∧ (runSession B {} (ops.take (k + 1))).1.sol = publish (declsOf pre) σ)

theorem C01_session : statement_session := Cspuz.Proofs.C01.session

end Cspuz.C01
