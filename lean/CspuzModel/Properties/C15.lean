/-
  C15 — Serializer combinators round-trip every value they accept.
  Property theorems only; lemmas live in Proofs/C15*.lean.  The model (Model/Serializer.lean) follows the code with
  the patches listed in harness/sercommon.py::PATCH_NOTES.
-/
import CspuzModel.Proofs.C15Roundtrip
import CspuzModel.Proofs.C15Term
import CspuzModel.Proofs.C15ValuedRT
import CspuzModel.Proofs.C15Puzzles
namespace Cspuz.C15
open Cspuz Cspuz.Ser

/-- **Leaves are local.**  For every leaf combinator (with the parameters its constructor accepts: `wf`), whatever
`serialize(data, i)` emits for the `k` items it consumed is decoded back, consuming exactly the emitted characters,
wherever that text is embedded (`pre ++ t ++ rest`, any `pre`, any `rest` — for `DecInt` any `rest` that does not
start with a digit), and the decoder returns exactly `data[i:i+k]` (for `MultiDigit` with ≥ 2 digits: followed by
zero padding when the data ended inside a group).  Values are `bool`-free (Python's `True == 1`), yajilin numbers in
canonical decimal form. -/
def statement_leaves : Prop :=
  ∀ env : Env,
    (∀ s, CombLocal (.fixStr s) env) ∧
    (∀ b a, wf (.dict b a) = true → CombLocal (.dict b a) env) ∧
    (∀ sp o, wf (.spaces sp o) = true → CombLocal (.spaces sp o) env) ∧
    CombLocal .decInt env ∧ CombLocal .hexInt env ∧
    (∀ sp mi ms, wf (.intSpaces sp mi ms) = true → CombLocal (.intSpaces sp mi ms) env) ∧
    (∀ b k, wf (.multiDigit b k) = true → CombLocal (.multiDigit b k) env) ∧
    CombLocal .yajilinClue env

theorem C15_leaves_local : statement_leaves := fun env =>
  ⟨fun s => fixStr_local s env, fun b a h => dict_local b a env h, fun sp o h => spaces_local sp o env h,
   decInt_local env, hexInt_local env, fun sp mi ms h => intSpaces_local sp mi ms env h,
   fun b k h => multiDigit_local b k env h, yajilin_local env⟩

/-- **Composition preserves locality**: `Seq` and `Grid` (all heights and widths ≥ 0, the explicit dimensions
whenever given) over a local productive base, `Tupl` of local exact elements (a `DecInt`-terminated element being
followed by one that starts with a non-digit), and `OneOf` of local alternatives that are `distinguishable` by
their leading character; hence every well-formed term without `Rooms` is local. -/
def statement_composition : Prop :=
  ∀ env : Env,
    (∀ b n, wf (.seq b n) = true → CombLocal b env → CombLocal (.seq b n) env) ∧
    (∀ b dims, wf (.grid b dims) = true → CombLocal b env → CombLocal (.grid b dims) env) ∧
    (∀ es, wf (.tupl es) = true → noRooms (.tupl es) = true → (∀ e ∈ es, CombLocal e env) → CombLocal (.tupl es) env) ∧
    (∀ cs, wf (.oneOf cs) = true → noRooms (.oneOf cs) = true → (∀ c ∈ cs, CombLocal c env) → CombLocal (.oneOf cs) env) ∧
    (∀ c, wf c = true → noRooms c = true → CombLocal c env)

theorem C15_composition : statement_composition := fun env =>
  ⟨fun b n h ih => seq_local_comb env b n h ih, fun b dims h ih => grid_local_comb env b dims h ih,
   fun es h hn ih => tupl_local env es h hn ih, fun cs h hn ih => oneOf_local env cs h hn ih,
   fun c h hn => comb_local env c h hn⟩

/-- **Round trip** (full strength for terms without `Rooms`): for every well-formed problem-level term, every board
size (including 0, 1×N, N×1) and every value in `Dom` (accepted by `serialize_problem`, no surplus items, `bool`-free),
`serialize_problem` succeeds and `deserialize` of the produced text returns exactly the value and consumes exactly
the produced characters; so does `deserialize_problem`. -/
def statement_roundtrip : Prop :=
  ∀ (c : Comb) (h w : Nat) (v : PyVal), wf c = true → noRooms c = true → single c = true → Dom c h w v →
    ∃ t, serProblem c v h w = .ok t ∧ de c ⟨h, w⟩ t 0 = .ok (t.length, [v]) ∧ deProblem c t h w = .ok v

theorem C15_roundtrip : statement_roundtrip := fun c h w v hw hn hs hd => roundtrip c h w v hw hn hs hd

/-- **Termination of `Seq`**: in a term all of whose `Seq`/`Grid` bases are `productive` the serializer never spins
(the loop's fuel `n + 1` is never exhausted); conversely `Seq(FixStr(""), 1)` spins in both directions (examples
below), which is why `wf` excludes unproductive bases. -/
def statement_seq_terminates : Prop :=
  (∀ (f : SerF) (l : List PyVal) (n fuel p : Nat) (acc : Str), NoDiv f → SerProductive f → n - p < fuel →
      seqSerLoop f l n fuel p acc ≠ .diverge) ∧
  (∀ (c : Comb) (env : Env), terminating c = true → noRooms c = true → ∀ d i, ser c env d i ≠ .diverge)

theorem C15_seq_terminates : statement_seq_terminates :=
  ⟨fun f l n fuel p acc hf hp h => seqSerLoop_ne_diverge f hf hp l n fuel p acc h,
   fun c env ht hn => ser_noDiv env c ht hn⟩

/-- **The bitmap layer of `Rooms`** (`Tupl(Grid(MultiDigit(2,5),h,w-1), Grid(MultiDigit(2,5),h-1,w))`, i.e. borders ↔ text):
for ALL heights and widths, any two border bitmaps of the right shapes are serialized and decoded back unchanged
in any context. -/
def statement_borders : Prop := ∀ h w : Nat, BordersRT h w

theorem C15_borders_roundtrip : statement_borders := borders_roundtrip

/-- **Rooms** (full strength): for all h, w ≥ 1 and every partition of the board into non-empty connected rooms, given in ANY order of rooms and
of cells, the produced text decodes – in any context – to the canonical form (rooms by least cell row-major, cells
row-major). -/
def statement_rooms : Prop :=
  ∀ (h w : Nat) (rooms : List (List (Nat × Nat))) (skip allow : Bool), 1 ≤ h → 1 ≤ w → ValidPartition h w rooms →
    ∃ t, ser (.rooms skip allow) ⟨h, w⟩ [roomsVal rooms] 0 = .ok (1, t) ∧
      ∀ pre rest, de (.rooms skip allow) ⟨h, w⟩ (pre ++ t ++ rest) pre.length
        = .ok (t.length, [roomsVal (canonRooms h w rooms)])

theorem C15_rooms : statement_rooms := fun h w rooms skip allow hh hw hv =>
  rooms_roundtrip h w hh hw (borders_roundtrip h w) rooms hv skip allow

/-- **ValuedRooms** (full strength): rooms and cells in any order; the decoded value has the rooms in canonical form and
the values re-ordered along with their rooms (`canonValues`: the i-th canonical room keeps the value its room had);
the value layer `Seq(value, #rooms)` is any well-formed productive term applied to data in its `Dom`. -/
def statement_valued_rooms : Prop :=
  ∀ (h w : Nat) (v : Comb) (rooms : List (List (Nat × Nat))) (values : List PyVal) (skip allow : Bool),
    1 ≤ h → 1 ≤ w → ValidPartition h w rooms → values.length = rooms.length →
    wf (.valuedRooms v skip allow) = true → noRooms v = true →
    Good (.seq v rooms.length) ⟨h, w⟩ [.list (canonValues h w rooms values)] 0 →
    (∃ t, ser (.seq v rooms.length) ⟨h, w⟩ [.list (canonValues h w rooms values)] 0 = .ok (1, t)) →
    ∃ t, ser (.valuedRooms v skip allow) ⟨h, w⟩ [.tuple [roomsVal rooms, .list values]] 0 = .ok (1, t) ∧
      ∀ pre rest, de (.valuedRooms v skip allow) ⟨h, w⟩ (pre ++ t ++ rest) pre.length
        = .ok (t.length, [.tuple [roomsVal (canonRooms h w rooms), .list (canonValues h w rooms values)]])

theorem C15_valued_rooms : statement_valued_rooms :=
  fun h w v rooms values skip allow hh hw hv hl hwf hnr hg hs =>
    valuedRooms_term_roundtrip h w v rooms values skip allow hh hw hv hl hwf hnr hg hs

/-- **The regenerated puzzle combinators** are well-formed problem-level terms (so `C15_roundtrip` applies to the
six without `Rooms`, and the `OneOf` alternatives of all nine are distinguishable by their leading character). -/
def statement_puzzles_wf : Prop :=
  ∀ pc ∈ Gen.puzzleCodecs, wf pc.comb = true ∧ single pc.comb = true ∧ terminating pc.comb = true

theorem C15_puzzles_wf : statement_puzzles_wf := puzzles_wf

/-- **Constructors.**  Every well-formed term passes the parameter checks its Python constructor makes (so the theorems
above speak about terms that can actually be built); the checks themselves (`ctorOk`) are compared with the live
constructors on parameters at and beyond their limits in every run. -/
def statement_ctor : Prop := ∀ c : Comb, wf c = true → ctorOk c = true

theorem C15_wf_ctorOk : statement_ctor := by
  intro c h
  cases c <;> simp_all [wf, ctorOk]

/-! ### non-vacuity -/

/-- nurikabe, 2×2: `[[0, 7], [-1, 16]]` ↦ `"g7.-10"` and back, embedded in a context -/
example : ser Gen.nurikabeCombinator ⟨2, 2⟩ [.list [.list [.int 0, .int 7], .list [.int (-1), .int 16]]] 0
    = .ok (1, [103, 55, 46, 45, 49, 48]) := by rfl
example : de Gen.nurikabeCombinator ⟨2, 2⟩ ([120] ++ [103, 55, 46, 45, 49, 48] ++ [48]) 1
    = .ok (6, [.list [.list [.int 0, .int 7], .list [.int (-1), .int 16]]]) := by rfl

/-- a value in `Dom` of a well-formed term -/
example : Dom (.seq (.oneOf [.spaces (.int 0) 15, .hexInt]) 3) 1 1 (.list [.int 0, .int 0, .int 300]) := by
  refine ⟨⟨rfl, ?_⟩, ⟨[104, 43, 49, 50, 99], rfl⟩⟩
  simp only [Tight]
  intro l hl
  simp at hl
  subst hl
  exact ⟨by simp, fun p => by simp [TightAll, Tight]⟩
example : wf (.seq (.oneOf [.spaces (.int 0) 15, .hexInt]) 3) = true := by decide

/-- the degenerate term excluded by `wf`: `Seq(FixStr(""), 1)` spins in both directions -/
example : ser (.seq (.fixStr []) 1) ⟨1, 1⟩ [.list [.int 1]] 0 = .diverge := by rfl
example : de (.seq (.fixStr []) 1) ⟨1, 1⟩ [] 0 = .diverge := by rfl
example : wf (.seq (.fixStr []) 1) = false := by decide

/-- Rooms on a single-row board and on the 1×1 board (empty text) -/
example : ser (.rooms false false) ⟨1, 3⟩ [roomsVal [[(0, 2)], [(0, 1), (0, 0)]]] 0 = .ok (1, [56]) := by rfl
example : de (.rooms false false) ⟨1, 3⟩ [56] 0 = .ok (1, [roomsVal [[(0, 0), (0, 1)], [(0, 2)]]]) := by rfl
example : de (.rooms false false) ⟨1, 1⟩ [] 0 = .ok (0, [roomsVal [[(0, 0)]]]) := by rfl
example : canonRooms 1 3 [[(0, 2)], [(0, 1), (0, 0)]] = [[(0, 0), (0, 1)], [(0, 2)]] := by decide

end Cspuz.C15
