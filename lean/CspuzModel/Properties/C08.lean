/-
  C08 — not_adjacent / not_adjacent_and_not_segmenting match their graph definitions.
-/
import CspuzModel.Proofs.C08
import CspuzModel.Proofs.C08Full
namespace Cspuz.C08
open Cspuz Cspuz.Spec

/-- `active_vertices_not_adjacent` (graph form): satisfied exactly by the patterns in which no edge has
both endpoints active. There are no auxiliary variables. -/
def statement_not_adjacent_graph : Prop :=
  ∀ (g : Graph) (ia : List Expr) (base : Nat) (p : Prog) (σ : Asg),
    g.wf = true → ia.length = g.n → BoolArgs base ia →
    notAdjacentGraph g ia = .ok p →
    (p.decls = [] ∧ (Realizable base p σ ↔ NoAdjacentActive g (truthAt σ ia)))

theorem C08_not_adjacent_graph : statement_not_adjacent_graph := Cspuz.Proofs.C08.not_adjacent_graph

/-- Grid form (the shifted-slice conjunction `~(a[1:, :] & a[:-1, :])`, `~(a[:, 1:] & a[:, :-1])`): equals
the pairwise form on the grid graph, for all heights and widths (1×N and N×1 included, where one of
the two slices is empty). -/
def statement_not_adjacent_grid : Prop :=
  ∀ (h w : Nat) (a : List Expr) (base : Nat) (p : Prog) (σ : Asg),
    a.length = h * w → BoolArgs base a →
    notAdjacentGrid h w a = .ok p →
    (p.decls = [] ∧ (Realizable base p σ ↔ NoAdjacentActive (Graph.grid h w) (truthAt σ a)))

theorem C08_not_adjacent_grid : statement_not_adjacent_grid := Cspuz.Proofs.C08.not_adjacent_grid

/-- Generic route of `…_and_not_segmenting` (explicit graph): satisfiable exactly for the patterns with
no two adjacent active vertices whose INACTIVE vertices induce a connected subgraph. -/
def statement_segmenting_graph : Prop :=
  ∀ (g : Graph) (ia : List Expr) (base : Nat) (prim : Bool) (p : Prog) (σ : Asg),
    g.wf = true → ia.length = g.n → BoolArgs base ia →
    notSegmentingGraph g ia base prim = .ok p →
    (Realizable base p σ ↔ NotSegmenting g (truthAt σ ia))

theorem C08_segmenting_graph : statement_segmenting_graph := Cspuz.Proofs.C08.segmenting_graph

/-- FULL statement for the array form: for every board shape the specialised grid encoding accepts
exactly the same patterns as the explicit-graph form on the grid graph. -/
def statement_grid : Prop :=
  ∀ (h w : Nat) (a : List Expr) (base : Nat) (prim : Bool) (p : Prog) (σ : Asg),
    a.length = h * w → BoolArgs base a →
    notSegmentingGrid h w a base prim = .ok p →
    (Realizable base p σ ↔ NotSegmenting (Graph.grid h w) (truthAt σ a))

/-- Proved part 1: single-row and single-column boards (where the generic route is used). -/
def statement_grid_line : Prop :=
  ∀ (h w : Nat) (a : List Expr) (base : Nat) (prim : Bool) (p : Prog) (σ : Asg),
    (h = 1 ∨ w = 1) → a.length = h * w → BoolArgs base a →
    notSegmentingGrid h w a base prim = .ok p →
    (Realizable base p σ ↔ NotSegmenting (Graph.grid h w) (truthAt σ a))

theorem C08_grid_line : statement_grid_line := Cspuz.Proofs.C08.grid_line

/-- Proved part 2 (boards with `h, w ≥ 2`): the diagonal rank program is satisfiable iff a diagonal
certificate exists, and a certificate implies that the diagonal chains of active cells form a forest
whose trees touch the outer border at most once (`DiagForest`). -/
def statement_grid_diag_sound : Prop :=
  ∀ (h w : Nat) (a : List Expr) (base : Nat) (p : Prog) (σ : Asg),
    2 ≤ h → 2 ≤ w → a.length = h * w → BoolArgs base a →
    notSegmentingGridDiag h w a base = .ok p →
    (Realizable base p σ ↔
      (NoAdjacentActive (Graph.grid h w) (truthAt σ a) ∧ Nonempty (DiagCert h w (truthAt σ a)))) ∧
    (Nonempty (DiagCert h w (truthAt σ a)) → DiagForest h w (truthAt σ a))

theorem C08_grid_diag_sound : statement_grid_diag_sound := Cspuz.Proofs.C08.grid_diag_sound

/-- The two remaining steps of `statement_grid` for `h, w ≥ 2`:
(a) completeness of the rank range `0 … (h*w-1)//2`: every diagonal forest of a non-adjacent pattern
    admits a certificate — PROVED below (`C08_grid_diag_complete`);
(b) the planar lemma: for a non-adjacent pattern, the diagonal chains form such a forest iff the
    inactive cells are connected (a discrete Jordan-curve statement) — stated but NOT proved here.
The thorough tier compares both encodings exhaustively on all patterns of all boards with h*w ≤ 16;
for (b) that is a bounded test, not a proof. -/
def statement_grid_diag_complete : Prop :=
  ∀ (h w : Nat) (act : Nat → Bool), 2 ≤ h → 2 ≤ w →
    NoAdjacentActive (Graph.grid h w) act → DiagForest h w act → Nonempty (DiagCert h w act)

theorem C08_grid_diag_complete : statement_grid_diag_complete := Cspuz.Proofs.C08.grid_diag_complete

def statement_planar : Prop :=
  ∀ (h w : Nat) (act : Nat → Bool), 2 ≤ h → 2 ≤ w →
    NoAdjacentActive (Graph.grid h w) act →
    (DiagForest h w act ↔ ActiveConnected (Graph.grid h w) (fun v => !act v))

/-! ### Non-vacuity -/

/-- A 2×3 board of six caller variables satisfies the hypotheses, and the generator succeeds
(diagonal route). -/
example : BoolArgs 6 [.bvar 0, .bvar 1, .bvar 2, .bvar 3, .bvar 4, .bvar 5] ∧
    ∃ p, notSegmentingGrid 2 3 [.bvar 0, .bvar 1, .bvar 2, .bvar 3, .bvar 4, .bvar 5] 6 false = .ok p := by
  refine ⟨?_, _, rfl⟩
  intro e he
  simp only [List.mem_cons, List.not_mem_nil, or_false] at he
  rcases he with rfl | rfl | rfl | rfl | rfl | rfl <;> exact ⟨rfl, by decide⟩

/-- A 1×3 board goes through the generic route, with either connectivity encoding. -/
example : (∃ p, notSegmentingGrid 1 3 [.bvar 0, .bvar 1, .bvar 2] 3 false = .ok p) ∧
    (∃ p, notSegmentingGrid 1 3 [.bvar 0, .bvar 1, .bvar 2] 3 true = .ok p) := ⟨⟨_, rfl⟩, ⟨_, rfl⟩⟩

def exA : List Expr := [.bvar 0, .bvar 1, .bvar 2, .bvar 3]
def exσ : Asg := ⟨fun id => id == 0, fun _ => 0⟩

theorem exA_args : BoolArgs 4 exA := by
  intro e he
  simp only [exA, List.mem_cons, List.not_mem_nil, or_false] at he
  rcases he with rfl | rfl | rfl | rfl <;> exact ⟨rfl, by decide⟩

theorem ex_truth (v : Nat) : truthAt exσ exA v = (v == 0) := by
  match v with
  | 0 | 1 | 2 | 3 => rfl
  | _ + 4 => rfl

/-- 2×2 board, only the top-left cell active: all hypotheses of `statement_grid_diag_sound` hold, a
certificate exists (rank = row index), hence the emitted program is realizable. -/
example : ∃ p, notSegmentingGrid 2 2 exA 4 false = .ok p ∧ Realizable 4 p exσ := by
  refine ⟨_, rfl, ?_⟩
  refine ((C08_grid_diag_sound 2 2 exA 4 _ exσ (by omega) (by omega) rfl exA_args rfl).1).2 ⟨?_, ⟨?_⟩⟩
  · intro e he
    simp only [ex_truth]
    revert e
    decide
  · refine { rank := fun y _ => y, rank_lo := by intros; omega, rank_hi := ?_,
             distinct := by intros; omega, loc := ?_ }
    · intro y x hy hx
      have : Int.fdiv (((2 * 2 : Nat) : Int) - 1) 2 = 1 := by decide
      rw [this]; omega
    · intro y x hy hx hact nb hmem hnd
      rw [ex_truth] at hact
      have hyx : y = 0 ∧ x = 0 := by
        have : y * 2 + x = 0 := by simpa using hact
        omega
      obtain ⟨rfl, rfl⟩ := hyx
      rw [List.filter_eq_nil_iff.2]
      · simp
      · intro p hp
        obtain ⟨h1, h2, h3, h4⟩ := (hmem p).1 hp
        rw [ex_truth]
        have : p.1 * 2 + p.2 = 3 := by omega
        simp [this]

/-- The planar lemma (a discrete Jordan-curve statement), proved in Proofs/C08Planar*.lean: forest ⇒ connected by
removing a leaf of the diagonal forest and re-routing white walks around it; connected ⇒ forest by a ray-casting parity
function that is constant on white components but separates the two sides of any cycle. -/
theorem C08_planar : statement_planar := Cspuz.Proofs.C08Planar.planar

/-- The FULL array-form statement: for every board shape the specialised grid encoding accepts exactly the patterns of
the explicit-graph definition on the grid graph. -/
theorem C08_grid : statement_grid := Cspuz.Proofs.C08Full.grid_full

end Cspuz.C08
