/-
  C11 for `solve_simpleloop` - the posted program encodes the published rules of Simple Loop
  (Spec/PuzzleRules/Simpleloop.lean, with the module's reading of the pivot cell) for every board size (1 × N and
  N × 1 included) and every layout of blocked cells.
  Together with `Cspuz.C11.C11_compose` this yields the property for this puzzle.
-/
import CspuzModel.Proofs.C11Simpleloop
import CspuzModel.Proofs.C11LoopEx
namespace Cspuz.C11.Simpleloop
open Cspuz Cspuz.Spec Cspuz.Puzzles.Simpleloop Cspuz.Spec.Simpleloop

/-- For every well-formed problem instance, the program `solve_simpleloop` posts (model: `program`,
auxiliary-variable route of the cycle constraint) encodes the rules: an answer list extends to a model of the whole
program iff it is the list of a set of cell-to-cell steps forming one loop (or nothing) that visits exactly the white
cells of the decided board; the answer keys are distinct declared variables; every constraint is a well-typed
Boolean tree. -/
def statement : Prop :=
  ∀ pb : Problem, WellFormed pb → ∀ P, program pb = .ok P →
    EncodesRules P (Rules pb) ∧ P.KeysOk ∧ (∀ c ∈ P.cs, wtB c = true)

theorem program_iff_rules : statement := Cspuz.Proofs.C11Simpleloop.main

/-- `solve_simpleloop` raises nothing on a well-formed instance. -/
theorem total : ∀ pb : Problem, WellFormed pb → ∃ P, program pb = .ok P := Cspuz.Proofs.C11Simpleloop.total

/-- READING (pivot): on an instance whose table already holds the derived colour of the pivot, the board that is
decided is the table itself. -/
theorem consistent_board : ∀ pb : Problem, Consistent pb → ∀ y x, y < pb.height → x < pb.width →
    white pb y x = tableWhite pb y x := Cspuz.Proofs.C11Simpleloop.white_of_consistent

/-! ### non-vacuity: a 2 × 3 board whose last cell is blocked, pivot in a corner -/

def exPb : Problem := { height := 2, width := 3, blocked := [[0, 0, 1], [0, 0, 1]], pivot := (0, 0) }

theorem exPb_wf : WellFormed exPb := by
  refine ⟨by decide, by decide, rfl, ?_, by decide, by decide, by decide, by decide⟩
  intro row hr
  simp only [exPb, List.mem_cons, List.not_mem_nil, or_false] at hr
  rcases hr with rfl | rfl <;> rfl

example : ∃ P, program exPb = .ok P ∧ P.keys = List.range 7 := ⟨_, Cspuz.Proofs.C11Simpleloop.program_eq exPb_wf, rfl⟩

example : Consistent exPb := by
  intro y _ x _ hp
  have : y = 0 ∧ x = 0 := by
    simp only [isPivot, exPb, beq_iff_eq, Prod.mk.injEq] at hp; omega
  obtain ⟨rfl, rfl⟩ := this
  decide

/-! ### non-vacuity of the rules: the 2 × 2 board without blocked cells is solved by the tour of its four cells, and
hence (by the theorem) the posted program has a model -/

def exPb2 : Problem := { height := 2, width := 2, blocked := [[0, 0], [0, 0]], pivot := (1, 1) }

theorem exPb2_wf : WellFormed exPb2 := by
  refine ⟨by decide, by decide, rfl, ?_, by decide, by decide, by decide, by decide⟩
  intro row hr
  simp only [exPb2, List.mem_cons, List.not_mem_nil, or_false] at hr
  rcases hr with rfl | rfl <;> rfl

open Cspuz.Spec.Loop in
theorem exPb2_rules : Rules exPb2 (segAnswer 1 1 fun _ => true) := by
  refine ⟨fun _ => true, rfl, Cspuz.Proofs.C11LoopEx.unitLoop, ?_⟩
  intro y hy x hx
  have hy' : y = 0 ∨ y = 1 := by simp only [exPb2] at hy; omega
  have hx' : x = 0 ∨ x = 1 := by simp only [exPb2] at hx; omega
  rcases hy' with rfl | rfl <;> rcases hx' with rfl | rfl <;> decide

open Cspuz.Spec.Loop in
example : ∃ P σ, program exPb2 = .ok P ∧ Sat P.decls P.cs σ ∧
    P.keyVals σ = (segAnswer 1 1 fun _ => true).map some := by
  obtain ⟨P, hP⟩ := total exPb2 exPb2_wf
  obtain ⟨σ, hσ, hk⟩ := ((program_iff_rules exPb2 exPb2_wf P hP).1 _).mpr exPb2_rules
  exact ⟨P, σ, hP, hσ, hk⟩

end Cspuz.C11.Simpleloop
