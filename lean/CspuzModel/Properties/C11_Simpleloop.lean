/-
  C11 for `solve_simpleloop` - the posted program encodes the published rules of Simple Loop
  (Spec/PuzzleRules/Simpleloop.lean, with the module's reading of the pivot cell) for every board size (1 × N and
  N × 1 included) and every layout of blocked cells.
  Together with `Cspuz.C11.C11_compose` this yields the property for this puzzle.
-/
import CspuzModel.Proofs.C11Simpleloop
namespace Cspuz.C11.Simpleloop
open Cspuz Cspuz.Spec Cspuz.Puzzles.Simpleloop Cspuz.Spec.Simpleloop

/-- For every well-formed problem instance, the program `solve_simpleloop` posts (model: `program`,
auxiliary-variable route of the cycle constraint) encodes the rules: an answer list extends to a model of the whole
program iff it is the list of a set of cell-to-cell steps forming one loop (or nothing) that visits exactly the white
cells of the decided board; the answer keys are distinct declared variables; every constraint is a well-typed
Boolean tree. -/
def statement : Prop :=
  ∀ pb : Problem, WellFormed pb → ∀ P, program pb = .ok P →
    EncodesRules P (Rules pb) ∧ P.KeysOk ∧ (∀ c ∈ P.cs, wtB c = true)

theorem program_iff_rules : statement := Cspuz.Proofs.C11Simpleloop.main

/-- `solve_simpleloop` raises nothing on a well-formed instance. -/
theorem total : ∀ pb : Problem, WellFormed pb → ∃ P, program pb = .ok P := Cspuz.Proofs.C11Simpleloop.total

/-- READING (pivot): on an instance whose table already holds the derived colour of the pivot, the board that is
decided is the table itself. -/
theorem consistent_board : ∀ pb : Problem, Consistent pb → ∀ y x, y < pb.height → x < pb.width →
    white pb y x = tableWhite pb y x := Cspuz.Proofs.C11Simpleloop.white_of_consistent

/-! ### non-vacuity: a 2 × 3 board whose last cell is blocked, pivot in a corner -/

def exPb : Problem := { height := 2, width := 3, blocked := [[0, 0, 1], [0, 0, 1]], pivot := (0, 0) }

theorem exPb_wf : WellFormed exPb := by
  refine ⟨by decide, by decide, rfl, ?_, by decide, by decide, by decide, by decide⟩
  intro row hr
  simp only [exPb, List.mem_cons, List.not_mem_nil, or_false] at hr
  rcases hr with rfl | rfl <;> rfl

example : ∃ P, program exPb = .ok P ∧ P.keys = List.range 7 := ⟨_, Cspuz.Proofs.C11Simpleloop.program_eq exPb_wf, rfl⟩

example : Consistent exPb := by
  intro y _ x _ hp
  have : y = 0 ∧ x = 0 := by
    simp only [isPivot, exPb, beq_iff_eq, Prod.mk.injEq] at hp; omega
  obtain ⟨rfl, rfl⟩ := this
  decide

end Cspuz.C11.Simpleloop
