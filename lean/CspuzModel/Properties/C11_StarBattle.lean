/-
  C11 / star_battle — `solve_star_battle` agrees with the published rules of Star Battle.
  Property theorems only; lemmas live in Proofs/C11StarBattle.lean (closed form of the posted program) and
  Proofs/C11StarBattleSem.lean (meaning) (shared: Proofs/C11CL.lean, Proofs/C11Grid.lean).
-/
import CspuzModel.Proofs.C11StarBattleSem
namespace Cspuz.C11.StarBattle
open Cspuz Cspuz.Spec Cspuz.Puzzles.StarBattle

/-- For every well-formed instance (any board size `n ≥ 0`, any integer `k`, an `n × n` table of region ids
in `range(n)` — regions need not be connected and ids may be unused), the program `solve_star_battle`
posts (model `Puzzles.StarBattle.program`, tied to the code by the program correspondence of `./check C11`)
encodes exactly the rules of Star Battle (`Rules`, Spec/PuzzleRules/StarBattle.lean): an answer list extends
to a model of the program iff it is the row-major listing of a grid in which every row, every column and
every region (non-empty id class) holds exactly `k` stars and no two stars share a side or a corner.
(For an id that no cell carries the program posts "`k` stars among no cells"; by double counting — rows
force `n·k` stars, regions `(#regions)·k` — this agrees with the rule on every instance.)  Moreover the
answer keys are distinct declared variables and every constraint is well typed — the hypotheses of
`Cspuz.C11.C11_compose`. -/
def statement : Prop :=
  ∀ pb : Problem, WellFormed pb → ∀ P, program pb = .ok P →
    EncodesRules P (Rules pb) ∧ P.KeysOk ∧ (∀ c ∈ P.cs, wtB c = true)

theorem program_iff_rules : statement := Cspuz.Proofs.C11StarBattleSem.main

/-- `solve_star_battle` posts a program (raises no exception) on every well-formed instance. -/
theorem total : ∀ pb : Problem, WellFormed pb → ∃ P, program pb = .ok P := Cspuz.Proofs.C11StarBattleSem.total

/-- Non-vacuity: a concrete 4 × 4 instance with four regions (one of them L-shaped) and `k = 1` is well
formed and the model posts a program for it. -/
example : WellFormed { n := 4, k := 1, blocks := [[0, 0, 1, 1], [0, 2, 2, 1], [3, 2, 2, 1], [3, 3, 3, 1]] } := by
  refine ⟨by decide, ?_, ?_⟩
  · intro row hrow
    simp only [List.mem_cons, List.mem_nil_iff, or_false] at hrow
    rcases hrow with rfl | rfl | rfl | rfl <;> rfl
  · intro y x hy hx
    have h : ∀ y x : Fin 4,
        0 ≤ region { n := 4, k := 1, blocks := [[0, 0, 1, 1], [0, 2, 2, 1], [3, 2, 2, 1], [3, 3, 3, 1]] } y x ∧
        region { n := 4, k := 1, blocks := [[0, 0, 1, 1], [0, 2, 2, 1], [3, 2, 2, 1], [3, 3, 3, 1]] } y x < 4 := by
      decide
    exact h ⟨y, hy⟩ ⟨x, hx⟩

example : (program { n := 4, k := 1, blocks := [[0, 0, 1, 1], [0, 2, 2, 1], [3, 2, 2, 1], [3, 3, 3, 1]] }).toOption.isSome
    = true := by decide +kernel

end Cspuz.C11.StarBattle
