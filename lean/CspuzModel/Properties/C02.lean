/-
  C02 — solve() reports exactly the facts common to all solutions.
-/
import CspuzModel.Proofs.C02
namespace Cspuz.C02
open Cspuz Cspuz.Spec

/-- Refute-and-re-solve route: for every correct backend, every well-typed program and every choice
of answer keys (none, some, all; Boolean and integer), `solve()` returns True exactly when the program
is satisfiable, never raises, and then each key's `sol` is `v` iff the variable takes `v` in every
model, and `None` iff two models disagree on it. -/
def statement : Prop :=
  ∀ (B : Backend), B.Correct → ∀ (st : SolverState), (∀ c ∈ st.cs, wtB c = true) →
    st.isKey.length = st.decls.length →
    ((solveRefine B st).2 = .verdict true ∨ (solveRefine B st).2 = .verdict false) ∧
    ((solveRefine B st).2 = .verdict true ↔ Satisfiable st.decls st.cs) ∧
    ((solveRefine B st).2 = .verdict true →
      ∀ i, i < st.decls.length → st.isKey.getD i false = true →
        (∀ v, (solveRefine B st).1.sol.getD i none = some v ↔ CommonValue st.decls st.cs i v) ∧
        ((solveRefine B st).1.sol.getD i none = none ↔ Undetermined st.decls st.cs i))

theorem C02_exact : statement := Cspuz.Proofs.C02.exact

/-- The loop stops by itself: at most `#keys + 1` refuting solves are made (the fuel of the model,
`#variables + 1`, is never exhausted: each satisfiable refuting clause demotes at least one key). -/
def statement_terminates : Prop :=
  ∀ (B : Backend), B.Correct → ∀ (decls : List VarDecl) (cs : List Expr) (answer : List (Option Val)),
    (∀ c ∈ cs, wtB c = true) → answer.length = decls.length →
    (∀ i a, answer.getD i none = some a → ∃ σ, Sat decls cs σ ∧ valOf decls σ i = some a) →
    ∀ fuel extra, (answer.filter Option.isSome).length < fuel →
      (∀ x ∈ extra, wtB x = true) →
      ∃ final, refineLoop B decls cs fuel extra answer = .ok final ∧
        ∀ fuel', fuel ≤ fuel' → refineLoop B decls cs fuel' extra answer = .ok final

theorem C02_terminates : statement_terminates := Cspuz.Proofs.C02.terminates

/-! ### non-vacuity -/

/-- `b = BoolVar(); x = IntVar(0, 1); ensure(b | (x > 5)); add_answer_key(b, x)`:
`b` is forced to True, `x` is free. -/
def exState : SolverState :=
  { decls := [.bool, .int 0 1], isKey := [true, true],
    cs := [.node .or [.bvar 0, .node .gt [.ivar 1, .litI 5]]], sol := [none, none] }

theorem exState_wt : ∀ c ∈ exState.cs, wtB c = true := by
  intro c hc
  simp only [exState, List.mem_cons, List.not_mem_nil, or_false] at hc
  subst hc; decide

theorem ex_respects (σ : Asg) (h : 0 ≤ σ.i 1 ∧ σ.i 1 ≤ 1) : σ.respects exState.decls := by
  intro id lo hi hd
  match id, hd with
  | 1, hd =>
    simp only [exState, List.getElem?_cons_succ, List.getElem?_cons_zero, Option.some.injEq,
      VarDecl.int.injEq] at hd
    obtain ⟨rfl, rfl⟩ := hd
    exact h
  | 0, hd => simp [exState] at hd
  | n + 2, hd => simp [exState] at hd

theorem ex_sat_iff (σ : Asg) : Sat exState.decls exState.cs σ ↔ σ.b 0 = true ∧ 0 ≤ σ.i 1 ∧ σ.i 1 ≤ 1 := by
  constructor
  · rintro ⟨hr, hc⟩
    have hb := hr 1 0 1 rfl
    have := hc _ (List.mem_singleton.2 rfl)
    simp [Cspuz.Proofs.eval_node, evalOp, allInts, allBools, cmpOp] at this
    refine ⟨?_, hb⟩
    rcases this with h | h
    · exact h
    · omega
  · rintro ⟨hb, hi⟩
    refine ⟨ex_respects σ hi, ?_⟩
    intro c hc
    simp only [exState, List.mem_cons, List.not_mem_nil, or_false] at hc
    subst hc
    simp [Cspuz.Proofs.eval_node, evalOp, allInts, allBools, cmpOp, hb]

theorem ex_common : CommonValue exState.decls exState.cs 0 (.b true) := by
  intro σ hσ
  have := ((ex_sat_iff σ).1 hσ).1
  simp [valOf, exState, this]

theorem ex_undetermined : Undetermined exState.decls exState.cs 1 := by
  refine ⟨⟨fun _ => true, fun _ => 0⟩, ⟨fun _ => true, fun _ => 1⟩, ?_, ?_, ?_⟩
  · exact (ex_sat_iff _).2 ⟨rfl, by decide, by decide⟩
  · exact (ex_sat_iff _).2 ⟨rfl, by decide, by decide⟩
  · simp [valOf, exState]

/-- Hence, for every correct backend, `solve()` returns True, `b.sol = True` and `x.sol = None`. -/
example (B : Backend) (hB : B.Correct) :
    (solveRefine B exState).2 = .verdict true ∧
    (solveRefine B exState).1.sol.getD 0 none = some (.b true) ∧
    (solveRefine B exState).1.sol.getD 1 none = none := by
  obtain ⟨_, h2, h3⟩ := C02_exact B hB exState exState_wt rfl
  have hv : (solveRefine B exState).2 = .verdict true :=
    h2.2 ⟨⟨fun _ => true, fun _ => 0⟩, (ex_sat_iff _).2 ⟨rfl, by decide, by decide⟩⟩
  exact ⟨hv, ((h3 hv 0 (by decide) rfl).1 _).2 ex_common, (h3 hv 1 (by decide) rfl).2.2 ex_undetermined⟩

/-- The termination statement applies to the first refuting round of that program. -/
example (B : Backend) (hB : B.Correct) :
    ∃ final, refineLoop B exState.decls exState.cs 3 [] [some (.b true), some (.i 0)] = .ok final := by
  obtain ⟨final, h, _⟩ := C02_terminates B hB exState.decls exState.cs [some (.b true), some (.i 0)]
    exState_wt rfl
    (by
      intro i a hi
      refine ⟨⟨fun _ => true, fun _ => 0⟩, (ex_sat_iff _).2 ⟨rfl, by decide, by decide⟩, ?_⟩
      match i, hi with
      | 0, hi => simpa [valOf, exState] using hi
      | 1, hi => simpa [valOf, exState] using hi
      | n + 2, hi => simp at hi)
    3 [] (by decide) (by simp)
  exact ⟨final, h⟩

end Cspuz.C02
