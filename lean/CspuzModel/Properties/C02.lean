/-
  C02 — solve() reports exactly the facts common to all solutions.
-/
import CspuzModel.Proofs.C02
namespace Cspuz.C02
open Cspuz Cspuz.Spec

/-- Refute-and-re-solve route: for every correct backend, every well-typed program and every choice
of answer keys (none, some, all; Boolean and integer), `solve()` returns True exactly when the program
is satisfiable, never raises, and then each key's `sol` is `v` iff the variable takes `v` in every
model, and `None` iff two models disagree on it. -/
def statement : Prop :=
  ∀ (B : Backend), B.Correct → ∀ (st : SolverState), (∀ c ∈ st.cs, wtB c = true) →
    st.isKey.length = st.decls.length →
    ((solveRefine B st).2 = .verdict true ∨ (solveRefine B st).2 = .verdict false) ∧
    ((solveRefine B st).2 = .verdict true ↔ Satisfiable st.decls st.cs) ∧
    ((solveRefine B st).2 = .verdict true →
      ∀ i, i < st.decls.length → st.isKey.getD i false = true →
        (∀ v, (solveRefine B st).1.sol.getD i none = some v ↔ CommonValue st.decls st.cs i v) ∧
        ((solveRefine B st).1.sol.getD i none = none ↔ Undetermined st.decls st.cs i))

theorem C02_exact : statement := Cspuz.Proofs.C02.exact

/-- The loop stops by itself: at most `#keys + 1` refuting solves are made (the fuel of the model,
`#variables + 1`, is never exhausted: each satisfiable refuting clause demotes at least one key). -/
def statement_terminates : Prop :=
  ∀ (B : Backend), B.Correct → ∀ (decls : List VarDecl) (cs : List Expr) (answer : List (Option Val)),
    (∀ c ∈ cs, wtB c = true) → answer.length = decls.length →
    (∀ i a, answer.getD i none = some a → ∃ σ, Sat decls cs σ ∧ valOf decls σ i = some a) →
    ∀ fuel extra, (answer.filter Option.isSome).length < fuel →
      (∀ x ∈ extra, wtB x = true) →
      ∃ final, refineLoop B decls cs fuel extra answer = .ok final ∧
        ∀ fuel', fuel ≤ fuel' → refineLoop B decls cs fuel' extra answer = .ok final

theorem C02_terminates : statement_terminates := Cspuz.Proofs.C02.terminates

end Cspuz.C02
