/-
  C11 for `solve_firefly` (Hotaru Beam) - the posted program encodes the published rules of the puzzle
  (Spec/PuzzleRules/Firefly.lean) for every board size (1 × N and N × 1 included) and every placement of fireflies
  (corners and edges, dots pointing off the board, "?" and numbered fireflies, numbers 0 and negative numbers
  included), provided the board holds at least one firefly (READING: without fireflies there is no puzzle; the module
  then also accepts one closed loop).
  Together with `Cspuz.C11.C11_compose` this yields the property for this puzzle.

  The string parsing of the problem table (`"^12"` -> direction, number) is done by the harness; the Lean model
  receives the parsed table (Model/Puzzles/Firefly.lean).
-/
import CspuzModel.Proofs.C11Firefly
namespace Cspuz.C11.Firefly
open Cspuz Cspuz.Spec Cspuz.Spec.FrameGeom Cspuz.Spec.Loop
open Cspuz.Puzzles.Firefly (Problem Clue Num program)
open Cspuz.Spec.Firefly

/-- For every well-formed problem instance, the program `solve_firefly` posts (model: `program`) encodes the rules:
an answer list (one flag per step between adjacent cells) extends to a model of the whole program - orientation of the
lines, the single ignored edge, ranks and remaining-turn counters included - iff from the dot of every firefly a line
runs through empty cells (each with exactly two drawn steps) to a firefly, not arriving on that firefly's dot side,
with the demanded number of turns; no empty cell has a dead end, a branch or a crossing; every drawn step belongs to
such a line; and all fireflies are linked through the lines.  The answer keys are distinct declared variables; every
constraint is a well-typed Boolean tree. -/
def statement : Prop :=
  ∀ pb : Problem, WellFormed pb → ∀ P, program pb = .ok P →
    EncodesRules P (Rules pb) ∧ P.KeysOk ∧ (∀ c ∈ P.cs, wtB c = true)

theorem program_iff_rules : statement := Cspuz.Proofs.C11Firefly.main

/-- `solve_firefly` raises nothing on a well-formed instance. -/
theorem total : ∀ pb : Problem, WellFormed pb → ∃ P, program pb = .ok P := Cspuz.Proofs.C11Firefly.total

/-! ### non-vacuity: a 2 × 2 board with one firefly in the corner whose line (3 turns) returns to it -/

def exPb : Problem :=
  { height := 2, width := 2,
    problem := [[.fly (some .right) (.num 3), .empty], [.empty, .empty]] }

theorem exPb_wf : WellFormed exPb := by
  refine ⟨by decide, by decide, rfl, ?_, ?_, ⟨0, by decide, 0, by decide, rfl⟩⟩
  · intro row hr
    simp only [exPb, List.mem_cons, List.not_mem_nil, or_false] at hr
    rcases hr with rfl | rfl <;> rfl
  · intro y hy x hx
    have hy' : y = 0 ∨ y = 1 := by simp only [exPb] at hy; omega
    have hx' : x = 0 ∨ x = 1 := by simp only [exPb] at hx; omega
    rcases hy' with rfl | rfl <;> rcases hx' with rfl | rfl
    · exact Or.inr (Or.inr ⟨.right, 3, rfl⟩)
    · exact Or.inl rfl
    · exact Or.inl rfl
    · exact Or.inl rfl

example : ∃ P, program exPb = .ok P ∧ P.keys.length = 4 := by
  obtain ⟨P, hP⟩ := total exPb exPb_wf
  refine ⟨P, hP, ?_⟩
  rw [Cspuz.Proofs.C11FireflyProg.program_eq exPb_wf (H := 1) (W := 1) rfl rfl] at hP
  cases hP
  rfl

/-- The line of the firefly: right, down, left, up. -/
theorem exPb_line : IsLine exPb (fun _ => true) (0, 0) .right [.down, .left, .up] := by
  refine ⟨by decide, ?_⟩
  refine ⟨rfl, by decide, by decide, by decide, ?_⟩
  refine ⟨rfl, by decide, by decide, by decide, ?_⟩
  refine ⟨rfl, by decide, by decide, by decide, ?_⟩
  exact ⟨.right, some 3, rfl, by decide⟩

theorem exPb_rules : Rules exPb (segAnswer 1 1 fun _ => true) := by
  refine ⟨fun _ => true, rfl, ?_, ?_, ?_, ?_⟩
  · intro y hy x hx _
    have hy' : y = 0 ∨ y = 1 := by simp only [exPb] at hy; omega
    have hx' : x = 0 ∨ x = 1 := by simp only [exPb] at hx; omega
    rcases hy' with rfl | rfl <;> rcases hx' with rfl | rfl <;> exact Or.inr (by decide)
  · intro y hy x hx d n hf
    have hy' : y = 0 ∨ y = 1 := by simp only [exPb] at hy; omega
    have hx' : x = 0 ∨ x = 1 := by simp only [exPb] at hx; omega
    rcases hy' with rfl | rfl <;> rcases hx' with rfl | rfl
    · have : (Dir.right, some (3 : Int)) = (d, n) := Option.some.inj hf
      cases this
      exact ⟨_, exPb_line, by intro k hk; cases hk; rfl⟩
    · cases hf
    · cases hf
    · cases hf
  · intro s hs _
    refine ⟨(0, 0), .right, some 3, _, rfl, exPb_line, ?_⟩
    cases s with
    | h y x =>
      have hy' : y = 0 ∨ y = 1 := by have := hs.1; simp only [exPb] at this; omega
      have hx' : x = 0 := by have := hs.2; simp only [exPb] at this; omega
      subst hx'
      rcases hy' with rfl | rfl <;> decide
    | v y x =>
      have hy' : y = 0 := by have := hs.1; simp only [exPb] at this; omega
      have hx' : x = 0 ∨ x = 1 := by have := hs.2; simp only [exPb] at this; omega
      subst hy'
      rcases hx' with rfl | rfl <;> decide
  · intro p q hp hq hp1 hp2 hq1 hq2
    have key : ∀ r : Pt, (firefly exPb r).isSome = true → r.1 < 2 → r.2 < 2 → r = (0, 0) := by
      rintro ⟨y, x⟩ hr hy hx
      have hy' : y = 0 ∨ y = 1 := by omega
      have hx' : x = 0 ∨ x = 1 := by omega
      rcases hy' with rfl | rfl <;> rcases hx' with rfl | rfl
      · rfl
      · cases hr
      · cases hr
      · cases hr
    rw [key p hp hp1 hp2, key q hq hq1 hq2]
    exact Linked.refl _

/-- … hence the posted program has a model whose answer is this drawing. -/
example : ∃ P σ, program exPb = .ok P ∧ Sat P.decls P.cs σ ∧
    P.keyVals σ = (segAnswer 1 1 fun _ => true).map some := by
  obtain ⟨P, hP⟩ := total exPb exPb_wf
  obtain ⟨σ, hσ, hk⟩ := ((program_iff_rules exPb exPb_wf P hP).1 _).mpr exPb_rules
  exact ⟨P, σ, hP, hσ, hk⟩

end Cspuz.C11.Firefly
