/-
  C11 / magnets — `solve_magnets` agrees with the published rules of Magnets.
  Property theorems only; lemmas live in Proofs/C11Magnets.lean (closed form of the posted program) and
  Proofs/C11MagnetsSem.lean (meaning) (shared: Proofs/C11CL.lean, Proofs/C11ArrOps.lean, Proofs/C11Grid.lean,
  Proofs/C11FragWT.lean).
-/
import CspuzModel.Proofs.C11MagnetsSem
namespace Cspuz.C11.Magnets
open Cspuz Cspuz.Spec Cspuz.Puzzles.Magnets

/-- For every well-formed instance (any board size `height, width ≥ 0`; truth tables `to_right`, `to_down` of the
board's dimensions whose plates stay inside the board and tile it — every cell lies in exactly one plate; one
clue pair `[n_plus, n_minus]` of arbitrary integers per row and per column, negative = no clue), the program
`solve_magnets` posts (model `Puzzles.Magnets.program`, tied to the code by the program correspondence of
`./check C11`) encodes exactly the rules of Magnets (`Rules`, Spec/PuzzleRules/Magnets.lean): an answer list
(the `plus` grid followed by the `minus` grid, both row-major) extends to a model of the program iff it is the
"is +" listing followed by the "is −" listing of a grid of cell states (blank / + / −) in which every plate is
blank or a magnet (one half +, the other −), no two equal poles share a side, and every given row / column clue
equals the number of + (resp. −) halves of that line.  Moreover the answer keys are distinct declared variables
and every constraint is well typed — the hypotheses of `Cspuz.C11.C11_compose`. -/
def statement : Prop :=
  ∀ pb : Problem, WellFormed pb → ∀ P, program pb = .ok P →
    EncodesRules P (Rules pb) ∧ P.KeysOk ∧ (∀ c ∈ P.cs, wtB c = true)

theorem program_iff_rules : statement := Cspuz.Proofs.C11MagnetsSem.main

/-- `solve_magnets` posts a program (raises no exception) on every well-formed instance. -/
theorem total : ∀ pb : Problem, WellFormed pb → ∃ P, program pb = .ok P := Cspuz.Proofs.C11MagnetsSem.total

/-- The same statement without the tiling requirement: the tables only need the board's dimensions and the
plates must stay inside the board (`Shaped`); plates may leave cells uncovered (or overlap).  READING: a cell
that lies in no plate carries no plate rule (it may be +, − or blank on its own) — this is what the module
does. -/
def statement_shaped : Prop :=
  ∀ pb : Problem, Shaped pb → ∀ P, program pb = .ok P →
    EncodesRules P (Rules pb) ∧ P.KeysOk ∧ (∀ c ∈ P.cs, wtB c = true)

theorem program_iff_rules_shaped : statement_shaped := Cspuz.Proofs.C11MagnetsSem.main_shaped

theorem total_shaped : ∀ pb : Problem, Shaped pb → ∃ P, program pb = .ok P :=
  Cspuz.Proofs.C11MagnetsSem.total_shaped

/-- Non-vacuity: a concrete 2 × 3 instance (one vertical plate, two horizontal plates; clues on two rows and
two columns, one of them zero) is well formed and the model posts a program for it. -/
def ex1 : Problem :=
  { height := 2, width := 3,
    toRight := [[false, true, false], [false, true, false]],
    toDown := [[true, false, false], [false, false, false]],
    condRow := [[1, -1], [-1, 1]],
    condCol := [[1, 1], [-1, -1], [0, -1]] }

example : WellFormed ex1 := by
  refine ⟨⟨by decide, ?_, by decide, ?_, by decide, ?_, by decide, ?_, ?_, ?_⟩, ?_⟩
  · intro row hrow
    simp only [ex1, List.mem_cons, List.mem_nil_iff, or_false] at hrow
    rcases hrow with rfl | rfl <;> rfl
  · intro row hrow
    simp only [ex1, List.mem_cons, List.mem_nil_iff, or_false] at hrow
    rcases hrow with rfl | rfl <;> rfl
  · intro r hr
    simp only [ex1, List.mem_cons, List.mem_nil_iff, or_false] at hr
    rcases hr with rfl | rfl <;> rfl
  · intro r hr
    simp only [ex1, List.mem_cons, List.mem_nil_iff, or_false] at hr
    rcases hr with rfl | rfl | rfl <;> rfl
  · intro y x hy hx
    have h : ∀ y : Fin 2, ∀ x : Fin 3, right ex1 y x = true → (x : Nat) + 1 < 3 := by decide
    exact h ⟨y, hy⟩ ⟨x, hx⟩
  · intro y x hy hx
    have h : ∀ y : Fin 2, ∀ x : Fin 3, down ex1 y x = true → (y : Nat) + 1 < 2 := by decide
    exact h ⟨y, hy⟩ ⟨x, hx⟩
  · intro y x hy hx
    have h : ∀ y : Fin 2, ∀ x : Fin 3, cover ex1 y x = 1 := by decide
    exact h ⟨y, hy⟩ ⟨x, hx⟩

example : (program ex1).toOption.isSome = true := by decide +kernel

/-- A solution of `ex1`: the vertical plate is a magnet (+ above −), the two horizontal plates are blank. -/
def sol1 (y x : Nat) : Pole := if y = 0 ∧ x = 0 then .plus else if y = 1 ∧ x = 0 then .minus else .blank

local instance (a b : Pole) : Decidable (PlateOk a b) := by unfold PlateOk; infer_instance
local instance (y x y' x' : Nat) : Decidable (Adjacent y x y' x') := by unfold Adjacent; infer_instance

/-- The rules are satisfiable on this instance, i.e. `Rules` is not the empty predicate there … -/
example : Rules ex1 (boolGrid 2 3 (fun y x => decide (sol1 y x = .plus)) ++
    boolGrid 2 3 (fun y x => decide (sol1 y x = .minus))) := by
  refine ⟨sol1, rfl, ?_, ?_, ?_, ?_, ?_, ?_, ?_⟩
  · intro y x hy hx
    have h : ∀ y : Fin 2, ∀ x : Fin 3, right ex1 y x = true → PlateOk (sol1 y x) (sol1 y (x + 1)) := by decide
    exact h ⟨y, hy⟩ ⟨x, hx⟩
  · intro y x hy hx
    have h : ∀ y : Fin 2, ∀ x : Fin 3, down ex1 y x = true → PlateOk (sol1 y x) (sol1 (y + 1) x) := by decide
    exact h ⟨y, hy⟩ ⟨x, hx⟩
  · intro y x y' x' hy hx hy' hx'
    have h : ∀ y : Fin 2, ∀ x : Fin 3, ∀ y' : Fin 2, ∀ x' : Fin 3,
        Adjacent y x y' x' → sol1 y x ≠ .blank → sol1 y x ≠ sol1 y' x' := by decide
    exact h ⟨y, hy⟩ ⟨x, hx⟩ ⟨y', hy'⟩ ⟨x', hx'⟩
  · intro y hy
    have h : ∀ y : Fin 2, 0 ≤ clue ex1.condRow y 0 →
        (((List.range 3).countP fun x => decide (sol1 y x = .plus) : Nat) : Int) = clue ex1.condRow y 0 := by decide
    exact h ⟨y, hy⟩
  · intro y hy
    have h : ∀ y : Fin 2, 0 ≤ clue ex1.condRow y 1 →
        (((List.range 3).countP fun x => decide (sol1 y x = .minus) : Nat) : Int) = clue ex1.condRow y 1 := by decide
    exact h ⟨y, hy⟩
  · intro x hx
    have h : ∀ x : Fin 3, 0 ≤ clue ex1.condCol x 0 →
        (((List.range 2).countP fun y => decide (sol1 y x = .plus) : Nat) : Int) = clue ex1.condCol x 0 := by decide
    exact h ⟨x, hx⟩
  · intro x hx
    have h : ∀ x : Fin 3, 0 ≤ clue ex1.condCol x 1 →
        (((List.range 2).countP fun y => decide (sol1 y x = .minus) : Nat) : Int) = clue ex1.condCol x 1 := by decide
    exact h ⟨x, hx⟩

/-- … and it is not the full predicate either: the all-blank grid violates the row clue "one +". -/
example : ¬ GridRules ex1 (fun _ _ => .blank) := by
  intro h
  have := h.2.2.2.1 0 (by decide) (by decide)
  revert this
  decide

end Cspuz.C11.Magnets
