/-
  C11 for `solve_yajilin` - the posted program encodes the published rules of Yajilin
  (Spec/PuzzleRules/Yajilin.lean) for every board size (1 × N and N × 1 included) and every clue layout (arrow clues
  in the first / last row and column, zero-valued clues and "??" clues included).
  Together with `Cspuz.C11.C11_compose` this yields the property for this puzzle.
-/
import CspuzModel.Proofs.C11Yajilin
import CspuzModel.Proofs.C11LoopEx
namespace Cspuz.C11.Yajilin
open Cspuz Cspuz.Spec Cspuz.Puzzles.Yajilin Cspuz.Spec.Yajilin

/-- For every well-formed problem instance, the program `solve_yajilin` posts (model: `program`, auxiliary-variable
route of the cycle constraint) encodes the rules: an answer list (segment flags, then shaded-cell flags) extends to a
model of the whole program iff the drawn steps form one loop (or nothing), no two shaded cells are adjacent, the
loop passes through exactly the empty cells that are not shaded, clue cells are neither shaded nor on the loop and
every arrow clue sees its number of shaded cells; the answer keys are distinct declared variables; every
constraint is a well-typed Boolean tree. -/
def statement : Prop :=
  ∀ pb : Problem, WellFormed pb → ∀ P, program pb = .ok P →
    EncodesRules P (Rules pb) ∧ P.KeysOk ∧ (∀ c ∈ P.cs, wtB c = true)

theorem program_iff_rules : statement := Cspuz.Proofs.C11Yajilin.main

/-- `solve_yajilin` raises nothing on a well-formed instance. -/
theorem total : ∀ pb : Problem, WellFormed pb → ∃ P, program pb = .ok P := Cspuz.Proofs.C11Yajilin.total

/-! ### non-vacuity: a 3 × 3 board with an arrow clue in a corner, a zero clue on the edge and a "??" clue -/

def exPb : Problem :=
  { height := 3, width := 3,
    problem := [[.arrow .right 1, .empty, .empty], [.empty, .empty, .arrow .up 0], [.unknown, .empty, .empty]] }

theorem exPb_wf : WellFormed exPb := by
  refine ⟨by decide, by decide, rfl, ?_⟩
  intro row hr
  simp only [exPb, List.mem_cons, List.not_mem_nil, or_false] at hr
  rcases hr with rfl | rfl | rfl <;> rfl

example : ∃ P, program exPb = .ok P ∧ P.keys.length = 12 + 9 := ⟨_, Cspuz.Proofs.C11Yajilin.program_eq exPb exPb_wf, rfl⟩

/-! ### non-vacuity of the rules: the empty 2 × 2 board is solved by the tour of its four cells with nothing shaded,
and hence the posted program has a model -/

def exPb2 : Problem := { height := 2, width := 2, problem := [[.empty, .empty], [.empty, .empty]] }

theorem exPb2_wf : WellFormed exPb2 := by
  refine ⟨by decide, by decide, rfl, ?_⟩
  intro row hr
  simp only [exPb2, List.mem_cons, List.not_mem_nil, or_false] at hr
  rcases hr with rfl | rfl <;> rfl

open Cspuz.Spec.Loop in
theorem exPb2_rules : Rules exPb2 (segAnswer 1 1 (fun _ => true) ++ boolGrid 2 2 fun _ _ => false) := by
  refine ⟨fun _ => true, fun _ _ => false, rfl, Cspuz.Proofs.C11LoopEx.unitLoop, ?_, ?_⟩
  · intro y _ x _ h; cases h
  · intro y hy x hx
    have hy' : y = 0 ∨ y = 1 := by simp only [exPb2] at hy; omega
    have hx' : x = 0 ∨ x = 1 := by simp only [exPb2] at hx; omega
    rcases hy' with rfl | rfl <;> rcases hx' with rfl | rfl <;>
      (show onLoop 1 1 (fun _ => true) _ = !false; decide)

open Cspuz.Spec.Loop in
example : ∃ P σ, program exPb2 = .ok P ∧ Sat P.decls P.cs σ ∧
    P.keyVals σ = (segAnswer 1 1 (fun _ => true) ++ boolGrid 2 2 fun _ _ => false).map some := by
  obtain ⟨P, hP⟩ := total exPb2 exPb2_wf
  obtain ⟨σ, hσ, hk⟩ := ((program_iff_rules exPb2 exPb2_wf P hP).1 _).mpr exPb2_rules
  exact ⟨P, σ, hP, hσ, hk⟩

end Cspuz.C11.Yajilin
