/-
  C11 for `solve_yajilin` - the posted program encodes the published rules of Yajilin
  (Spec/PuzzleRules/Yajilin.lean) for every board size (1 × N and N × 1 included) and every clue layout (arrow clues
  in the first / last row and column, zero-valued clues and "??" clues included).
  Together with `Cspuz.C11.C11_compose` this yields the property for this puzzle.
-/
import CspuzModel.Proofs.C11Yajilin
namespace Cspuz.C11.Yajilin
open Cspuz Cspuz.Spec Cspuz.Puzzles.Yajilin Cspuz.Spec.Yajilin

/-- For every well-formed problem instance, the program `solve_yajilin` posts (model: `program`, auxiliary-variable
route of the cycle constraint) encodes the rules: an answer list (segment flags, then shaded-cell flags) extends to a
model of the whole program iff the drawn steps form one loop (or nothing), no two shaded cells are adjacent, the
loop passes through exactly the empty cells that are not shaded, clue cells are neither shaded nor on the loop and
every arrow clue sees its number of shaded cells; the answer keys are distinct declared variables; every
constraint is a well-typed Boolean tree. -/
def statement : Prop :=
  ∀ pb : Problem, WellFormed pb → ∀ P, program pb = .ok P →
    EncodesRules P (Rules pb) ∧ P.KeysOk ∧ (∀ c ∈ P.cs, wtB c = true)

theorem program_iff_rules : statement := Cspuz.Proofs.C11Yajilin.main

/-- `solve_yajilin` raises nothing on a well-formed instance. -/
theorem total : ∀ pb : Problem, WellFormed pb → ∃ P, program pb = .ok P := Cspuz.Proofs.C11Yajilin.total

/-! ### non-vacuity: a 3 × 3 board with an arrow clue in a corner, a zero clue on the edge and a "??" clue -/

def exPb : Problem :=
  { height := 3, width := 3,
    problem := [[.arrow .right 1, .empty, .empty], [.empty, .empty, .arrow .up 0], [.unknown, .empty, .empty]] }

theorem exPb_wf : WellFormed exPb := by
  refine ⟨by decide, by decide, rfl, ?_⟩
  intro row hr
  simp only [exPb, List.mem_cons, List.not_mem_nil, or_false] at hr
  rcases hr with rfl | rfl | rfl <;> rfl

example : ∃ P, program exPb = .ok P ∧ P.keys.length = 12 + 9 := ⟨_, Cspuz.Proofs.C11Yajilin.program_eq exPb exPb_wf, rfl⟩

end Cspuz.C11.Yajilin
