/-
  C11 / norinori — `solve_norinori` agrees with the published rules of Norinori.
  Property theorems only; lemmas live in Proofs/C11Norinori.lean (shared: Proofs/C11CL.lean, Proofs/C11Grid.lean).
-/
import CspuzModel.Proofs.C11Norinori
namespace Cspuz.C11.Norinori
open Cspuz Cspuz.Spec Cspuz.Puzzles.Norinori

/-- For every well-formed instance (the regions partition the `height × width` board: all listed cells on
the board, no cell listed twice, every board cell listed), the program `solve_norinori` posts (model
`Puzzles.Norinori.program`, tied to the code by the program correspondence of `./check C11`) encodes exactly
the rules of Norinori (`Rules`, Spec/PuzzleRules/Norinori.lean): an answer list extends to a model of the
program iff it is the row-major listing of a Boolean grid in which every region contains exactly two shaded
cells and every shaded cell of the board has exactly one shaded orthogonally adjacent cell on the board.
Moreover the answer keys are distinct declared variables and every constraint is well typed — the hypotheses
of `Cspuz.C11.C11_compose`, which turns this into the statement about what `solve_norinori` reports. -/
def statement : Prop :=
  ∀ pb : Problem, WellFormed pb → ∀ P, program pb = .ok P →
    EncodesRules P (Rules pb) ∧ P.KeysOk ∧ (∀ c ∈ P.cs, wtB c = true)

theorem program_iff_rules : statement := Cspuz.Proofs.C11Norinori.main

/-- `solve_norinori` posts a program (raises no exception) on every well-formed instance. -/
theorem total : ∀ pb : Problem, WellFormed pb → ∃ P, program pb = .ok P := Cspuz.Proofs.C11Norinori.total

/-- The instance of the non-vacuity examples: a 2 × 3 board with an L-shaped region and a second region. -/
abbrev ex : Problem :=
  { height := 2, width := 3, blocks := [[(0, 0), (0, 1), (1, 0)], [(1, 1), (0, 2), (1, 2)]] }

/-- Non-vacuity: a concrete 2 × 3 instance with two regions (an L-shaped one and a 1 × 2 one) is well
formed and the model posts a program for it. -/
example : WellFormed ex := by
  refine ⟨by decide, by decide, ?_⟩
  intro y x hy hx
  have hy' : y = 0 ∨ y = 1 := by simp only at hy; omega
  have hx' : x = 0 ∨ x = 1 ∨ x = 2 := by simp only at hx; omega
  rcases hy' with rfl | rfl <;> rcases hx' with rfl | rfl | rfl <;> decide

example : (program ex).toOption.isSome = true := by decide +kernel

/-- Non-vacuity of the rules: the grid with the dominoes `(0,0)-(1,0)` and `(0,2)-(1,2)` obeys them on that
instance (so `Rules` is satisfiable there), while the all-blank grid does not. -/
example : GridRules ex (fun _ x => x != 1) := by
  refine ⟨by decide, ?_⟩
  intro y x hy hx hs
  have hy' : y = 0 ∨ y = 1 := by simp only at hy; omega
  have hx' : x = 0 ∨ x = 2 := by
    simp only at hx
    have : x ≠ 1 := by rintro rfl; simp at hs
    omega
  refine ⟨1 - y, x, ⟨?_, hx, ?_, hs⟩, ?_⟩
  · simp only; omega
  · simp only [Adjacent, dist]; omega
  · rintro y'' x'' ⟨h1, h2, h3, h4⟩
    simp only at h1 h2
    have : x'' ≠ 1 := by rintro rfl; simp at h4
    simp only [Adjacent, dist] at h3
    omega

example : ¬ GridRules ex (fun _ _ => false) := by
  rintro ⟨h, _⟩
  have := h [(0, 0), (0, 1), (1, 0)] (by simp)
  simp at this

end Cspuz.C11.Norinori
