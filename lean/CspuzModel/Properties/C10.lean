/-
  C10 — crossable loop/path constraint admits exactly single self-crossing trails.
-/
import CspuzModel.Proofs.C10
namespace Cspuz.C10
open Cspuz Cspuz.Spec

/-- FULL statement: for every frame size, both modes and both routes (auxiliary / native connectivity),
with the frame's own (fresh) edge variables: the emitted constraints are satisfiable for a given set
of active segments iff the degree rules hold and all active segments belong to one strand, and then
the two returned arrays are true exactly at the visited points and at the 4-way points. -/
def statement (prim : Bool) : Prop :=
  ∀ (H W base : Nat) (singleCycle : Bool) (p : Prog) (ps cr : List Expr) (σ : Asg),
    base = Frame.numVars H W →
    connectedCrossable (Frame.fresh 0 H W) singleCycle prim base = .ok (p, ps, cr) →
    let act := segActive (Frame.fresh 0 H W) σ
    (Realizable base p σ ↔ CrossableOK H W act singleCycle) ∧
    (∀ σ', AgreeBelow base σ σ' → SatFrag base p σ' →
      ∀ y x, y ≤ H → x ≤ W →
        σ'.b (base + y * (W + 1) + x) = decide (0 < pointDegree H W act y x) ∧
        σ'.b (base + (H + 1) * (W + 1) + y * (W + 1) + x) = decide (pointDegree H W act y x = 4)) ∧
    ps = (List.range ((H + 1) * (W + 1))).map (fun i => Expr.bvar (base + i)) ∧
    cr = (List.range ((H + 1) * (W + 1))).map (fun i => Expr.bvar (base + (H + 1) * (W + 1) + i))

theorem C10_exact_aux : statement false := Cspuz.Proofs.C10.exact_aux
theorem C10_exact_prim : statement true := Cspuz.Proofs.C10.exact_prim

/-- The statements above are not vacuous for any size: the generator succeeds on every fresh frame
(heights and widths 0 included), in both modes and on both routes. -/
def statement_total : Prop :=
  ∀ (H W : Nat) (singleCycle prim : Bool),
    ∃ r, connectedCrossable (Frame.fresh 0 H W) singleCycle prim (Frame.numVars H W) = .ok r

theorem C10_total : statement_total := Cspuz.Proofs.C10.total

/-! ### Non-vacuity: the 1 × 1 frame (segments h(0,0)=0, h(1,0)=1, v(0,0)=2, v(0,1)=3; `base = 4`) -/

/-- The generator succeeds on the 1 × 1 frame, on both routes and in both modes. -/
example : (∃ r, connectedCrossable (Frame.fresh 0 1 1) true false 4 = .ok r) ∧
    (∃ r, connectedCrossable (Frame.fresh 0 1 1) true true 4 = .ok r) ∧
    (∃ r, connectedCrossable (Frame.fresh 0 1 1) false false 4 = .ok r) ∧
    (∃ r, connectedCrossable (Frame.fresh 0 1 1) false true 4 = .ok r) :=
  ⟨⟨_, rfl⟩, ⟨_, rfl⟩, ⟨_, rfl⟩, ⟨_, rfl⟩⟩

/-- The unit square with all four segments active is a single closed strand. -/
theorem unitSquare_ok (act : LSeg → Bool) (hact : ∀ s : LSeg, s.valid 1 1 → act s = true) :
    CrossableOK 1 1 act true := Cspuz.Proofs.C10.unitSquare_ok act hact

/-- Hence (by `C10_exact_aux` / `C10_exact_prim`) the emitted constraints are satisfiable when all four
segment variables of the 1 × 1 frame are true, on both routes. -/
example : ∀ prim : Bool, ∃ p ps cr, connectedCrossable (Frame.fresh 0 1 1) true prim 4 = .ok (p, ps, cr) ∧
    Realizable 4 p { b := fun _ => true, i := fun _ => 0 } := by
  intro prim
  have hex : ∃ r, connectedCrossable (Frame.fresh 0 1 1) true prim 4 = .ok r := by
    cases prim <;> exact ⟨_, rfl⟩
  obtain ⟨⟨p, ps, cr⟩, hr⟩ := hex
  refine ⟨p, ps, cr, hr, ?_⟩
  have hst : statement prim := by
    cases prim
    · exact C10_exact_aux
    · exact C10_exact_prim
  refine ((hst 1 1 4 true p ps cr _ rfl hr).1).2 (unitSquare_ok _ ?_)
  intro s hs
  cases s with
  | h y x =>
    obtain ⟨h1, h2⟩ := hs
    have hx : x = 0 := by omega
    have hy : y = 0 ∨ y = 1 := by omega
    subst hx
    rcases hy with rfl | rfl <;> simp [segActive, truthAt, Frame.fresh, bvars, Cspuz.Proofs.eval_bvar]
  | v y x =>
    obtain ⟨h1, h2⟩ := hs
    have hy : y = 0 := by omega
    have hx : x = 0 ∨ x = 1 := by omega
    subst hy
    rcases hx with rfl | rfl <;> simp [segActive, truthAt, Frame.fresh, bvars, Cspuz.Proofs.eval_bvar]

end Cspuz.C10
